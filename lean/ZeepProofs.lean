import ZeepProofs.C13
