import ZeepProofs.C13
import ZeepProofs.C14
import ZeepProofs.C15
import ZeepProofs.C10
import ZeepProofs.C06
import ZeepProofs.C16
import ZeepProofs.C17
import ZeepProofs.C18
