import ZeepProofs.C13
import ZeepProofs.C15
