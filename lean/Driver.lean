import Driver.Main
