import Driver.XmlD
import ZeepModel.Soap.Reply
namespace Driver
open Lean Zeep Zeep.Soap

def parseVersion (j : Json) : R Version := do
  match ← str j with
  | "1.1" => pure .v11
  | "1.2" => pure .v12
  | v => throw s!"bad version {v}"

def soapTriage (j : Json) : R Json := do
  let v ← parseVersion (← fld j "version")
  let st ← nat (← fld j "status")
  let bj ← fld j "body"
  let b ← if bj.isNull then pure Body.empty
    else match bj.getStr? with
      | .ok _ => pure Body.unparsable
      | .error _ => do pure (Body.tree (← parseNode (← fld bj "tree")) (← optStr (fldD bj "dns" Json.null)))
  pure <| match triage v st b with
  | .returnNone => Json.mkObj [("kind", "returnNone")]
  | .transportError s => Json.mkObj [("kind", "transportError"), ("status", jNat s)]
  | .unknownFault => Json.mkObj [("kind", "unknownFault")]
  | .malformedFault => Json.mkObj [("kind", "malformedFault")]
  | .decode _ => Json.mkObj [("kind", "decode")]
  | .fault f => Json.mkObj [("kind", "fault"), ("message", jOptStr f.message), ("code", jOptStr f.code),
      ("actor", jOptStr f.actor), ("subcodes", jList Json.str f.subcodes),
      ("detail", match f.detail with | some d => jNode d | none => Json.null)]

end Driver
