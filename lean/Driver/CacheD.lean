import Driver.Util
import ZeepModel.Cache
namespace Driver
open Lean Zeep.Cache

def parseBackend (j : Json) : R Backend := do
  let s ← str j
  if s == "mem" then pure .memory
  else if s.startsWith "v:" then pure (.sqlite (s.drop 2).toString.toList)
  else throw s!"bad backend {s}"

def optNat (j : Json) : R (Option Nat) := if j.isNull then pure none else some <$> j.getNat?

def parseCacheOp (j : Json) : R Op := do
  let a ← arr j
  let kind ← str (← at! a 0)
  let b ← parseBackend (← at! a 1)
  let u ← nat (← at! a 2)
  match kind with
  | "add" => pure (.add b u (← listOf nat (← at! a 3)) (← nat (← at! a 4)))
  | "get" => pure (.get b u (← nat (← at! a 3)) (← optNat (← at! a 4)))
  | "load" => pure (.load b u (← listOf nat (← at! a 3)) (← nat (← at! a 4)) (← optNat (← at! a 5)))
  | k => throw s!"bad cache op {k}"

def jBytes (b : List Nat) : Json := jList jNat b

def outJson : Out → Json
  | .none => Json.null
  | .got none => Json.mkObj [("got", Json.null)]
  | .got (some b) => Json.mkObj [("got", jBytes b)]
  | .loaded c f => Json.mkObj [("loaded", jBytes c), ("fetched", Json.bool f)]

def cacheRun (j : Json) : R Json := do
  let ops ← listOf parseCacheOp (← fld j "ops")
  let (_, outs) := run [] ops
  pure <| Json.mkObj [("outs", jList outJson outs)]

end Driver
