import Driver.XmlD
import Driver.SoapD
import ZeepModel.Soap.Frame
namespace Driver
open Lean Zeep Zeep.Frame

def soapFrame (j : Json) : R Json := do
  let oj ← fld j "opdesc"
  let op : Op := {
    version := ← parseVersion (← fld oj "version"),
    style := if (← str (← fld oj "style")) == "rpc" then .rpc else .document,
    name := ← str (← fld oj "name"),
    rpcNamespace := ← optStr (fldD oj "rpc_namespace" Json.null),
    soapAction := ← optStr (fldD oj "soap_action" Json.null),
    address := ← str (← fld oj "address"),
    bodyParts := ← nat (← fld oj "body_parts") }
  let rendered ← listOf (listOf parseNode) (← fld j "rendered")
  let hj ← fld j "headers"
  let headers ← if hj.isNull then pure none else some <$> listOf parseNode hj
  let h := httpHeaders op
  pure <| Json.mkObj [("envelope", jNode (frame op rendered headers)), ("content_type", Json.str h.1),
    ("soap_action", Json.str h.2), ("address", Json.str (postedTo op))]

end Driver
