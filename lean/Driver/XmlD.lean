import Driver.Util
import ZeepModel.Xml
namespace Driver
open Lean Zeep

def parseQName (j : Json) : R QName := do
  let a ← arr j
  pure ⟨← optStr (← at! a 0), ← str (← at! a 1)⟩

partial def parseNode (j : Json) : R Node := do
  let t ← parseQName (← fld j "t")
  let attrs ← listOf (fun p => do
    let a ← arr p
    pure (← parseQName (← at! a 0), ← str (← at! a 1))) (fldD j "a" (Json.arr #[]))
  let x ← optStr (fldD j "x" Json.null)
  let kids ← listOf parseNode (fldD j "k" (Json.arr #[]))
  pure (.mk t attrs x kids)

def jQName (q : QName) : Json := Json.arr #[jOptStr q.ns, Json.str q.name]

partial def jNode : Node → Json
  | .mk t a x k => Json.mkObj [("t", jQName t),
      ("a", jList (fun p => Json.arr #[jQName p.1, Json.str p.2]) a),
      ("x", jOptStr x), ("k", jList jNode k)]

end Driver
