import Driver.Util
import ZeepModel.Settings
namespace Driver
open Lean Zeep.Settings

def parseEvent (j : Json) : R Event := do
  let a ← arr j
  let t ← nat (← at! a 0)
  let kind ← str (← at! a 1)
  match kind with
  | "push" => pure ⟨t, .push⟩
  | "set" => pure ⟨t, .setKey (← nat (← at! a 2)) (← int (← at! a 3))⟩
  | "restore" => pure ⟨t, .restoreKey⟩
  | "pop" => pure ⟨t, .pop⟩
  | "read" => pure ⟨t, .read (← nat (← at! a 2))⟩
  | "assign" => pure ⟨t, .assign (← nat (← at! a 2)) (← int (← at! a 3))⟩
  | k => throw s!"bad event {k}"

def settingsRun (j : Json) : R Json := do
  let base ← listOf int (← fld j "base")
  let evs ← listOf parseEvent (← fld j "events")
  let b : Opt → Val := fun k => base.getD k 0
  let (_, outs) := mrun (MState.init b) evs
  pure <| Json.mkObj [("reads", jList jInt (outs.filterMap id))]

/-- events addressed to several Settings objects: `[obj, thread, kind, ...]` -/
def settingsWorld (j : Json) : R Json := do
  let bases ← listOf (listOf int) (← fld j "bases")
  let evs ← listOf (fun e => do
      let a ← arr e
      let o ← nat (← at! a 0)
      let ev ← parseEvent (Json.arr (a.extract 1 a.size))
      pure ((o, ev) : OEvent)) (← fld j "events")
  let w : World := fun o => MState.init (fun k => (bases.getD o []).getD k 0)
  let (_, outs) := wrun w evs
  pure <| Json.mkObj [("reads", jList jInt (outs.filterMap (·.2)))]

def parseTOp (j : Json) : R TOp := do
  let a ← arr j
  let kind ← str (← at! a 0)
  match kind with
  | "enter" => pure (.enter (← optInt (← at! a 1)))
  | "exit" => pure .exit
  | "read" => pure .readT
  | "assign" => pure (.assignT (← optInt (← at! a 1)))
  | k => throw s!"bad top {k}"

def transportRun (j : Json) : R Json := do
  let cell ← optInt (← fld j "cell")
  let ops ← listOf parseTOp (← fld j "ops")
  let (_, outs) := trun ⟨cell, []⟩ ops
  pure <| Json.mkObj [("reads", jList jOptInt (outs.filterMap id))]

end Driver
