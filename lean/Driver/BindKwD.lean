import Driver.XsdD
import ZeepModel.Xsd.BindKw
namespace Driver
open Lean Zeep.BindKw

/-! `bind.kw`: the keyword pass of `_process_signature` on a sequence of elements and non-repeating choices
(`ZeepModel/Xsd/BindKw.lean`); values are null (None), "empty" (an empty collection) or {"leaf": text}. -/

def parseKwVal (j : Json) : R Val := do
  match j with
  | Json.null => pure .none
  | Json.str "empty" => pure .empty
  | _ => pure (.leaf (← str (← fld j "leaf")))

def parseKwItem (j : Json) : R Item := do
  match (← str (← fld j "k")) with
  | "elem" => pure (.elem (← str (← fld j "name")))
  | "choice" => pure (.choice (← listOf str (← fld j "branches")))
  | k => throw s!"bad kw item {k}"

def jKwVal : Val → Json
  | .none => Json.null
  | .empty => Json.str "empty"
  | .leaf t => Json.mkObj [("leaf", Json.str t)]

def bindKw (j : Json) : R Json := do
  let items ← listOf parseKwItem (← fld j "items")
  let attrs ← listOf str (← fld j "attrs")
  let kw ← listOf (fun kv => do
    let a ← arr kv
    pure ((← str (← at! a 0)), (← parseKwVal (← at! a 1)))) (← fld j "kw")
  pure <| match processKw items attrs kw with
  | .ok res => Json.mkObj [("fields", Json.arr (res.map fun kv => Json.arr #[Json.str kv.1, jKwVal kv.2]).toArray)]
  | .error (.unexpectedKeyword k) => Json.mkObj [("error", Json.str "TypeError"), ("key", Json.str k)]

end Driver
