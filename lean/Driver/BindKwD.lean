import Driver.XsdD
import ZeepModel.Xsd.BindKw
import ZeepModel.Xsd.BindKwRecord
namespace Driver
open Lean Zeep.BindKw

/-! `bind.kw`: the keyword pass of `_process_signature` on a sequence of elements and non-repeating choices whose branches are
elements or sequences of elements (`ZeepModel/Xsd/BindKw.lean`); values are null (None), "empty" (an empty collection) or
{"leaf": text}.  With `render` (the branches of one choice with the optional flag of every member, and whether the choice
itself is optional) the reply also carries what `Choice.render` emits for that choice from the bound fields. -/

def parseKwVal (j : Json) : R Val := do
  match j with
  | Json.null => pure .none
  | Json.str "empty" => pure .empty
  | _ => pure (.leaf (← str (← fld j "leaf")))

def parseKwItem (j : Json) : R Item := do
  match (← str (← fld j "k")) with
  | "elem" => pure (.elem (← str (← fld j "name")))
  | "choice" => pure (.choice (← listOf (listOf str) (← fld j "branches")))
  | k => throw s!"bad kw item {k}"

def jKwVal : Val → Json
  | .none => Json.null
  | .empty => Json.str "empty"
  | .leaf t => Json.mkObj [("leaf", Json.str t)]

def bindKw (j : Json) : R Json := do
  let items ← listOf parseKwItem (← fld j "items")
  let attrs ← listOf str (← fld j "attrs")
  let kw ← listOf (fun kv => do
    let a ← arr kv
    pure ((← str (← at! a 0)), (← parseKwVal (← at! a 1)))) (← fld j "kw")
  let jPairs := fun (l : List (String × Val)) => Json.arr (l.map fun kv => Json.arr #[Json.str kv.1, jKwVal kv.2]).toArray
  let rend ← match j.getObjVal? "render" with
    | .ok r => do
      let bs ← listOf (listOf fun m => do pure (⟨← str (← fld m "name"), ← bool (← fld m "optional")⟩ : Member)) (← fld r "branches")
      pure (some (bs, ← bool (← fld r "optional")))
    | .error _ => pure none
  pure <| match processKw items attrs kw with
  | .ok res =>
    let base := [("fields", jPairs res)]
    match rend with
    | none => Json.mkObj base
    | some (bs, opt) =>
      match renderChoice res bs opt with
      | .ok out => Json.mkObj (base ++ [("rendered", jPairs out)])
      | .error _ => Json.mkObj (base ++ [("rendered", Json.str "ValidationError")])
  | .error (.unexpectedKeyword k) => Json.mkObj [("error", Json.str "TypeError"), ("key", Json.str k)]

/-! `bind.kwrecord`: a keyword call on a signature of required elements and required choices between elements, bound
(`processKw`) and rendered (`renderRecord`): the children written, as [name, text] pairs, or the class of the error. -/
def bindKwRecord (j : Json) : R Json := do
  let items ← listOf parseKwItem (← fld j "items")
  let kw ← listOf (fun kv => do
    let a ← arr kv
    pure ((← str (← at! a 0)), (← parseKwVal (← at! a 1)))) (← fld j "kw")
  pure <| match processKw items [] kw with
  | .error _ => Json.mkObj [("error", Json.str "TypeError")]
  | .ok fields =>
    match renderRecord fields items with
    | .error _ => Json.mkObj [("error", Json.str "ValidationError")]
    | .ok nodes => Json.mkObj [("children", Json.arr (nodes.map fun n =>
        Json.arr #[Json.str n.tag.name, Json.str (n.text.getD "")]).toArray)]

end Driver
