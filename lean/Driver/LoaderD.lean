import Driver.Util
import ZeepModel.Loader
namespace Driver
open Lean Zeep.Loader

def loaderPolicy (j : Json) : R Json := do
  let s ← listOf bool (← fld j "settings")     -- forbid_dtd, forbid_entities, forbid_external, strict, huge
  let d ← listOf bool (← fld j "doc")          -- wellFormed, hasDoctype, declaresEntities
  let p : Policy := ⟨s.getD 0 false, s.getD 1 true, s.getD 2 true, s.getD 3 true, s.getD 4 false⟩
  let di : DocInfo := ⟨d.getD 0 true, d.getD 1 false, d.getD 2 false⟩
  let o := match policy p di with
    | .syntaxError => "XMLSyntaxError"
    | .dtdForbidden => "DTDForbidden"
    | .entitiesForbidden => "EntitiesForbidden"
    | .accepted => "accepted"
  pure (Json.str o)

end Driver
