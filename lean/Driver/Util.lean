import Lean.Data.Json
/-! JSON helpers for the line-protocol driver. -/
namespace Driver
open Lean

abbrev R := Except String

def fld (j : Json) (k : String) : R Json := j.getObjVal? k
def fldD (j : Json) (k : String) (d : Json) : Json := (j.getObjVal? k).toOption.getD d
def str (j : Json) : R String := j.getStr?
def nat (j : Json) : R Nat := j.getNat?
def int (j : Json) : R Int := j.getInt?
def arr (j : Json) : R (Array Json) := j.getArr?
def bool (j : Json) : R Bool := j.getBool?
def optInt (j : Json) : R (Option Int) := if j.isNull then pure none else some <$> j.getInt?
def optStr (j : Json) : R (Option String) := if j.isNull then pure none else some <$> j.getStr?
def listOf {α} (f : Json → R α) (j : Json) : R (List α) := do
  let a ← arr j
  a.toList.mapM f
def jOptInt : Option Int → Json
  | none => Json.null
  | some i => Json.num (JsonNumber.fromInt i)
def jInt (i : Int) : Json := Json.num (JsonNumber.fromInt i)
def jNat (i : Nat) : Json := Json.num (JsonNumber.fromNat i)
def jOptStr : Option String → Json
  | none => Json.null
  | some s => Json.str s
def jList {α} (f : α → Json) (l : List α) : Json := Json.arr (l.map f).toArray
def at! (a : Array Json) (i : Nat) : R Json :=
  match a[i]? with
  | some x => pure x
  | none => throw s!"index {i} out of range"

end Driver
