import Driver.XmlD
import ZeepModel.Xsd.Parse
import ZeepModel.Xsd.Serialize
namespace Driver
open Lean Zeep Zeep.Xsd

def parseOcc (j : Json) : R Occ := if j.isNull then pure .unbounded else .bounded <$> nat j

def parseAttrDecls (j : Json) : R (List AttrDecl) :=
  listOf (fun a => do pure (⟨← parseQName (← fld a "q"), (fldD a "required" (Json.bool false)).getBool?.toOption.getD false⟩ : AttrDecl)) j

mutual
partial def parseParticle (j : Json) : R Particle := do
  let k ← str (← fld j "k")
  match k with
  | "elem" => pure (.elem (← parseQName (← fld j "q")) (← nat (← fld j "min")) (← parseOcc (← fld j "max")) (← parseTy (← fld j "ty")))
  | "any" => pure (.any (← nat (← fld j "min")) (← parseOcc (← fld j "max")))
  | "seq" => pure (.seq (← listOf parseParticle (← fld j "ps")) (← nat (← fld j "min")) (← parseOcc (← fld j "max")))
  | "choice" => pure (.choice (← listOf parseParticle (← fld j "ps")) (← nat (← fld j "min")) (← parseOcc (← fld j "max")))
  | "all" => pure (.all (← listOf parseParticle (← fld j "ps")) ((fldD j "consume_other" (Json.bool false)).getBool?.toOption.getD false))
  | "group" => pure (.group (← parseParticle (← fld j "p")) (← nat (← fld j "min")) (← parseOcc (← fld j "max")))
  | k => throw s!"bad particle kind {k}"
partial def parseTy (j : Json) : R Ty := do
  let k ← str (← fld j "k")
  match k with
  | "simple" => pure .simple
  | "any" => pure .anyType
  | "cut" => pure (.complex none [] true)
  | "simpleContent" => pure (.simpleContent (← parseAttrDecls (← fld j "attrs")))
  | "complex" => do
    let cj := fldD j "content" Json.null
    let c ← if cj.isNull then pure none else some <$> parseParticle cj
    pure (.complex c (← parseAttrDecls (← fld j "attrs")) ((fldD j "has_fields" (Json.bool true)).getBool?.toOption.getD true))
  | k => throw s!"bad type kind {k}"
end

def jAttrs (a : List (QName × String)) : Json := jList (fun p => Json.arr #[jQName p.1, Json.str p.2]) a

mutual
partial def jInst : Inst → Json
  | .elems items => Json.mkObj [("elems", jList jItem items)]
  | .wild ns => Json.mkObj [("wild", jList jNode ns)]
  | .seqR rounds => Json.mkObj [("seq", jList (jList jInst) rounds)]
  | .choiceR rounds => Json.mkObj [("choice", jList (fun p => Json.arr #[jNat p.1, jInst p.2]) rounds)]
  | .allR ms other => Json.mkObj [("all", jList jInst ms), ("other", jList jNode other)]
  | .groupR rounds => Json.mkObj [("group", jList jInst rounds)]
  | .failed => Json.mkObj [("failed", Json.bool true)]
partial def jItem : Item → Json
  | .leaf t => Json.mkObj [("leaf", jOptStr t)]
  | .none_ leaked => Json.mkObj [("none", jList jNode leaked)]
  | .complex attrs content raw => Json.mkObj [("attrs", jAttrs attrs),
      ("content", match content with | some i => jInst i | none => Json.null), ("raw", jList jNode raw)]
  | .simpleContent t attrs leaked => Json.mkObj [("sc", jOptStr t), ("attrs", jAttrs attrs), ("leaked", jList jNode leaked)]
  | .anyNode n => Json.mkObj [("any", jNode n)]
end

def errName : Err → String
  | .unexpected => "UnexpectedElementError"
  | .xmlParse => "XMLParseError"
  | .typeError => "TypeError"
  | .outOfGas => "outOfGas"

def xsdParse (j : Json) : R Json := do
  let m := if (← str (← fld j "mode")) == "lax" then Mode.lax else Mode.strict
  let ty ← parseTy (← fld j "ty")
  let node ← parseNode (← fld j "node")
  let gas := (fldD j "gas" (Json.num 1000000)).getNat?.toOption.getD 1000000
  pure <| match parseRoot gas m ty node with
  | .ok r => Json.mkObj [("item", jItem r.val), ("calls", jNat r.calls)]
  | .error e => Json.mkObj [("error", Json.str (errName e))]


/-- decode, then write the reference serialisation of the decoded instance -/
def xsdSerialize (j : Json) : R Json := do
  let m := if (← str (← fld j "mode")) == "lax" then Mode.lax else Mode.strict
  let ty ← parseTy (← fld j "ty")
  let node ← parseNode (← fld j "node")
  pure <| match parseRoot 1000000 m ty node with
  | .ok r =>
    let out := serItem node.tag ty r.val
    -- decoding the reference serialisation again gives the same serialisation (idempotence)
    let again := match parseRoot 1000000 m ty out with
      | .ok r2 => some (serItem node.tag ty r2.val)
      | .error _ => none
    Json.mkObj [("node", jNode out), ("again", match again with | some n => jNode n | none => Json.null)]
  | .error e => Json.mkObj [("error", Json.str (errName e))]

end Driver
