import Driver.Util
import ZeepModel.Soap.Headers
namespace Driver
open Lean Zeep.Isolation

def parseItem (j : Json) : R Item := do
  let a ← arr j
  pure ⟨.caller, ← nat (← at! a 0), ← str (← at! a 1)⟩

def parseHV (j : Json) : R HV := do
  if j.isNull then pure .none else
  match j.getObjVal? "list" with
  | .ok l => pure (.list .caller (← listOf parseItem l))
  | .error _ =>
    pure (.dict .caller (← listOf (fun p => do let a ← arr p; pure (← str (← at! a 0), ← parseItem (← at! a 1))) (← fld j "dict")))

def isolationRun (j : Json) : R Json := do
  let c : Client := ⟨← parseHV (← fld j "default_headers"), [], []⟩
  let calls ← listOf (fun k => do
    pure (⟨← str (← fld k "op"), ← str (← fld k "args"), ← parseHV (← fld k "headers")⟩ : Call)) (← fld j "calls")
  let (outs, _) := runCalls c calls
  pure <| jList (fun (o : Outcome) => match o.message with
    | some (b, hs) => Json.mkObj [("body", Json.str b), ("headers", jList Json.str hs),
        ("caller_writes", jNat (o.writes.filter (fun w => w.target == .caller)).length)]
    | none => Json.mkObj [("error", Json.bool true)]) outs

end Driver
