import Driver.SettingsD
import Driver.CacheD
import Driver.UrlD
import Driver.LoaderD
import Driver.SoapD
import Driver.PipelineD
import Driver.WsaD
import Driver.WsseD
import Driver.LexD
import Driver.UnwrapD
import Driver.FrameD
import Driver.MultiRefD
import Driver.IsolationD
import Driver.WsdlD
import Driver.XsdD
import Driver.BindD
import Driver.BindKwD
/-! Line-protocol driver: one JSON object per stdin line, one per stdout line. -/
open Lean Driver

def dispatch (j : Json) : R Json := do
  let op ← str (← fld j "op")
  match op with
  | "settings.run" => settingsRun j
  | "settings.world" => settingsWorld j
  | "transport.run" => transportRun j
  | "cache.run" => cacheRun j
  | "url.http_to_https" => urlHttpToHttps j
  | "url.normalize" => urlNormalize j
  | "url.port" => urlPort j
  | "loader.policy" => loaderPolicy j
  | "soap.triage" => soapTriage j
  | "pipeline.run" => pipelineRun j
  | "wsa.request" => wsaRequest j
  | "wsse.apply" => wsseApply j
  | "sha1" => sha1Hex j
  | "lex.enc" => lexEnc j
  | "lex.dec" => lexDec j
  | "soap.unwrap" => soapUnwrap j
  | "soap.frame" => soapFrame j
  | "multiref" => multirefRun j
  | "xop" => xopRun j
  | "attachment" => attachmentRun j
  | "isolation.run" => isolationRun j
  | "wsdl.exposed" => wsdlExposed j
  | "xsd.parse" => xsdParse j
  | "xsd.serialize" => xsdSerialize j
  | "bind.call" => bindCall j
  | "bind.denote" => bindDenote j
  | "bind.kw" => bindKw j
  | "bind.kwrecord" => bindKwRecord j
  | _ => throw s!"unknown op {op}"

def handleLine (line : String) : String :=
  match Json.parse line with
  | .error e => (Json.mkObj [("err", Json.str s!"json: {e}")]).compress
  | .ok j =>
    match dispatch j with
    | .ok r => (Json.mkObj [("ok", r)]).compress
    | .error e => (Json.mkObj [("err", Json.str e)]).compress

partial def loop (h : IO.FS.Stream) (out : IO.FS.Stream) : IO Unit := do
  let line ← h.getLine
  if line.isEmpty then return ()
  let l := line.trimAscii.toString
  if l.isEmpty then loop h out else
  out.putStrLn (handleLine l)
  loop h out

def main : IO Unit := do
  let out ← IO.getStdout
  loop (← IO.getStdin) out
  out.flush
