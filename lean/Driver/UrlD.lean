import Driver.Util
import ZeepModel.Url
namespace Driver
open Lean Zeep.Url

def parseUrl6 (j : Json) : R Url6 := do
  let a ← arr j
  let g (i : Nat) : R Str := do pure (← str (← at! a i)).toList
  pure ⟨← g 0, ← g 1, ← g 2, ← g 3, ← g 4, ← g 5⟩

def jUrl6 (u : Url6) : Json :=
  Json.arr #[Json.str (String.ofList u.scheme), Json.str (String.ofList u.netloc), Json.str (String.ofList u.path),
    Json.str (String.ofList u.params), Json.str (String.ofList u.query), Json.str (String.ofList u.fragment)]

def urlHttpToHttps (j : Json) : R Json := do
  pure (jUrl6 (httpToHttps (← parseUrl6 (← fld j "url"))))

def urlNormalize (j : Json) : R Json := do
  let force ← bool (← fld j "force")
  let bj ← fld j "base"
  let base ← if bj.isNull then pure none else some <$> parseUrl6 bj
  pure (jUrl6 (normalize force base (← parseUrl6 (← fld j "url"))))

def urlPort (j : Json) : R Json := do
  let force ← bool (← fld j "force")
  let ws ← optStr (← fld j "wsdl_scheme")
  pure (jUrl6 (portAddress force (ws.map String.toList) (← parseUrl6 (← fld j "addr"))))

end Driver
