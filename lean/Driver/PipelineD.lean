import Driver.Util
import ZeepModel.Soap.Pipeline
namespace Driver
open Lean Zeep.Pipeline

def parsePairs (j : Json) : R (List (String × String)) :=
  listOf (fun p => do let a ← arr p; pure (← str (← at! a 0), ← str (← at! a 1))) j

def parseMsg (j : Json) : R Msg := do
  pure ⟨← listOf str (← fld j "marks"), ← parsePairs (← fld j "headers")⟩

def jMsg (m : Msg) : Json :=
  Json.mkObj [("marks", jList Json.str m.marks),
    ("headers", jList (fun p => Json.arr #[Json.str p.1, Json.str p.2]) m.headers)]

def parsePlugin (j : Json) : R PluginSpec := do
  let name ← str (← fld j "name")
  let kind ← str (← fld j "kind")
  match kind with
  | "trace" => pure ⟨name, .trace⟩
  | "mark" => pure ⟨name, .mark⟩
  | "none" => pure ⟨name, .returnsNone⟩
  | "header" => pure ⟨name, .header (← str (← fld j "k")) (← str (← fld j "v"))⟩
  | "history" => pure ⟨name, .history (← nat (← fld j "maxlen"))⟩
  | k => throw s!"bad plugin kind {k}"

def parseKind (s : String) : R ReplyKind :=
  match s with
  | "ok" => pure .ok
  | "fault" => pure .fault
  | "transport-raises" => pure .transportRaises
  | "empty-202" => pure .emptyAccepted
  | k => throw s!"bad reply kind {k}"

def jTrace (tr : List (String × Msg)) : Json :=
  jList (fun p => Json.arr #[Json.str p.1, jMsg p.2]) tr

def pipelineRun (j : Json) : R Json := do
  let plugins ← listOf parsePlugin (← fld j "plugins")
  let wsse ← listOf str (← fld j "wsse")
  let bad ← optStr (fldD j "bad_verifier" Json.null)
  let extra ← parsePairs (← fld j "extra")
  let wsa ← bool (fldD j "wsa" (Json.bool false))
  let calls ← listOf (fun c => do
    pure (← parseMsg (← fld c "request"), ← parseKind (← str (← fld c "kind")), ← parseMsg (← fld c "reply"))) (← fld j "calls")
  let rs := calls.map fun (req, k, rep) => runCall plugins wsse bad extra wsa req k rep
  let hist := plugins.filterMap fun p =>
    match p.kind with
    | .history n =>
      let buf := histRun n [] (exchangesOf p.name rs)
      some (Json.mkObj [("name", Json.str p.name),
        ("buffer", jList (fun (e : Entry Msg) => Json.mkObj [("sent", jMsg e.sent),
          ("received", match e.received with | some r => jMsg r | none => Json.null)]) buf)])
    | _ => none
  pure <| Json.mkObj [
    ("calls", jList (fun (r : CallResult) => Json.mkObj [("egress", jTrace r.egressTrace), ("wire", jMsg r.wire),
      ("ingress", jTrace r.ingressTrace),
      ("decoded", match r.decoded with | some d => jMsg d | none => Json.null)]) rs),
    ("history", Json.arr hist.toArray)]

end Driver
