import Driver.XmlD
import ZeepModel.MultiRef
namespace Driver
open Lean Zeep Zeep.MultiRef

def multirefRun (j : Json) : R Json := do
  let body ← parseNode (← fld j "body")
  pure (jNode (processMultiref (size body + 5) body))

def xopRun (j : Json) : R Json := do
  let doc ← parseNode (← fld j "doc")
  let parts ← listOf (fun p => do let a ← arr p; pure (← str (← at! a 0), ← listOf nat (← at! a 1))) (← fld j "parts")
  pure (match procXop parts (size doc + 5) doc with | some n => jNode n | none => Json.null)

def attachmentRun (j : Json) : R Json := do
  let te := match (← optStr (← fld j "te")) with
    | some "base64" => TE.base64
    | some "binary" => TE.binary
    | _ => TE.other
  pure (match attachmentContent te (← listOf nat (← fld j "raw")) with | some b => jList jNat b | none => Json.null)

end Driver
