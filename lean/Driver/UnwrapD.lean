import Driver.Util
import ZeepModel.Soap.Unwrap
namespace Driver
open Lean Zeep.Unwrap

partial def parseV (j : Json) : R V := do
  if j.isNull then pure .none else
  match j.getObjVal? "p" with
  | .ok t => pure (.prim (← str t))
  | .error _ =>
    match j.getObjVal? "l" with
    | .ok l => pure (.list (← listOf parseV l))
    | .error _ => do
      let a ← arr (← fld j "o")
      let fs ← listOf (fun p => do let x ← arr p; pure (← str (← at! x 0), ← parseV (← at! x 1))) (← at! a 2)
      pure (.obj (← nat (← at! a 0)) (← nat (← at! a 1)) fs)

partial def jV : V → Json
  | .none => Json.null
  | .prim t => Json.mkObj [("p", Json.str t)]
  | .list l => Json.mkObj [("l", jList jV l)]
  | .obj c a fs => Json.mkObj [("o", Json.arr #[jNat c, jNat a, jList (fun p => Json.arr #[Json.str p.1, jV p.2]) fs])]

def soapUnwrap (j : Json) : R Json := do
  let r := send (← bool (← fld j "raw")) (← bool (← fld j "out_headers")) (← parseV (← fld j "header")) (← parseV (← fld j "body"))
  pure <| match r with
  | .rawResponse => Json.mkObj [("raw", Json.bool true)]
  | .pair h b => Json.mkObj [("pair", Json.arr #[jV h, jV b])]
  | .value v => Json.mkObj [("value", jV v)]

end Driver
