import Driver.XsdD
import ZeepModel.Xsd.Bind
import ZeepModel.Xsd.Denote
namespace Driver
open Lean Zeep Zeep.Xsd Zeep.Bind

partial def parseArg (j : Json) : R Arg := do
  match j with
  | Json.str "nil" => pure .nil
  | Json.str "skip" => pure .skip
  | Json.null => pure .none
  | _ =>
    match j.getObjVal? "leaf" with
    | .ok t => pure (.leaf (← str t))
    | .error _ =>
      match j.getObjVal? "list" with
      | .ok l => pure (.list (← listOf parseArg l))
      | .error _ =>
        match j.getObjVal? "dict" with
        | .ok d => pure (.dict (← listOf (fun kv => do
            let a ← arr kv
            pure ((← str (← at! a 0)), (← parseArg (← at! a 1)))) d))
        | .error _ => throw "bad arg"

def parseBAttrs (j : Json) : R (List BAttr) :=
  listOf (fun a => do pure (⟨← str (← fld a "name"), ← bool (← fld a "required")⟩ : BAttr)) j

mutual
partial def parseBTy (j : Json) : R BTy := do
  match (← str (← fld j "k")) with
  | "leaf" => pure .leaf
  | "record" => pure (.record (← listOf parseBField (← fld j "fields")) (← parseBAttrs (← fld j "attrs")))
  | k => throw s!"bad bind type {k}"
partial def parseBField (j : Json) : R BField := do
  match (← str (← fld j "k")) with
  | "elem" => pure (.elem (← str (← fld j "name")) (← nat (← fld j "min")) (← parseOcc (← fld j "max")) (← bool (← fld j "nillable")) (← parseBTy (← fld j "ty")))
  | "rseq" => pure (.rseq (← str (← fld j "name")) (← nat (← fld j "min")) (← parseOcc (← fld j "max")) (← listOf parseBField (← fld j "fields")))
  | k => throw s!"bad bind field {k}"
end

def bErrName : BErr → String
  | .typeError => "TypeError"
  | .validation => "ValidationError"
  | .unsupported => "unsupported"

def bindCall (j : Json) : R Json := do
  let fs ← listOf parseBField (← fld j "fields")
  let as ← parseBAttrs (← fld j "attrs")
  let tag ← str (← fld j "tag")
  let pos ← listOf parseArg (← fld j "pos")
  let kw ← listOf (fun kv => do
    let a ← arr kv
    pure ((← str (← at! a 0)), (← parseArg (← at! a 1)))) (← fld j "kw")
  pure <| match call fs as tag pos kw with
  | .ok n => Json.mkObj [("node", jNode n)]
  | .error e => Json.mkObj [("error", Json.str (bErrName e))]

/-! `bind.denote`: the schema a signature denotes (`toTy`, compared with the type zeep compiled — expanded names
up to their namespace) and the instance the arguments denote (`itemOf`), the definitions the value-level round-trip
theorem (ZeepProofs/C01Values.lean) is stated with. -/

def occEq : Occ → Occ → Bool
  | .unbounded, .unbounded => true
  | .bounded a, .bounded b => a == b
  | _, _ => false

mutual
partial def tyEqv : Ty → Ty → Bool
  | .simple, .simple => true
  | .anyType, .anyType => true
  | .simpleContent a, .simpleContent b => a.map (·.q.name) == b.map (·.q.name)
  | .complex c1 a1 h1, .complex c2 a2 h2 =>
    (a1.map fun d => (d.q.name, d.required)) == (a2.map fun d => (d.q.name, d.required)) && h1 == h2 &&
    (match c1, c2 with
      | none, none => true
      | some p, some q => particleEqv p q
      | _, _ => false)
  | _, _ => false
partial def particleEqv : Particle → Particle → Bool
  | .elem q1 m1 x1 t1, .elem q2 m2 x2 t2 => q1.name == q2.name && m1 == m2 && occEq x1 x2 && tyEqv t1 t2
  | .any m1 x1, .any m2 x2 => m1 == m2 && occEq x1 x2
  | .seq ps m1 x1, .seq qs m2 x2 => m1 == m2 && occEq x1 x2 && particlesEqv ps qs
  | .choice ps m1 x1, .choice qs m2 x2 => m1 == m2 && occEq x1 x2 && particlesEqv ps qs
  | .all ps c1, .all qs c2 => c1 == c2 && particlesEqv ps qs
  | .group p m1 x1, .group q m2 x2 => m1 == m2 && occEq x1 x2 && particleEqv p q
  | _, _ => false
partial def particlesEqv : List Particle → List Particle → Bool
  | [], [] => true
  | p :: ps, q :: qs => particleEqv p q && particlesEqv ps qs
  | _, _ => false
end

def bindDenote (j : Json) : R Json := do
  let fs ← listOf parseBField (← fld j "fields")
  let as ← parseBAttrs (← fld j "attrs")
  let kw ← listOf (fun kv => do
    let a ← arr kv
    pure ((← str (← at! a 0)), (← parseArg (← at! a 1)))) (← fld j "kw")
  let zty ← parseTy (← fld j "ty")
  pure <| Json.mkObj [("item", jItem (itemOf (.record fs as) (.dict kw))),
    ("ty_matches", Json.bool (tyEqv (toTy (.record fs as)) zty)),
    ("no_nillable", Json.bool (noNillableFs fs)), ("no_nil", Json.bool (Arg.noNilD kw))]

end Driver
