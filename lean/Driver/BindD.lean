import Driver.XsdD
import ZeepModel.Xsd.Bind
namespace Driver
open Lean Zeep Zeep.Xsd Zeep.Bind

partial def parseArg (j : Json) : R Arg := do
  match j with
  | Json.str "nil" => pure .nil
  | Json.str "skip" => pure .skip
  | Json.null => pure .none
  | _ =>
    match j.getObjVal? "leaf" with
    | .ok t => pure (.leaf (← str t))
    | .error _ =>
      match j.getObjVal? "list" with
      | .ok l => pure (.list (← listOf parseArg l))
      | .error _ =>
        match j.getObjVal? "dict" with
        | .ok d => pure (.dict (← listOf (fun kv => do
            let a ← arr kv
            pure ((← str (← at! a 0)), (← parseArg (← at! a 1)))) d))
        | .error _ => throw "bad arg"

def parseBAttrs (j : Json) : R (List BAttr) :=
  listOf (fun a => do pure (⟨← str (← fld a "name"), ← bool (← fld a "required")⟩ : BAttr)) j

mutual
partial def parseBTy (j : Json) : R BTy := do
  match (← str (← fld j "k")) with
  | "leaf" => pure .leaf
  | "record" => pure (.record (← listOf parseBField (← fld j "fields")) (← parseBAttrs (← fld j "attrs")))
  | k => throw s!"bad bind type {k}"
partial def parseBField (j : Json) : R BField := do
  match (← str (← fld j "k")) with
  | "elem" => pure (.elem (← str (← fld j "name")) (← nat (← fld j "min")) (← parseOcc (← fld j "max")) (← bool (← fld j "nillable")) (← parseBTy (← fld j "ty")))
  | "rseq" => pure (.rseq (← str (← fld j "name")) (← nat (← fld j "min")) (← parseOcc (← fld j "max")) (← listOf parseBField (← fld j "fields")))
  | k => throw s!"bad bind field {k}"
end

def bErrName : BErr → String
  | .typeError => "TypeError"
  | .validation => "ValidationError"
  | .unsupported => "unsupported"

def bindCall (j : Json) : R Json := do
  let fs ← listOf parseBField (← fld j "fields")
  let as ← parseBAttrs (← fld j "attrs")
  let tag ← str (← fld j "tag")
  let pos ← listOf parseArg (← fld j "pos")
  let kw ← listOf (fun kv => do
    let a ← arr kv
    pure ((← str (← at! a 0)), (← parseArg (← at! a 1)))) (← fld j "kw")
  pure <| match call fs as tag pos kw with
  | .ok n => Json.mkObj [("node", jNode n)]
  | .error e => Json.mkObj [("error", Json.str (bErrName e))]

end Driver
