import Driver.Util
import ZeepModel.Soap.Wsse
namespace Driver
open Lean Zeep.Wsse

def bytesJ (j : Json) : R (List Nat) := listOf nat j
def optBytes (j : Json) : R (Option (List Nat)) := if j.isNull then pure none else some <$> bytesJ j

def parseTItem (j : Json) : R TItem := do pure (.other (← str (← fld j "other")))

def parseSItem (j : Json) : R SItem := do
  match j.getObjVal? "token" with
  | .ok t => pure (.token (← listOf parseTItem t))
  | .error _ =>
    match j.getObjVal? "ts" with
    | .ok t => pure (.timestamp (← str t))
    | .error _ => pure (.other (← str (← fld j "other")))

def parseHItem (j : Json) : R HItem := do
  match j.getObjVal? "sec" with
  | .ok s => pure (.security (← listOf parseSItem s))
  | .error _ => pure (.other (← str (← fld j "other")))

def jT : TItem → Json
  | .username u => Json.mkObj [("username", jList jNat u)]
  | .password v t => Json.mkObj [("password", jList jNat v), ("type", Json.str (match t with | .text => "text" | .digest => "digest"))]
  | .nonce n => Json.mkObj [("nonce", Json.str (String.ofList n))]
  | .created c => Json.mkObj [("created", jList jNat c)]
  | .other n => Json.mkObj [("other", Json.str n)]

def jS : SItem → Json
  | .token ks => Json.mkObj [("token", jList jT ks)]
  | .timestamp t => Json.mkObj [("ts", Json.str t)]
  | .other n => Json.mkObj [("other", Json.str n)]

def jH : HItem → Json
  | .security ks => Json.mkObj [("sec", jList jS ks)]
  | .other n => Json.mkObj [("other", Json.str n)]

def wsseApply (j : Json) : R Json := do
  let cj ← fld j "config"
  let c : Config := {
    username := ← bytesJ (← fld cj "username"),
    password := ← optBytes (← fld cj "password"),
    passwordDigest := ← optBytes (← fld cj "password_digest"),
    useDigest := ← bool (← fld cj "use_digest"),
    nonce := ← optBytes (← fld cj "nonce"),
    created := ← bytesJ (← fld cj "created"),
    timestampToken := ← optStr (← fld cj "timestamp"),
    hashPassword := ← bool (← fld cj "hash_password") }
  let rnd ← bytesJ (← fld j "rnd")
  let hj ← fld j "header"
  let header ← if hj.isNull then pure none else some <$> listOf parseHItem hj
  pure (jList jH (apply Zeep.Sha1.sha1 c rnd header))

def sha1Hex (j : Json) : R Json := do
  pure (Json.str (Zeep.Sha1.hex (Zeep.Sha1.sha1 (← bytesJ (← fld j "bytes")))))

end Driver
