import Driver.Util
import ZeepModel.Soap.Wsa
namespace Driver
open Lean Zeep.Wsa

def wsaRequest (j : Json) : R Json := do
  let c : Config := {
    declaredAction := ← optStr (← fld j "declared"),
    soapAction := ← str (← fld j "soap_action"),
    installed := ← nat (← fld j "installed"),
    overrideAddr := ← optStr (← fld j "override"),
    portAddr := ← str (← fld j "port_addr") }
  let ids ← listOf str (← fld j "ids")
  let hs ← listOf (fun p => do let a ← arr p; pure (⟨← str (← at! a 0), ← str (← at! a 1)⟩ : Entry)) (← fld j "headers")
  pure (jList (fun (e : Entry) => Json.arr #[Json.str e.name, Json.str e.text]) (request c ids hs))

end Driver
