import Driver.Util
import ZeepModel.Lex.GTypes
import ZeepModel.Lex.Simple
import ZeepModel.Lex.Base64
import ZeepModel.Lex.DateTime
import ZeepModel.Lex.Decimal
import ZeepModel.Lex.Duration
namespace Driver
open Lean Zeep.Digits Zeep.GTypes Zeep.Simple Zeep.DateTime

def jStrL (s : List Char) : Json := Json.str (String.ofList s)
def jTz : Tz → Json
  | none => Json.null
  | some m => jInt m
def parseTzJ (j : Json) : R Tz := optInt j

def lexEnc (j : Json) : R Json := do
  let ty ← str (← fld j "type")
  let v ← fld j "value"
  match ty with
  | "int" => pure (jStrL (showInt (← int v)))
  | "boolean" => pure (jStrL (encBool (← bool v)))
  | "gYear" => do let a ← arr v; pure (jStrL (encYear (← int (← at! a 0)) (← parseTzJ (← at! a 1))))
  | "gYearMonth" => do let a ← arr v; pure (jStrL (encYearMonth ⟨← int (← at! a 0), ← nat (← at! a 1), ← parseTzJ (← at! a 2)⟩))
  | "gMonth" => do let a ← arr v; pure (jStrL (encMonth (← nat (← at! a 0)) (← parseTzJ (← at! a 1))))
  | "gDay" => do let a ← arr v; pure (jStrL (encDay (← nat (← at! a 0)) (← parseTzJ (← at! a 1))))
  | "gMonthDay" => do let a ← arr v; pure (jStrL (encMonthDay (← nat (← at! a 0)) (← nat (← at! a 1)) (← parseTzJ (← at! a 2))))
  | "tz" => pure (jStrL (unparseTz (← parseTzJ v)))
  | "date" => do let a ← arr v; pure (jStrL (encDate ⟨← nat (← at! a 0), ← nat (← at! a 1), ← nat (← at! a 2)⟩))
  | "time" => do
    let a ← arr v
    pure (jStrL (encTime ⟨← nat (← at! a 0), ← nat (← at! a 1), ← nat (← at! a 2), ← nat (← at! a 3), ← parseTzJ (← at! a 4)⟩))
  | "dateTime" => do
    let a ← arr v
    pure (jStrL (encDateTime ⟨⟨← nat (← at! a 0), ← nat (← at! a 1), ← nat (← at! a 2)⟩,
      ⟨← nat (← at! a 3), ← nat (← at! a 4), ← nat (← at! a 5), ← nat (← at! a 6), ← parseTzJ (← at! a 7)⟩⟩))
  | "duration" => pure (jStrL (Zeep.Duration.encDur (← int v)))
  | "decimal" => do
    let a ← arr v
    pure (jStrL (Zeep.Decimal.encDec ⟨← bool (← at! a 0), ← nat (← at! a 1), ← int (← at! a 2)⟩))
  | "base64" => pure (jStrL (Zeep.Base64.encode (← listOf nat v)))
  | "floatspecial" => do
    let s ← str v
    pure (jStrL (encFloatSpecial (if s == "inf" then .posInf else if s == "-inf" then .negInf else .nan)))
  | t => throw s!"lex.enc: unmodelled type {t}"

def lexDec (j : Json) : R Json := do
  let ty ← str (← fld j "type")
  let t := (← str (← fld j "text")).toList
  match ty with
  | "int" => pure (match readInt t with | some z => jInt z | none => Json.null)
  | "boolean" => pure (Json.bool (decBool t))
  | "gYear" => pure (match decYear (collapseWs t) with | some (y, tz) => Json.arr #[jInt y, jTz tz] | none => Json.null)
  | "gYearMonth" => pure (match decYearMonth (collapseWs t) with | some v => Json.arr #[jInt v.year, jNat v.month, jTz v.tz] | none => Json.null)
  | "gMonth" => pure (match decMonth (collapseWs t) with | some (m, tz) => Json.arr #[jNat m, jTz tz] | none => Json.null)
  | "gDay" => pure (match decDay (collapseWs t) with | some (d, tz) => Json.arr #[jNat d, jTz tz] | none => Json.null)
  | "gMonthDay" => pure (match decMonthDay (collapseWs t) with | some (m, d, tz) => Json.arr #[jNat m, jNat d, jTz tz] | none => Json.null)
  | "tz" => pure (match parseTz t with | some tz => Json.mkObj [("tz", jTz tz)] | none => Json.null)
  | "date" => pure (match decDate (collapseWs t) with | some d => Json.arr #[jNat d.year, jNat d.month, jNat d.day] | none => Json.null)
  | "time" => pure (match decTime (collapseWs t) with
      | some v => Json.arr #[jNat v.hour, jNat v.minute, jNat v.second, jNat v.micro, jTz v.tz] | none => Json.null)
  | "dateTime" => pure (match decDateTime (collapseWs t) with
      | some v => Json.arr #[jNat v.date.year, jNat v.date.month, jNat v.date.day,
          jNat v.time.hour, jNat v.time.minute, jNat v.time.second, jNat v.time.micro, jTz v.time.tz]
      | none => Json.null)
  | "duration" => pure (match Zeep.Duration.decDur (collapseWs t) with | some u => jInt u | none => Json.null)
  | "decimal" => pure (match Zeep.Decimal.decDec (collapseWs t) with
      | some d => Json.arr #[Json.bool d.neg, jNat d.coeff, jInt d.exp] | none => Json.null)
  | "base64" => pure (match Zeep.Base64.decodeLenient t with | some b => jList jNat b | none => Json.null)
  | "preserve" => pure (jStrL (applyFacet .preserve t))
  | "replace" => pure (jStrL (applyFacet .replace t))
  | "collapse" => pure (jStrL (applyFacet .collapse t))
  | "floatspecial" => pure (match decFloatSpecial t with
      | some .posInf => Json.str "inf" | some .negInf => Json.str "-inf" | some .nan => Json.str "nan" | none => Json.null)
  | t => throw s!"lex.dec: unmodelled type {t}"

end Driver
