import Driver.Util
import ZeepModel.Wsdl.Load
namespace Driver
open Lean Zeep.Wsdl

def parseName (j : Json) : R Zeep.Wsdl.Name := do
  let a ← arr j
  pure (← str (← at! a 0), ← str (← at! a 1))

def parseDecl (j : Json) : R Decl := do
  let kind ← str (← fld j "kind")
  match kind with
  | "message" => pure (.message (← parseName (← fld j "name")) (← listOf str (← fld j "parts")))
  | "portType" => do
    let ops ← listOf (fun o => do
      let outj := fldD o "output" Json.null
      let out ← if outj.isNull then pure none else some <$> parseName outj
      pure (⟨← str (← fld o "name"), ← parseName (← fld o "input"), out⟩ : Operation)) (← fld j "ops")
    pure (.portType (← parseName (← fld j "name")) ops)
  | "binding" => pure (.binding (← parseName (← fld j "name")) (← parseName (← fld j "portType")) (← listOf str (← fld j "ops")))
  | "service" => do
    let ports ← listOf (fun p => do let a ← arr p; pure (← str (← at! a 0), ← parseName (← at! a 1))) (← fld j "ports")
    pure (.service (← str (← fld j "name")) ports)
  | k => throw s!"bad decl kind {k}"

def wsdlExposed (j : Json) : R Json := do
  let fs ← listOf (fun p => do
    let a ← arr p
    let dj ← at! a 1
    pure (← str (← at! a 0), (⟨← str (← fld dj "tns"), ← listOf str (← fld dj "imports"), ← listOf parseDecl (← fld dj "decls")⟩ : Doc))) (← fld j "fs")
  let root ← str (← fld j "root")
  pure <| jList (fun (p : Port) => Json.mkObj [("service", Json.str p.service), ("port", Json.str p.port),
    ("binding", Json.arr #[Json.str p.binding.1, Json.str p.binding.2]), ("operations", jList Json.str p.operations)]) (exposed fs root)

end Driver
