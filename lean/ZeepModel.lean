import ZeepModel.Settings
