import ZeepModel.Settings
import ZeepModel.Lex.Base64
import ZeepModel.Cache
import ZeepModel.Url
import ZeepModel.Loader
import ZeepModel.Xml
import ZeepModel.Soap.Reply
import ZeepModel.Soap.Pipeline
