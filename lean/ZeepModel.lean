import ZeepModel.Settings
import ZeepModel.Lex.Base64
import ZeepModel.Cache
import ZeepModel.Url
import ZeepModel.Loader
