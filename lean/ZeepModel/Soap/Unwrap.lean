/-
Engine E — the convenience rule at the end of `SoapMessage.deserialize` and the raw-response
short-circuit of `SoapBinding.send`.
-/
namespace Zeep.Unwrap

/-- decoded values, as far as the rule looks at them -/
inductive V where
  | none
  | prim (text : String)                       -- any simple value (str, int, bytes, …)
  | list (items : List V)
  | obj (declChildren declAttrs : Nat) (fields : List (String × V))
      -- a CompoundValue: how many element children / attributes its *type* declares, and its `__values__`
deriving Repr, Inhabited

inductive R where
  | pair (header body : V)      -- the envelope object pairing header and body
  | value (v : V)
  | rawResponse                 -- the transport's response object itself
deriving Repr

/-- mirror of the code: `len(result)`, `next(iter(result.__values__.values()))`, `_xsd_type.elements/attributes` -/
def unwrap (outHeaders : Bool) (header body : V) : R :=
  if outHeaders then .pair header body else
  match body with
  | .obj _ _ fields =>
    if fields.length = 0 then .value .none
    else if fields.length > 1 then .value body
    else
      match fields.head? with
      | some (_, .obj 1 0 inner) =>
        match inner.head? with
        | some (_, x) => .value x
        | none => .value (.obj 1 0 inner)
      | some (_, v) => .value v
      | none => .value .none
  | v => .value v

def send (raw : Bool) (outHeaders : Bool) (header body : V) : R :=
  if raw then .rawResponse else unwrap outHeaders header body

/-- the rule as the statement gives it -/
def specUnwrap (outHeaders : Bool) (header body : V) : R :=
  if outHeaders then .pair header body else
  match body with
  | .obj _ _ [] => .value .none                               -- no field: None
  | .obj _ _ [(_, .obj 1 0 [(_, child)])] => .value child     -- one field, itself an attribute-less single-child object
  | .obj _ _ [(_, v)] => .value v                             -- one field: its value
  | .obj c a fields => .value (.obj c a fields)               -- several fields: the whole output object
  | v => .value v                                             -- a simple-typed body is its own value

end Zeep.Unwrap
