import ZeepModel.Soap.Reply
/-
Engine E — `SoapMessage.serialize` / `_resolve_body` / `_serialize_header` / `_set_http_headers`:
how a request is framed.  The serialisation of each part is a parameter (engine A's `render`).
-/
namespace Zeep.Frame
open Zeep Zeep.Soap

inductive Style where | document | rpc
deriving Repr, DecidableEq

structure Op where
  version : Version
  style : Style
  name : String                    -- operation name (rpc wrapper local name)
  rpcNamespace : Option String     -- soap:body/@namespace
  soapAction : Option String       -- `none`: attribute absent
  address : String
  bodyParts : Nat                  -- number of message parts that go to the Body
deriving Repr

/-- `rendered`: for each body part, in message order, the nodes its argument serialises to;
`headers`: the rendered header entries (declared header parts and raw elements), `none` when the
caller passed no `_soapheaders` (or an empty value) -/
def frame (op : Op) (rendered : List (List Node)) (headers : Option (List Node)) : Node :=
  let bodyKids : List Node :=
    match op.style with
    | .document => rendered.flatten
    | .rpc => if op.bodyParts = 0 ∧ rendered = [] then [.mk ⟨op.rpcNamespace, op.name⟩ [] none []]
              else [.mk ⟨op.rpcNamespace, op.name⟩ [] none rendered.flatten]
  let body := Node.mk (env op.version "Body") [] none bodyKids
  let kids := match headers with
    | some hs => [Node.mk (env op.version "Header") [] none hs, body]
    | none => [body]
  .mk (env op.version "Envelope") [] none kids

/-- HTTP headers: (Content-Type, SOAPAction) -/
def httpHeaders (op : Op) : String × String :=
  let sa := match op.soapAction with
    | some a => if a = "" then "\"\"" else "\"" ++ a ++ "\""
    | none => "\"\""
  match op.version with
  | .v11 => ("text/xml; charset=utf-8", sa)
  | .v12 =>
    (match op.soapAction with
      | some a => "application/soap+xml; charset=utf-8; action=\"" ++ a ++ "\""
      | none => "application/soap+xml; charset=utf-8", sa)

def postedTo (op : Op) : String := op.address

end Zeep.Frame
