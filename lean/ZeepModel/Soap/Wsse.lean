import ZeepModel.Lex.Base64
import ZeepModel.Lex.Sha1
/-
Engine E — `zeep.wsse.username.UsernameToken.apply` and `zeep.wsse.utils.get_security_header`.

Strings that take part in the digest are byte lists (UTF-8 encoding is done outside); the hash is a
parameter `H` of the model (instantiated with `Sha1.sha1` by the driver).
-/
namespace Zeep.Wsse

abbrev Bytes := List Nat

inductive PwType where | text | digest
deriving Repr, DecidableEq

inductive TItem where
  | username (u : Bytes)
  | password (value : Bytes) (type : PwType)     -- element text as bytes
  | nonce (b64 : List Char)
  | created (c : Bytes)
  | other (name : String)
deriving Repr, DecidableEq

inductive SItem where
  | token (kids : List TItem)
  | timestamp (t : String)
  | other (name : String)
deriving Repr, DecidableEq

inductive HItem where
  | security (kids : List SItem)
  | other (name : String)
deriving Repr, DecidableEq

structure Config where
  username : Bytes
  password : Option Bytes
  passwordDigest : Option Bytes      -- a digest prepared by the caller
  useDigest : Bool
  nonce : Option Bytes               -- supplied nonce (`None` and `""` both mean: draw one)
  created : Bytes                    -- the timestamp text (from `created` or the clock, zulu or not)
  timestampToken : Option String
  hashPassword : Bool
deriving Repr, DecidableEq

def effNonce (c : Config) (rnd : Bytes) : Bytes :=
  match c.nonce with
  | some n => if n = [] then rnd else n
  | none => rnd

def b64 (b : Bytes) : List Char := Base64.encode b
def asBytes (cs : List Char) : Bytes := cs.map Char.toNat

def digestOf (H : Bytes → Bytes) (c : Config) (nonce : Bytes) : Bytes :=
  match c.passwordDigest with
  | some d => if d = [] then
      asBytes (b64 (H (nonce ++ c.created ++ (if c.hashPassword then H (c.password.getD []) else c.password.getD []))))
    else d
  | none =>
    asBytes (b64 (H (nonce ++ c.created ++ (if c.hashPassword then H (c.password.getD []) else c.password.getD []))))

def tokenKids (H : Bytes → Bytes) (c : Config) (rnd : Bytes) : List TItem :=
  [.username c.username] ++
  (if c.password.isSome || c.passwordDigest.isSome then
    (if c.useDigest then
      let n := effNonce c rnd
      [.password (digestOf H c n) .digest, .nonce (b64 n), .created c.created]
    else [.password (c.password.getD []) .text])
  else [])

def SItem.isToken : SItem → Bool
  | .token _ => true
  | _ => false

def HItem.isSecurity : HItem → Bool
  | .security _ => true
  | _ => false

/-- extend the first UsernameToken -/
def extFirstToken (add : List TItem) : List SItem → List SItem
  | [] => []
  | .token ks :: rest => .token (ks ++ add) :: rest
  | k :: rest => k :: extFirstToken add rest

/-- rewrite the first Security element -/
def mapFirstSecurity (f : List SItem → List SItem) : List HItem → List HItem
  | [] => []
  | .security ks :: rest => .security (f ks) :: rest
  | k :: rest => k :: mapFirstSecurity f rest

/-- find-or-create the UsernameToken inside a Security element, append the optional Timestamp, then
extend the token -/
def applySecurity (H : Bytes → Bytes) (c : Config) (rnd : Bytes) (kids : List SItem) : List SItem :=
  let kids1 := if kids.any SItem.isToken then kids else kids ++ [.token []]
  let kids2 := match c.timestampToken with
    | some t => kids1 ++ [.timestamp t]
    | none => kids1
  extFirstToken (tokenKids H c rnd) kids2

/-- `header = none`: the envelope has no Header element yet (one is inserted in front of Body) -/
def apply (H : Bytes → Bytes) (c : Config) (rnd : Bytes) (header : Option (List HItem)) : List HItem :=
  let hs := header.getD []
  let hs1 := if hs.any HItem.isSecurity then hs else hs ++ [.security []]
  mapFirstSecurity (applySecurity H c rnd) hs1

def securityCount (hs : List HItem) : Nat := (hs.filter HItem.isSecurity).length

def firstSecurity : List HItem → Option (List SItem)
  | [] => none
  | .security ks :: _ => some ks
  | _ :: rest => firstSecurity rest

def firstToken : List SItem → Option (List TItem)
  | [] => none
  | .token ks :: _ => some ks
  | _ :: rest => firstToken rest

end Zeep.Wsse
