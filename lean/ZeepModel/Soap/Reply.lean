import ZeepModel.Xml
/-
Engine E — reply triage and fault extraction: `SoapBinding.process_reply`,
`Soap11Binding.process_error`, `Soap12Binding.process_error`.

The reply body is abstracted to: empty / not parsable / a parsed tree (`parse_xml` is external).
QName-valued subcode texts arrive already resolved against the namespaces in scope at their
own `Value` element (done by the harness with lxml's nsmap; `as_qname` is a lookup in that map).
-/
namespace Zeep.Soap

inductive Version where | v11 | v12
deriving Repr

def envNs : Version → String
  | .v11 => "http://schemas.xmlsoap.org/soap/envelope/"
  | .v12 => "http://www.w3.org/2003/05/soap-envelope"

def env (v : Version) (n : String) : QName := ⟨some (envNs v), n⟩

inductive Body where
  | empty                    -- no content at all
  | unparsable               -- `parse_xml` raises XMLSyntaxError
  | tree (root : Node) (faultDefaultNs : Option String)
      -- parsed envelope; `faultDefaultNs`: the default namespace in scope at the Fault element
deriving Repr

structure FaultInfo where
  message : Option String
  code : Option String
  actor : Option String
  subcodes : List String
  detail : Option Node
deriving Repr

inductive Outcome where
  | returnNone
  | transportError (status : Nat)
  | unknownFault                       -- `Fault("Unknown fault occured")`: carries no status
  | fault (f : FaultInfo)
  | malformedFault                     -- a Subcode without Value: AttributeError
  | decode (root : Node)
deriving Repr

def faultNode (v : Version) (root : Node) : Option Node :=
  root.findPath2 (env v "Body") (env v "Fault")

/-- SOAP 1.1: children looked up with the fault node's own namespace map, i.e. unprefixed names
take the default namespace in scope -/
def fields11 (f : Node) (dns : Option String) : FaultInfo :=
  let get (n : String) : Option Node := f.find ⟨dns, n⟩
  { message := (get "faultstring").bind (·.text),
    code := (get "faultcode").bind (·.text),
    actor := (get "faultactor").bind (·.text),
    subcodes := [],
    detail := get "detail" }

/-- nested `Subcode` chain; `none` when a Subcode lacks its Value -/
def subcodes12 : Nat → Node → Option (List String)
  | 0, _ => some []
  | fuel + 1, sc =>
    match sc.find (env .v12 "Value") with
    | none => none
    | some val =>
      match sc.find (env .v12 "Subcode") with
      | none => some [val.text.getD ""]
      | some inner => (subcodes12 fuel inner).map (fun r => val.text.getD "" :: r)

def depth : Node → Nat
  | .mk _ _ _ kids => 1 + depthL kids
where depthL : List Node → Nat
  | [] => 0
  | k :: ks => Nat.max (depth k) (depthL ks)

def fields12 (f : Node) : Option FaultInfo :=
  let scs :=
    match f.findPath2 (env .v12 "Code") (env .v12 "Subcode") with
    | none => some []
    | some sc => subcodes12 (depth f) sc
  scs.map fun l =>
    { message := f.findtext2 (env .v12 "Reason") (env .v12 "Text"),
      code := f.findtext2 (env .v12 "Code") (env .v12 "Value"),
      actor := none,
      subcodes := l,
      detail := f.find (env .v12 "Detail") }

def processError (v : Version) (root : Node) (dns : Option String) : Outcome :=
  match faultNode v root with
  | none => .unknownFault
  | some f =>
    match v with
    | .v11 => .fault (fields11 f dns)
    | .v12 =>
      match fields12 f with
      | some fi => .fault fi
      | none => .malformedFault

/-- statuses for which an empty reply is "no content, no error" -/
def emptyOkStatuses : List Nat := [201, 202]
/-- the one status that may be a success with content -/
def okStatus : Nat := 200

def triage (v : Version) (status : Nat) (b : Body) : Outcome :=
  match b with
  | .empty => if status = 201 ∨ status = 202 then .returnNone else
      if status ≠ 200 then .transportError status else .transportError status  -- empty 200: parse fails
  | .unparsable => .transportError status
  | .tree root dns =>
    if status ≠ 200 ∨ (faultNode v root).isSome then processError v root dns
    else .decode root

end Zeep.Soap
