/-
Engine E — WS-Addressing: `zeep.wsa.WsAddressingPlugin.egress` and the decision in
`SoapBinding._create` (implicit plugin iff the operation declares an action and no
WsAddressingPlugin is installed).  Header entries are (name, text) pairs; the id source
(`uuid.uuid4`) is a parameter.
-/
namespace Zeep.Wsa

structure Entry where
  name : String
  text : String
deriving Repr, DecidableEq

structure Config where
  declaredAction : Option String     -- wsam:Action / wsaw:Action on wsdl:input
  soapAction : String                -- soap:operation/@soapAction
  installed : Nat                    -- number of WsAddressingPlugin instances in client.plugins
  overrideAddr : Option String       -- address_url of the installed plugin
  portAddr : String
deriving Repr, DecidableEq

def action (c : Config) : String := c.declaredAction.getD c.soapAction
def toAddr (c : Config) (implicit : Bool) : String :=
  if implicit then c.portAddr else c.overrideAddr.getD c.portAddr

/-- one application of the plugin -/
def applyOnce (c : Config) (implicit : Bool) (id : String) (hs : List Entry) : List Entry :=
  hs ++ [⟨"wsa:Action", action c⟩, ⟨"wsa:MessageID", "urn:uuid:" ++ id⟩, ⟨"wsa:To", toAddr c implicit⟩]

/-- how many times the plugin code runs for one request -/
def applications (c : Config) : Nat :=
  if c.installed = 0 then (if c.declaredAction.isSome then 1 else 0) else c.installed

/-- headers of one request; `ids` supplies as many fresh ids as there are applications -/
def request (c : Config) (ids : List String) (hs : List Entry) : List Entry :=
  if c.installed = 0 then
    (if c.declaredAction.isSome then applyOnce c true (ids.headD "") hs else hs)
  else
    (ids.take c.installed).foldl (fun h id => applyOnce c false id h) hs

def count (n : String) (hs : List Entry) : Nat := (hs.filter (fun e => e.name == n)).length

def isWsa (e : Entry) : Bool := e.name == "wsa:Action" || e.name == "wsa:MessageID" || e.name == "wsa:To"

/-- message ids over a call history: call `i` draws from the global stream -/
def historyIds (ids : Nat → String) (n : Nat) : List String := (List.range n).map ids

end Zeep.Wsa
