/-
Engine E — call isolation: what a call may write.

`OperationProxy._merge_soap_headers`, `SoapMessage._serialize_header` and `SoapBinding._create`
as operations on *owned* objects.  Every object carries its owner: `caller` (arguments, header
values, default headers, the plugin list, settings) or `fresh` (allocated by this call).  lxml
moves an element when it is appended, so appending an element writes its old parent: the objects
a call writes are the containers it extends/updates and the elements it appends.
-/
namespace Zeep.Isolation

inductive Owner where | caller | fresh
deriving Repr, DecidableEq

structure Item where
  owner : Owner
  id : Nat            -- identity of the element / value object
  payload : String    -- what it renders to
deriving Repr, DecidableEq

inductive HV where
  | none
  | list (owner : Owner) (items : List Item)
  | dict (owner : Owner) (items : List (String × Item))
deriving Repr, DecidableEq

def Item.copy (x : Item) : Item := { x with owner := .fresh }

/-- `copy.deepcopy` -/
def HV.deepcopy : HV → HV
  | .none => .none
  | .list _ xs => .list .fresh (xs.map Item.copy)
  | .dict _ xs => .dict .fresh (xs.map fun p => (p.1, p.2.copy))

def HV.isEmpty : HV → Bool
  | .none => true
  | .list _ xs => xs.isEmpty
  | .dict _ xs => xs.isEmpty

def dictUpdate (d : List (String × Item)) (u : List (String × Item)) : List (String × Item) :=
  u.foldl (fun acc p => if acc.any (fun q => q.1 == p.1) then acc.map (fun q => if q.1 == p.1 then p else q) else acc ++ [p]) d

/-- a write performed by the call: which object (by owner) is mutated -/
structure Write where
  target : Owner
  what : String
deriving Repr, DecidableEq

/-- `_merge_soap_headers`: result, and the container writes it performs -/
def merge (dflt op : HV) : Option (HV × List Write) :=
  if !dflt.isEmpty && !op.isEmpty then
    match dflt.deepcopy, op with
    | .list o xs, .list _ ys => some (.list o (xs ++ ys), [⟨o, "merged.extend"⟩])
    | .dict o xs, .dict _ ys => some (.dict o (dictUpdate xs ys), [⟨o, "merged.update"⟩])
    | _, _ => none                                   -- "Incompatible soapheaders definition"
  else if !dflt.isEmpty then some (dflt, [])           -- the default object itself (alias), not written
  else some (op, [])

/-- `_serialize_header`: deep-copies what it was given, then appends each entry to the new Header
element (a write to the entry, since lxml re-parents it) -/
def serializeHeader (hv : HV) : List Item × List Write :=
  if hv.isEmpty then ([], []) else
  match hv.deepcopy with
  | .list _ xs => (xs, xs.map fun x => ⟨x.owner, "header.append"⟩)
  | .dict _ xs => (xs.map (·.2), xs.map fun p => ⟨p.2.owner, "render"⟩)
  | .none => ([], [])

/-- client-side state a call can see -/
structure Client where
  defaultHeaders : HV
  plugins : List String
  settings : List (String × String)
deriving Repr, DecidableEq

structure Call where
  op : String
  args : String
  headers : HV
deriving Repr, DecidableEq

structure Outcome where
  message : Option (String × List String)     -- (body rendering, header entry payloads); none = the call raised
  writes : List Write
deriving Repr, DecidableEq

/-- one call: the message it produces, the writes it performs, and the client state afterwards
(unchanged: the implicit WS-Addressing plugin is instantiated per call, never installed) -/
def call (c : Client) (k : Call) : Outcome × Client :=
  match merge c.defaultHeaders k.headers with
  | none => (⟨none, []⟩, c)
  | some (hv, w1) =>
    let (items, w2) := serializeHeader hv
    (⟨some (k.op ++ "(" ++ k.args ++ ")", items.map (·.payload)), w1 ++ w2⟩, c)

def runCalls (c : Client) : List Call → List Outcome × Client
  | [] => ([], c)
  | k :: ks =>
    let (o, c1) := call c k
    let (os, c2) := runCalls c1 ks
    (o :: os, c2)

end Zeep.Isolation
