/-
Engine E — the message pipeline around the transport:
  SoapBinding._create :   [implicit WS-Addressing] → plugins.egress (list order) → wsse.apply (each entry, in
                          order) → extra_http_headers merged  → transport
  process_reply       :   parse → wsse.verify (each entry) → plugins.ingress (list order) → decode
  HistoryPlugin       :   bounded deque of {sent, received}

A stage is a function `M → Option M` (`none` = the plugin returned nothing: message unchanged).
-/
namespace Zeep.Pipeline

structure Stage (M : Type) where
  name : String
  f : M → Option M

def Stage.run {M : Type} (s : Stage M) (m : M) : M := (s.f m).getD m

/-- run the stages left to right; the trace records, per stage, its name and the message it saw -/
def runStages {M : Type} : List (Stage M) → M → M × List (String × M)
  | [], m => (m, [])
  | s :: ss, m =>
    let (r, tr) := runStages ss (s.run m)
    (r, (s.name, m) :: tr)

/-- stages of the way out, in the order `_create` runs them -/
def egressStages {M : Type} (wsa : Option (Stage M)) (plugins : List (Stage M)) (wsse : List (Stage M))
    (extra : Stage M) : List (Stage M) :=
  wsa.toList ++ plugins ++ wsse ++ [extra]

/-- the stage classes of the way out, by the names the source-flow translator gives them -/
def egressOrder : List String := ["wsa.egress", "plugins.egress", "wsse.apply", "extra_http_headers"]

/-- the stages of one class -/
def egressClass {M : Type} (wsa : Option (Stage M)) (plugins : List (Stage M)) (wsse : List (Stage M))
    (extra : Stage M) : String → List (Stage M)
  | "wsa.egress" => wsa.toList
  | "plugins.egress" => plugins
  | "wsse.apply" => wsse
  | "extra_http_headers" => [extra]
  | _ => []

/-- stage classes of `process_reply` between parsing and decoding -/
def ingressOrder : List String := ["wsse.verify", "plugins.ingress"]

def egress {M : Type} (wsa : Option (Stage M)) (plugins wsse : List (Stage M)) (extra : Stage M) (m : M) :=
  runStages (egressStages wsa plugins wsse extra) m

/-- way in: verification stages see the document and either accept or raise; then plugins -/
structure Verifier (M : Type) where
  name : String
  ok : M → Bool

def runVerify {M : Type} : List (Verifier M) → M → Bool × List (String × M)
  | [], _ => (true, [])
  | v :: vs, m =>
    if v.ok m then
      let (r, tr) := runVerify vs m
      (r, (v.name, m) :: tr)
    else (false, [(v.name, m)])

def ingress {M : Type} (wsse : List (Verifier M)) (plugins : List (Stage M)) (m : M) :
    Option M × List (String × M) :=
  let (ok, tr) := runVerify wsse m
  if ok then
    let (r, tr2) := runStages plugins m
    (some r, tr ++ tr2)
  else (none, tr)

/-! ### HistoryPlugin: a deque with maxlen -/

structure Entry (M : Type) where
  sent : M
  received : Option M
deriving Repr

def pushBounded {α : Type} (maxlen : Nat) (buf : List α) (x : α) : List α :=
  let b := buf ++ [x]
  b.drop (b.length - maxlen)

def histEgress {M : Type} (maxlen : Nat) (buf : List (Entry M)) (m : M) : List (Entry M) :=
  pushBounded maxlen buf ⟨m, none⟩

def setLast {M : Type} : List (Entry M) → M → List (Entry M)
  | [], _ => []
  | [e], m => [{ e with received := some m }]
  | e :: es, m => e :: setLast es m

def histIngress {M : Type} (buf : List (Entry M)) (m : M) : List (Entry M) := setLast buf m

/-- one exchange as seen at the history plugin's position: what it saw going out, and what it saw
coming in if the call got that far -/
structure Exchange (M : Type) where
  sent : M
  received : Option M

def histRun {M : Type} (maxlen : Nat) : List (Entry M) → List (Exchange M) → List (Entry M)
  | buf, [] => buf
  | buf, x :: xs =>
    let b1 := histEgress maxlen buf x.sent
    let b2 := match x.received with
      | some r => histIngress b1 r
      | none => b1
    histRun maxlen b2 xs

/-! ### a concrete message algebra for the correspondence runs -/

/-- envelope = the marks appended so far; headers = association list (last write wins) -/
structure Msg where
  marks : List String
  headers : List (String × String)
deriving Repr, DecidableEq

def setHeader (h : List (String × String)) (k v : String) : List (String × String) :=
  h.filter (fun p => p.1 != k) ++ [(k, v)]

inductive PluginKind where
  | trace                      -- returns (envelope, headers) unchanged
  | mark                       -- appends its name to the envelope, sets header X-<name>
  | returnsNone                -- returns nothing
  | header (k v : String)      -- replaces one HTTP header
  | history (maxlen : Nat)
deriving Repr, DecidableEq

structure PluginSpec where
  name : String
  kind : PluginKind
deriving Repr, DecidableEq

def pluginStage (phase : String) (p : PluginSpec) : Stage Msg :=
  { name := p.name,
    f := fun m =>
      match p.kind with
      | .trace => some m
      | .mark => some ⟨m.marks ++ [phase ++ ":" ++ p.name], setHeader m.headers ("X-" ++ p.name) phase⟩
      | .returnsNone => none
      | .header k v => some ⟨m.marks, setHeader m.headers k v⟩
      | .history _ => none }

def wsseStage (n : String) : Stage Msg :=
  { name := n, f := fun m => some ⟨m.marks ++ ["wsse:" ++ n], setHeader m.headers "X-WSSE" n⟩ }

def extraStage (extra : List (String × String)) : Stage Msg :=
  { name := "extra_http_headers",
    f := fun m => some ⟨m.marks, extra.foldl (fun h p => setHeader h p.1 p.2) m.headers⟩ }

end Zeep.Pipeline

namespace Zeep.Pipeline

/-! ### whole calls on the concrete algebra (used by the driver) -/

inductive ReplyKind where
  | ok | fault              -- a reply document arrives and runs through verify + ingress plugins
  | transportRaises         -- nothing comes back
  | emptyAccepted           -- 202 without content: returns before parsing
deriving Repr, DecidableEq

structure CallResult where
  egressTrace : List (String × Msg)
  wire : Msg
  ingressTrace : List (String × Msg)
  decoded : Option Msg

def runCall (plugins : List PluginSpec) (wsse : List String) (badVerifier : Option String)
    (extra : List (String × String)) (wsa : Bool) (request : Msg) (kind : ReplyKind) (reply : Msg) :
    CallResult :=
  let wsaStage : Option (Stage Msg) :=
    if wsa then some { name := "wsa", f := fun m => some ⟨m.marks ++ ["wsa"], m.headers⟩ } else none
  let (wire, etr) := egress wsaStage (plugins.map (pluginStage "egress")) (wsse.map wsseStage) (extraStage extra) request
  match kind with
  | .transportRaises | .emptyAccepted => ⟨etr, wire, [], none⟩
  | _ =>
    let vs : List (Verifier Msg) := wsse.map fun n => { name := n, ok := fun _ => some n != badVerifier }
    let (dec, itr) := ingress vs (plugins.map (pluginStage "ingress")) reply
    ⟨etr, wire, itr, dec⟩

def lookupTrace (tr : List (String × Msg)) (n : String) : Option Msg :=
  (tr.find? (fun p => p.1 == n)).map (·.2)

/-- exchanges seen by the history plugin called `n` over a sequence of call results -/
def exchangesOf (n : String) (rs : List CallResult) : List (Exchange Msg) :=
  rs.filterMap fun r =>
    (lookupTrace r.egressTrace n).map fun s => ⟨s, lookupTrace r.ingressTrace n⟩

end Zeep.Pipeline
