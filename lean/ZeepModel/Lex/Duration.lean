import ZeepModel.Lex.DateTime
/-
Engine L — `xsd:duration` of `zeep.xsd.types.builtins` for `datetime.timedelta` values: `xmlvalue` is
`isodate.duration_isoformat(value)` (`P%P` with a leading `-` for a negative value: days, then `T` hours / minutes / seconds,
the microseconds as a fraction without trailing zeros, `P0D` for zero), `pythonvalue` is `isodate.parse_duration(text)` on the
XSD lexical form `-?P(nY)?(nM)?(nD)?(T(nH)?(nM)?(n(.n)?S)?)?` (isodate also takes weeks, `nW`).

A timedelta is its total number of microseconds (an integer).  Not modelled: durations with years or months (isodate's own
`Duration` class, not a timedelta), fractions of more than six digits or on other components than the seconds (isodate goes
through binary floats there), and zeep's special case for the invalid spelling `PT-…`.
-/
namespace Zeep.Duration
open Zeep.Digits Zeep.GTypes

open Zeep.DateTime (six)

/-- `.rstrip("0")` -/
def rstripZeros (s : List Char) : List Char := (s.reverse.dropWhile (· == '0')).reverse

def comp (n : Nat) (des : Char) : List Char := if n = 0 then [] else digits n ++ [des]

/-- the seconds: `"%d" % seconds`, or `("%d.%06d" % (seconds, usecs)).rstrip("0")`, then `S`; nothing when both are zero -/
def secPart (seconds usecs : Nat) : List Char :=
  if seconds = 0 ∧ usecs = 0 then []
  else (if usecs = 0 then digits seconds else digits seconds ++ '.' :: rstripZeros (six usecs)) ++ ['S']

/-- what follows the `T` -/
def timeBody (hours minutes seconds usecs : Nat) : List Char :=
  comp hours 'H' ++ (comp minutes 'M' ++ secPart seconds usecs)

def timePart (hours minutes seconds usecs : Nat) : List Char :=
  if hours = 0 ∧ minutes = 0 ∧ seconds = 0 ∧ usecs = 0 then [] else 'T' :: timeBody hours minutes seconds usecs

/-- `%P` of `isodate.isostrf` for a non-negative number of microseconds -/
def encAbs (a : Nat) : List Char :=
  let secs := a / 1000000
  let body := comp (secs / 86400) 'D' ++ timePart (secs / 3600 % 24) (secs / 60 % 60) (secs % 60) (a % 1000000)
  'P' :: (if body = [] then ['0', 'D'] else body)

/-- `duration_isoformat(timedelta)` -/
def encDur (u : Int) : List Char := (if u < 0 then ['-'] else []) ++ encAbs u.natAbs

/-- an optional `<digits><designator>` at the start: its number and the rest, or 0 and the input unchanged -/
def takeComp (des : Char) (s : List Char) : Option (Nat × List Char) :=
  let dr := spanDigits s
  match dr.2 with
  | c :: r => if c = des ∧ dr.1 ≠ [] then (readAcc 0 dr.1).map fun n => (n, r) else some (0, s)
  | [] => some (0, s)

/-- an optional `<digits>(.<digits>)?S` at the start: whole seconds and microseconds (a fraction of at most six digits) -/
def takeSec (s : List Char) : Option (Nat × Nat × List Char) :=
  let dr := spanDigits s
  match dr.2 with
  | 'S' :: r => if dr.1 = [] then none else (readAcc 0 dr.1).map fun n => (n, 0, r)
  | '.' :: r' =>
    let fr := spanDigits r'
    match fr.2 with
    | 'S' :: r =>
      if dr.1 = [] ∨ fr.1 = [] ∨ fr.1.length > 6 then none
      else (readAcc 0 dr.1).bind fun n => (readAcc 0 (fr.1 ++ List.replicate (6 - fr.1.length) '0')).map fun us => (n, us, r)
    | _ => none
  | _ => if dr.1 = [] then some (0, 0, s) else none

/-- the date components `(nY)?(nM)?(nW)?(nD)?`: years, months, weeks, days and the rest -/
def dateComps (r : List Char) : Option (Nat × Nat × Nat × Nat × List Char) := do
  let (y, r) ← takeComp 'Y' r
  let (mo, r) ← takeComp 'M' r
  let (w, r) ← takeComp 'W' r
  let (d, r) ← takeComp 'D' r
  pure (y, mo, w, d, r)

/-- the time components after `T`, up to the end of the input: hours, minutes, seconds, microseconds -/
def timeComps (r : List Char) : Option (Nat × Nat × Nat × Nat) := do
  let (h, r) ← takeComp 'H' r
  let (mi, r) ← takeComp 'M' r
  let (se, us, r) ← takeSec r
  if r ≠ [] then none else pure (h, mi, se, us)

/-- `parse_duration` on a string without sign: total microseconds; `none` also when years or months are given -/
def decAbs (s : List Char) : Option Nat :=
  match s with
  | 'P' :: r =>
    if r = [] then none else
    match dateComps r with
    | some (y, mo, w, d, r) =>
      if y ≠ 0 ∨ mo ≠ 0 then none else
      match r with
      | [] => some ((d + 7 * w) * 86400 * 1000000)
      | 'T' :: r =>
        (timeComps r).map fun (h, mi, se, us) => ((((d + 7 * w) * 24 + h) * 60 + mi) * 60 + se) * 1000000 + us
      | _ => none
    | none => none
  | _ => none

def decDur (s : List Char) : Option Int :=
  match s with
  | '-' :: r => (decAbs r).map fun a => -(a : Int)
  | '+' :: r => (decAbs r).map fun a => (a : Int)
  | r => (decAbs r).map fun a => (a : Int)

end Zeep.Duration
