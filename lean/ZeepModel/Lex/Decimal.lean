import ZeepModel.Lex.GTypes
/-
Engine L — `xsd:decimal` of `zeep.xsd.types.builtins`: `xmlvalue` is `"{:f}".format(value)` (fixed point, never an exponent,
no rounding), `pythonvalue` is `decimal.Decimal(text)` on the XSD lexical forms `[+-]? (digits+ (. digits*)? | . digits+)`.

A finite `Decimal` is Python's triple: sign, coefficient (the digit tuple read as a number) and exponent; its value is
`(-1)^sign * coefficient * 10^exponent`.  Special values (NaN, Infinity) are outside `xsd:decimal`.
-/
namespace Zeep.Decimal
open Zeep.Digits Zeep.GTypes

structure Dec where
  neg : Bool
  coeff : Nat
  exp : Int
deriving Repr, DecidableEq

def zeros (k : Nat) : List Char := List.replicate k '0'

/-- the digits with the decimal point put at `exponent + number of digits` -/
def body (coeff : Nat) (exp : Int) : List Char :=
  let ds := digits coeff
  if exp ≥ 0 then (if coeff = 0 then ['0'] else ds ++ zeros exp.toNat)
  else
    let k := (-exp).toNat                       -- number of fraction digits
    if ds.length ≤ k then '0' :: '.' :: (zeros (k - ds.length) ++ ds)
    else ds.take (ds.length - k) ++ '.' :: ds.drop (ds.length - k)

/-- `"{:f}".format(d)`: fixed point, never an exponent, no rounding -/
def encDec (d : Dec) : List Char := (if d.neg then ['-'] else []) ++ body d.coeff d.exp

def splitSign : List Char → Bool × List Char
  | '-' :: r => (true, r)
  | '+' :: r => (false, r)
  | r => (false, r)

/-- the unsigned part: all digits are the coefficient, minus the number of fraction digits is the exponent -/
def decBody (neg : Bool) (r : List Char) : Option Dec :=
  let ip := spanDigits r
  match ip.2 with
  | [] => if ip.1 = [] then none else (readAcc 0 ip.1).map fun c => ⟨neg, c, 0⟩
  | '.' :: r' =>
    let fp := spanDigits r'
    if fp.2 ≠ [] then none
    else if ip.1 = [] ∧ fp.1 = [] then none
    else (readAcc 0 (ip.1 ++ fp.1)).map fun c => ⟨neg, c, -(fp.1.length : Int)⟩
  | _ => none

/-- `Decimal(text)` on `[+-]? (digits+ (. digits*)? | . digits+)` -/
def decDec (s : List Char) : Option Dec :=
  let p := splitSign s
  decBody p.1 p.2

/-- what reads back: the same triple when there is a fraction, the number written out when the exponent is positive -/
def canon (d : Dec) : Dec :=
  if d.exp ≥ 0 then ⟨d.neg, d.coeff * 10 ^ d.exp.toNat, 0⟩ else d

end Zeep.Decimal
