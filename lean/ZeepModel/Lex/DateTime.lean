import ZeepModel.Lex.GTypes
/-
Engine L — `xsd:date`, `xsd:time`, `xsd:dateTime` of `zeep.xsd.types.builtins`: `xmlvalue` through
`isodate.isostrf.strftime` (`%Y-%m-%d`, `%H:%M:%S`, `.%f` only when the microseconds are not zero, `%Z` as `Z` / `±hh:mm` /
nothing) and `pythonvalue` through `isodate.parse_date` / `parse_time` / `parse_datetime` on the XSD lexical forms
(`yyyy-mm-dd`, `hh:mm:ss(.s+)?`, an optional `Z` / `±hh:mm`; a fraction longer than six digits is floored to microseconds;
`Date.pythonvalue` drops a timezone suffix).  Field ranges are the ones `datetime` enforces when the value is built.

Not modelled: the other ISO 8601 spellings isodate accepts (basic formats, week and ordinal dates, reduced accuracy,
`,` as decimal mark, a leading `T`), which are not valid XSD lexical forms, and `DateTime.pythonvalue`'s leniency for a
blank instead of `T`.  Years are `datetime`'s 1..9999 (`%04d` then has exactly four digits).
-/
namespace Zeep.DateTime
open Zeep.Digits Zeep.GTypes

structure DateV where
  year : Nat
  month : Nat
  day : Nat
deriving Repr, DecidableEq

structure TimeV where
  hour : Nat
  minute : Nat
  second : Nat
  micro : Nat
  tz : Tz
deriving Repr, DecidableEq

structure DateTimeV where
  date : DateV
  time : TimeV
deriving Repr, DecidableEq

def isLeap (y : Nat) : Bool := (y % 4 == 0 && y % 100 != 0) || y % 400 == 0

def daysIn (y m : Nat) : Nat :=
  if m == 2 then (if isLeap y then 29 else 28)
  else if m == 4 || m == 6 || m == 9 || m == 11 then 30 else 31

/-- what `datetime.date(y, m, d)` accepts -/
def DateV.valid (d : DateV) : Bool :=
  decide (1 ≤ d.year) && decide (d.year ≤ 9999) && decide (1 ≤ d.month) && decide (d.month ≤ 12) &&
  decide (1 ≤ d.day) && decide (d.day ≤ daysIn d.year d.month)

/-- what `datetime.time(h, m, s, us, tz)` accepts -/
def TimeV.valid (t : TimeV) : Bool :=
  decide (t.hour < 24) && decide (t.minute < 60) && decide (t.second < 60) && decide (t.micro < 1000000)

def four (n : Nat) : List Char := [digitChar (n / 1000 % 10), digitChar (n / 100 % 10), digitChar (n / 10 % 10), digitChar (n % 10)]

def six (n : Nat) : List Char :=
  [digitChar (n / 100000 % 10), digitChar (n / 10000 % 10), digitChar (n / 1000 % 10),
   digitChar (n / 100 % 10), digitChar (n / 10 % 10), digitChar (n % 10)]

/-- `%Y-%m-%d` -/
def encDate (d : DateV) : List Char := four d.year ++ '-' :: (two d.month ++ '-' :: two d.day)

/-- `%H:%M:%S`, `.%f` when the microseconds are not zero, `%Z` -/
def encTime (t : TimeV) : List Char :=
  two t.hour ++ ':' :: (two t.minute ++ ':' :: (two t.second ++
    ((if t.micro = 0 then [] else '.' :: six t.micro) ++ unparseTz t.tz)))

def encDateTime (v : DateTimeV) : List Char := encDate v.date ++ 'T' :: encTime v.time

/-- `\d{4}` at the start -/
def parseFour : List Char → Option (Nat × List Char)
  | a :: b :: c :: d :: rest =>
    match charDigit a, charDigit b, charDigit c, charDigit d with
    | some a, some b, some c, some d => some (((a * 10 + b) * 10 + c) * 10 + d, rest)
    | _, _, _, _ => none
  | _ => none

/-- `yyyy-mm-dd` at the start, checked the way `datetime.date` checks it; the rest of the input is returned -/
def parseDatePrefix (s : List Char) : Option (DateV × List Char) := do
  let (y, r) ← parseFour s
  match r with
  | '-' :: r =>
    let (m, r) ← parseTwo r
    match r with
    | '-' :: r =>
      let (d, r) ← parseTwo r
      let v : DateV := ⟨y, m, d⟩
      if v.valid then some (v, r) else none
    | _ => none
  | _ => none

/-- `Date.pythonvalue` on an XSD date: the date; a timezone suffix is accepted and dropped -/
def decDate (s : List Char) : Option DateV := do
  let (v, r) ← parseDatePrefix s
  let _ ← parseTz r
  pure v

/-- the seconds fraction, floored to microseconds: `Decimal(second).quantize(Decimal(".000001"), rounding=ROUND_FLOOR)` -/
def fracMicro (ds : List Char) : Option Nat := readAcc 0 ((ds ++ List.replicate 6 '0').take 6)

/-- the optional `.s+` after the seconds -/
def parseFraction : List Char → Option (Nat × List Char)
  | '.' :: r' =>
    let dr := spanDigits r'
    if dr.1 = [] then none else (fracMicro dr.1).map fun us => (us, dr.2)
  | r => some (0, r)

/-- `isodate.parse_time` on `hh:mm:ss(.s+)?` with an optional timezone -/
def decTime (s : List Char) : Option TimeV := do
  let (h, r) ← parseTwo s
  match r with
  | ':' :: r =>
    let (mi, r) ← parseTwo r
    match r with
    | ':' :: r =>
      let (se, r) ← parseTwo r
      let (us, r) ← parseFraction r
      let tz ← parseTz r
      let v : TimeV := ⟨h, mi, se, us, tz⟩
      if v.valid then some v else none
    | _ => none
  | _ => none

/-- split at the (single) `T`: `datetimestring.split("T")` must give two parts -/
def splitT : List Char → Option (List Char × List Char)
  | [] => none
  | 'T' :: r => if r.contains 'T' then none else some ([], r)
  | c :: r => (splitT r).map fun p => (c :: p.1, p.2)

/-- `DateTime.pythonvalue`: a bare date reads as midnight; otherwise date and time around the `T` -/
def decDateTime (s : List Char) : Option DateTimeV := do
  let s := if s.length = 10 then s ++ "T00:00:00".toList else s
  let (ds, ts) ← splitT s
  let (d, r) ← parseDatePrefix ds
  if r ≠ [] then none else
  let t ← decTime ts
  pure ⟨d, t⟩

end Zeep.DateTime
