import ZeepModel.Lex.Digits
/-
Engine L — timezone suffix and the five g* types of `zeep.xsd.types.builtins`
(`_parse_timezone`, `_unparse_timezone`, `_unparse_year`, gYearMonth / gYear / gMonthDay / gDay / gMonth).

A timezone is `none` (naive), `some 0` (pytz.utc, written `Z`) or `some m` (FixedOffset of m minutes).
The `pythonvalue` regexes are hand recognisers.
-/
namespace Zeep.GTypes
open Zeep.Digits

abbrev Tz := Option Int

def two (n : Nat) : List Char := [digitChar (n / 10 % 10), digitChar (n % 10)]

/-- `_unparse_timezone` -/
def unparseTz : Tz → List Char
  | none => []
  | some m =>
    if m = 0 then ['Z'] else
    let a := m.natAbs
    (if m < 0 then '-' else '+') :: (two (a / 60) ++ ':' :: two (a % 60))

/-- the regex group `(Z|[-+]\d\d:?\d\d)?` followed by end of input, then `_parse_timezone` -/
def parseTz : List Char → Option Tz
  | [] => some none
  | ['Z'] => some (some 0)
  | [s, a, b, ':', c, d] => tz4 s a b c d
  | [s, a, b, c, d] => tz4 s a b c d
  | _ => none
where
  tz4 (s a b c d : Char) : Option Tz :=
    match charDigit a, charDigit b, charDigit c, charDigit d with
    | some a, some b, some c, some d =>
      let mins : Int := ((a * 10 + b) * 60 + (c * 10 + d) : Nat)
      if s = '+' then some (some mins) else if s = '-' then some (some (-mins)) else none
    | _, _, _, _ => none

/-- `_unparse_year`: sign, then at least four digits -/
def unparseYear (y : Int) : List Char :=
  (if y < 0 then ['-'] else []) ++ pad 4 y.natAbs

/-- longest prefix of digits -/
def spanDigits : List Char → List Char × List Char
  | [] => ([], [])
  | c :: cs => if isDigit c then let (a, b) := spanDigits cs; (c :: a, b) else ([], c :: cs)

/-- `(?P<year>-?\d{4,})` at the start: the year and the rest of the input -/
def stripMinus : List Char → Bool × List Char
  | '-' :: r => (true, r)
  | r => (false, r)

def parseYear (s : List Char) : Option (Int × List Char) :=
  let nr := stripMinus s
  let dr := spanDigits nr.2
  if dr.1.length < 4 then none else
  (readNat dr.1).map fun n => ((if nr.1 then -(n : Int) else (n : Int)), dr.2)

/-- `\d\d` at the start -/
def parseTwo : List Char → Option (Nat × List Char)
  | a :: b :: rest =>
    match charDigit a, charDigit b with
    | some a, some b => some (a * 10 + b, rest)
    | _, _ => none
  | _ => none

structure YM where
  year : Int
  month : Nat
  tz : Tz
deriving Repr, DecidableEq

def encYearMonth (v : YM) : List Char := unparseYear v.year ++ '-' :: (two v.month ++ unparseTz v.tz)
def decYearMonth (s : List Char) : Option YM := do
  let (y, r) ← parseYear s
  match r with
  | '-' :: r =>
    let (m, r) ← parseTwo r
    let tz ← parseTz r
    pure ⟨y, m, tz⟩
  | _ => none

def encYear (y : Int) (tz : Tz) : List Char := unparseYear y ++ unparseTz tz
def decYear (s : List Char) : Option (Int × Tz) := do
  let (y, r) ← parseYear s
  let tz ← parseTz r
  pure (y, tz)

def encMonth (m : Nat) (tz : Tz) : List Char := '-' :: '-' :: (two m ++ unparseTz tz)
def decMonth : List Char → Option (Nat × Tz)
  | '-' :: '-' :: r => do
    let (m, r) ← parseTwo r
    let tz ← parseTz r
    pure (m, tz)
  | _ => none

def encDay (d : Nat) (tz : Tz) : List Char := '-' :: '-' :: '-' :: (two d ++ unparseTz tz)
def decDay : List Char → Option (Nat × Tz)
  | '-' :: '-' :: '-' :: r => do
    let (d, r) ← parseTwo r
    let tz ← parseTz r
    pure (d, tz)
  | _ => none

def encMonthDay (m d : Nat) (tz : Tz) : List Char := '-' :: '-' :: (two m ++ '-' :: (two d ++ unparseTz tz))
def decMonthDay : List Char → Option (Nat × Nat × Tz)
  | '-' :: '-' :: r => do
    let (m, r) ← parseTwo r
    match r with
    | '-' :: r =>
      let (d, r) ← parseTwo r
      let tz ← parseTz r
      pure (m, d, tz)
    | _ => none
  | _ => none

end Zeep.GTypes
