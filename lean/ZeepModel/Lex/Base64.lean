/-
Engine L — RFC 4648 base64 as used by `base64.b64encode` / `b64decode` (standard alphabet,
`=` padding).  Bytes are naturals below 256.
-/
namespace Zeep.Base64

def table : List Char :=
  "ABCDEFGHIJKLMNOPQRSTUVWXYZabcdefghijklmnopqrstuvwxyz0123456789+/=".toList

/-- sextet (0..63) or the padding marker 64 to its character -/
def sextetChar (i : Nat) : Char := table.getD i '='

def charSextet (c : Char) : Option Nat :=
  let i := table.idxOf c
  if i < 65 then some i else none

/-- bytes to sextets; 64 marks padding -/
def encChunks : List Nat → List Nat
  | a :: b :: c :: rest =>
    a / 4 :: ((a % 4) * 16 + b / 16) :: ((b % 16) * 4 + c / 64) :: (c % 64) :: encChunks rest
  | [a, b] => [a / 4, (a % 4) * 16 + b / 16, (b % 16) * 4, 64]
  | [a] => [a / 4, (a % 4) * 16, 64, 64]
  | [] => []

def decChunks : List Nat → Option (List Nat)
  | [] => some []
  | w :: x :: y :: z :: rest =>
    if w < 64 ∧ x < 64 then
      if y = 64 then
        if z = 64 ∧ rest = [] then some [w * 4 + x / 16] else none
      else if y < 64 then
        if z = 64 then
          if rest = [] then some [w * 4 + x / 16, (x % 16) * 16 + y / 4] else none
        else if z < 64 then
          match decChunks rest with
          | some bs => some ((w * 4 + x / 16) :: ((x % 16) * 16 + y / 4) :: ((y % 4) * 64 + z) :: bs)
          | none => none
        else none
      else none
    else none
  | _ => none

def encode (bs : List Nat) : List Char := (encChunks bs).map sextetChar

def decode (cs : List Char) : Option (List Nat) :=
  match cs.mapM charSextet with
  | some ss => decChunks ss
  | none => none

/-- XML white space -/
def isSpace (c : Char) : Bool := c == ' ' || c == '\n' || c == '\t' || c == '\r'

/-- `base64.b64decode` (non-validating) skips characters outside the alphabet; in a schema-valid
xs:base64Binary text those can only be white space (line-wrapped or grouped encodings) -/
def decodeLenient (cs : List Char) : Option (List Nat) := decode (cs.filter fun c => !isSpace c)

end Zeep.Base64
