import ZeepModel.Lex.Digits
/-
Engine L — whitespace facets as zeep implements them (`treat_whitespace`), booleans, the special
values of float/double.
-/
namespace Zeep.Simple

/-- characters for which Python's `str.isspace()` holds (what `str.strip()` removes) -/
def pySpace (c : Char) : Bool :=
  let n := c.toNat
  (9 ≤ n && n ≤ 13) || (28 ≤ n && n ≤ 32) || n == 0x85 || n == 0xA0 || n == 0x1680 ||
  (0x2000 ≤ n && n ≤ 0x200A) || n == 0x2028 || n == 0x2029 || n == 0x202F || n == 0x205F || n == 0x3000

def isNRT (c : Char) : Bool := c == '\n' || c == '\r' || c == '\t'

/-- `re.sub(r"[\n\r\t]", " ", value)` -/
def replaceWs (s : List Char) : List Char := s.map fun c => if isNRT c then ' ' else c

def lstrip : List Char → List Char
  | [] => []
  | c :: cs => if pySpace c then lstrip cs else c :: cs

def strip (s : List Char) : List Char := (lstrip (lstrip s).reverse).reverse

/-- `re.sub(r"[\n\r\t ]", " ", value).strip()` — note: inner runs of spaces are not folded -/
def collapseWs (s : List Char) : List Char := strip (replaceWs s)

inductive Facet where | preserve | replace | collapse
deriving Repr, DecidableEq

def applyFacet : Facet → List Char → List Char
  | .preserve, s => s
  | .replace, s => replaceWs s
  | .collapse, s => collapseWs s

/-- Boolean.xmlvalue for a Python bool -/
def encBool (b : Bool) : List Char := if b then "true".toList else "false".toList
/-- Boolean.pythonvalue -/
def decBool (s : List Char) : Bool :=
  let v := collapseWs s
  v = "true".toList || v = "1".toList

inductive FloatSpecial where | posInf | negInf | nan
deriving Repr, DecidableEq

/-- `_float_xmlvalue` on the special values -/
def encFloatSpecial : FloatSpecial → List Char
  | .posInf => "INF".toList
  | .negInf => "-INF".toList
  | .nan => "NaN".toList

/-- Python `float(text)` on the special spellings (case-insensitive `inf`, `infinity`, `nan`, optional sign) -/
def decFloatSpecial (s : List Char) : Option FloatSpecial :=
  let l := (collapseWs s).map Char.toLower
  let (neg, r) := match l with
    | '-' :: r => (true, r)
    | '+' :: r => (false, r)
    | r => (false, r)
  if r = "inf".toList || r = "infinity".toList then some (if neg then .negInf else .posInf)
  else if r = "nan".toList then some .nan
  else none

end Zeep.Simple
