/-
Engine L — decimal digits: Python's `str(int)`, `"%0Nd" % n`, and `int(text)` on plain digit strings.
-/
namespace Zeep.Digits

def digitChar (d : Nat) : Char := Char.ofNat (48 + d)

def charDigit (c : Char) : Option Nat :=
  if 48 ≤ c.toNat ∧ c.toNat ≤ 57 then some (c.toNat - 48) else none

/-- decimal digits of `n`, most significant first (`"0"` for 0) -/
def digits (n : Nat) : List Char :=
  if h : n < 10 then [digitChar n] else digits (n / 10) ++ [digitChar (n % 10)]
termination_by n
decreasing_by omega

/-- `"%0<w>d" % n` for `n ≥ 0`: at least `w` digits -/
def pad (w : Nat) (n : Nat) : List Char :=
  let d := digits n
  List.replicate (w - d.length) '0' ++ d

/-- value of a digit string read left to right; `none` if a non-digit occurs -/
def readAcc : Nat → List Char → Option Nat
  | acc, [] => some acc
  | acc, c :: cs =>
    match charDigit c with
    | some d => readAcc (acc * 10 + d) cs
    | none => none

/-- `int(s)` for a non-empty string of ASCII digits -/
def readNat (s : List Char) : Option Nat :=
  if s = [] then none else readAcc 0 s

def isDigit (c : Char) : Bool := (charDigit c).isSome

/-- `str(z)` -/
def showInt (z : Int) : List Char :=
  if z < 0 then '-' :: digits z.natAbs else digits z.natAbs

/-- `int(text)` restricted to `[+-]?digits` (Python also allows `_` and surrounding whitespace) -/
def readInt (s : List Char) : Option Int :=
  match s with
  | '-' :: r => (readNat r).map (fun n => - (n : Int))
  | '+' :: r => (readNat r).map (fun n => (n : Int))
  | r => (readNat r).map (fun n => (n : Int))

end Zeep.Digits
