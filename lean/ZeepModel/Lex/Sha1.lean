/-
SHA-1 (FIPS 180-4) on byte lists — executable, so that the model is an independent verifier of
UsernameToken digests.  Nothing is proved about SHA-1 itself; the C18 theorems hold for any
hash function.
-/
namespace Zeep.Sha1

def rotl (x : UInt32) (n : UInt32) : UInt32 := (x <<< n) ||| (x >>> (32 - n))

def be32 (a b c d : Nat) : UInt32 :=
  (UInt32.ofNat a <<< 24) ||| (UInt32.ofNat b <<< 16) ||| (UInt32.ofNat c <<< 8) ||| UInt32.ofNat d

def pad (msg : List Nat) : List Nat :=
  let l := msg.length
  let k := (119 - (l % 64)) % 64          -- zeros so that l + 1 + k ≡ 56 (mod 64)
  let bits := l * 8
  msg ++ [0x80] ++ List.replicate k 0 ++
    (List.range 8).map (fun i => (bits / 2 ^ (8 * (7 - i))) % 256)

def chunks (n : Nat) : List Nat → List (List Nat)
  | [] => []
  | l => if h : n = 0 then [l] else
    have : (l.drop n).length < l.length ∨ l = [] := by
      cases l with
      | nil => exact Or.inr rfl
      | cons a t => left; simp only [List.length_drop, List.length_cons]; omega
    if hl : l = [] then [] else
      (l.take n) :: chunks n (l.drop n)
termination_by l => l.length
decreasing_by
  cases l with
  | nil => exact absurd rfl hl
  | cons a t => simp only [List.length_drop, List.length_cons]; omega

def words (block : List Nat) : Array UInt32 :=
  ((chunks 4 block).map fun w => be32 (w.getD 0 0) (w.getD 1 0) (w.getD 2 0) (w.getD 3 0)).toArray

def schedule (w16 : Array UInt32) : Array UInt32 := Id.run do
  let mut w := w16
  for i in [16:80] do
    w := w.push (rotl (w[i-3]! ^^^ w[i-8]! ^^^ w[i-14]! ^^^ w[i-16]!) 1)
  return w

structure St where
  h0 : UInt32
  h1 : UInt32
  h2 : UInt32
  h3 : UInt32
  h4 : UInt32

def compress (s : St) (block : List Nat) : St := Id.run do
  let w := schedule (words block)
  let mut a := s.h0
  let mut b := s.h1
  let mut c := s.h2
  let mut d := s.h3
  let mut e := s.h4
  for i in [0:80] do
    let (f, k) : UInt32 × UInt32 :=
      if i < 20 then ((b &&& c) ||| ((~~~ b) &&& d), 0x5A827999)
      else if i < 40 then (b ^^^ c ^^^ d, 0x6ED9EBA1)
      else if i < 60 then ((b &&& c) ||| (b &&& d) ||| (c &&& d), 0x8F1BBCDC)
      else (b ^^^ c ^^^ d, 0xCA62C1D6)
    let t := rotl a 5 + f + e + k + w[i]!
    e := d
    d := c
    c := rotl b 30
    b := a
    a := t
  return ⟨s.h0 + a, s.h1 + b, s.h2 + c, s.h3 + d, s.h4 + e⟩

def bytesOf (x : UInt32) : List Nat :=
  let n := x.toNat
  [n / 16777216 % 256, n / 65536 % 256, n / 256 % 256, n % 256]

def sha1 (msg : List Nat) : List Nat :=
  let s := (chunks 64 (pad msg)).foldl compress ⟨0x67452301, 0xEFCDAB89, 0x98BADCFE, 0x10325476, 0xC3D2E1F0⟩
  bytesOf s.h0 ++ bytesOf s.h1 ++ bytesOf s.h2 ++ bytesOf s.h3 ++ bytesOf s.h4

def hex (bs : List Nat) : String :=
  String.join (bs.map fun b => String.ofList [Nat.digitChar (b / 16), Nat.digitChar (b % 16)])

end Zeep.Sha1
