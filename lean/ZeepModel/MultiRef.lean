import ZeepModel.Xml
import ZeepModel.Lex.Base64
/-
Engine M — `process_multiref` (SOAP-encoded href/id out-lining), `process_xop`, attachment content.
-/
namespace Zeep.MultiRef
open Zeep

def idAttr : QName := ⟨none, "id"⟩
def hrefAttr : QName := ⟨none, "href"⟩

def getAttr (attrs : List (QName × String)) (q : QName) : Option String :=
  (attrs.find? (fun p => p.1 == q)).map (·.2)

/-- the id a stub refers to: `href="#id"` -/
def hrefTarget (attrs : List (QName × String)) : Option String :=
  match getAttr attrs hrefAttr with
  | some h => match h.toList with
    | '#' :: r => some (String.ofList r)
    | _ => none
  | none => none

abbrev Table := List (String × Node)

def lookupT (tbl : Table) (i : String) : Option Node := (tbl.find? (fun p => p.1 == i)).map (·.2)

/-- `process` with its recursion bounded by `fuel` (cyclic references exhaust it); returns the new
node and the ids that were dereferenced -/
def proc (tbl : Table) : Nat → Node → Node × List String
  | 0, n => (n, [])
  | fuel + 1, .mk tag attrs text kids =>
    let (tag', attrs', text', kids', used0) :=
      match (hrefTarget attrs).bind (fun i => (lookupT tbl i).map (fun o => (i, o))) with
      | some (i, .mk _ oattrs otext okids) => (tag, oattrs, otext, okids, [i])   -- clone of the object under the stub's tag
      | none => (tag, attrs, text, kids, [])
    let rs := kids'.map (proc tbl fuel)
    (.mk tag' attrs' text' (rs.map (·.1)), used0 ++ (rs.map (·.2)).flatten)

def size : Node → Nat
  | .mk _ _ _ kids => 1 + sizeL kids
where sizeL : List Node → Nat
  | [] => 0
  | k :: ks => size k + sizeL ks

/-- `multiref_objects = {elm.attrib["id"]: elm for elm in node.xpath("*[@id]")}` -/
def tblOf (kids : List Node) : Table := kids.filterMap fun k => (getAttr k.attrs idAttr).map (fun i => (i, k))

/-- `process_multiref(body)`: table of the Body's children carrying an `id`, dereference, then `parent.remove(node)` for the *objects*
that were used - the original children, not what took a stub's place: a child of the Body that is itself a stub is replaced by a copy
that carries the object's `id` and stays -/
def processMultiref (fuel : Nat) (body : Node) : Node :=
  match body with
  | .mk _ _ _ kids =>
    let tbl : Table := tblOf kids
    if tbl.isEmpty then body else
    let (b', used) := proc tbl fuel body
    .mk b'.tag b'.attrs b'.text
      ((kids.zip b'.kids).filterMap fun kk => match getAttr kk.1.attrs idAttr with
        | some i => if used.contains i then none else some kk.2
        | none => some kk.2)

/-! ### XOP -/
def xopInclude : QName := ⟨some "http://www.w3.org/2004/08/xop/include", "Include"⟩

/-- percent-decoding (`urllib.parse.unquote`) of ASCII escapes -/
def hexVal (c : Char) : Option Nat :=
  if '0' ≤ c ∧ c ≤ '9' then some (c.toNat - 48)
  else if 'a' ≤ c ∧ c ≤ 'f' then some (c.toNat - 87)
  else if 'A' ≤ c ∧ c ≤ 'F' then some (c.toNat - 55) else none

def unquote : List Char → List Char
  | '%' :: a :: b :: rest =>
    match hexVal a, hexVal b with
    | some x, some y => (if x * 16 + y < 128 then Char.ofNat (x * 16 + y) else '?') :: unquote rest
    | _, _ => '%' :: unquote (a :: b :: rest)
  | c :: rest => c :: unquote rest
  | [] => []

/-- the Content-ID a `cid:` href designates -/
def cidOf (href : String) : String :=
  match href.toList with
  | 'c' :: 'i' :: 'd' :: ':' :: r => "<" ++ String.ofList (unquote r) ++ ">"
  | _ => href

abbrev Parts := List (String × List Nat)    -- Content-ID ↦ content bytes

/-- replace every `xop:Include` child by the base64 text of the designated part; `none`: a part is missing -/
def procXop (parts : Parts) : Nat → Node → Option Node
  | 0, n => some n
  | fuel + 1, .mk tag attrs text kids =>
    match kids.find? (fun k => k.tag == xopInclude) with
    | some inc =>
      match getAttr inc.attrs hrefAttr with
      | some h =>
        match (parts.find? (fun p => p.1 == cidOf h)).map (·.2) with
        | some bytes => some (.mk tag attrs (some (String.ofList (Base64.encode bytes))) (kids.filter (fun k => !(k.tag == xopInclude))))
        | none => none
      | none => none
    | none => (kids.mapM (procXop parts fuel)).map (fun ks => .mk tag attrs text ks)

/-! ### attachment content by Content-Transfer-Encoding -/
inductive TE where | base64 | binary | other
deriving Repr, DecidableEq

def stripCRLF (b : List Nat) : List Nat :=
  let dropF := fun (l : List Nat) => l.dropWhile (fun x => x == 13 || x == 10)
  (dropF (dropF b).reverse).reverse

/-- `Attachment.content`; `raw` is the part body as the MIME decoder returns it -/
def attachmentContent (te : TE) (raw : List Nat) : Option (List Nat) :=
  match te with
  | .base64 => Base64.decodeLenient (raw.map Char.ofNat)   -- `base64.b64decode(content)`, not validating: line breaks of a folded body are skipped
  | .binary => some (stripCRLF raw)
  | .other => some raw

end Zeep.MultiRef
