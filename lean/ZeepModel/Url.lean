/-
Engine U — model of the force_https machinery.

  zeep.wsdl.utils.url_http_to_https      (rsplit(":", 1) on the netloc, drop "80")
  zeep.loader.normalize_location         (same netloc, differing scheme → https)
  zeep.wsdl.definitions.Port.resolve     (force := settings.force_https ∧ scheme(location) = https)

`urlparse` / `urlunparse` / `urljoin` are external: the model works on the six-field record they
produce (scheme already lower-cased by `urlparse`).
-/
namespace Zeep.Url

abbrev Str := List Char

structure Url6 where
  scheme : Str
  netloc : Str
  path : Str
  params : Str
  query : Str
  fragment : Str
deriving Repr, DecidableEq

/-- `s.rsplit(":", 1)`: `some (before, after)` at the last colon, `none` when there is none -/
def rsplitColon : Str → Option (Str × Str)
  | [] => none
  | c :: cs =>
    match rsplitColon cs with
    | some (a, b) => some (c :: a, b)
    | none => if c = ':' then some ([], cs) else none

def http : Str := "http".toList
def https : Str := "https".toList
def p80 : Str := "80".toList

/-- `url_http_to_https` on the parsed record -/
def httpToHttps (u : Url6) : Url6 :=
  if u.scheme ≠ http then u else
  let netloc :=
    match rsplitColon u.netloc with
    | some (host, port) => if port = p80 then host else u.netloc
    | none => u.netloc
  { u with scheme := https, netloc := netloc }

/-- the rewriting part of `normalize_location`, after the reference was made absolute -/
def normalize (forceHttps : Bool) (base : Option Url6) (u : Url6) : Url6 :=
  match base with
  | none => u
  | some b =>
    if forceHttps && (b.netloc == u.netloc) && (b.scheme != u.scheme) then { u with scheme := https }
    else u

/-- `Port.resolve`: is the address rewritten? `wsdlScheme = none` for a WSDL without location -/
def portForce (forceHttps : Bool) (wsdlScheme : Option Str) : Bool :=
  match wsdlScheme with
  | some s => forceHttps && (s == https)
  | none => false

def portAddress (forceHttps : Bool) (wsdlScheme : Option Str) (addr : Url6) : Url6 :=
  if portForce forceHttps wsdlScheme then httpToHttps addr else addr

/-- netloc structure `[userinfo@]host[:port]` -/
structure Netloc where
  userinfo : Option Str
  host : Str
  port : Option Str
deriving Repr, DecidableEq

def Netloc.render (n : Netloc) : Str :=
  (match n.userinfo with | some u => u ++ ['@'] | none => []) ++ n.host ++
  (match n.port with | some p => ':' :: p | none => [])

end Zeep.Url
