/-
Engine X — the XML hardening policy of `zeep.loader.parse_xml`.

    parser = XMLParser(remove_comments=True, resolve_entities=False, recover=not strict, huge_tree=…)
    tree = fromstring(content, parser)           -- XMLSyntaxError -> zeep XMLSyntaxError
    if docinfo.doctype and forbid_dtd:            raise DTDForbidden
    if forbid_entities and (internal or loaded external subset declares an entity): raise EntitiesForbidden

What libxml2 reports about a document is the record `DocInfo` (external: trusted, exercised by
the tie).  `forbid_external` is not consulted by the code: no parser option that loads external
subsets or resolves entities is ever switched on.
-/
namespace Zeep.Loader

structure Policy where
  forbidDtd : Bool
  forbidEntities : Bool
  forbidExternal : Bool
  strict : Bool
  hugeTree : Bool
deriving Repr, DecidableEq

def Policy.default : Policy := ⟨false, true, true, true, false⟩

structure DocInfo where
  wellFormed : Bool          -- libxml2 yields a tree under the chosen recover mode
  hasDoctype : Bool
  declaresEntities : Bool    -- the internal subset declares at least one (general or parameter) entity
deriving Repr, DecidableEq

inductive Outcome where
  | syntaxError | dtdForbidden | entitiesForbidden | accepted
deriving Repr, DecidableEq

def policy (p : Policy) (d : DocInfo) : Outcome :=
  if !d.wellFormed then .syntaxError
  else if d.hasDoctype && p.forbidDtd then .dtdForbidden
  else if p.forbidEntities && d.declaresEntities then .entitiesForbidden
  else .accepted

/-- the parser entry an ingress path uses -/
inductive Entry where
  | parseXml        -- zeep.loader.parse_xml (directly, or through load_external / _get_xml_document)
  | bare            -- any other parser construction
deriving Repr, DecidableEq

/-- outcome of a document arriving on a path: the policy applies iff the path goes through `parse_xml` -/
def outcomeVia (e : Entry) (p : Policy) (d : DocInfo) : Outcome :=
  match e with
  | .parseXml => policy p d
  | .bare => if d.wellFormed then .accepted else .syntaxError

end Zeep.Loader
