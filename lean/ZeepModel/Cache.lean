import ZeepModel.Lex.Base64
/-
Engine K — model of `zeep.cache` (SqliteCache, InMemoryCache) and of `Transport.load`.

  add(url, content):  DELETE rows of url; INSERT (now, url, version-prefix ++ b64(content))
  get(url):           first row of url; expired ⇔ timeout ≠ None ∧ now > created + timeout;
                      data must start with the reader's version prefix, then b64-decoded
  InMemoryCache:      dict url ↦ (now, content): the same machine without prefix / base64
  Transport.load:     get, else fetch remotely and add

Instants and timeouts are naturals in one unit (microseconds in the tie).
-/
namespace Zeep.Cache

abbrev Url := Nat
abbrev Bytes := List Nat
abbrev Instant := Nat

inductive Backend where
  | sqlite (version : List Char)     -- reader/writer on-disk format version (`_version`)
  | memory
deriving Repr, DecidableEq

structure Row where
  created : Instant
  url : Url
  data : List Char ⊕ Bytes      -- sqlite stores text; memory stores the bytes themselves
deriving Repr

abbrev Db := List Row

/-- `$ZEEP:<version>$` -/
def prefixOf (v : List Char) : List Char := "$ZEEP:".toList ++ v ++ ['$']

def encodeData (b : Backend) (content : Bytes) : List Char ⊕ Bytes :=
  match b with
  | .sqlite v => .inl (prefixOf v ++ Base64.encode content)
  | .memory => .inr content

def stripPrefix (p : List Char) (s : List Char) : Option (List Char) :=
  if p.isPrefixOf s then some (s.drop p.length) else none

def decodeData (b : Backend) (d : List Char ⊕ Bytes) : Option Bytes :=
  match b, d with
  | .sqlite v, .inl s =>
    match stripPrefix (prefixOf v) s with
    | some rest => Base64.decode rest
    | none => none
  | .memory, .inr c => some c
  | _, _ => none

def expired (created now : Instant) (timeout : Option Nat) : Bool :=
  match timeout with
  | none => false
  | some t => decide (now > created + t)

def add (db : Db) (b : Backend) (url : Url) (content : Bytes) (now : Instant) : Db :=
  db.filter (fun r => r.url != url) ++ [⟨now, url, encodeData b content⟩]

def get (db : Db) (b : Backend) (url : Url) (now : Instant) (timeout : Option Nat) : Option Bytes :=
  match db.find? (fun r => r.url == url) with
  | some r => if expired r.created now timeout then none else decodeData b r.data
  | none => none

/-- operations of a history; every operation carries the clock value at which it runs -/
inductive Op where
  | add (b : Backend) (url : Url) (content : Bytes) (now : Instant)
  | get (b : Backend) (url : Url) (now : Instant) (timeout : Option Nat)
  | load (b : Backend) (url : Url) (remote : Bytes) (now : Instant) (timeout : Option Nat)
      -- Transport.load with a cache: `remote` is what the server would answer now
deriving Repr

inductive Out where
  | none
  | got (r : Option Bytes)
  | loaded (content : Bytes) (fetched : Bool)
deriving Repr, DecidableEq

def step (db : Db) : Op → Db × Out
  | .add b u c now => (add db b u c now, .none)
  | .get b u now to => (db, .got (get db b u now to))
  | .load b u remote now to =>
    match get db b u now to with
    | some c => (db, .loaded c false)
    | none => (add db b u remote now, .loaded remote true)

def run (db : Db) : List Op → Db × List Out
  | [] => (db, [])
  | o :: os =>
    let (db1, r) := step db o
    let (db2, rs) := run db1 os
    (db2, r :: rs)

/-! ### specification: for each url the latest store -/

structure Stored where
  at_ : Instant
  by_ : Backend
  content : Bytes
deriving Repr

abbrev Spec := Url → Option Stored

def sget (s : Spec) (b : Backend) (u : Url) (now : Instant) (to : Option Nat) : Option Bytes :=
  match s u with
  | some st => if expired st.at_ now to then none else if st.by_ = b then some st.content else none
  | none => none

def sadd (s : Spec) (b : Backend) (u : Url) (c : Bytes) (now : Instant) : Spec :=
  fun x => if x = u then some ⟨now, b, c⟩ else s x

def sstep (s : Spec) : Op → Spec × Out
  | .add b u c now => (sadd s b u c now, .none)
  | .get b u now to => (s, .got (sget s b u now to))
  | .load b u remote now to =>
    match sget s b u now to with
    | some c => (s, .loaded c false)
    | none => (sadd s b u remote now, .loaded remote true)

def srun (s : Spec) : List Op → Spec × List Out
  | [] => (s, [])
  | o :: os =>
    let (s1, r) := sstep s o
    let (s2, rs) := srun s1 os
    (s2, r :: rs)

end Zeep.Cache
