/-
Engine A — the keyword pass of `zeep.xsd.valueobjects._process_signature` for complex types whose
content is a non-repeating sequence of element declarations and non-repeating `xsd:choice`s of
element declarations, called with keywords only (the "choice elements specified directly in the
kwargs" path of `Choice.parse_kwargs`, the `else` branch of `OrderIndicator.parse_kwargs`,
`AnySimpleType.parse_kwargs` / `ComplexType.parse_kwargs` for a member).

The model follows the code statement by statement: `available_kwargs` is a duplicate-free list (the
key set of the call), every `parse_kwargs` returns its sub-result and the new `available_kwargs`;
`copy.copy(available_kwargs)` / `intersection_update` of `Choice.parse_kwargs` are kept as they are
written, because whether a rejected branch "gives its keys back" is exactly what they decide.
-/
namespace Zeep.BindKw

/-- what is passed for a key, as far as `_has_value` can tell: `None`, an empty collection, or a value -/
inductive Val where
  | none
  | empty
  | leaf (text : String)
deriving Repr, DecidableEq, Inhabited

/-- `_has_value` -/
def Val.has : Val → Bool
  | .leaf _ => true
  | _ => false

abbrev Kw := List (String × Val)

inductive Item where
  | elem (name : String)
  | choice (branches : List String)
deriving Repr, DecidableEq, Inhabited

def Item.names : Item → List String
  | .elem n => [n]
  | .choice bs => bs

def allNames (items : List Item) : List String := items.flatMap Item.names

def keys (kw : Kw) : List String := kw.map (·.1)

/-- `dict.update` -/
def upd (res sub : Kw) : Kw := res.filter (fun kv => !(keys sub).contains kv.1) ++ sub

/-- `result.setdefault(name, None)` for every name -/
def setDefaults (res : Kw) : List String → Kw
  | [] => res
  | n :: ns => setDefaults (if (keys res).contains n then res else res ++ [(n, .none)]) ns

/-- `AnySimpleType.parse_kwargs` / `ComplexType.parse_kwargs` for the member called `name` -/
def elemKw (kw : Kw) (name : String) (avail : List String) : Kw × List String :=
  if avail.contains name then
    match kw.lookup name with
    | some v => ([(name, v)], avail.erase name)
    | none => ([], avail)          -- `kwargs[name]` would raise KeyError: not reachable, `available_kwargs ⊆ kwargs`
  else ([], avail)

structure CState where
  avail : List String
  result : Kw
  found : Bool
deriving Repr

/-- one iteration of `for name, choice in self.elements_nested` of `Choice.parse_kwargs` (direct use) -/
def choiceStep (kw : Kw) (st : CState) (b : String) : CState :=
  let temp := st.avail                                  -- temp_kwargs = copy.copy(available_kwargs)
  let r := elemKw kw b temp                             -- subresult = choice.parse_kwargs(kwargs, name, temp_kwargs)
  if r.1.isEmpty then st
  else if !(r.1.any fun kv => kv.2.has) then
    { st with avail := st.avail.filter r.2.contains, result := upd st.result r.1 }
  else if !st.found then
    { avail := st.avail.filter r.2.contains, result := upd st.result r.1, found := true }
  else st

def choiceKw (kw : Kw) (bs : List String) (avail : List String) : Kw × List String :=
  let st := bs.foldl (choiceStep kw) ⟨avail, [], false⟩
  if st.found then (setDefaults st.result bs, st.avail) else ([], st.avail)

def itemKw (kw : Kw) (avail : List String) : Item → Kw × List String
  | .elem n => elemKw kw n avail
  | .choice bs => choiceKw kw bs avail

/-- the `else` branch of `OrderIndicator.parse_kwargs` (a non-repeating sequence) -/
def seqKw (kw : Kw) : List Item → Kw × List String → Kw × List String
  | [], st => st
  | it :: rest, (res, avail) =>
    let r := itemKw kw avail it
    seqKw kw rest (if r.1.isEmpty then res else upd res r.1, r.2)

/-- the attribute loop of `_process_signature` -/
def attrKw (kw : Kw) : List String → Kw × List String → Kw × List String
  | [], st => st
  | a :: rest, (res, avail) =>
    if avail.contains a then
      match kw.lookup a with
      | some v => attrKw kw rest (upd res [(a, v)], avail.erase a)
      | none => attrKw kw rest (res, avail)
    else attrKw kw rest (res, avail)

inductive KwErr where
  | unexpectedKeyword (key : String)
deriving Repr, DecidableEq

/-- `_process_signature(xsd_type, (), kwargs)`: the bound fields, or the TypeError for a keyword nothing took -/
def processKw (items : List Item) (attrs : List String) (kw : Kw) : Except KwErr Kw :=
  let r := attrKw kw attrs (seqKw kw items ([], keys kw))
  match r.2 with
  | [] => .ok r.1
  | k :: _ => .error (.unexpectedKeyword k)

end Zeep.BindKw
