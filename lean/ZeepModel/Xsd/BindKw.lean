/-
Engine A — the keyword pass of `zeep.xsd.valueobjects._process_signature` for complex types whose
content is a non-repeating sequence of element declarations and non-repeating `xsd:choice`s of
element declarations or of non-repeating sequences of element declarations, called with keywords only (the "choice elements specified directly in the
kwargs" path of `Choice.parse_kwargs`, the `else` branch of `OrderIndicator.parse_kwargs`,
`AnySimpleType.parse_kwargs` / `ComplexType.parse_kwargs` for a member).

The model follows the code statement by statement: `available_kwargs` is a duplicate-free list (the
key set of the call), every `parse_kwargs` returns its sub-result and the new `available_kwargs`;
`copy.copy(available_kwargs)` / `intersection_update` of `Choice.parse_kwargs` are kept as they are
written, because whether a rejected branch "gives its keys back" is exactly what they decide.
-/
namespace Zeep.BindKw

/-- what is passed for a key, as far as `_has_value` can tell: `None`, an empty collection, or a value -/
inductive Val where
  | none
  | empty
  | leaf (text : String)
deriving Repr, DecidableEq, Inhabited

/-- `_has_value` -/
def Val.has : Val → Bool
  | .leaf _ => true
  | _ => false

abbrev Kw := List (String × Val)

/-- a branch of a choice: a single element declaration (one name) or a non-repeating sequence of element declarations -/
abbrev Branch := List String

inductive Item where
  | elem (name : String)
  | choice (branches : List Branch)
deriving Repr, DecidableEq, Inhabited

def Item.names : Item → List String
  | .elem n => [n]
  | .choice bs => bs.flatten

def allNames (items : List Item) : List String := items.flatMap Item.names

def keys (kw : Kw) : List String := kw.map (·.1)

/-- `dict.update` -/
def upd (res sub : Kw) : Kw := res.filter (fun kv => !(keys sub).contains kv.1) ++ sub

/-- `result.setdefault(name, None)` for every name -/
def setDefaults (res : Kw) : List String → Kw
  | [] => res
  | n :: ns => setDefaults (if (keys res).contains n then res else res ++ [(n, .none)]) ns

/-- `AnySimpleType.parse_kwargs` / `ComplexType.parse_kwargs` for the member called `name` -/
def elemKw (kw : Kw) (name : String) (avail : List String) : Kw × List String :=
  if avail.contains name then
    match kw.lookup name with
    | some v => ([(name, v)], avail.erase name)
    | none => ([], avail)          -- `kwargs[name]` would raise KeyError: not reachable, `available_kwargs ⊆ kwargs`
  else ([], avail)

structure CState where
  avail : List String
  result : Kw
  found : Bool
deriving Repr

/-- `parse_kwargs` of one branch: of the element declaration, or the `else` branch of `OrderIndicator.parse_kwargs` for a
non-repeating sequence of element declarations (members in order, `result.update(sub_result)` when it is not empty) -/
def branchKw (kw : Kw) : Branch → Kw × List String → Kw × List String
  | [], st => st
  | n :: ns, (res, avail) =>
    let r := elemKw kw n avail
    branchKw kw ns (if r.1.isEmpty then res else upd res r.1, r.2)

/-- one iteration of `for name, choice in self.elements_nested` of `Choice.parse_kwargs` (direct use) -/
def choiceStep (kw : Kw) (st : CState) (b : Branch) : CState :=
  let temp := st.avail                                  -- temp_kwargs = copy.copy(available_kwargs)
  let r := branchKw kw b ([], temp)                     -- subresult = choice.parse_kwargs(kwargs, name, temp_kwargs)
  if r.1.isEmpty then st
  else if !(r.1.any fun kv => kv.2.has) then
    { st with avail := st.avail.filter r.2.contains, result := upd st.result r.1 }
  else if !st.found then
    { avail := st.avail.filter r.2.contains, result := upd st.result r.1, found := true }
  else st

def choiceKw (kw : Kw) (bs : List Branch) (avail : List String) : Kw × List String :=
  let st := bs.foldl (choiceStep kw) ⟨avail, [], false⟩
  -- `for choice_name, choice in self.elements: result.setdefault(choice_name, None)`: the flattened member names
  if st.found then (setDefaults st.result bs.flatten, st.avail) else ([], st.avail)

def itemKw (kw : Kw) (avail : List String) : Item → Kw × List String
  | .elem n => elemKw kw n avail
  | .choice bs => choiceKw kw bs avail

/-- the `else` branch of `OrderIndicator.parse_kwargs` (a non-repeating sequence) -/
def seqKw (kw : Kw) : List Item → Kw × List String → Kw × List String
  | [], st => st
  | it :: rest, (res, avail) =>
    let r := itemKw kw avail it
    seqKw kw rest (if r.1.isEmpty then res else upd res r.1, r.2)

/-- the attribute loop of `_process_signature` -/
def attrKw (kw : Kw) : List String → Kw × List String → Kw × List String
  | [], st => st
  | a :: rest, (res, avail) =>
    if avail.contains a then
      match kw.lookup a with
      | some v => attrKw kw rest (upd res [(a, v)], avail.erase a)
      | none => attrKw kw rest (res, avail)
    else attrKw kw rest (res, avail)

inductive KwErr where
  | unexpectedKeyword (key : String)
deriving Repr, DecidableEq

/-- `_process_signature(xsd_type, (), kwargs)`: the bound fields, or the TypeError for a keyword nothing took -/
def processKw (items : List Item) (attrs : List String) (kw : Kw) : Except KwErr Kw :=
  let r := attrKw kw attrs (seqKw kw items ([], keys kw))
  match r.2 with
  | [] => .ok r.1
  | k :: _ => .error (.unexpectedKeyword k)


/-! ## rendering a non-repeating choice from the bound fields (`Choice.render`, `_find_element_to_render`,
`Sequence.accept`, `OrderIndicator.render` for a branch) -/

structure Member where
  name : String
  optional : Bool
deriving Repr, DecidableEq

/-- a branch with the occurrence information rendering needs -/
abbrev RBranch := List Member

def RBranch.names (b : RBranch) : Branch := b.map (·.name)

/-- `name in value and value[name] is not None` -/
def given (fields : Kw) (n : String) : Bool :=
  match fields.lookup n with
  | some v => v != .none
  | none => false

/-- the score of a branch in `_find_element_to_render`: 1 for an element whose value is not None, `Sequence.accept(value)`
(the number of members whose value is not None) for a sequence -/
def score (fields : Kw) (b : RBranch) : Nat := (b.filter fun m => given fields m.name).length

/-- `sorted(matches, key=itemgetter(0), reverse=True)[0]`: the first branch with the highest positive score (the sort is stable) -/
def best (fields : Kw) : List RBranch → Option RBranch
  | [] => none
  | b :: bs =>
    match best fields bs with
    | none => if score fields b > 0 then some b else none
    | some c => if score fields b ≥ score fields c then some b else some c

inductive RErr where
  | validation                      -- ValidationError("Missing element ...") / ("Missing choice values")
deriving Repr, DecidableEq

/-- one member of the chosen branch: `if element_value is not None or not element.is_optional: element.render(...)`, which
raises for a required member without value -/
def renderMember (fields : Kw) (m : Member) : Except RErr (List (String × Val)) :=
  match fields.lookup m.name with
  | some .none | none => if m.optional then .ok [] else .error .validation
  | some v => .ok [(m.name, v)]

def renderBranch (fields : Kw) : RBranch → Except RErr (List (String × Val))
  | [] => .ok []
  | m :: ms =>
    match renderMember fields m, renderBranch fields ms with
    | .ok a, .ok b => .ok (a ++ b)
    | .error e, _ => .error e
    | _, .error e => .error e

/-- `Choice.render` for a non-repeating choice: validate ("Missing choice values" unless the choice is optional), then render the
best matching branch -/
def renderChoice (fields : Kw) (bs : List RBranch) (optionalChoice : Bool) : Except RErr (List (String × Val)) :=
  match best fields bs with
  | none => if optionalChoice then .ok [] else .error .validation
  | some b => renderBranch fields b

end Zeep.BindKw
