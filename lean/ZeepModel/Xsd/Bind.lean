import ZeepModel.Xsd.Parse
/-
Engine A — the argument binder and the render-time validation of `zeep.xsd`
(`valueobjects._process_signature`, `parse_kwargs` of Sequence / Element, `ComplexType._create_object`,
`Element.validate`, `Attribute.validate`, `OrderIndicator.validate`) on the *record family*: complex
types whose content is a sequence of element declarations (leaf or record typed, any occurrence
bounds, nillable or not) and repeated sequences of element declarations (`_value_N`), with
attributes.  `call` is "construct the value object, then render it": the result is the element
that would be sent, or the class of the error raised before anything is sent.
-/
namespace Zeep.Bind
open Zeep Zeep.Xsd

/-- what a caller can pass for one field (scalars already in lexical form) -/
inductive Arg where
  | leaf (text : String)
  | none                                   -- `None`
  | nil                                    -- `xsd.Nil`
  | skip                                   -- `xsd.SkipValue`
  | list (xs : List Arg)
  | dict (kvs : List (String × Arg))       -- a dict or a value object built from the same items
deriving Repr, Inhabited

structure BAttr where
  name : String
  required : Bool
deriving Repr, DecidableEq

mutual
inductive BTy where
  | leaf
  | record (fields : List BField) (attrs : List BAttr)
inductive BField where
  | elem (name : String) (min : Nat) (max : Occ) (nillable : Bool) (ty : BTy)
  | rseq (name : String) (min : Nat) (max : Occ) (fields : List BField)     -- repeated sequence, keyword `_value_N`
end

def BField.name : BField → String
  | .elem n _ _ _ _ => n
  | .rseq n _ _ _ => n

inductive BErr where
  | typeError          -- TypeError while constructing the value object
  | validation         -- ValidationError while rendering
  | unsupported        -- a shape the model does not cover (never produced by the tie's generator)
deriving Repr, DecidableEq

def XSI : String := "http://www.w3.org/2001/XMLSchema-instance"

def nilNode (tag : String) : Node := .mk ⟨none, tag⟩ [(⟨some XSI, "nil"⟩, "true")] none []

def fieldNames (fs : List BField) : List String := fs.map BField.name
def attrNames (as : List BAttr) : List String := as.map BAttr.name

/-- every key of the dict names a field or an attribute -/
def keysDeclared (fs : List BField) (as : List BAttr) (kvs : List (String × Arg)) : Bool :=
  kvs.all fun kv => (fieldNames fs).contains kv.1 || (attrNames as).contains kv.1

/-! ### pass 1 — constructing the value object: every key, at every depth, must be declared -/
mutual
def keysOk : BTy → Arg → Bool
  | .leaf, _ => true
  | .record fs as, .dict kvs => keysDeclared fs as kvs && keysOkFields fs kvs
  | .record _ _, _ => true                 -- None / Nil / SkipValue / scalar: nothing to bind
def keysOkFields : List BField → List (String × Arg) → Bool
  | [], _ => true
  | f :: fs, kvs => keysOkField f (kvs.lookup f.name) && keysOkFields fs kvs
def keysOkField : BField → Option Arg → Bool
  | _, none => true
  | .elem _ _ _ _ ty, some (.list xs) => xs.all (keysOk ty)
  | .elem _ _ _ _ ty, some v => keysOk ty v
  | .rseq _ _ _ fs, some (.list xs) => xs.all fun x =>
      match x with
      | .dict kvs => keysDeclared fs [] kvs && keysOkFields fs kvs
      | _ => false                         -- "A list of dicts is expected"
  | .rseq _ _ _ fs, some (.dict kvs) => keysDeclared fs [] kvs && keysOkFields fs kvs
  | .rseq _ _ _ _, some _ => false
end

/-- one iteration of a repeated sequence -/
def keysOkIter (fs : List BField) : Arg → Bool
  | .dict kvs => keysDeclared fs [] kvs && keysOkFields fs kvs
  | _ => false

/-! ### pass 2 — rendering with validation -/

def withinBounds (min : Nat) (max : Occ) (n : Nat) : Bool :=
  decide (min ≤ n) && (match max with | .unbounded => true | .bounded m => decide (n ≤ m))

def collect {α} : List (Except BErr (List α)) → Except BErr (List α)
  | [] => .ok []
  | .error e :: _ => .error e
  | .ok a :: rest => match collect rest with
    | .ok b => .ok (a ++ b)
    | .error e => .error e

def emitAttr (kvs : List (String × Arg)) (a : BAttr) : Except BErr (List (QName × String)) :=
  match kvs.lookup a.name with
  | some (.leaf t) => .ok [(⟨none, a.name⟩, t)]
  | some .none | none => if a.required then .error .validation else .ok []
  | some _ => .error .unsupported

def emitAttrs (as : List BAttr) (kvs : List (String × Arg)) : Except BErr (List (QName × String)) :=
  collect (as.map (emitAttr kvs))

mutual
/-- one occurrence of an element of type `ty` carrying the (non-None) value `v` -/
def emitTy : BTy → String → Arg → Except BErr Node
  | .leaf, tag, .leaf t => .ok (.mk ⟨none, tag⟩ [] (some t) [])
  | .leaf, _, _ => .error .unsupported
  | .record fs as, tag, .dict kvs =>
    match emitFields fs kvs, emitAttrs as kvs with
    | .ok kids, .ok attrs => .ok (.mk ⟨none, tag⟩ attrs none kids)
    | .error e, _ => .error e
    | _, .error e => .error e
  | .record _ _, _, _ => .error .unsupported
def emitFields : List BField → List (String × Arg) → Except BErr (List Node)
  | [], _ => .ok []
  | f :: fs, kvs =>
    match emitField f (kvs.lookup f.name), emitFields fs kvs with
    | .ok a, .ok b => .ok (a ++ b)
    | .error e, _ => .error e
    | _, .error e => .error e
def emitField : BField → Option Arg → Except BErr (List Node)
  | .elem name min max nillable ty, v =>
    if max == .bounded 1 then
      -- single occurrence
      match v with
      | none | some .none =>
        if min == 0 then .ok []
        else if nillable then .ok [nilNode name]
        else .error .validation                                   -- "Missing element"
      | some .nil => .ok [nilNode name]
      | some .skip => .ok []
      | some (.list _) => .error .unsupported
      | some x => match emitTy ty name x with
        | .ok n => .ok [n]
        | .error e => .error e
    else
      match v with
      | none | some .none =>
        if withinBounds min max 0 then .ok [] else .error .validation
      | some (.list xs) =>
        if !withinBounds min max xs.length then .error .validation
        else collect (xs.map fun x =>
          match x with
          | .nil => .ok [nilNode name]
          | .none => if nillable then (if min == 0 then .ok [] else .ok [nilNode name]) else .error .validation
          | .skip | .list _ => .error .unsupported
          | x => match emitTy ty name x with
            | .ok n => .ok [n]
            | .error e => .error e)
      | some _ => .error .unsupported
  | .rseq _ min max fs, v =>
    match v with
    | none | some .none => if withinBounds min max 0 then .ok [] else .error .validation
    | some (.list xs) =>
      if !withinBounds min max xs.length then .error .validation
      else collect (xs.map fun x =>
        match x with
        | .dict kvs => emitFields fs kvs
        | _ => .error .unsupported)
    | some _ => .error .unsupported
end

/-- positional arguments fill the fields, then the attributes, in signature order -/
def bindPositional (names : List String) (pos : List Arg) : Option (List (String × Arg)) :=
  if pos.length ≤ names.length then some (names.zip pos) else none

/-- `element(*pos, **kw)` followed by `element.render`: the element sent, or the error class -/
def call (fs : List BField) (as : List BAttr) (tag : String) (pos : List Arg) (kw : List (String × Arg)) : Except BErr Node :=
  match bindPositional (fieldNames fs ++ attrNames as) pos with
  | none => .error .typeError                                       -- too many positional arguments
  | some bound =>
    if bound.any (fun b => (kw.lookup b.1).isSome) then .error .typeError      -- multiple values for an argument
    else
      let kvs := bound ++ kw
      if !keysOk (.record fs as) (.dict kvs) then .error .typeError
      else emitTy (.record fs as) tag (.dict kvs)

end Zeep.Bind
