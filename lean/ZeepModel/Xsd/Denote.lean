import ZeepModel.Xsd.Bind
/-
Engine A — what a signature and a call *denote* on the decoder's side: the schema (`toTy`) behind a
record signature of the binder model, and the instance tree (`itemOf`) behind a tree of call
arguments.  These are the definitions the value-level round-trip theorem
(ZeepProofs/C01Values.lean) is stated with; the driver's `bind.denote` exposes them so that every
run compares them with what zeep compiled and with the decode of what zeep rendered.
-/
namespace Zeep.Bind
open Zeep Zeep.Xsd

def attrDecl (a : BAttr) : AttrDecl := ⟨⟨none, a.name⟩, a.required⟩

mutual
/-- the schema a signature denotes -/
def toTy : BTy → Ty
  | .leaf => .simple
  | .record fs as => .complex (some (.seq (toPs fs) 1 (.bounded 1))) (as.map attrDecl) true
def toPs : List BField → List Particle
  | [] => []
  | f :: fs => toP f :: toPs fs
def toP : BField → Particle
  | .elem name min max _ ty => .elem ⟨none, name⟩ min max (toTy ty)
  | .rseq _ min max fs => .seq (toPs fs) min max
end

mutual
def noNillableTy : BTy → Bool
  | .leaf => true
  | .record fs _ => noNillableFs fs
def noNillableFs : List BField → Bool
  | [] => true
  | f :: fs => noNillableF f && noNillableFs fs
def noNillableF : BField → Bool
  | .elem _ _ _ nillable ty => !nillable && noNillableTy ty
  | .rseq _ _ _ fs => noNillableFs fs
end

mutual
/-- no `xsd.Nil` anywhere in the argument tree -/
def Arg.noNil : Arg → Bool
  | .nil => false
  | .list xs => Arg.noNilL xs
  | .dict kvs => Arg.noNilD kvs
  | _ => true
def Arg.noNilL : List Arg → Bool
  | [] => true
  | x :: xs => x.noNil && Arg.noNilL xs
def Arg.noNilD : List (String × Arg) → Bool
  | [] => true
  | (_, v) :: r => v.noNil && Arg.noNilD r
end

/-! ### the instance the arguments denote -/

def isEmptyInst : Inst → Bool
  | .elems [] => true
  | .seqR [] => true
  | _ => false

/-- the decoder stops at the end of the input: trailing members that contribute nothing have no instance -/
def trimEmpty : List Inst → List Inst
  | [] => []
  | i :: is =>
    let t := trimEmpty is
    if t.isEmpty && isEmptyInst i then [] else i :: t

/-- attribute values the call supplies, as emitted -/
def attrsOf (as : List BAttr) (kvs : List (String × Arg)) : List (QName × String) :=
  match emitAttrs as kvs with
  | .ok a => a
  | .error _ => []

mutual
def itemOf : BTy → Arg → Item
  | .leaf, .leaf t => .leaf (some t)
  | .leaf, _ => .leaf none
  | .record fs as, .dict kvs => .complex (attrsOf as kvs) (some (.seqR [trimEmpty (instsFull fs kvs)])) []
  | .record _ _, _ => .leaf none
/-- one instance per field, in signature order -/
def instsFull : List BField → List (String × Arg) → List Inst
  | [], _ => []
  | f :: fs, kvs => instOf f (kvs.lookup f.name) :: instsFull fs kvs
def instOf : BField → Option Arg → Inst
  | .elem _ _ max _ ty, v =>
    if max == .bounded 1 then
      match v with
      | some (.leaf t) => .elems [itemOf ty (.leaf t)]
      | some (.dict d) => .elems [itemOf ty (.dict d)]
      | _ => .elems []
    else
      match v with
      | some (.list xs) => .elems (xs.map (itemOf ty))
      | _ => .elems []
  | .rseq _ _ _ fs, v =>
    match v with
    | some (.list xs) => .seqR (xs.map fun x => match x with
        | .dict kvs => instsFull fs kvs
        | _ => [])
    | _ => .seqR []
end

end Zeep.Bind
