import ZeepModel.Xsd.BindKw
import ZeepModel.Xsd.Serialize
/-
Engine A — rendering a whole record from the fields a keyword call bound, for signatures of required elements and required
non-repeating choices between elements (`Element.render` with its "Missing element" check, `Choice.render`, which never raises for a missing choice), and the schema such
a signature stands for.  Used by `ZeepProofs/C01KwChoice.lean` (from the call to the XML and back) and by the driver op `bind.kwrecord`.
-/
namespace Zeep.BindKw
open Zeep Zeep.Xsd

def leafNode (n t : String) : Node := .mk ⟨none, n⟩ [] (some t) []

def pairNode : String × Val → List Node
  | (k, .leaf t) => [leafNode k t]
  | _ => []

/-- the branches with the occurrence information rendering needs: every member required -/
def rbOf (bs : List Branch) : List RBranch := bs.map fun b => b.map fun n => (⟨n, false⟩ : Member)

/-- `Element.render` / `Choice.render` of one member of the record from the bound fields -/
def renderItem (fields : Kw) : Item → Except RErr (List Node)
  | .elem n =>
    match fields.lookup n with
    | some (.leaf t) => .ok [leafNode n t]
    | _ => .error .validation                      -- "Missing element"
  | .choice bs =>
    -- `Choice.is_optional` is always True: a choice no branch of which was given a value writes nothing and raises nothing
    (renderChoice fields (rbOf bs) true).map fun out => out.flatMap pairNode

def renderRecord (fields : Kw) : List Item → Except RErr (List Node)
  | [] => .ok []
  | it :: rest =>
    match renderItem fields it, renderRecord fields rest with
    | .ok a, .ok b => .ok (a ++ b)
    | .error e, _ => .error e
    | _, .error e => .error e

def elemP (n : String) : Particle := .elem ⟨none, n⟩ 1 (.bounded 1) .simple

/-- the schema the signature stands for -/
def toParticle : Item → Particle
  | .elem n => elemP n
  | .choice bs => .choice (bs.map fun b => elemP (b.headD "")) 1 (.bounded 1)

def tyOf (items : List Item) : Ty := .complex (some (.seq (items.map toParticle) 1 (.bounded 1))) [] true

end Zeep.BindKw
