import ZeepModel.Xml
/-
Engine A — the greedy deque parser of `zeep.xsd` (`parse_xmlelements` of Element / Sequence /
Choice / All / Group / Any and `ComplexType.parse_xmlelement`), on schemas unfolded into trees
(an element carries its type; named types are unfolded as deep as the document needs).

The result is an *instance tree*: which nodes each declaration consumed — free of zeep's value
object conventions (field naming, flattening), which the tie applies on the Python side.

`gas` bounds the total number of steps; running out is the error `outOfGas` (C08 proves a bound
that does not depend on maxOccurs under which it never happens).
-/
namespace Zeep.Xsd
open Zeep

inductive Occ where
  | bounded (n : Nat)
  | unbounded
deriving Repr, DecidableEq

/-- `max_occurs_iter`: at most this many rounds -/
def Occ.limit : Occ → Nat
  | .bounded n => n
  | .unbounded => 2147483647

structure AttrDecl where
  q : QName
  required : Bool
deriving Repr, DecidableEq

mutual
inductive Particle where
  | elem (q : QName) (min : Nat) (max : Occ) (ty : Ty)
  | any (min : Nat) (max : Occ)
  | seq (ps : List Particle) (min : Nat) (max : Occ)
  | choice (ps : List Particle) (min : Nat) (max : Occ)
  | all (ps : List Particle) (consumeOther : Bool)
  | group (p : Particle) (min : Nat) (max : Occ)
inductive Ty where
  | simple
  | simpleContent (attrs : List AttrDecl)
  | complex (content : Option Particle) (attrs : List AttrDecl) (hasFields : Bool)
  | anyType
end

inductive Mode where | strict | lax
deriving Repr, DecidableEq

inductive Err where
  | unexpected          -- UnexpectedElementError (caught by Choice / Sequence / ComplexType)
  | xmlParse            -- XMLParseError: reaches the caller
  | typeError           -- a Python TypeError (lax mode: `dict.update(None)`)
  | outOfGas
deriving Repr, DecidableEq

mutual
/-- what a particle consumed -/
inductive Inst where
  | elems (items : List Item)
  | wild (nodes : List Node)
  | seqR (rounds : List (List Inst))
  | choiceR (rounds : List (Nat × Inst))
  | allR (members : List Inst) (other : List Node)
  | groupR (rounds : List Inst)
  | failed                                   -- lax mode: the child raised and was recorded as None
/-- what one element node decoded to -/
inductive Item where
  | leaf (text : Option String)
  | none_ (leaked : List Node)               -- `None`: empty type, or no children and no attributes
  | complex (attrs : List (QName × String)) (content : Option Inst) (raw : List Node)
  | simpleContent (text : Option String) (attrs : List (QName × String)) (leaked : List Node)
  | anyNode (n : Node)
end

structure Out (α : Type) where
  val : α
  rest : List Node
  calls : Nat            -- number of parse_xmlelements / parse_xmlelement invocations


def declaredAttrs (decls : List AttrDecl) (attrs : List (QName × String)) : List (QName × String) :=
  attrs.filter fun a => decls.any fun d => d.q == a.1

/-- full tags an `xsd:all` collects -/
def memberTags : List Particle → List QName
  | [] => []
  | .elem q _ _ _ :: ps => q :: memberTags ps
  | _ :: ps => memberTags ps

/-- distinct tags of a node list, in order of first appearance (`values` of `All.parse_xmlelements`
is a dict keyed by tag: insertion order) -/
def tagsInOrder : List Node → List QName → List QName
  | [], _ => []
  | x :: xs, seen => if seen.contains x.tag then tagsInOrder xs seen else x.tag :: tagsInOrder xs (x.tag :: seen)

/-- the per-tag queues of an `xsd:all`, concatenated in dict order -/
def byTag (order : List QName) (pool : List Node) : List Node :=
  order.flatMap fun t => pool.filter fun x => x.tag == t

def Particle.isOrderIndicator : Particle → Bool
  | .seq .. => true
  | .choice .. => true
  | .all .. => true
  | _ => false

mutual
/-- `parse_xmlelements` of a particle on the deque `xs` -/
def parseP : Nat → Mode → Particle → List Node → Except Err (Out Inst)
  | 0, _, _, _ => .error .outOfGas
  | gas + 1, m, .elem q min max ty, xs => do
    let r ← elemLoop gas m q min ty max.limit 0 xs
    pure ⟨.elems r.val, r.rest, r.calls + 1⟩
  | _ + 1, _, .any _ max, xs =>
    let n := Nat.min max.limit xs.length
    pure ⟨.wild (xs.take n), xs.drop n, 1⟩
  | gas + 1, m, .seq ps min max, xs => do
    let r ← seqLoop gas m ps min max.limit 0 xs
    pure ⟨.seqR r.val, r.rest, r.calls + 1⟩
  | gas + 1, m, .choice ps _ max, xs => do
    let r ← choiceLoop gas m ps max.limit xs
    pure ⟨.choiceR r.val, r.rest, r.calls + 1⟩
  | gas + 1, m, .all ps consumeOther, xs => do
    let tags := memberTags ps
    let mine := xs.filter fun x => tags.contains x.tag
    let others := xs.filter fun x => !(tags.contains x.tag)
    let r ← allMembers gas m ps mine
    -- what the members did not consume (occurrences beyond maxOccurs) is handed back to the deque
    let back := others ++ byTag (tagsInOrder mine []) r.rest
    if consumeOther then pure ⟨.allR r.val back, [], r.calls + 1⟩
    else pure ⟨.allR r.val [], back, r.calls + 1⟩
  | gas + 1, m, .group p _ max, xs => do
    let r ← groupLoop gas m p max.limit xs
    pure ⟨.groupR r.val, r.rest, r.calls + 1⟩

/-- `Element.parse_xmlelements`: up to `n` rounds -/
def elemLoop : Nat → Mode → QName → Nat → Ty → Nat → Nat → List Node → Except Err (Out (List Item))
  | 0, _, _, _, _, _, _, _ => .error .outOfGas
  | _ + 1, _, _, _, _, 0, _, xs => pure ⟨[], xs, 0⟩
  | _ + 1, _, _, _, _, _ + 1, _, [] => pure ⟨[], [], 0⟩
  | gas + 1, m, q, min, ty, n + 1, nmatch, x :: xs =>
    if x.tag.ns.isSome && q.ns.isSome && x.tag.ns != q.ns && m == .strict then pure ⟨[], x :: xs, 0⟩
    else if x.tag.name == q.name then do
      let it ← parseNode gas m true ty x
      let r ← elemLoop gas m q min ty n (nmatch + 1) xs
      pure ⟨it.val :: r.val, r.rest, it.calls + r.calls⟩
    else if nmatch == 0 && min != 0 then .error .unexpected
    else pure ⟨[], x :: xs, 0⟩

/-- `Element.parse` → `type.parse_xmlelement` on one node -/
def parseNode : Nat → Mode → Bool → Ty → Node → Except Err (Out Item)
  | 0, _, _, _, _ => .error .outOfGas
  | _ + 1, _, _, .simple, x => pure ⟨.leaf x.text, [], 1⟩
  | _ + 1, _, _, .anyType, x => pure ⟨.anyNode x, [], 1⟩
  | _ + 1, _, _, .simpleContent decls, x => pure ⟨.simpleContent x.text (declaredAttrs decls x.attrs) x.kids, [], 2⟩
  | gas + 1, m, allowNone, .complex content decls hasFields, x =>
    if !hasFields then pure ⟨.none_ x.kids, [], 1⟩
    else if allowNone && x.kids.isEmpty && x.attrs.isEmpty then pure ⟨.none_ [], [], 1⟩
    else
      match content with
      | none =>
        if x.kids.isEmpty then pure ⟨.complex (declaredAttrs decls x.attrs) none [], [], 1⟩
        else if m == .strict then .error .xmlParse
        else pure ⟨.complex (declaredAttrs decls x.attrs) none x.kids, [], 1⟩
      | some p =>
        match parseP gas m p x.kids with
        | .error .unexpected => .error .xmlParse
        | .error e => .error e
        | .ok r =>
          if r.rest.isEmpty then pure ⟨.complex (declaredAttrs decls x.attrs) (some r.val) [], [], r.calls + 1⟩
          else if m == .strict then .error .xmlParse
          else pure ⟨.complex (declaredAttrs decls x.attrs) (some r.val) r.rest, [], r.calls + 1⟩

/-- `Sequence.parse_xmlelements`: up to `n` rounds; `done` rounds are already kept -/
def seqLoop : Nat → Mode → List Particle → Nat → Nat → Nat → List Node → Except Err (Out (List (List Inst)))
  | 0, _, _, _, _, _, _ => .error .outOfGas
  | _ + 1, _, _, _, 0, _, xs => pure ⟨[], xs, 0⟩
  | _ + 1, _, _, _, _ + 1, _, [] => pure ⟨[], [], 0⟩
  | gas + 1, m, ps, min, n + 1, done, x :: xs => do
    let r ← seqRound gas m ps (decide (done ≥ min)) (x :: xs).length (x :: xs)
    match r.val with
    | none => pure ⟨[], x :: xs, r.calls⟩                        -- end of repetition: nothing consumed
    | some round =>
      if r.rest.length == (x :: xs).length then pure ⟨[], r.rest, r.calls⟩   -- no progress: round not kept
      else do
        let more ← seqLoop gas m ps min n (done + 1) r.rest
        pure ⟨round :: more.val, more.rest, r.calls + more.calls⟩

/-- one round over the children; `none` = the repetition has ended (first failure with nothing consumed) -/
def seqRound : Nat → Mode → List Particle → Bool → Nat → List Node → Except Err (Out (Option (List Inst)))
  | 0, _, _, _, _, _ => .error .outOfGas
  | _ + 1, _, [], _, _, xs => pure ⟨some [], xs, 0⟩
  | gas + 1, m, p :: ps, mayEnd, startLen, xs =>
    match parseP gas m p xs with
    | .error .unexpected =>
      if mayEnd && xs.length == startLen then pure ⟨none, xs, 1⟩
      else if m == .strict then .error .unexpected
      else if xs.isEmpty then pure ⟨some [.failed], xs, 1⟩
      else do
        let r ← seqRound gas m ps mayEnd startLen xs
        pure ⟨r.val.map (Inst.failed :: ·), r.rest, r.calls + 1⟩
    | .error e => .error e
    | .ok r =>
      if r.rest.isEmpty then pure ⟨some [r.val], [], r.calls⟩
      else do
        let more ← seqRound gas m ps mayEnd startLen r.rest
        pure ⟨more.val.map (r.val :: ·), more.rest, r.calls + more.calls⟩

/-- `Choice.parse_xmlelements`: per round every branch runs on a copy; the first with the largest
positive consumption wins -/
def choiceLoop : Nat → Mode → List Particle → Nat → List Node → Except Err (Out (List (Nat × Inst)))
  | 0, _, _, _, _ => .error .outOfGas
  | _ + 1, _, _, 0, xs => pure ⟨[], xs, 0⟩
  | _ + 1, _, _, _ + 1, [] => pure ⟨[], [], 0⟩
  | gas + 1, m, ps, n + 1, x :: xs => do
    let opts ← choiceOptions gas m ps 0 (x :: xs)
    match opts.val with
    | none => pure ⟨[], x :: xs, opts.calls⟩
    | some (i, inst, consumed) => do
      let more ← choiceLoop gas m ps n ((x :: xs).drop consumed)
      pure ⟨(i, inst) :: more.val, more.rest, opts.calls + more.calls⟩

/-- best option among the branches from index `i` on: (branch, instance, nodes consumed) -/
def choiceOptions : Nat → Mode → List Particle → Nat → List Node → Except Err (Out (Option (Nat × Inst × Nat)))
  | 0, _, _, _, _ => .error .outOfGas
  | _ + 1, _, [], _, xs => pure ⟨none, xs, 0⟩
  | gas + 1, m, p :: ps, i, xs =>
    match parseP gas m p xs with
    | .error .unexpected => do
      let r ← choiceOptions gas m ps (i + 1) xs
      pure ⟨r.val, xs, r.calls + 1⟩
    | .error e => .error e
    | .ok r => do
      let consumed := xs.length - r.rest.length
      let others ← choiceOptions gas m ps (i + 1) xs
      let best :=
        match others.val with
        | some (j, inst, c) => if consumed ≥ c && consumed > 0 then some (i, r.val, consumed) else some (j, inst, c)
        | none => if consumed > 0 then some (i, r.val, consumed) else none
      pure ⟨best, xs, r.calls + others.calls⟩

/-- members of an `xsd:all`, each on the queue of nodes carrying its tag (`values[tag]`: one queue
per tag, shared by members that carry the same tag); `rest` is what is left in the queues -/
def allMembers : Nat → Mode → List Particle → List Node → Except Err (Out (List Inst))
  | 0, _, _, _ => .error .outOfGas
  | _ + 1, _, [], pool => pure ⟨[], pool, 0⟩
  | gas + 1, m, p :: ps, pool =>
    match p with
    | .elem q _ _ _ =>
      let sub := pool.filter fun x => x.tag == q
      if sub.isEmpty then do
        let r ← allMembers gas m ps pool
        pure ⟨.elems [] :: r.val, r.rest, r.calls⟩
      else do
        let mine ← parseP gas m p sub
        let r ← allMembers gas m ps ((pool.filter fun x => !(x.tag == q)) ++ mine.rest)
        pure ⟨mine.val :: r.val, r.rest, mine.calls + r.calls⟩
    | _ => do
      let r ← allMembers gas m ps pool
      pure ⟨.failed :: r.val, r.rest, r.calls⟩

/-- `Group.parse_xmlelements` -/
def groupLoop : Nat → Mode → Particle → Nat → List Node → Except Err (Out (List Inst))
  | 0, _, _, _, _ => .error .outOfGas
  | _ + 1, _, _, 0, xs => pure ⟨[], xs, 0⟩
  | gas + 1, m, p, n + 1, xs => do
    let r ← parseP gas m p xs
    if r.rest.isEmpty || r.rest.length == xs.length then pure ⟨[r.val], r.rest, r.calls⟩
    else do
      let more ← groupLoop gas m p n r.rest
      pure ⟨r.val :: more.val, more.rest, r.calls + more.calls⟩
end

/-- decode a whole element (`Element.parse` at the root: `allow_none` is off there) -/
def parseRoot (gas : Nat) (m : Mode) (ty : Ty) (x : Node) : Except Err (Out Item) := parseNode gas m false ty x

end Zeep.Xsd
