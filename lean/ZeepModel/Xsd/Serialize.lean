import ZeepModel.Xsd.Parse
/-
Engine A — reference serialisation of instance trees (children in particle order, one element per
item, attributes as given, `xsd:all` members in declaration order).  Written from the XSD rules,
not from zeep's renderer; `Element.render` is tied to it on every run.
-/
namespace Zeep.Xsd
open Zeep

mutual
def serItem (q : QName) : Ty → Item → Node
  | _, .leaf t => .mk q [] t []
  | _, .none_ _ => .mk q [] none []
  | _, .anyNode n => n
  | _, .simpleContent t attrs _ => .mk q attrs t []
  | .complex (some p) _ _, .complex attrs (some i) raw => .mk q attrs none (serInst p i ++ raw)
  | _, .complex attrs _ raw => .mk q attrs none raw

def serItems (q : QName) (ty : Ty) : List Item → List Node
  | [] => []
  | it :: its => serItem q ty it :: serItems q ty its

def serInst : Particle → Inst → List Node
  | .elem q _ _ ty, .elems items => serItems q ty items
  | .any _ _, .wild ns => ns
  | .seq ps _ _, .seqR rounds => serRounds ps rounds
  | .choice ps _ _, .choiceR rounds => serChoice ps rounds
  | .all ps _, .allR members other => serList ps members ++ other
  | .group p _ _, .groupR rounds => serGroup p rounds
  | _, _ => []

def serList : List Particle → List Inst → List Node
  | p :: ps, i :: is => serInst p i ++ serList ps is
  | _, _ => []

def serRounds (ps : List Particle) : List (List Inst) → List Node
  | [] => []
  | r :: rs => serList ps r ++ serRounds ps rs

def serChoice (ps : List Particle) : List (Nat × Inst) → List Node
  | [] => []
  | (i, inst) :: rs =>
    (match ps[i]? with
      | some p => serInst p inst
      | none => []) ++ serChoice ps rs

def serGroup (p : Particle) : List Inst → List Node
  | [] => []
  | r :: rs => serInst p r ++ serGroup p rs
end

end Zeep.Xsd
