/-
Engine S — model of `zeep.settings.Settings` (override blocks over a thread-local overlay)
and of `zeep.transports.Transport.settings` (one shared cell).

Mirrors /repo/src/zeep/settings.py:

    def __call__(self, **options):
        current = {}
        for key, value in options.items():
            getattr(self, key)
            current[key] = getattr(self._tls, key, _NOT_SET)     -- save
            setattr(self._tls, key, value)                        -- set
        try: yield
        finally:
            for key, value in current.items():                    -- restore, in insertion order
                if value is _NOT_SET: delattr if present
                else: setattr(self._tls, key, value)

    def __getattribute__(self, key):   tls entry if present else instance attribute

Primitive events are one per state-touching statement.  A history is any list of
(thread, primitive) pairs — i.e. the interleaving itself.
-/
namespace Zeep.Settings

abbrev Opt := Nat
abbrev Val := Int
abbrev Thread := Nat

/-- primitive steps -/
inductive Prim where
  | push                      -- `current = {}` : a new block starts
  | setKey (k : Opt) (v : Val) -- save tls[k] into `current`, then tls[k] := v
  | restoreKey                -- first pending entry of `current` written back
  | pop                       -- the `finally` loop is done
  | read (k : Opt)            -- `settings.k`
  | assign (k : Opt) (v : Val) -- `settings.k = v`  (instance attribute, shared)
deriving Repr, DecidableEq

structure Event where
  thread : Thread
  prim : Prim
deriving Repr, DecidableEq

abbrev History := List Event

def upd {β : Type} (f : Nat → β) (a : Nat) (b : β) : Nat → β :=
  fun x => if x = a then b else f x

/-! ### the implementation model -/

structure MState where
  inst  : Opt → Val                                   -- instance attributes (shared)
  tls   : Thread → Opt → Option Val                   -- threading.local overlay
  saved : Thread → List (List (Opt × Option Val))     -- the `current` dicts of open blocks

def MState.init (base : Opt → Val) : MState :=
  { inst := base, tls := fun _ _ => none, saved := fun _ => [] }

def mread (s : MState) (t : Thread) (k : Opt) : Val :=
  match s.tls t k with
  | some v => v
  | none => s.inst k

def hasKey {β : Type} (fr : List (Opt × β)) (k : Opt) : Bool := fr.any (fun p => p.1 == k)

def mstep (s : MState) (e : Event) : MState × Option Val :=
  let t := e.thread
  match e.prim with
  | .push => ({ s with saved := upd s.saved t ([] :: s.saved t) }, none)
  | .setKey k v =>
    match s.saved t with
    | [] => (s, none)
    | cur :: rest =>
      if hasKey cur k then (s, none) else
      ({ s with saved := upd s.saved t ((cur ++ [(k, s.tls t k)]) :: rest),
                tls := upd s.tls t (upd (s.tls t) k (some v)) }, none)
  | .restoreKey =>
    match s.saved t with
    | ((k, old) :: cur) :: rest =>
      ({ s with saved := upd s.saved t (cur :: rest),
                tls := upd s.tls t (upd (s.tls t) k old) }, none)
    | _ => (s, none)
  | .pop =>
    match s.saved t with
    | [] :: rest => ({ s with saved := upd s.saved t rest }, none)
    | _ => (s, none)
  | .read k => (s, some (mread s t k))
  | .assign k v => ({ s with inst := upd s.inst k v }, none)

def mrun (s : MState) : History → MState × List (Option Val)
  | [] => (s, [])
  | e :: h =>
    let (s1, o) := mstep s e
    let (s2, os) := mrun s1 h
    (s2, o :: os)

/-! ### the specification: per-thread stack of frames over a shared base map -/

abbrev Frame := List (Opt × Val)

structure SState where
  base  : Opt → Val
  stack : Thread → List Frame

def SState.init (base : Opt → Val) : SState := { base := base, stack := fun _ => [] }

def lookup (fr : Frame) (k : Opt) : Option Val :=
  match fr with
  | [] => none
  | (k', v) :: fr => if k' = k then some v else lookup fr k

/-- topmost frame that defines `k` -/
def overlay : List Frame → Opt → Option Val
  | [], _ => none
  | fr :: rest, k =>
    match lookup fr k with
    | some v => some v
    | none => overlay rest k

def sread (s : SState) (t : Thread) (k : Opt) : Val :=
  match overlay (s.stack t) k with
  | some v => v
  | none => s.base k

def sstep (s : SState) (e : Event) : SState × Option Val :=
  let t := e.thread
  match e.prim with
  | .push => ({ s with stack := upd s.stack t ([] :: s.stack t) }, none)
  | .setKey k v =>
    match s.stack t with
    | [] => (s, none)
    | fr :: rest =>
      if hasKey fr k then (s, none) else
      ({ s with stack := upd s.stack t ((fr ++ [(k, v)]) :: rest) }, none)
  | .restoreKey =>
    match s.stack t with
    | (_ :: fr) :: rest => ({ s with stack := upd s.stack t (fr :: rest) }, none)
    | _ => (s, none)
  | .pop =>
    match s.stack t with
    | [] :: rest => ({ s with stack := upd s.stack t rest }, none)
    | _ => (s, none)
  | .read k => (s, some (sread s t k))
  | .assign k v => ({ s with base := upd s.base k v }, none)

def srun (s : SState) : History → SState × List (Option Val)
  | [] => (s, [])
  | e :: h =>
    let (s1, o) := sstep s e
    let (s2, os) := srun s1 h
    (s2, o :: os)

/-! ### structured programs of one thread, compiled to primitive events -/

inductive Prog where
  | read (k : Opt)
  | assign (k : Opt) (v : Val)
  | raise                                   -- an exception leaves every enclosing block
  | block (opts : List (Opt × Val)) (body : List Prog)
deriving Repr

mutual
/-- events of a program and whether it raised -/
def flat (t : Thread) : Prog → List Event × Bool
  | .read k => ([⟨t, .read k⟩], false)
  | .assign k v => ([⟨t, .assign k v⟩], false)
  | .raise => ([], true)
  | .block opts body =>
    let (ev, r) := flatL t body
    (⟨t, .push⟩ :: (opts.map fun p => ⟨t, .setKey p.1 p.2⟩) ++ ev
        ++ (opts.map fun _ => ⟨t, .restoreKey⟩) ++ [⟨t, .pop⟩], r)
def flatL (t : Thread) : List Prog → List Event × Bool
  | [] => ([], false)
  | p :: ps =>
    let (e1, r1) := flat t p
    if r1 then (e1, true) else
    let (e2, r2) := flatL t ps
    (e1 ++ e2, r2)
end

/-! ### Transport.settings(timeout=…): one shared cell, saved on the generator frame -/

inductive TOp where
  | enter (v : Option Int)     -- old := cell ; cell := v
  | exit                       -- cell := old   (normal or exceptional: `finally`)
  | readT
  | assignT (v : Option Int)
deriving Repr

structure TState where
  cell : Option Int
  olds : List (Option Int)

def tstep (s : TState) : TOp → TState × Option (Option Int)
  | .enter v => ({ cell := v, olds := s.cell :: s.olds }, none)
  | .exit =>
    match s.olds with
    | o :: os => ({ cell := o, olds := os }, none)
    | [] => (s, none)
  | .readT => (s, some s.cell)
  | .assignT v => ({ s with cell := v }, none)

def trun (s : TState) : List TOp → TState × List (Option (Option Int))
  | [] => (s, [])
  | o :: os =>
    let (s1, r) := tstep s o
    let (s2, rs) := trun s1 os
    (s2, r :: rs)


/-! ### several Settings objects in one process (every client, schema and transport owns one; `_tls` is created per object) -/

abbrev Obj := Nat

/-- an event addressed to a Settings object -/
abbrev OEvent := Obj × Event

abbrev World := Obj → MState

def wstep (w : World) (oe : OEvent) : World × Option Val :=
  let r := mstep (w oe.1) oe.2
  (upd w oe.1 r.1, r.2)

/-- run a history of addressed events; every output is tagged with the object that produced it -/
def wrun (w : World) : List OEvent → World × List (Obj × Option Val)
  | [] => (w, [])
  | oe :: h =>
    let r := wstep w oe
    let r2 := wrun r.1 h
    (r2.1, (oe.1, r.2) :: r2.2)

/-- the events of a history addressed to `o` -/
def eventsOf (o : Obj) (h : List OEvent) : History := (h.filter fun oe => oe.1 == o).map (·.2)

/-- the outputs of a run produced by `o` -/
def outputsOf (o : Obj) (outs : List (Obj × Option Val)) : List (Option Val) := (outs.filter fun p => p.1 == o).map (·.2)


end Zeep.Settings
