/-
Engine-independent inventory of *state that outlives one call*: every memoising decorator, every module- or
class-level mutable container and every container created in an `__init__`, as found in zeep's source when the
model was written, each with the role the theorems assume for it.  `Generated/MemoSites.lean` is the same scan
of the current source; the obligations `ZeepProofs/Sharing/*.lean` (`decide`, every run) say that the two agree on
the files a property's mechanism lives in — a cache, memo or shared container the model does not know of breaks
them.
-/
namespace Zeep.Sharing

structure Known where
  file : String
  name : String
  kind : String
  role : String
deriving Repr

def known : List Known := [
  ⟨"zeep/cache.py", "InMemoryCache._cache", "class-mutable", "the process-wide document cache (C15's subject)"⟩,
  ⟨"zeep/ns.py", "NAMESPACE_TO_PREFIX", "module-mutable", "constant table built at import"⟩,
  ⟨"zeep/plugins.py", "HistoryPlugin._buffer", "instance-mutable", "per-object state filled while loading / per client"⟩,
  ⟨"zeep/proxy.py", "AsyncServiceProxy._operations", "instance-mutable", "per-object state filled while loading / per client"⟩,
  ⟨"zeep/proxy.py", "ServiceProxy._operations", "instance-mutable", "per-object state filled while loading / per client"⟩,
  ⟨"zeep/wsa.py", "WsAddressingPlugin.nsmap", "class-mutable", "constant namespace map"⟩,
  ⟨"zeep/wsdl/attachments.py", "Attachment.content", "memo:cached_property", "per-reply object: decoded once per MIME part"⟩,
  ⟨"zeep/wsdl/attachments.py", "MessagePack.attachments", "memo:cached_property", "per-reply object: decoded once per MIME part"⟩,
  ⟨"zeep/wsdl/bindings/http.py", "NSMAP", "module-mutable", "constant table built at import"⟩,
  ⟨"zeep/wsdl/bindings/soap.py", "Soap11Binding.nsmap", "class-mutable", "constant namespace map"⟩,
  ⟨"zeep/wsdl/bindings/soap.py", "Soap12Binding.nsmap", "class-mutable", "constant namespace map"⟩,
  ⟨"zeep/wsdl/definitions.py", "AbstractMessage.parts", "instance-mutable", "per-object state filled while loading / per client"⟩,
  ⟨"zeep/wsdl/definitions.py", "Binding._operations", "instance-mutable", "per-object state filled while loading / per client"⟩,
  ⟨"zeep/wsdl/definitions.py", "Operation.faults", "instance-mutable", "per-object state filled while loading / per client"⟩,
  ⟨"zeep/wsdl/definitions.py", "Port._resolve_context", "instance-mutable", "per-object state filled while loading / per client"⟩,
  ⟨"zeep/wsdl/definitions.py", "Port.binding_options", "instance-mutable", "per-object state filled while loading / per client"⟩,
  ⟨"zeep/wsdl/definitions.py", "Service.ports", "instance-mutable", "per-object state filled while loading / per client"⟩,
  ⟨"zeep/wsdl/messages/base.py", "ConcreteMessage.namespace", "instance-mutable", "per-object state filled while loading / per client"⟩,
  ⟨"zeep/wsdl/messages/mime.py", "MimeMessage._nsmap", "class-mutable", "constant namespace map"⟩,
  ⟨"zeep/wsdl/parse.py", "NSMAP", "module-mutable", "constant table built at import"⟩,
  ⟨"zeep/wsdl/wsdl.py", "Definition.imports", "instance-mutable", "per-object state filled while loading / per client"⟩,
  ⟨"zeep/wsdl/wsdl.py", "Definition.messages", "instance-mutable", "per-object state filled while loading / per client"⟩,
  ⟨"zeep/wsdl/wsdl.py", "Definition.port_types", "instance-mutable", "per-object state filled while loading / per client"⟩,
  ⟨"zeep/wsdl/wsdl.py", "Document._definitions", "instance-mutable", "per-object state filled while loading / per client"⟩,
  ⟨"zeep/wsdl/wsdl.py", "NSMAP", "module-mutable", "constant table built at import"⟩,
  ⟨"zeep/wsse/utils.py", "NSMAP", "module-mutable", "constant table built at import"⟩,
  ⟨"zeep/xsd/const.py", "AUTO_IMPORT_NAMESPACES", "module-mutable", "constant table built at import"⟩,
  ⟨"zeep/xsd/context.py", "XmlParserContext.schemas", "instance-mutable", "per-object state filled while loading / per client"⟩,
  ⟨"zeep/xsd/elements/any.py", "AnyAttribute._ignore_attributes", "class-mutable", "constant table"⟩,
  ⟨"zeep/xsd/elements/builtins.py", "_elements", "module-mutable", "constant table built at import"⟩,
  ⟨"zeep/xsd/elements/indicators.py", "Group.elements", "memo:threaded_cached_property", "schema structure: fixed once the schema is resolved, holds no per-call data"⟩,
  ⟨"zeep/xsd/elements/indicators.py", "OrderIndicator.elements", "memo:threaded_cached_property", "schema structure: fixed once the schema is resolved, holds no per-call data"⟩,
  ⟨"zeep/xsd/elements/indicators.py", "OrderIndicator.elements_nested", "memo:threaded_cached_property", "schema structure: fixed once the schema is resolved, holds no per-call data"⟩,
  ⟨"zeep/xsd/schema.py", "Schema._prefix_map_auto", "instance-mutable", "per-object state filled while loading / per client"⟩,
  ⟨"zeep/xsd/schema.py", "Schema._prefix_map_custom", "instance-mutable", "per-object state filled while loading / per client"⟩,
  ⟨"zeep/xsd/schema.py", "SchemaDocument._attribute_groups", "instance-mutable", "per-object state filled while loading / per client"⟩,
  ⟨"zeep/xsd/schema.py", "SchemaDocument._attributes", "instance-mutable", "per-object state filled while loading / per client"⟩,
  ⟨"zeep/xsd/schema.py", "SchemaDocument._elements", "instance-mutable", "per-object state filled while loading / per client"⟩,
  ⟨"zeep/xsd/schema.py", "SchemaDocument._groups", "instance-mutable", "per-object state filled while loading / per client"⟩,
  ⟨"zeep/xsd/schema.py", "SchemaDocument._imports", "instance-mutable", "per-object state filled while loading / per client"⟩,
  ⟨"zeep/xsd/schema.py", "SchemaDocument._types", "instance-mutable", "per-object state filled while loading / per client"⟩,
  ⟨"zeep/xsd/schema.py", "_SchemaContainer._instances", "instance-mutable", "per-object state filled while loading / per client"⟩,
  ⟨"zeep/xsd/types/any.py", "AnyType._attributes_unwrapped", "memo:threaded_cached_property", "schema structure: fixed once the schema is resolved, holds no per-call data"⟩,
  ⟨"zeep/xsd/types/builtins.py", "AnyURI.accepted_types", "class-mutable", "constant table of python types"⟩,
  ⟨"zeep/xsd/types/builtins.py", "Base64Binary.accepted_types", "class-mutable", "constant table of python types"⟩,
  ⟨"zeep/xsd/types/builtins.py", "Boolean.accepted_types", "class-mutable", "constant table of python types"⟩,
  ⟨"zeep/xsd/types/builtins.py", "Date.accepted_types", "class-mutable", "constant table of python types"⟩,
  ⟨"zeep/xsd/types/builtins.py", "DateTime.accepted_types", "class-mutable", "constant table of python types"⟩,
  ⟨"zeep/xsd/types/builtins.py", "Decimal.accepted_types", "class-mutable", "constant table of python types"⟩,
  ⟨"zeep/xsd/types/builtins.py", "Double.accepted_types", "class-mutable", "constant table of python types"⟩,
  ⟨"zeep/xsd/types/builtins.py", "Duration.accepted_types", "class-mutable", "constant table of python types"⟩,
  ⟨"zeep/xsd/types/builtins.py", "Float.accepted_types", "class-mutable", "constant table of python types"⟩,
  ⟨"zeep/xsd/types/builtins.py", "HexBinary.accepted_types", "class-mutable", "constant table of python types"⟩,
  ⟨"zeep/xsd/types/builtins.py", "Integer.accepted_types", "class-mutable", "constant table of python types"⟩,
  ⟨"zeep/xsd/types/builtins.py", "Notation.accepted_types", "class-mutable", "constant table of python types"⟩,
  ⟨"zeep/xsd/types/builtins.py", "QName.accepted_types", "class-mutable", "constant table of python types"⟩,
  ⟨"zeep/xsd/types/builtins.py", "String.accepted_types", "class-mutable", "constant table of python types"⟩,
  ⟨"zeep/xsd/types/builtins.py", "Time.accepted_types", "class-mutable", "constant table of python types"⟩,
  ⟨"zeep/xsd/types/builtins.py", "_types", "module-mutable", "constant table built at import"⟩,
  ⟨"zeep/xsd/types/builtins.py", "default_types", "module-mutable", "constant table built at import"⟩,
  ⟨"zeep/xsd/types/builtins.py", "gDay.accepted_types", "class-mutable", "constant table of python types"⟩,
  ⟨"zeep/xsd/types/builtins.py", "gMonth.accepted_types", "class-mutable", "constant table of python types"⟩,
  ⟨"zeep/xsd/types/builtins.py", "gMonthDay.accepted_types", "class-mutable", "constant table of python types"⟩,
  ⟨"zeep/xsd/types/builtins.py", "gYear.accepted_types", "class-mutable", "constant table of python types"⟩,
  ⟨"zeep/xsd/types/builtins.py", "gYearMonth.accepted_types", "class-mutable", "constant table of python types"⟩,
  ⟨"zeep/xsd/types/complex.py", "ComplexType._array_class", "memo:threaded_cached_property", "schema structure: fixed once the schema is resolved, holds no per-call data"⟩,
  ⟨"zeep/xsd/types/complex.py", "ComplexType._attributes_unwrapped", "memo:threaded_cached_property", "schema structure: fixed once the schema is resolved, holds no per-call data"⟩,
  ⟨"zeep/xsd/types/complex.py", "ComplexType._value_class", "memo:threaded_cached_property", "schema structure: fixed once the schema is resolved, holds no per-call data"⟩,
  ⟨"zeep/xsd/types/complex.py", "ComplexType.attributes", "memo:threaded_cached_property", "schema structure: fixed once the schema is resolved, holds no per-call data"⟩,
  ⟨"zeep/xsd/types/complex.py", "ComplexType.elements", "memo:threaded_cached_property", "schema structure: fixed once the schema is resolved, holds no per-call data"⟩,
  ⟨"zeep/xsd/types/complex.py", "ComplexType.elements_nested", "memo:threaded_cached_property", "schema structure: fixed once the schema is resolved, holds no per-call data"⟩,
  ⟨"zeep/xsd/utils.py", "UniqueNameGenerator._unique_count", "instance-mutable", "per-object state filled while loading / per client"⟩,
  ⟨"zeep/xsd/visitor.py", "SchemaVisitor._includes", "instance-mutable", "per-object state filled while loading / per client"⟩,
  ⟨"zeep/xsd/visitor.py", "SchemaVisitor.visitors", "class-mutable", "constant table"⟩
]

/-- is the file one of `prefixes` (exact file name or directory prefix ending in `/`) -/
def inScope (prefixes : List String) (file : String) : Bool :=
  prefixes.any fun p => file == p || (p.endsWith "/" && file.startsWith p)

def knownIn (prefixes : List String) : List (String × String × String) :=
  (known.filter fun k => inScope prefixes k.file).map fun k => (k.file, k.name, k.kind)

end Zeep.Sharing
