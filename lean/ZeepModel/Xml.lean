/-
Shared XML vocabulary: expanded names and element trees (what lxml hands to zeep, after
namespace resolution).  Tail text / comments / processing instructions are not represented.
-/
namespace Zeep

structure QName where
  ns : Option String
  name : String
deriving Repr, DecidableEq, Inhabited

inductive Node where
  | mk (tag : QName) (attrs : List (QName × String)) (text : Option String) (kids : List Node)
deriving Repr, Inhabited

namespace Node
def tag : Node → QName | .mk t _ _ _ => t
def attrs : Node → List (QName × String) | .mk _ a _ _ => a
def text : Node → Option String | .mk _ _ t _ => t
def kids : Node → List Node | .mk _ _ _ k => k

/-- children with the given expanded name, in document order -/
def children (n : Node) (q : QName) : List Node := n.kids.filter (fun k => k.tag == q)

/-- `ElementPath` `a/b`: first `b` child of any `a` child, in document order -/
def findPath2 (n : Node) (a b : QName) : Option Node :=
  ((n.children a).flatMap (fun x => x.children b)).head?

def find (n : Node) (q : QName) : Option Node := (n.children q).head?

/-- `findtext`: `none` when absent, `""` for an element without text -/
def findtext2 (n : Node) (a b : QName) : Option String :=
  (n.findPath2 a b).map (fun x => x.text.getD "")
end Node

end Zeep
