/-
Engine W — WSDL loading: `Definition._load`, `Definition.get` (transitive lookup through
wsdl:import with the processed-namespace guard), two-phase resolution, what the client exposes.

Names are expanded (namespace, local) pairs.  A document is the bag of its top-level declarations.
-/
namespace Zeep.Wsdl

abbrev Name := String × String          -- (namespace, local name)
abbrev Loc := String

structure Operation where
  name : String
  input : Name                           -- message
  output : Option Name
deriving Repr, DecidableEq

inductive Decl where
  | message (n : Name) (parts : List String)
  | portType (n : Name) (ops : List Operation)
  | binding (n : Name) (portType : Name) (ops : List String)
  | service (n : String) (ports : List (String × Name))      -- port name ↦ binding
deriving Repr, DecidableEq

structure Doc where
  tns : String
  imports : List Loc
  decls : List Decl
deriving Repr, DecidableEq

abbrev FS := List (Loc × Doc)

def fsGet (fs : FS) (l : Loc) : Option Doc := (fs.find? (fun p => p.1 == l)).map (·.2)

inductive Kind where | message | portType | binding
deriving Repr, DecidableEq

def declKey : Decl → Option (Kind × Name)
  | .message n _ => some (.message, n)
  | .portType n _ => some (.portType, n)
  | .binding n _ _ => some (.binding, n)
  | .service _ _ => none

/-- container lookup in one definition: a dict keyed by name -/
def own (d : Doc) (k : Kind) (n : Name) : Option Decl :=
  d.decls.find? (fun x => declKey x == some (k, n))

/-- `Definition.get`: own container, else depth-first through the imports, descending from each
definition at most once (the processed set holds definitions).  Returns the declaration and the
location of the definition that holds it.  `fuel` bounds the depth. -/
def get (fs : FS) (k : Kind) (n : Name) : Nat → List Loc → Loc → Option (Decl × Loc) × List Loc
  | 0, processed, _ => (none, processed)
  | fuel + 1, processed, loc =>
    match fsGet fs loc with
    | none => (none, processed)
    | some d =>
      match own d k n with
      | some x => (some (x, loc), processed)
      | none =>
        if processed.contains loc then (none, processed) else
        d.imports.foldl (fun (acc : Option (Decl × Loc) × List Loc) imp =>
          match acc.1 with
          | some x => (some x, acc.2)
          | none => get fs k n fuel acc.2 imp) (none, loc :: processed)

/-- resolution of a reference that occurs in the definition at `from_` -/
def lookup (fs : FS) (from_ : Loc) (k : Kind) (n : Name) : Option (Decl × Loc) :=
  (get fs k n (fs.length + 1) [] from_).1

/-- what a loaded client exposes: for every service of the root document, its ports with the
resolved binding and the operations of that binding (those whose portType operation and input
message resolve).  Every reference is resolved starting from the definition that contains it. -/
structure Port where
  service : String
  port : String
  binding : Name
  operations : List String
deriving Repr, DecidableEq

def exposedOps (fs : FS) (b : Decl) (lb : Loc) : List String :=
  match b with
  | .binding _ pt ops =>
    match lookup fs lb .portType pt with
    | some (.portType _ ptops, lpt) =>
      ops.filter fun o => ptops.any fun p => p.name == o && (lookup fs lpt .message p.input).isSome
    | _ => []
  | _ => []

def exposed (fs : FS) (root : Loc) : List Port :=
  match fsGet fs root with
  | none => []
  | some d =>
    d.decls.flatMap fun x =>
      match x with
      | .service s ports =>
        ports.filterMap fun (pn, bn) =>
          (lookup fs root .binding bn).map fun (b, lb) => ⟨s, pn, bn, exposedOps fs b lb⟩
      | _ => []

/-- specification: a name resolves iff some document of the file system declares it -/
def declared (fs : FS) (k : Kind) (n : Name) : Option Decl :=
  fs.findSome? fun p => own p.2 k n

end Zeep.Wsdl
