import Generated.SettingsTable
import Generated.Sites
import Generated.Builtins
import Generated.SoapFlow
import Generated.Constants
import Generated.MemoSites
import Generated.SchemaAttrs
