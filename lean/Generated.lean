import Generated.SettingsTable
import Generated.Sites
