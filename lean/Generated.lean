import Generated.SettingsTable
import Generated.Sites
import Generated.Builtins
