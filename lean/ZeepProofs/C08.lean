import ZeepProofs.Lemmas.ParseShrink
/-!
# C08 — decoding always terminates within bounded work

The model's decoder is a total function (structural recursion on `gas`).  What is proved here, for
**every** particle (arbitrary nesting of sequence / choice / all / group, any minOccurs), **every
round limit** (`maxOccurs`, including 2³¹−1 for `unbounded`), both modes and every deque — valid
or not:

* the deque never grows;
* every repetition loop keeps at most as many rounds as it consumes nodes: `rounds + |rest| ≤ |xs|`
  (one extra round for `xsd:group`, which records its last, non-progressing round) — so the number
  of rounds and the size of the result are bounded by the document, never by `maxOccurs`;
* a choice round only goes on when the winning branch consumed at least one node.
The exact number of interpreter-level decode calls is tied to the model's `calls` counter on every
run (equality), and against an explicit budget; a closed-form polynomial bound on `calls` is not
proved (stated in DESIGN.md as the remaining obligation).
-/
namespace Zeep.Xsd

/-- the deque only shrinks -/
theorem c08_deque_never_grows (gas : Nat) (m : Mode) (p : Particle) (xs : List Node) (r : Out Inst)
    (h : parseP gas m p xs = .ok r) : r.rest.length ≤ xs.length :=
  (shrinks gas).parseP m p xs r h

/-- **Element repetitions**: independent of maxOccurs (`n` is arbitrary) -/
theorem c08_element_rounds (gas : Nat) (m : Mode) (q : QName) (min : Nat) (ty : Ty) (n k : Nat)
    (xs : List Node) (r : Out (List Item)) (h : elemLoop gas m q min ty n k xs = .ok r) :
    r.val.length + r.rest.length ≤ xs.length :=
  (shrinks gas).elemLoop m q min ty n k xs r h

/-- **Sequence repetitions**: every kept round consumed at least one node, whatever maxOccurs is
(this is the progress check repaired by F6) -/
theorem c08_sequence_rounds (gas : Nat) (m : Mode) (ps : List Particle) (min n d : Nat)
    (xs : List Node) (r : Out (List (List Inst))) (h : seqLoop gas m ps min n d xs = .ok r) :
    r.val.length + r.rest.length ≤ xs.length :=
  (shrinks gas).seqLoop m ps min n d xs r h

/-- **Choice repetitions** -/
theorem c08_choice_rounds (gas : Nat) (m : Mode) (ps : List Particle) (n : Nat)
    (xs : List Node) (r : Out (List (Nat × Inst))) (h : choiceLoop gas m ps n xs = .ok r) :
    r.val.length + r.rest.length ≤ xs.length :=
  (shrinks gas).choiceLoop m ps n xs r h

/-- **Group repetitions**: at most one round more than nodes consumed -/
theorem c08_group_rounds (gas : Nat) (m : Mode) (p : Particle) (n : Nat)
    (xs : List Node) (r : Out (List Inst)) (h : groupLoop gas m p n xs = .ok r) :
    r.rest.length ≤ xs.length ∧ r.val.length + r.rest.length ≤ xs.length + 1 :=
  (shrinks gas).groupLoop m p n xs r h

/-- a winning choice branch consumed at least one node and no more than there are -/
theorem c08_choice_progress (gas : Nat) (m : Mode) (ps : List Particle) (i : Nat) (xs : List Node)
    (r : Out (Option (Nat × Inst × Nat))) (h : choiceOptions gas m ps i xs = .ok r)
    (j : Nat) (inst : Inst) (c : Nat) (hv : r.val = some (j, inst, c)) : 0 < c ∧ c ≤ xs.length :=
  ((shrinks gas).choiceOptions m ps i xs r h).2 j inst c hv

/-- **No unbounded allocation**: the result of an unbounded repetition holds at most one entry per
node of the deque -/
theorem c08_alloc_unbounded (gas : Nat) (m : Mode) (ps : List Particle) (min : Nat) (xs : List Node)
    (r : Out (List (List Inst))) (h : seqLoop gas m ps min Occ.unbounded.limit 0 xs = .ok r) :
    r.val.length ≤ xs.length := by
  have := c08_sequence_rounds gas m ps min _ 0 xs r h
  omega

/-- non-vacuity: `(a?)*` followed by a stranger — the document that looped 2³¹ times before F6 —
stops after one round -/
example :
    let a : Particle := .elem ⟨none, "a"⟩ 0 (.bounded 1) .simple
    let xs : List Node := [.mk ⟨none, "a"⟩ [] (some "1") [], .mk ⟨none, "X"⟩ [] none []]
    (match seqLoop 50 .lax [a] 1 Occ.unbounded.limit 0 xs with
      | .ok r => (r.val.length, r.rest.length)
      | .error _ => (99, 99)) = (1, 1) := by decide +kernel

end Zeep.Xsd
