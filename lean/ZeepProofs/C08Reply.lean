import ZeepModel.Soap.Reply
import ZeepProofs.C19
/-!
# C08 — the work done on a reply around the schema decoder is bounded by the reply

Two loops outside `parse_xmlelements` walk the reply: the SOAP 1.2 `Subcode` chain of a fault (`Soap12Binding.process_error`)
and the multiRef dereferencing of rpc/encoded replies (`process_multiref`).  Both models carry a fuel argument; here the fuel
the reply itself provides is shown to be enough and more fuel to change nothing: the subcode walk makes at most `depth` steps
and returns at most `depth` subcodes; dereferencing an out-lined reply needs recursion no deeper than the inline tree.
(A cyclic multiRef graph has no such bound; there the implementation ends with `RecursionError`, which the tie observes.)
-/
namespace Zeep.Soap
open Zeep

theorem depth_child_lt (t : QName) (a : List (QName × String)) (x : Option String) (kids : List Node) (k : Node) (hk : k ∈ kids) :
    depth k < depth (.mk t a x kids) := by
  have : ∀ (ks : List Node), k ∈ ks → depth k ≤ depth.depthL ks := by
    intro ks
    induction ks with
    | nil => intro h; exact absurd h (by simp)
    | cons y ys ih =>
      intro h
      simp only [depth.depthL]
      rcases List.mem_cons.1 h with rfl | h
      · exact Nat.le_max_left _ _
      · exact Nat.le_trans (ih h) (Nat.le_max_right _ _)
  have := this kids hk
  simp only [depth]
  omega

theorem find_mem (n : Node) (q : QName) (k : Node) (h : n.find q = some k) : k ∈ n.kids := by
  unfold Node.find Node.children at h
  have := List.mem_of_mem_head? h
  exact (List.mem_filter.1 this).1

theorem depth_find_lt (n : Node) (q : QName) (k : Node) (h : n.find q = some k) : depth k < depth n := by
  cases n with
  | mk t a x kids => exact depth_child_lt t a x kids k (by simpa [Node.kids] using find_mem _ q k h)

/-- **the subcode walk is bounded by the depth of the fault**: with fuel `depth sc` or more the result no longer depends on the fuel -/
theorem c08_subcodes_fuel_independent (sc : Node) : ∀ fuel, depth sc ≤ fuel → subcodes12 fuel sc = subcodes12 (depth sc) sc := by
  suffices h : ∀ (d : Nat) (sc : Node), depth sc ≤ d → ∀ f1 f2, depth sc ≤ f1 → depth sc ≤ f2 → subcodes12 f1 sc = subcodes12 f2 sc by
    intro fuel hf
    exact h (depth sc) sc (Nat.le_refl _) fuel (depth sc) hf (Nat.le_refl _)
  intro d
  induction d with
  | zero =>
    intro sc hd
    cases sc with
    | mk t a x kids => simp [depth] at hd
  | succ d ih =>
    intro sc hd f1 f2 h1 h2
    have hpos : 0 < depth sc := by cases sc; simp [depth]; omega
    obtain ⟨g1, rfl⟩ : ∃ g, f1 = g + 1 := ⟨f1 - 1, by omega⟩
    obtain ⟨g2, rfl⟩ : ∃ g, f2 = g + 1 := ⟨f2 - 1, by omega⟩
    simp only [subcodes12]
    cases hv : sc.find (env .v12 "Value") with
    | none => rfl
    | some val =>
      cases hs : sc.find (env .v12 "Subcode") with
      | none => rfl
      | some inner =>
        have hlt := depth_find_lt sc _ inner hs
        simp only
        rw [ih inner (by omega) g1 g2 (by omega) (by omega)]

/-- the chain returned is no longer than the fault is deep: a reply of depth `d` yields at most `d` subcodes -/
theorem c08_subcodes_length (sc : Node) : ∀ fuel l, subcodes12 fuel sc = some l → l.length ≤ fuel := by
  intro fuel
  induction fuel generalizing sc with
  | zero => intro l h; simp [subcodes12] at h; subst h; simp
  | succ f ih =>
    intro l h
    simp only [subcodes12] at h
    cases hv : sc.find (env .v12 "Value") with
    | none => rw [hv] at h; cases h
    | some val =>
      rw [hv] at h
      cases hs : sc.find (env .v12 "Subcode") with
      | none => rw [hs] at h; simp at h; subst h; simp
      | some inner =>
        rw [hs] at h
        simp only at h
        cases hr : subcodes12 f inner with
        | none => rw [hr] at h; cases h
        | some r =>
          rw [hr] at h
          simp at h; subst h
          have := ih inner r hr
          simp; omega

end Zeep.Soap

namespace Zeep.MultiRef
open Zeep

/-- **dereferencing an out-lined reply needs recursion no deeper than the inline tree**: every fuel from `height o` on gives
the inline reply (restating `proc_wire` as the bound C08 asks for) -/
theorem c08_multiref_fuel_independent (tbl : Table) (o : O) (hl : ∀ e ∈ objs o, lookupT tbl e.1 = some e.2) (hn : NoHref o) :
    ∀ fuel, height o ≤ fuel → (proc tbl fuel (wire o)).1 = (proc tbl (height o) (wire o)).1 := by
  intro fuel hf
  rw [proc_wire tbl o fuel hf hl hn, proc_wire tbl o (height o) (Nat.le_refl _) hl hn]

end Zeep.MultiRef
