import ZeepProofs.C16
import Generated.SoapFlow
/-! Obligations tying the model to the flow / constants regenerated from src/zeep/wsdl/bindings/soap.py on every run. -/
namespace Zeep.Pipeline
variable {M : Type}

/-! ### the order is the source's order (re-checked against the regenerated flow on every run) -/

/-- the model's way out is the concatenation of the stage classes in `egressOrder` -/
theorem egressStages_by_class (wsa : Option (Stage M)) (plugins wsse : List (Stage M)) (extra : Stage M) :
    egressStages wsa plugins wsse extra = egressOrder.flatMap (egressClass wsa plugins wsse extra) := by
  simp [egressStages, egressOrder, egressClass]

/-- `SoapBinding._create` runs, after serialising, exactly the stage classes of the model, in the model's order -/
theorem c16_create_flow_matches_source :
    Generated.createFlow = ["serialize", "set_http_headers"] ++ egressOrder := by decide

/-- `SoapBinding.send` (and its async twin): build, post, process — nothing between the last egress stage and the wire -/
theorem c16_send_flow_matches_source :
    Generated.sendFlow = ["create", "transport.post", "process_reply"] ∧ Generated.sendAsyncFlow = Generated.sendFlow := by decide

/-- `process_reply`: parse (multipart root, XOP) → verify → ingress plugins → fault detection → decode -/
theorem c16_reply_flow_matches_source :
    Generated.processReplyFlow =
      ["multipart", "parse", "xop"] ++ ingressOrder ++ ["fault_lookup", "process_error", "decode", "attach"] := by decide

end Zeep.Pipeline
