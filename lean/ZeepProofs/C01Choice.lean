import ZeepProofs.C01
/-!
# C01 — round trip for records with choice members

Generalises `c01_nested_record_roundtrip`: the content of a record is a sequence whose members are
element declarations (any occurrence bounds) **or non-repeating choices between element
declarations** (a required choice with one branch taken, or an optional choice left out), nested
to any depth through the element types, with attributes.

The proof is organised around `MemberOK`: what the sequence decoder needs to know about one member
and its instance — its serialisation starts with one of the member's own names and decodes back to
the instance in front of any rest that starts with none of them.  `seqRound_members` is then a
statement about sequences of *any* members with pairwise disjoint names.
-/
namespace Zeep.Xsd
open Zeep

mutual
/-- local names a member can start with -/
def mnames : Particle → List String
  | .elem q _ _ _ => [q.name]
  | .choice bs _ _ => pnames bs
  | .seq ps _ _ => lnames ps
  | .group p _ _ => mnames p
  | _ => []

def lnames : List Particle → List String
  | [] => []
  | p :: ps => mnames p ++ lnames ps
end

/-- `rest` starts with none of the names -/
def HeadNotAny (names : List String) (rest : List Node) : Prop := ∀ n ∈ names, HeadNot n rest

/-- what the sequence decoder needs of a member `p` with instance `i` -/
def MemberOK (m : Mode) (p : Particle) (i : Inst) : Prop :=
  (∀ n, n ∉ mnames p → HeadNot n (serInst p i)) ∧
  ∃ g0, ∀ gas, g0 ≤ gas → ∀ rest, HeadNotAny (mnames p) rest →
    ∃ calls, parseP gas m p (serInst p i ++ rest) = .ok ⟨i, rest, calls⟩

/-- one round over arbitrary members: instances for a prefix of the members, the last one non-empty,
names pairwise disjoint -/
def WTRoundG (M : Particle → Inst → Prop) : List Particle → List Inst → Prop
  | p :: ps, i :: is =>
      M p i ∧ (∀ n ∈ mnames p, n ∉ lnames ps) ∧ (is = [] → serInst p i ≠ []) ∧ (is ≠ [] → WTRoundG M ps is)
  | _, _ => False

theorem headNot_append {n : String} {a b : List Node} (ha : HeadNot n a) (hb : HeadNot n b) : HeadNot n (a ++ b) := by
  cases a with
  | nil => simpa using hb
  | cons x xs => simpa [HeadNot] using ha

theorem serList_members (m : Mode) (M : Particle → Inst → Prop) (hM : ∀ p i, M p i → MemberOK m p i) :
    ∀ (ps : List Particle) (insts : List Inst), insts ≠ [] → WTRoundG M ps insts →
      serList ps insts ≠ [] ∧ ∀ n, n ∉ lnames ps → HeadNot n (serList ps insts) := by
  intro ps
  induction ps with
  | nil => intro insts _ hw; cases insts <;> simp [WTRoundG] at hw
  | cons p ps ih =>
    intro insts hne hw
    cases insts with
    | nil => exact absurd rfl hne
    | cons i is =>
      obtain ⟨hm, _, hlast, hmore⟩ := hw
      obtain ⟨hhead, _⟩ := hM p i hm
      by_cases his : is = []
      · subst his
        refine ⟨by simpa [serList] using hlast rfl, ?_⟩
        intro n hn
        simp only [lnames, List.mem_append, not_or] at hn
        cases ps <;> simpa [serList] using hhead n hn.1
      · obtain ⟨hne', hh'⟩ := ih is his (hmore his)
        refine ⟨by simp [serList, hne'], ?_⟩
        intro n hn
        simp only [lnames, List.mem_append, not_or] at hn
        simp only [serList]
        exact headNot_append (hhead n hn.1) (hh' n hn.2)

theorem seqRound_members (m : Mode) (M : Particle → Inst → Prop) (hM : ∀ p i, M p i → MemberOK m p i) :
    ∀ (ps : List Particle) (insts : List Inst), insts ≠ [] → WTRoundG M ps insts →
      ∃ g0, ∀ gas, g0 ≤ gas → ∀ (e : Bool) (sl : Nat),
        ∃ calls, seqRound gas m ps e sl (serList ps insts) = .ok ⟨some insts, [], calls⟩ := by
  intro ps
  induction ps with
  | nil => intro insts _ hw; cases insts <;> simp [WTRoundG] at hw
  | cons p ps ih =>
    intro insts hne hw
    cases insts with
    | nil => exact absurd rfl hne
    | cons i is =>
      obtain ⟨hm, hdisj, hlast, hmore⟩ := hw
      obtain ⟨_, g1, h1⟩ := hM p i hm
      by_cases his : is = []
      · subst his
        refine ⟨g1 + 1, ?_⟩
        intro gas hg e sl
        obtain ⟨g, rfl⟩ : ∃ g, gas = g + 1 := ⟨gas - 1, by omega⟩
        obtain ⟨c, hc⟩ := h1 g (by omega) [] (fun n _ => trivial)
        refine ⟨c, ?_⟩
        simp only [List.append_nil] at hc
        cases ps <;> simp [serList, seqRound, hc, pure, Except.pure]
      · obtain ⟨g2, h2⟩ := ih is his (hmore his)
        obtain ⟨hne', hh'⟩ := serList_members m M hM ps is his (hmore his)
        refine ⟨g1 + g2 + 1, ?_⟩
        intro gas hg e sl
        obtain ⟨g, rfl⟩ : ∃ g, gas = g + 1 := ⟨gas - 1, by omega⟩
        obtain ⟨c, hc⟩ := h1 g (by omega) (serList ps is) (fun n hn => hh' n (hdisj n hn))
        obtain ⟨c', hr⟩ := h2 g (by omega) e sl
        refine ⟨c + c', ?_⟩
        have hemp : (serList ps is).isEmpty = false := by
          cases h : serList ps is with
          | nil => exact absurd h hne'
          | cons _ _ => rfl
        simp [serList, seqRound, hc, hr, hemp, bind, Except.bind, pure, Except.pure]

/-- **a record decodes back when its members do**: the last step of every record round trip, for any
notion `M` of well-formed member whose instances satisfy `MemberOK` -/
theorem dec_record_of_members (m : Mode) (M : Particle → Inst → Prop) (hM : ∀ p i, M p i → MemberOK m p i)
    (ps : List Particle) (insts : List Inst) (smin : Nat) (decls : List AttrDecl) (attrs : List (QName × String))
    (hattrs : declaredAttrs decls attrs = attrs) (hround : WTRoundG M ps insts) :
    Dec m (.complex (some (.seq ps smin (.bounded 1))) decls true) (.complex attrs (some (.seqR [insts])) []) := by
  have hne : insts ≠ [] := by
    intro h; subst h
    cases ps <;> simp [WTRoundG] at hround
  obtain ⟨g0, hr⟩ := seqRound_members m _ hM ps insts hne hround
  obtain ⟨hser, _⟩ := serList_members m _ hM ps insts hne hround
  refine ⟨fun q => by simp [serItem, Node.tag], g0 + 4, ?_⟩
  intro gas hg q a
  obtain ⟨g, rfl⟩ : ∃ g, gas = g + 4 := ⟨gas - 4, by omega⟩
  obtain ⟨c, hc⟩ := hr (g + 1) (by omega) (decide (0 ≥ smin)) (serList ps insts).length
  obtain ⟨x, xs, hx⟩ : ∃ x xs, serList ps insts = x :: xs := by
    cases h : serList ps insts with
    | nil => exact absurd h hser
    | cons x xs => exact ⟨x, xs, rfl⟩
  have hkids : ((x :: xs).isEmpty) = false := rfl
  refine ⟨c + 1 + 1, ?_⟩
  simp only [serItem, serInst, serRounds, List.append_nil, parseNode, Node.kids, Node.attrs, hx, hkids,
    Bool.not_true, Bool.false_eq_true, if_false, Bool.and_false, Bool.false_and, parseP, Occ.limit, seqLoop]
  rw [← hx, hc]
  have hprog : ¬ (0 = (serList ps insts).length) := by
    rw [hx]; simp
  simp [bind, Except.bind, hprog, pure, Except.pure, seqLoop, hattrs]

/-! ### the two kinds of members -/

/-- an element member: occurrence count within the bounds, every item decodable -/
theorem member_elem (m : Mode) (q : QName) (min : Nat) (max : Occ) (ty : Ty) (items : List Item)
    (hmin : min ≤ items.length) (hmax : items.length ≤ max.limit) (hd : ∀ it ∈ items, Dec m ty it) :
    MemberOK m (.elem q min max ty) (.elems items) := by
  constructor
  · intro n hn
    simp only [mnames, List.mem_singleton] at hn
    simp only [serInst]
    cases hs : serItems q ty items with
    | nil => trivial
    | cons x xs =>
      have := tag_serItems q ty items m hd x (by simp [hs])
      simp [HeadNot, this]; exact fun e => hn e.symm
  · obtain ⟨g1, h1⟩ := elemLoop_items m q min ty items hd
    refine ⟨g1 + 1, ?_⟩
    intro gas hg rest hrest
    obtain ⟨g, rfl⟩ : ∃ g, gas = g + 1 := ⟨gas - 1, by omega⟩
    obtain ⟨c, hc⟩ := h1 g (by omega) max.limit 0 rest hmax (hrest q.name (by simp [mnames]))
      (fun h => by subst h; simp at hmin; exact Or.inr (Or.inl hmin))
    exact ⟨c + 1, by simp [serInst, parseP, hc, bind, Except.bind, pure, Except.pure]⟩

/-- every branch of the choice is a single required element declaration -/
def SimpleBranches : List Particle → Prop
  | [] => True
  | .elem _ 1 (.bounded 1) _ :: bs => SimpleBranches bs
  | _ :: _ => False

/-- a branch other than the taken one: it either fails (its name is not the next node's) or stops
without consuming (namespace mismatch in strict mode) -/
theorem other_branch (m : Mode) (g : Nat) (qj : QName) (tyj : Ty) (x : Node) (xs : List Node) (hne : x.tag.name ≠ qj.name) :
    parseP (g + 2) m (.elem qj 1 (.bounded 1) tyj) (x :: xs) = .error .unexpected ∨
    parseP (g + 2) m (.elem qj 1 (.bounded 1) tyj) (x :: xs) = .ok ⟨.elems [], x :: xs, 1⟩ := by
  have hn : (x.tag.name == qj.name) = false := by simpa using hne
  simp only [parseP, Occ.limit, elemLoop]
  split
  · right; simp [bind, Except.bind, pure, Except.pure]
  · left; simp [hn, bind, Except.bind]

/-- no branch from index `k` on matches the next node: no option -/
theorem choiceOptions_none (m : Mode) (x : Node) (xs : List Node) :
    ∀ (bs : List Particle) (g k : Nat), SimpleBranches bs → x.tag.name ∉ pnames bs → bs.length + 2 ≤ g →
      ∃ calls, choiceOptions g m bs k (x :: xs) = .ok ⟨none, x :: xs, calls⟩ := by
  intro bs
  induction bs with
  | nil =>
    intro g k _ _ hg
    obtain ⟨g', rfl⟩ : ∃ g', g = g' + 1 := ⟨g - 1, by simp at hg; omega⟩
    exact ⟨0, by simp [choiceOptions, pure, Except.pure]⟩
  | cons b bs ih =>
    intro g k hs hn hg
    match b, hs with
    | .elem qj 1 (.bounded 1) tyj, hs =>
      simp only [SimpleBranches] at hs
      simp only [pnames, List.mem_cons, not_or] at hn
      obtain ⟨g', rfl⟩ : ∃ g', g = g' + 3 := ⟨g - 3, by simp at hg; omega⟩
      obtain ⟨c, hc⟩ := ih (g' + 2) (k + 1) hs hn.2 (by simp at hg ⊢; omega)
      rcases other_branch m g' qj tyj x xs hn.1 with h | h
      · exact ⟨c + 1, by simp [choiceOptions, h, hc, bind, Except.bind, pure, Except.pure]⟩
      · exact ⟨1 + c, by simp [choiceOptions, h, hc, bind, Except.bind, pure, Except.pure]⟩

theorem name_mem_of_get {q : QName} {a : Nat} {b : Occ} {ty : Ty} :
    ∀ (bs : List Particle) (j : Nat), SimpleBranches bs → bs[j]? = some (.elem q a b ty) → q.name ∈ pnames bs := by
  intro bs
  induction bs with
  | nil => intro j _ h; simp at h
  | cons b' bs' ih =>
    intro j hs hb
    match b', hs with
    | .elem _ 1 (.bounded 1) _, hs' =>
      simp only [SimpleBranches] at hs'
      cases j with
      | zero => simp at hb; obtain ⟨rfl, _⟩ := hb; simp [pnames]
      | succ j' =>
        simp only [List.getElem?_cons_succ] at hb
        simp [pnames, ih j' hs' hb]

/-- the taken branch sits at index `i`: it is the option, consuming exactly one node -/
theorem choiceOptions_taken (m : Mode) (q : QName) (ty : Ty) (it : Item) (hd : Dec m ty it) :
    ∀ (bs : List Particle) (i : Nat), SimpleBranches bs → (pnames bs).Nodup → bs[i]? = some (.elem q 1 (.bounded 1) ty) →
      ∃ g0, ∀ g, g0 ≤ g → ∀ (k : Nat) (xs : List Node),
        ∃ calls, choiceOptions g m bs k (serItem q ty it :: xs) = .ok ⟨some (k + i, .elems [it], 1), serItem q ty it :: xs, calls⟩ := by
  obtain ⟨htag, gd, hdec⟩ := hd
  intro bs
  induction bs with
  | nil => intro i _ _ h; simp at h
  | cons b bs ih =>
    intro i hs hnd hb
    match b, hs with
    | .elem qj 1 (.bounded 1) tyj, hs =>
      simp only [SimpleBranches] at hs
      simp only [pnames, List.nodup_cons] at hnd
      cases i with
      | zero =>
        simp only [List.getElem?_cons_zero, Option.some.injEq, Particle.elem.injEq] at hb
        obtain ⟨rfl, _, _, rfl⟩ := hb
        refine ⟨gd + bs.length + 4, ?_⟩
        intro g hg k xs
        obtain ⟨g', rfl⟩ : ∃ g', g = g' + 4 := ⟨g - 4, by omega⟩
        obtain ⟨c, hc⟩ := hdec (g' + 1) (by omega) qj true
        obtain ⟨c', hnone⟩ := choiceOptions_none m (serItem qj tyj it) xs bs (g' + 3) (k + 1) hs (by rw [htag qj]; exact hnd.1) (by omega)
        have hel : elemLoop (g' + 1) m qj 1 tyj 0 1 xs = .ok ⟨[], xs, 0⟩ := by simp [elemLoop, pure, Except.pure]
        have hns : ((qj.ns.isSome && qj.ns.isSome && qj.ns != qj.ns && m == Mode.strict) = false) := by simp
        have hp : parseP (g' + 3) m (.elem qj 1 (.bounded 1) tyj) (serItem qj tyj it :: xs) = .ok ⟨.elems [it], xs, c + 1⟩ := by
          simp [parseP, Occ.limit, elemLoop, htag qj, hns, hc, hel, bind, Except.bind, pure, Except.pure]
        refine ⟨c + 1 + c', ?_⟩
        simp [choiceOptions, hp, hnone, bind, Except.bind, pure, Except.pure]
      | succ j =>
        simp only [List.getElem?_cons_succ] at hb
        obtain ⟨g1, h1⟩ := ih j hs hnd.2 hb
        refine ⟨g1 + 3, ?_⟩
        intro g hg k xs
        obtain ⟨g', rfl⟩ : ∃ g', g = g' + 3 := ⟨g - 3, by omega⟩
        obtain ⟨c, hc⟩ := h1 (g' + 2) (by omega) (k + 1) xs
        have hmem : q.name ∈ pnames bs := name_mem_of_get bs j hs hb
        have hne : (serItem q ty it).tag.name ≠ qj.name := by
          rw [htag q]; intro e; exact hnd.1 (e ▸ hmem)
        have hidx : k + 1 + j = k + (j + 1) := by omega
        rcases other_branch m g' qj tyj (serItem q ty it) xs hne with h | h
        · exact ⟨c + 1, by simp [choiceOptions, h, hc, hidx, bind, Except.bind, pure, Except.pure]⟩
        · exact ⟨1 + c, by simp [choiceOptions, h, hc, hidx, bind, Except.bind, pure, Except.pure]⟩

/-- a choice member with one branch taken -/
theorem member_choice_taken (m : Mode) (bs : List Particle) (cmin : Nat) (i : Nat) (q : QName) (ty : Ty) (it : Item)
    (hs : SimpleBranches bs) (hnd : (pnames bs).Nodup) (hb : bs[i]? = some (.elem q 1 (.bounded 1) ty)) (hd : Dec m ty it) :
    MemberOK m (.choice bs cmin (.bounded 1)) (.choiceR [(i, .elems [it])]) := by
  have hser : serInst (.choice bs cmin (.bounded 1)) (.choiceR [(i, .elems [it])]) = [serItem q ty it] := by
    simp [serInst, serChoice, hb, serItems]
  constructor
  · intro n hn
    rw [hser]
    simp only [mnames] at hn
    have := name_mem_of_get bs i hs hb
    simp only [HeadNot, hd.1 q]
    intro e; exact hn (e ▸ this)
  · obtain ⟨g1, h1⟩ := choiceOptions_taken m q ty it hd bs i hs hnd hb
    refine ⟨g1 + 3, ?_⟩
    intro gas hg rest _
    obtain ⟨g, rfl⟩ : ∃ g, gas = g + 3 := ⟨gas - 3, by omega⟩
    obtain ⟨c, hc⟩ := h1 (g + 1) (by omega) 0 rest
    rw [hser]
    refine ⟨c + 0 + 1, ?_⟩
    simp [parseP, Occ.limit, choiceLoop, hc, bind, Except.bind, pure, Except.pure]

/-- an optional choice member left out -/
theorem member_choice_absent (m : Mode) (bs : List Particle) (cmin : Nat) (hs : SimpleBranches bs) :
    MemberOK m (.choice bs cmin (.bounded 1)) (.choiceR []) := by
  have hser : serInst (.choice bs cmin (.bounded 1)) (.choiceR []) = [] := by simp [serInst, serChoice]
  constructor
  · intro n _; rw [hser]; trivial
  · refine ⟨bs.length + 4, ?_⟩
    intro gas hg rest hrest
    obtain ⟨g, rfl⟩ : ∃ g, gas = g + 3 := ⟨gas - 3, by omega⟩
    rw [hser]
    cases rest with
    | nil => exact ⟨1, by simp [parseP, Occ.limit, choiceLoop, bind, Except.bind, pure, Except.pure]⟩
    | cons x xs =>
      have hx : x.tag.name ∉ pnames bs := by
        intro hmem
        have := hrest x.tag.name (by simpa [mnames] using hmem)
        simp [HeadNot] at this
      obtain ⟨c, hc⟩ := choiceOptions_none m x xs bs (g + 1) 0 hs hx (by omega)
      exact ⟨c + 1, by simp [parseP, Occ.limit, choiceLoop, hc, bind, Except.bind, pure, Except.pure]⟩

/-! ### records whose members are elements or choices -/

/-- well-formedness of one member against its instance; `W` is the well-formedness of items one level down -/
def WTMember (W : Ty → Item → Prop) : Particle → Inst → Prop
  | .elem _ min max ty, .elems items => min ≤ items.length ∧ items.length ≤ max.limit ∧ ∀ it ∈ items, W ty it
  | .choice bs _ (.bounded 1), .choiceR [(k, .elems [it])] =>
      SimpleBranches bs ∧ (pnames bs).Nodup ∧ ∃ q ty, bs[k]? = some (.elem q 1 (.bounded 1) ty) ∧ W ty it
  | .choice bs _ (.bounded 1), .choiceR [] => SimpleBranches bs
  | _, _ => False

/-- records (with choice members) of nesting depth at most `d` -/
def WTItemG : Nat → Ty → Item → Prop
  | _, .simple, .leaf _ => True
  | d + 1, .complex (some (.seq ps _ (.bounded 1))) decls true, .complex attrs (some (.seqR [insts])) [] =>
      declaredAttrs decls attrs = attrs ∧ WTRoundG (WTMember (WTItemG d)) ps insts
  | _, _, _ => False

theorem memberOK_of_WT (m : Mode) (W : Ty → Item → Prop) (hW : ∀ ty it, W ty it → Dec m ty it) :
    ∀ p i, WTMember W p i → MemberOK m p i := by
  intro p i h
  cases p with
  | elem q min max ty =>
    cases i with
    | elems items =>
      obtain ⟨h1, h2, h3⟩ := h
      exact member_elem m q min max ty items h1 h2 (fun it hit => hW ty it (h3 it hit))
    | _ => simp [WTMember] at h
  | choice bs cmin cmax =>
    cases cmax with
    | unbounded => cases i <;> simp [WTMember] at h
    | bounded b =>
      cases i with
      | choiceR rounds =>
        match b, rounds, h with
        | 1, [], h => exact member_choice_absent m bs cmin (by simpa [WTMember] using h)
        | 1, [(k, .elems [it])], h =>
          simp only [WTMember] at h
          obtain ⟨hs, hnd, q, ty, hb, hw⟩ := h
          exact member_choice_taken m bs cmin k q ty it hs hnd hb (hW ty it hw)
        | 0, _, h => simp [WTMember] at h
        | _ + 2, _, h => simp [WTMember] at h
        | 1, [(_, .elems [])], h => simp [WTMember] at h
        | 1, [(_, .elems (_ :: _ :: _))], h => simp [WTMember] at h
        | 1, [(_, .wild _)], h | 1, [(_, .seqR _)], h | 1, [(_, .choiceR _)], h | 1, [(_, .allR _ _)], h | 1, [(_, .groupR _)], h
        | 1, [(_, .failed)], h => simp [WTMember] at h
        | 1, _ :: _ :: _, h => simp [WTMember] at h
      | _ => simp [WTMember] at h
  | _ => cases i <;> simp [WTMember] at h

/-- **Records with element and choice members, nested to any depth, round-trip** — both modes,
`allow_none` on or off, every sufficiently large step budget. -/
theorem c01_record_with_choices_roundtrip (m : Mode) : ∀ (d : Nat) (ty : Ty) (it : Item), WTItemG d ty it → Dec m ty it := by
  intro d
  induction d with
  | zero =>
    intro ty it hw
    cases ty <;> cases it <;> simp [WTItemG] at hw
    refine ⟨fun q => rfl, 1, ?_⟩
    intro gas hg q a
    obtain ⟨g, rfl⟩ : ∃ g, gas = g + 1 := ⟨gas - 1, by omega⟩
    exact ⟨1, by simp [serItem, parseNode, Node.text, pure, Except.pure]⟩
  | succ d ih =>
    intro ty it hw
    cases ty with
    | simple =>
      cases it <;> simp [WTItemG] at hw
      refine ⟨fun q => rfl, 1, ?_⟩
      intro gas hg q a
      obtain ⟨g, rfl⟩ : ∃ g, gas = g + 1 := ⟨gas - 1, by omega⟩
      exact ⟨1, by simp [serItem, parseNode, Node.text, pure, Except.pure]⟩
    | complex content decls hasFields =>
      cases it with
      | complex attrs ci raw =>
        match content, hasFields, ci, raw, hw with
        | some (.seq ps smin (.bounded 1)), true, some (.seqR [insts]), [], hw =>
          simp only [WTItemG] at hw
          obtain ⟨hattrs, hround⟩ := hw
          exact dec_record_of_members m _ (memberOK_of_WT m (WTItemG d) ih) ps insts smin decls attrs hattrs hround
      | _ => simp [WTItemG] at hw
    | _ => cases it <;> simp [WTItemG] at hw

/-- at the root (`Element.parse`): `parse (serialise v) = v` for records with choices -/
theorem c01_record_with_choices_roundtrip_root (m : Mode) (d : Nat) (ty : Ty) (it : Item) (q : QName) (hw : WTItemG d ty it) :
    ∃ g0, ∀ gas, g0 ≤ gas → ∃ calls, parseRoot gas m ty (serItem q ty it) = .ok ⟨it, [], calls⟩ := by
  obtain ⟨_, g0, h⟩ := c01_record_with_choices_roundtrip m d ty it hw
  exact ⟨g0, fun gas hg => h gas hg q false⟩

/-! non-vacuity: a record with a taken choice, an absent optional choice, a falsy leaf and a nested record in a choice branch -/
private def tyLeafRec : Ty := .complex (some (.seq [.elem ⟨none, "p"⟩ 1 (.bounded 1) .simple] 1 (.bounded 1))) [] true
private def tyCh : Ty :=
  .complex (some (.seq [.elem ⟨none, "a"⟩ 1 (.bounded 1) .simple,
                        .choice [.elem ⟨none, "x"⟩ 1 (.bounded 1) .simple, .elem ⟨none, "y"⟩ 1 (.bounded 1) tyLeafRec] 1 (.bounded 1),
                        .choice [.elem ⟨none, "u"⟩ 1 (.bounded 1) .simple, .elem ⟨none, "v"⟩ 1 (.bounded 1) .simple] 0 (.bounded 1),
                        .elem ⟨none, "z"⟩ 0 .unbounded .simple] 1 (.bounded 1))) [] true
private def itCh : Item :=
  .complex [] (some (.seqR [[.elems [.leaf (some "0")],
                              .choiceR [(1, .elems [.complex [] (some (.seqR [[.elems [.leaf (some "")]]])) []])],
                              .choiceR [],
                              .elems [.leaf (some "false")]]])) []

example : WTItemG 2 tyCh itCh := by
  simp [WTItemG, WTRoundG, WTMember, SimpleBranches, tyCh, itCh, tyLeafRec, declaredAttrs, pnames, mnames, lnames, Occ.limit,
    serInst, serItems, serChoice, serItem, serRounds, serList]
  exact ⟨_, _, ⟨rfl, rfl⟩, by simp [WTItemG, WTRoundG, WTMember, declaredAttrs, pnames, mnames, lnames, Occ.limit, serInst, serItems, serItem]⟩

example : (match parseRoot 100 .strict tyCh (serItem ⟨none, "root"⟩ tyCh itCh) with
    | .ok r => r.rest.isEmpty | .error _ => false) = true := by decide +kernel

end Zeep.Xsd
