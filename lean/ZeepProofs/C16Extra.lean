import ZeepModel.Soap.Pipeline
/-!
# C16 — "per-call extra HTTP headers are merged": a mapping update, by exact key

`http_headers.update(client.settings.extra_http_headers)`: what the last plugin / WS-Security stage handed on survives unless an extra
header has *exactly* that key (Python dict keys: `soapaction` and `SOAPAction` are two keys).
-/
namespace Zeep.Pipeline

/-- the value a header mapping holds for `k` (last write wins) -/
def getH (h : List (String × String)) (k : String) : Option String :=
  ((h.filter fun p => p.1 == k).getLast?).map (·.2)

theorem getH_append_single (h : List (String × String)) (k v k' : String) :
    getH (h ++ [(k, v)]) k' = if k = k' then some v else getH h k' := by
  unfold getH
  by_cases hk : k = k'
  · subst hk; simp [List.filter_append]
  · have : (k == k') = false := by simp [hk]
    simp [List.filter_append, hk]

theorem getH_filter_ne (h : List (String × String)) (k k' : String) (hk : k ≠ k') :
    getH (h.filter fun p => p.1 != k) k' = getH h k' := by
  unfold getH
  rw [List.filter_filter]
  congr 2
  apply List.filter_congr
  intro p _
  by_cases hp : p.1 = k'
  · have : p.1 ≠ k := by intro h; exact hk (h ▸ hp)
    simp [hp, this, bne_iff_ne]
    intro h; exact hk h.symm
  · simp [hp]

theorem getH_setHeader (h : List (String × String)) (k v k' : String) :
    getH (setHeader h k v) k' = if k = k' then some v else getH h k' := by
  unfold setHeader
  rw [getH_append_single]
  by_cases hk : k = k'
  · simp [hk]
  · simp [hk, getH_filter_ne h k k' hk]

theorem getH_cons (pk pv : String) (rest : List (String × String)) (k : String) :
    getH ((pk, pv) :: rest) k = match getH rest k with
      | some v => some v
      | none => if pk = k then some pv else none := by
  unfold getH
  by_cases hk : pk = k
  · subst hk
    simp only [List.filter_cons, beq_self_eq_true, if_true]
    cases hl : (rest.filter fun p => p.1 == pk) with
    | nil => simp
    | cons a l =>
      simp only [List.getLast?_cons_cons]
      have : ((a :: l).getLast?).isSome := by simp [List.getLast?_isSome]
      cases hg : (a :: l).getLast? with
      | none => simp [hg] at this
      | some x => simp
  · have : (pk == k) = false := by simp [hk]
    simp only [List.filter_cons, this, Bool.false_eq_true, if_false, hk]
    cases ((rest.filter fun p => p.1 == k).getLast?) <;> simp

theorem getH_foldl (extra : List (String × String)) : ∀ (h : List (String × String)) (k : String),
    getH (extra.foldl (fun h p => setHeader h p.1 p.2) h) k =
      match getH extra k with
      | some v => some v
      | none => getH h k := by
  induction extra with
  | nil => intro h k; simp [getH]
  | cons p extra ih =>
    intro h k
    obtain ⟨pk, pv⟩ := p
    rw [List.foldl_cons, ih, getH_cons, getH_setHeader]
    cases getH extra k with
    | some v => rfl
    | none =>
      by_cases hk : pk = k <;> simp [hk]

/-- **merged = updated, by exact key.**  After the extra-headers stage the header mapping answers, for every key: the extra header
of exactly that key if there is one (the last, should the caller's mapping list a key twice), otherwise what the previous stage left. -/
theorem c16_extra_is_update (extra : List (String × String)) (m : Msg) (k : String) :
    getH ((extraStage extra).run m).headers k =
      match getH extra k with
      | some v => some v
      | none => getH m.headers k := by
  simp only [extraStage, Stage.run]
  exact getH_foldl extra m.headers k

/-- and the envelope is not touched by that stage -/
theorem c16_extra_keeps_envelope (extra : List (String × String)) (m : Msg) :
    ((extraStage extra).run m).marks = m.marks := by
  simp [extraStage, Stage.run]

/-- non-vacuity / the case-colliding call: `soapaction` as an extra leaves the binding's `SOAPAction` in place -/
example :
    let m : Msg := ⟨[], [("Content-Type", "text/xml; charset=utf-8"), ("SOAPAction", "\"act\"")]⟩
    let w := (extraStage [("soapaction", "x")]).run m
    getH w.headers "SOAPAction" = some "\"act\"" ∧ getH w.headers "soapaction" = some "x" := by decide

end Zeep.Pipeline
