import ZeepModel.Xsd.Bind
/-!
# C12 — call arguments are bound faithfully or refused, never silently ignored

Theorems about `Bind.call` (construct the value object, then render with validation) for **every**
record signature, tag, positional list and keyword list:

* a keyword naming nothing in the signature is refused — at the top level (`c12_unknown_key_refused`)
  and at any nesting depth, inside nested records, items of repeated elements and iterations of
  repeated sequences (`c12_unknown_key_any_depth`, by induction over the path to the offending key);
* surplus positional arguments and a field given both ways are refused;
* a repetition outside its occurrence bounds (element lists and repeated-sequence iterations), a
  missing required non-nillable element and a missing required attribute are refused;
* the positional and the keyword spelling of the same data give the same result;
* `SkipValue` omits, `Nil` marks, exactly the element they are supplied for.

"Refused" is `∃ e, call … = .error e`: an exception before any XML exists.
-/
namespace Zeep.Bind
open Zeep Zeep.Xsd

/-! ### unknown keys -/

theorem keysDeclared_false (fs : List BField) (as : List BAttr) (kvs : List (String × Arg)) (k : String) (v : Arg)
    (hk : (k, v) ∈ kvs) (h1 : k ∉ fieldNames fs) (h2 : k ∉ attrNames as) : keysDeclared fs as kvs = false := by
  simp only [keysDeclared, List.all_eq_false]
  exact ⟨(k, v), hk, by simp [h1, h2]⟩

theorem call_typeError_of_keysOk_false (fs : List BField) (as : List BAttr) (tag : String) (pos : List Arg) (kw : List (String × Arg))
    (h : ∀ bound, bindPositional (fieldNames fs ++ attrNames as) pos = some bound → keysOk (.record fs as) (.dict (bound ++ kw)) = false) :
    call fs as tag pos kw = .error .typeError := by
  unfold call
  cases hb : bindPositional (fieldNames fs ++ attrNames as) pos with
  | none => rfl
  | some bound =>
    simp only []
    split
    · rfl
    · simp [h bound hb]

/-- **An unknown keyword is refused**, whatever else is passed. -/
theorem c12_unknown_key_refused (fs : List BField) (as : List BAttr) (tag : String) (pos : List Arg) (kw : List (String × Arg))
    (k : String) (v : Arg) (hk : (k, v) ∈ kw) (h1 : k ∉ fieldNames fs) (h2 : k ∉ attrNames as) :
    call fs as tag pos kw = .error .typeError := by
  apply call_typeError_of_keysOk_false
  intro bound _
  simp [keysOk, keysDeclared_false fs as (bound ++ kw) k v (List.mem_append_right _ hk) h1 h2]

/-- the path to an undeclared key somewhere inside an argument -/
inductive Unknown : BTy → Arg → Prop
  | here {fs as kvs} (k : String) (v : Arg) : (k, v) ∈ kvs → k ∉ fieldNames fs → k ∉ attrNames as →
      Unknown (.record fs as) (.dict kvs)
  | inElem {fs as kvs n mn mx nl ty v} : BField.elem n mn mx nl ty ∈ fs → kvs.lookup n = some v → (∀ xs, v ≠ .list xs) →
      Unknown ty v → Unknown (.record fs as) (.dict kvs)
  | inElemItem {fs as kvs n mn mx nl ty xs x} : BField.elem n mn mx nl ty ∈ fs → kvs.lookup n = some (.list xs) → x ∈ xs →
      Unknown ty x → Unknown (.record fs as) (.dict kvs)
  | inIteration {fs as kvs n mn mx gs xs x} : BField.rseq n mn mx gs ∈ fs → kvs.lookup n = some (.list xs) → x ∈ xs →
      Unknown (.record gs []) x → Unknown (.record fs as) (.dict kvs)

theorem keysOkFields_false (fs : List BField) (kvs : List (String × Arg)) (f : BField) (hf : f ∈ fs)
    (h : keysOkField f (kvs.lookup f.name) = false) : keysOkFields fs kvs = false := by
  induction fs with
  | nil => cases hf
  | cons g gs ih =>
    simp only [keysOkFields, Bool.and_eq_false_iff]
    rcases List.mem_cons.mp hf with rfl | hf'
    · exact Or.inl h
    · exact Or.inr (ih hf')

theorem keysOkIter_eq (gs : List BField) (x : Arg) (h : keysOk (.record gs []) x = false) : keysOkIter gs x = false := by
  cases x <;> simp_all [keysOk, keysOkIter]

theorem keysOk_false_of_unknown : ∀ (ty : BTy) (a : Arg), Unknown ty a → keysOk ty a = false := by
  intro ty a h
  induction h with
  | here k v hk h1 h2 => simp [keysOk, keysDeclared_false _ _ _ k v hk h1 h2]
  | @inElem fs as kvs n mn mx nl ty v hf hl hnl _ ih =>
    have : keysOkField (.elem n mn mx nl ty) (kvs.lookup n) = false := by
      rw [hl]
      cases v <;> simp_all [keysOkField]
    simp [keysOk, keysOkFields_false fs kvs _ hf (by simpa [BField.name] using this)]
  | @inElemItem fs as kvs n mn mx nl ty xs x hf hl hx _ ih =>
    have : keysOkField (.elem n mn mx nl ty) (kvs.lookup n) = false := by
      rw [hl]; simp only [keysOkField, List.all_eq_false]; exact ⟨x, hx, by simp [ih]⟩
    simp [keysOk, keysOkFields_false fs kvs _ hf (by simpa [BField.name] using this)]
  | @inIteration fs as kvs n mn mx gs xs x hf hl hx _ ih =>
    have : keysOkField (.rseq n mn mx gs) (kvs.lookup n) = false := by
      rw [hl]; simp only [keysOkField, List.all_eq_false]
      refine ⟨x, hx, ?_⟩
      have := keysOkIter_eq gs x ih
      cases x <;> simp_all [keysOkIter]
    simp [keysOk, keysOkFields_false fs kvs _ hf (by simpa [BField.name] using this)]

/-- **An unknown key at any nesting depth is refused** — in a nested record, in an item of a repeated
element, in any iteration (not only the last) of a repeated sequence, to any depth. -/
theorem c12_unknown_key_any_depth (fs : List BField) (as : List BAttr) (tag : String) (kw : List (String × Arg))
    (h : Unknown (.record fs as) (.dict kw)) : call fs as tag [] kw = .error .typeError := by
  apply call_typeError_of_keysOk_false
  intro bound hb
  have : bound = [] := by
    simp only [bindPositional, List.length_nil, Nat.zero_le, if_true, List.zip_nil_right] at hb
    exact (Option.some.inj hb).symm
  subst this
  simpa using keysOk_false_of_unknown _ _ h

/-! ### positional arguments -/

/-- **Surplus positional arguments are refused.** -/
theorem c12_surplus_positional_refused (fs : List BField) (as : List BAttr) (tag : String) (pos : List Arg) (kw : List (String × Arg))
    (h : (fieldNames fs ++ attrNames as).length < pos.length) : call fs as tag pos kw = .error .typeError := by
  unfold call bindPositional
  have h' : ¬ pos.length ≤ (fieldNames fs).length + (attrNames as).length := by
    simp only [List.length_append] at h; omega
  simp [h']

/-- **A field given positionally and by keyword is refused.** -/
theorem c12_duplicate_refused (fs : List BField) (as : List BAttr) (tag : String) (pos : List Arg) (kw : List (String × Arg))
    (bound : List (String × Arg)) (hb : bindPositional (fieldNames fs ++ attrNames as) pos = some bound)
    (n : String) (a : Arg) (hn : (n, a) ∈ bound) (hk : (kw.lookup n).isSome) : call fs as tag pos kw = .error .typeError := by
  unfold call
  rw [hb]
  have : bound.any (fun b => (kw.lookup b.1).isSome) = true := List.any_eq_true.mpr ⟨(n, a), hn, hk⟩
  simp [this]

/-- **The calling conventions agree**: the first fields given positionally or the same data given by
keyword produce the same element or the same error. -/
theorem c12_conventions_agree (fs : List BField) (as : List BAttr) (tag : String) (pos : List Arg)
    (h : pos.length ≤ (fieldNames fs ++ attrNames as).length) :
    call fs as tag pos [] = call fs as tag [] ((fieldNames fs ++ attrNames as).zip pos) := by
  unfold call bindPositional
  have h' : pos.length ≤ (fieldNames fs).length + (attrNames as).length := by
    simpa only [List.length_append] using h
  simp [h']

/-! ### refusal while rendering -/

def Refused (r : Except BErr Node) : Prop := ∃ e, r = .error e

theorem emitFields_error (fs : List BField) (kvs : List (String × Arg)) (f : BField) (hf : f ∈ fs)
    (h : ∃ e, emitField f (kvs.lookup f.name) = .error e) : ∃ e, emitFields fs kvs = .error e := by
  induction fs with
  | nil => cases hf
  | cons g gs ih =>
    rcases List.mem_cons.mp hf with rfl | hf'
    · obtain ⟨e, he⟩ := h
      simp only [emitFields, he]
      exact ⟨e, rfl⟩
    · obtain ⟨e, he⟩ := ih hf'
      simp only [emitFields, he]
      cases emitField g (kvs.lookup g.name) with
      | ok a => exact ⟨e, rfl⟩
      | error e' => exact ⟨e', rfl⟩

theorem refused_of_fields (fs : List BField) (as : List BAttr) (tag : String) (pos : List Arg) (kw : List (String × Arg))
    (h : ∀ bound, bindPositional (fieldNames fs ++ attrNames as) pos = some bound → ∃ e, emitFields fs (bound ++ kw) = .error e) :
    Refused (call fs as tag pos kw) := by
  unfold call Refused
  cases hb : bindPositional (fieldNames fs ++ attrNames as) pos with
  | none => exact ⟨_, rfl⟩
  | some bound =>
    simp only []
    split
    · exact ⟨_, rfl⟩
    · split
      · exact ⟨_, rfl⟩
      · obtain ⟨e, he⟩ := h bound hb
        simp only [emitTy, he]
        exact ⟨e, rfl⟩

/-- a field whose emission fails makes the whole call fail (keyword-only calls) -/
theorem refused_of_field (fs : List BField) (as : List BAttr) (tag : String) (kw : List (String × Arg)) (f : BField) (hf : f ∈ fs)
    (h : ∃ e, emitField f (kw.lookup f.name) = .error e) : Refused (call fs as tag [] kw) := by
  apply refused_of_fields
  intro bound hb
  have : bound = [] := by
    simp only [bindPositional, List.length_nil, Nat.zero_le, if_true, List.zip_nil_right] at hb
    exact (Option.some.inj hb).symm
  subst this
  exact emitFields_error fs kw f hf (by simpa using h)

/-- **A repetition outside its occurrence bounds is refused** — a repeated element given a list
shorter than minOccurs or longer than maxOccurs (maxOccurs = unbounded included for the lower bound),
and a repeated sequence given too few or too many iterations. -/
theorem c12_occurs_refused (fs : List BField) (as : List BAttr) (tag : String) (kw : List (String × Arg))
    (n : String) (mn : Nat) (mx : Occ) (xs : List Arg) (hl : kw.lookup n = some (.list xs)) (hb : withinBounds mn mx xs.length = false) :
    (∀ nl ty, BField.elem n mn mx nl ty ∈ fs → mx ≠ .bounded 1 → Refused (call fs as tag [] kw)) ∧
    (∀ gs, BField.rseq n mn mx gs ∈ fs → Refused (call fs as tag [] kw)) := by
  constructor
  · intro nl ty hf hmx
    apply refused_of_field fs as tag kw _ hf
    have : (mx == Occ.bounded 1) = false := by simpa using hmx
    exact ⟨.validation, by simp [BField.name, hl, emitField, this, hb]⟩
  · intro gs hf
    apply refused_of_field fs as tag kw _ hf
    exact ⟨.validation, by simp [BField.name, hl, emitField, hb]⟩

/-- **A missing required non-nillable element is refused** — left out or given as `None`. -/
theorem c12_missing_required_refused (fs : List BField) (as : List BAttr) (tag : String) (kw : List (String × Arg))
    (n : String) (mn : Nat) (ty : BTy) (hf : BField.elem n mn (.bounded 1) false ty ∈ fs) (hmn : mn ≠ 0)
    (hl : kw.lookup n = none ∨ kw.lookup n = some .none) : Refused (call fs as tag [] kw) := by
  apply refused_of_field fs as tag kw _ hf
  have : (mn == 0) = false := by simpa using hmn
  rcases hl with hl | hl <;> exact ⟨.validation, by simp [BField.name, hl, emitField, this]⟩

theorem collect_error {α} (l : List (Except BErr (List α))) (e : BErr) (h : .error e ∈ l) : ∃ e', collect l = .error e' := by
  induction l with
  | nil => cases h
  | cons x xs ih =>
    cases x with
    | error e0 => exact ⟨e0, rfl⟩
    | ok a =>
      rcases List.mem_cons.mp h with h | h
      · cases h
      · obtain ⟨e', he⟩ := ih h
        exact ⟨e', by simp [collect, he]⟩

/-- **A missing required attribute is refused.** -/
theorem c12_missing_required_attribute_refused (fs : List BField) (as : List BAttr) (tag : String) (kw : List (String × Arg))
    (a : BAttr) (ha : a ∈ as) (hr : a.required = true) (hl : kw.lookup a.name = none ∨ kw.lookup a.name = some .none) :
    Refused (call fs as tag [] kw) := by
  unfold call Refused bindPositional
  simp only [List.length_nil, Nat.zero_le, if_true, List.zip_nil_right, List.any_nil, Bool.false_eq_true, if_false, List.nil_append]
  split
  · exact ⟨_, rfl⟩
  · have hattr : ∃ e, emitAttrs as kw = .error e := by
      unfold emitAttrs
      apply collect_error _ .validation
      simp only [List.mem_map]
      refine ⟨a, ha, ?_⟩
      rcases hl with hl | hl <;> simp [emitAttr, hl, hr]
    obtain ⟨e, he⟩ := hattr
    simp only [emitTy, he]
    cases emitFields fs kw with
    | ok k => exact ⟨e, rfl⟩
    | error e' => exact ⟨e', rfl⟩

/-! ### the explicit markers -/

/-- `SkipValue` leaves out exactly the element it is supplied for — also a required one -/
theorem c12_skip_omits (n : String) (mn : Nat) (nl : Bool) (ty : BTy) :
    emitField (.elem n mn (.bounded 1) nl ty) (some .skip) = .ok [] := by
  simp [emitField]

/-- `Nil` emits exactly one `xsi:nil="true"` element — also for an optional or non-nillable declaration -/
theorem c12_nil_marks (n : String) (mn : Nat) (nl : Bool) (ty : BTy) :
    emitField (.elem n mn (.bounded 1) nl ty) (some .nil) = .ok [nilNode n] := by
  simp [emitField]

/-! ### non-vacuity -/

private def sigFs : List BField :=
  [.elem "a" 1 (.bounded 1) false .leaf,
   .elem "c" 1 (.bounded 3) false .leaf,
   .elem "r" 1 (.bounded 1) false (.record [.elem "p" 1 (.bounded 1) false .leaf] []),
   .rseq "_value_1" 1 (.bounded 2) [.elem "x" 1 (.bounded 1) false .leaf, .elem "y" 0 (.bounded 1) false .leaf]]
private def sigAs : List BAttr := [⟨"id", true⟩]
private def goodKw : List (String × Arg) :=
  [("a", .leaf "A"), ("c", .list [.leaf "0"]), ("r", .dict [("p", .leaf "P")]),
   ("_value_1", .list [.dict [("x", .leaf "1")], .dict [("x", .leaf "2"), ("y", .leaf "")]]), ("id", .leaf "5")]

/-- a conforming call is accepted… -/
example : (match call sigFs sigAs "root" [] goodKw with | .ok _ => true | .error _ => false) = true := by decide +kernel

/-- …and a misspelt key in the *first* iteration of the repeated sequence meets the hypotheses of `c12_unknown_key_any_depth` -/
example : Unknown (.record sigFs sigAs) (.dict
    [("a", .leaf "A"), ("c", .list [.leaf "0"]), ("r", .dict [("p", .leaf "P")]),
     ("_value_1", .list [.dict [("x", .leaf "1"), ("yy", .leaf "oops")], .dict [("x", .leaf "2")]]), ("id", .leaf "5")]) := by
  refine Unknown.inIteration (n := "_value_1") (mn := 1) (mx := .bounded 2)
    (gs := [.elem "x" 1 (.bounded 1) false .leaf, .elem "y" 0 (.bounded 1) false .leaf])
    (xs := [.dict [("x", .leaf "1"), ("yy", .leaf "oops")], .dict [("x", .leaf "2")]])
    (x := .dict [("x", .leaf "1"), ("yy", .leaf "oops")]) (by simp [sigFs]) (by simp [List.lookup]) (by simp) ?_
  exact Unknown.here "yy" (.leaf "oops") (by simp) (by simp [fieldNames, BField.name]) (by simp [attrNames])

end Zeep.Bind
