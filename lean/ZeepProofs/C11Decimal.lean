import ZeepModel.Lex.Decimal
import ZeepProofs.C11
/-!
# C11 — `xsd:decimal`: what is written reads back as the same number

For every finite `Decimal` (any sign, any coefficient, any exponent): `Decimal("{:f}".format(d))` is `canon d` — the very same
triple when `d` has a fraction (exponent < 0: trailing zeros, `-0.000`, `0.00123` are all preserved), and the number written out
in full with exponent 0 when the exponent is positive (`1E+2` reads back as `100`); `canon_same_number` states that it is the
same number.  The lexical variants a peer may send (`+5`, `5.`, `.5`, leading zeros) are accepted.
-/
namespace Zeep.Decimal
open Zeep.Digits Zeep.GTypes

theorem zeros_all_digit (k : Nat) : ∀ c ∈ zeros k, isDigit c = true := by
  intro c hc
  have : c = '0' := List.eq_of_mem_replicate hc
  subst this; decide

theorem readAcc_trailing_zeros (acc k : Nat) : readAcc acc (zeros k) = some (acc * 10 ^ k) := by
  induction k generalizing acc with
  | zero => simp [zeros, readAcc]
  | succ k ih =>
    have : charDigit '0' = some 0 := by decide
    simp only [zeros, List.replicate_succ, readAcc, this]
    have := ih (acc * 10 + 0)
    simp only [zeros] at this
    rw [this, Nat.pow_succ]
    congr 1
    rw [Nat.add_zero, Nat.mul_assoc, Nat.mul_comm 10]

theorem span_all (ds : List Char) (h : ∀ c ∈ ds, isDigit c = true) : spanDigits ds = (ds, []) := by
  have := spanDigits_append ds [] h (fun c hc => by simp at hc)
  simpa using this

theorem span_dot (ds rest : List Char) (h : ∀ c ∈ ds, isDigit c = true) : spanDigits (ds ++ '.' :: rest) = (ds, '.' :: rest) :=
  spanDigits_append ds ('.' :: rest) h (fun c hc => by simp at hc; subst hc; decide)

theorem splitSign_neg (r : List Char) : splitSign ('-' :: r) = (true, r) := rfl

theorem splitSign_plain (r : List Char) (h : ∀ c, r.head? = some c → c ≠ '-' ∧ c ≠ '+') : splitSign r = (false, r) := by
  cases r with
  | nil => rfl
  | cons c cs =>
    obtain ⟨h1, h2⟩ := h c rfl
    unfold splitSign
    split
    · rename_i heq; simp only [List.cons.injEq] at heq; exact absurd heq.1 h1
    · rename_i heq; simp only [List.cons.injEq] at heq; exact absurd heq.1 h2
    · rfl

theorem digits_take_all_digit (n k : Nat) : ∀ c ∈ (digits n).take k, isDigit c = true :=
  fun c hc => digits_all_digit n c (List.mem_of_mem_take hc)

theorem digits_drop_all_digit (n k : Nat) : ∀ c ∈ (digits n).drop k, isDigit c = true :=
  fun c hc => digits_all_digit n c (List.mem_of_mem_drop hc)

/-- the unsigned part reads back -/
theorem decBody_body (neg : Bool) (c : Nat) (e : Int) :
    decBody neg (body c e) = some (canon ⟨neg, c, e⟩) := by
  unfold body canon
  by_cases he : e ≥ 0
  · simp only [he, if_true]
    by_cases hc : c = 0
    · subst hc
      simp only [if_true]
      have : spanDigits ['0'] = (['0'], []) := by decide
      simp [decBody, this, readAcc]
      decide
    · simp only [hc, if_false]
      have hall : ∀ ch ∈ digits c ++ zeros e.toNat, isDigit ch = true := by
        intro ch hch
        rcases List.mem_append.1 hch with h | h
        · exact digits_all_digit c ch h
        · exact zeros_all_digit _ ch h
      have hne : digits c ++ zeros e.toNat ≠ [] := by simp [digits_ne_nil]
      have hread : readAcc 0 (digits c ++ zeros e.toNat) = some (c * 10 ^ e.toNat) := by
        rw [readAcc_append, readAcc_digits]
        simp only [Nat.zero_mul, Nat.zero_add, Option.bind_some]
        exact readAcc_trailing_zeros c e.toNat
      simp [decBody, span_all _ hall, hne, hread]
  · have hneg : ¬ e ≥ 0 := he
    simp only [hneg, if_false]
    have hk : ((-e).toNat : Int) = -e := Int.toNat_of_nonneg (by omega)
    by_cases hlen : (digits c).length ≤ (-e).toNat
    · simp only [hlen, if_true]
      have hspan1 : spanDigits ('0' :: '.' :: (zeros ((-e).toNat - (digits c).length) ++ digits c)) =
          (['0'], '.' :: (zeros ((-e).toNat - (digits c).length) ++ digits c)) := by
        have := span_dot ['0'] (zeros ((-e).toNat - (digits c).length) ++ digits c) (by intro ch hch; simp at hch; subst hch; decide)
        simpa using this
      have hall : ∀ ch ∈ zeros ((-e).toNat - (digits c).length) ++ digits c, isDigit ch = true := by
        intro ch hch
        rcases List.mem_append.1 hch with h | h
        · exact zeros_all_digit _ ch h
        · exact digits_all_digit c ch h
      have hread : readAcc 0 ('0' :: (zeros ((-e).toNat - (digits c).length) ++ digits c)) = some c := by
        have h0 : charDigit '0' = some 0 := by decide
        simp only [readAcc, h0, Nat.zero_mul, Nat.add_zero]
        have := readAcc_zeros ((-e).toNat - (digits c).length) (digits c)
        simp only [zeros]
        rw [this, readAcc_digits]
        simp
      have hlen2 : ((zeros ((-e).toNat - (digits c).length) ++ digits c).length : Int) = -e := by
        simp only [zeros, List.length_append, List.length_replicate]
        omega
      simp only [decBody, hspan1, span_all _ hall]
      simp [hread]
      simp only [zeros, List.length_replicate]
      omega
    · simp only [hlen, if_false]
      have hlt : (-e).toNat < (digits c).length := by omega
      have hspan1 := span_dot ((digits c).take ((digits c).length - (-e).toNat)) ((digits c).drop ((digits c).length - (-e).toNat))
        (digits_take_all_digit c _)
      have hne : (digits c).take ((digits c).length - (-e).toNat) ≠ [] := by
        intro h
        have := congrArg List.length h
        simp only [List.length_take, List.length_nil] at this
        omega
      have hread : readAcc 0 ((digits c).take ((digits c).length - (-e).toNat) ++ (digits c).drop ((digits c).length - (-e).toNat)) = some c := by
        rw [List.take_append_drop, readAcc_digits]; simp
      have hlen2 : (((digits c).drop ((digits c).length - (-e).toNat)).length : Int) = -e := by
        simp only [List.length_drop]
        omega
      simp only [decBody, hspan1, span_all _ (digits_drop_all_digit c _)]
      simp [hne]
      exact ⟨c, by rw [readAcc_digits]; simp, rfl, by omega⟩

theorem body_head_not_sign (c : Nat) (e : Int) : ∀ ch, (body c e).head? = some ch → ch ≠ '-' ∧ ch ≠ '+' := by
  intro ch hch
  have hd : ∀ ch', (digits c).head? = some ch' → ch' ≠ '-' ∧ ch' ≠ '+' := digits_head_not_sign c
  unfold body at hch
  simp only at hch
  split at hch
  · split at hch
    · simp at hch; subst hch; decide
    · cases hdc : digits c with
      | nil => exact absurd hdc (digits_ne_nil c)
      | cons x xs => rw [hdc] at hch; simp at hch; subst hch; exact hd x (by rw [hdc]; rfl)
  · split at hch
    · simp at hch; subst hch; decide
    · rename_i hlen
      cases hdc : (digits c).take ((digits c).length - (-e).toNat) with
      | nil =>
        have := congrArg List.length hdc
        simp only [List.length_take, List.length_nil] at this
        omega
      | cons x xs =>
        rw [hdc] at hch; simp at hch; subst hch
        have hx : (digits c).head? = some x := by
          cases hfull : digits c with
          | nil => exact absurd hfull (digits_ne_nil c)
          | cons y ys =>
            rw [hfull] at hdc
            cases hn : (y :: ys).length - (-e).toNat with
            | zero => rw [hn] at hdc; simp at hdc
            | succ n => rw [hn] at hdc; simp at hdc; simp [hdc.1]
        exact hd x hx

/-- **decimal round trip**: every finite Decimal -/
theorem decimal_rt (d : Dec) : decDec (encDec d) = some (canon d) := by
  obtain ⟨neg, c, e⟩ := d
  unfold decDec encDec
  cases neg with
  | true =>
    simp only [if_true, List.cons_append, List.nil_append, splitSign_neg]
    exact decBody_body true c e
  | false =>
    simp only [Bool.false_eq_true, if_false, List.nil_append, splitSign_plain _ (body_head_not_sign c e)]
    exact decBody_body false c e

/-- what reads back denotes the same number: with a fraction it is the same triple, with a positive exponent the coefficient
is written out (`coeff * 10^exp`, exponent 0) -/
theorem canon_same_number (d : Dec) :
    (d.exp < 0 → canon d = d) ∧
    (d.exp ≥ 0 → (canon d).neg = d.neg ∧ (canon d).exp = 0 ∧ (canon d).coeff = d.coeff * 10 ^ d.exp.toNat) := by
  unfold canon
  constructor
  · intro h; have : ¬ d.exp ≥ 0 := by omega
    simp [this]
  · intro h; simp [h]

/-- lexical variants of one number, and what is not a decimal -/
theorem decimal_variants :
    decDec "+5".toList = some ⟨false, 5, 0⟩ ∧ decDec "5.".toList = some ⟨false, 5, 0⟩ ∧ decDec "005".toList = some ⟨false, 5, 0⟩ ∧
    decDec "5.000".toList = some ⟨false, 5000, -3⟩ ∧ decDec ".5".toList = some ⟨false, 5, -1⟩ ∧ decDec "-0.50".toList = some ⟨true, 50, -2⟩ ∧
    decDec ".".toList = none ∧ decDec "".toList = none ∧ decDec "1E2".toList = none ∧ decDec "1.2.3".toList = none ∧ decDec "--1".toList = none := by
  decide

example : encDec ⟨false, 123, -5⟩ = "0.00123".toList ∧ encDec ⟨true, 0, -3⟩ = "-0.000".toList ∧ encDec ⟨false, 1, 2⟩ = "100".toList ∧
    encDec ⟨false, 0, 2⟩ = "0".toList ∧ encDec ⟨false, 1250, -2⟩ = "12.50".toList := by
  simp +decide [encDec, body, digits, zeros]

end Zeep.Decimal
