import ZeepModel.Soap.Wsa
/-!
# C17 — WS-Addressing headers are present exactly once, correct and fresh
-/
namespace Zeep.Wsa

def Applies (c : Config) : Prop := c.declaredAction.isSome = true ∨ c.installed = 1

theorem count_append (n : String) (a b : List Entry) : count n (a ++ b) = count n a + count n b := by
  simp [count, List.filter_append]

/-- **Exactly once.**  When the operation declares an action, or one addressing plugin is
installed, or both, a request whose caller-supplied headers contain no addressing entries carries
exactly one Action, one MessageID and one To. -/
theorem c17_exactly_once (c : Config) (id : String) (hs : List Entry) (happ : Applies c)
    (hinst : c.installed ≤ 1) (hclean : ∀ e ∈ hs, isWsa e = false) :
    count "wsa:Action" (request c [id] hs) = 1 ∧ count "wsa:MessageID" (request c [id] hs) = 1 ∧
    count "wsa:To" (request c [id] hs) = 1 := by
  have h0 : ∀ n, (n = "wsa:Action" ∨ n = "wsa:MessageID" ∨ n = "wsa:To") → count n hs = 0 := by
    intro n hn
    simp only [count, List.length_eq_zero_iff, List.filter_eq_nil_iff]
    intro e he
    have := hclean e he
    simp only [isWsa, Bool.or_eq_false_iff] at this
    rcases hn with rfl | rfl | rfl <;> simp [this.1.1, this.1.2, this.2]
  have hone : ∀ implicit, count "wsa:Action" (applyOnce c implicit id hs) = 1 ∧
      count "wsa:MessageID" (applyOnce c implicit id hs) = 1 ∧ count "wsa:To" (applyOnce c implicit id hs) = 1 := by
    intro implicit
    simp only [applyOnce, count_append, h0 _ (Or.inl rfl), h0 _ (Or.inr (Or.inl rfl)),
      h0 _ (Or.inr (Or.inr rfl))]
    refine ⟨?_, ?_, ?_⟩ <;> simp [count, List.filter]
  unfold request
  by_cases hi : c.installed = 0
  · simp only [hi, if_true]
    rcases happ with hd | h1
    · simp only [hd, if_true, List.headD_cons]; exact hone true
    · omega
  · have h1 : c.installed = 1 := by omega
    simp only [h1, List.take, List.foldl]
    exact hone false

/-- **Values.**  Action is the declared action, else the soapAction; To is the override address of
the installed plugin if any, else the port address. -/
theorem c17_values (c : Config) (id : String) (hs : List Entry) (happ : Applies c)
    (hinst : c.installed ≤ 1) :
    (⟨"wsa:Action", c.declaredAction.getD c.soapAction⟩ : Entry) ∈ request c [id] hs ∧
    (⟨"wsa:To", if c.installed = 1 then c.overrideAddr.getD c.portAddr else c.portAddr⟩ : Entry) ∈ request c [id] hs ∧
    (⟨"wsa:MessageID", "urn:uuid:" ++ id⟩ : Entry) ∈ request c [id] hs := by
  unfold request
  by_cases hi : c.installed = 0
  · rcases happ with hd | h1
    · simp [hi, hd, applyOnce, action, toAddr]
    · omega
  · have h1 : c.installed = 1 := by omega
    simp [h1, applyOnce, action, toAddr]

/-- **The other header entries (and hence the Body, which is not touched at all) are unaffected**:
the caller's entries stay, in order, in front of the addressing entries. -/
theorem c17_other_headers_kept (c : Config) (ids : List String) (hs : List Entry) :
    hs <+: request c ids hs := by
  unfold request
  split
  · split
    · exact List.prefix_append _ _
    · exact List.prefix_refl _
  · generalize ids.take c.installed = l
    induction l generalizing hs with
    | nil => exact List.prefix_refl _
    | cons i l ih =>
      simp only [List.foldl]
      exact List.IsPrefix.trans (List.prefix_append _ _) (ih _)

/-- **Operations without addressing carry none of these.** -/
theorem c17_none_without_addressing (c : Config) (ids : List String) (hs : List Entry)
    (hd : c.declaredAction = none) (hi : c.installed = 0) : request c ids hs = hs := by
  simp [request, hd, hi]

/-- **Fresh.**  With an injective id source the MessageIDs of any call history are pairwise distinct. -/
theorem nodup_map_of_injective {α β : Type} (f : α → β) (hf : Function.Injective f) (l : List α)
    (h : l.Nodup) : (l.map f).Nodup := by
  induction l with
  | nil => simp
  | cons a l ih =>
    simp only [List.nodup_cons, List.map_cons, List.mem_map] at h ⊢
    refine ⟨?_, ih h.2⟩
    rintro ⟨x, hx, hfx⟩
    have := hf hfx
    subst this
    exact h.1 hx

theorem c17_fresh (ids : Nat → String) (hinj : Function.Injective ids) (n : Nat) :
    (historyIds ids n).Nodup := by
  unfold historyIds
  exact nodup_map_of_injective ids hinj _ List.nodup_range

/-- plugin installed *and* action declared: still once (this was the defect repaired by F8) -/
example : count "wsa:Action" (request ⟨some "urn:a", "sa", 1, none, "http://p"⟩ ["i"] []) = 1 := by decide

end Zeep.Wsa
