import ZeepModel.Loader
import Generated.Sites
import Generated.SettingsTable
/-!
# C10 — the XML hardening policy applies on every ingress path
-/
namespace Zeep.Loader

/-- with default settings a document that declares entities is rejected -/
theorem c10_default_rejects_entities (d : DocInfo) (h : d.declaresEntities = true) :
    policy Policy.default d ≠ .accepted := by
  simp only [policy, Policy.default]
  cases d.wellFormed <;> cases d.hasDoctype <;> simp [h]

/-- whenever forbid_entities is on, whatever the other four settings -/
theorem c10_forbid_entities (p : Policy) (d : DocInfo) (hp : p.forbidEntities = true)
    (h : d.declaresEntities = true) : policy p d ≠ .accepted := by
  simp only [policy, hp, h]
  cases d.wellFormed <;> cases d.hasDoctype <;> cases p.forbidDtd <;> simp

/-- with forbid_dtd any DOCTYPE is rejected, whatever the other four settings -/
theorem c10_forbid_dtd_rejects_doctype (p : Policy) (d : DocInfo) (hp : p.forbidDtd = true)
    (h : d.hasDoctype = true) : policy p d = .dtdForbidden ∨ policy p d = .syntaxError := by
  simp only [policy, hp, h]
  cases d.wellFormed <;> simp

/-- the policy is a total decision on all 2⁵ × 2³ combinations and a benign document (no DOCTYPE)
is never rejected by it -/
theorem c10_policy_total (p : Policy) (d : DocInfo) :
    (policy p d = .syntaxError ↔ d.wellFormed = false) ∧
    (d.wellFormed = true → d.hasDoctype = false → d.declaresEntities = false → policy p d = .accepted) := by
  constructor
  · simp only [policy]
    cases d.wellFormed <;> cases d.hasDoctype <;> cases p.forbidDtd <;> cases p.forbidEntities <;>
      cases d.declaresEntities <;> simp
  · intro h1 h2 h3; simp [policy, h1, h2, h3]

/-- the settings the policy reads exist, with the documented defaults, in the *current*
`Settings` class (regenerated table) -/
theorem c10_settings_defaults :
    (⟨"forbid_dtd", "False"⟩ : Generated.OptRow) ∈ Generated.settingsOptions ∧
    (⟨"forbid_entities", "True"⟩ : Generated.OptRow) ∈ Generated.settingsOptions ∧
    (⟨"forbid_external", "True"⟩ : Generated.OptRow) ∈ Generated.settingsOptions ∧
    (⟨"strict", "True"⟩ : Generated.OptRow) ∈ Generated.settingsOptions ∧
    (⟨"xml_huge_tree", "False"⟩ : Generated.OptRow) ∈ Generated.settingsOptions := by
  decide

def viaLoader : List String := ["parse_xml", "load_external", "load_external_async", "_get_xml_document"]

/-- classification of a call site of the regenerated inventory -/
def entryOf (s : Generated.ParseSite) : Entry :=
  if s.callee ∈ viaLoader then .parseXml
  else if s.file = "zeep/loader.py" ∧ s.func = "parse_xml" then .parseXml   -- the loader's own parser
  else .bare

/-- **Every ingress site goes through the loader.**  In the inventory regenerated from the
current source, every place where bytes reach an XML parser is `parse_xml` itself or a call of
`parse_xml` / `load_external` / `_get_xml_document`; the only parser ever constructed is the
loader's, with `resolve_entities=False` and without any option that loads an external subset
or validates against a DTD. -/
theorem c10_all_sites_via_loader :
    (∀ s ∈ Generated.parseSites, entryOf s = .parseXml) ∧
    (∀ c ∈ Generated.parserConstructions,
        c.1 = "zeep/loader.py" ∧ c.2.1 = "parse_xml" ∧
        ("resolve_entities", "False") ∈ c.2.2 ∧
        (∀ kv ∈ c.2.2, kv.1 ∉ ["load_dtd", "dtd_validation", "attribute_defaults", "no_network", "**"])) ∧
    Generated.parserConstructions.length = 1 := by
  decide

/-- hence on every path of the inventory the outcome is the policy's -/
theorem c10_every_path (s : Generated.ParseSite) (hs : s ∈ Generated.parseSites) (p : Policy)
    (d : DocInfo) : outcomeVia (entryOf s) p d = policy p d := by
  rw [c10_all_sites_via_loader.1 s hs]; rfl

/-- what a bare parser would do instead — why an un-routed site is a violation -/
theorem c10_bare_counterexample :
    outcomeVia .bare Policy.default ⟨true, true, true⟩ = .accepted ∧
    policy Policy.default ⟨true, true, true⟩ = .entitiesForbidden := by decide

example : policy Policy.default ⟨true, true, true⟩ = .entitiesForbidden := by decide
example : policy ⟨true, false, false, false, true⟩ ⟨true, true, false⟩ = .dtdForbidden := by decide

end Zeep.Loader
