import ZeepProofs.Lemmas.Settings
import Generated.SettingsTable
/-!
# C13 — temporary setting overrides are exactly scoped, nestable and thread-local

Property theorems only.  `mrun` is the model of `Settings` (thread-local overlay + saved
`current` dicts); `srun` is the specification (per-thread stack of frames over a shared base).
A `History` is an arbitrary list of `(thread, primitive step)` pairs, i.e. the interleaving
itself, so every theorem quantified over `History` covers every interleaving of any number of
threads at primitive-step granularity.
-/
namespace Zeep.Settings

/-- **Refinement.** For every base assignment and every history (any threads, any interleaving,
any nesting depth, equal or unequal values) the reads observed on the implementation model are
the reads of the frame-stack specification. -/
theorem c13_refines (base : Opt → Val) (h : History) :
    (mrun (MState.init base) h).2 = (srun (SState.init base) h).2 :=
  (run_refines h _ _ (rel_init base)).2

/-- reachable model states carry a specification state -/
def Reach (m : MState) (s : SState) : Prop :=
  ∃ base h, m = (mrun (MState.init base) h).1 ∧ s = (srun (SState.init base) h).1

theorem reach_rel {m : MState} {s : SState} (r : Reach m s) : Rel m s := by
  obtain ⟨base, h, rfl, rfl⟩ := r
  exact (run_refines h _ _ (rel_init base)).1

theorem mread_eq_sread {m : MState} {s : SState} (r : Rel m s) (t : Thread) (k : Opt) :
    mread m t k = sread s t k := by
  simp only [mread, sread, r.tls, r.inst]

/-! ## thread locality -/

/-- A step of thread `t` that is not a plain assignment never changes what another thread reads
(stated on the implementation model directly, for every state). -/
theorem c13_thread_local (m : MState) (e : Event) (u : Thread) (k : Opt)
    (hu : u ≠ e.thread) (hna : ∀ k' v, e.prim ≠ .assign k' v) :
    mread (mstep m e).1 u k = mread m u k := by
  obtain ⟨t, p⟩ := e
  simp only at hu
  cases p with
  | push => simp [mstep, mread]
  | setKey k' v =>
    simp only [mstep]
    split
    · rfl
    · split
      · rfl
      · simp [mread, upd_other _ _ _ _ hu]
  | restoreKey =>
    simp only [mstep]
    split
    · simp [mread, upd_other _ _ _ _ hu]
    · rfl
  | pop =>
    simp only [mstep]
    split <;> simp [mread]
  | read k' => rfl
  | assign k' v => exact absurd rfl (hna k' v)

/-! ## the stack of one thread depends only on that thread's own steps -/

def stkStep (st : List Frame) : Prim → List Frame
  | .push => [] :: st
  | .setKey k v =>
    match st with
    | [] => st
    | fr :: rest => if hasKey fr k then st else (fr ++ [(k, v)]) :: rest
  | .restoreKey =>
    match st with
    | (_ :: fr) :: rest => fr :: rest
    | _ => st
  | .pop =>
    match st with
    | [] :: rest => rest
    | _ => st
  | .read _ => st
  | .assign _ _ => st

def stkRun (st : List Frame) : List Prim → List Frame
  | [] => st
  | p :: ps => stkRun (stkStep st p) ps

theorem stkRun_append (st : List Frame) (a b : List Prim) :
    stkRun st (a ++ b) = stkRun (stkRun st a) b := by
  induction a generalizing st with
  | nil => rfl
  | cons p a ih => simp [stkRun, ih]

theorem sstep_stack (s : SState) (e : Event) (u : Thread) :
    (sstep s e).1.stack u = if u = e.thread then stkStep (s.stack u) e.prim else s.stack u := by
  obtain ⟨t, p⟩ := e
  by_cases hu : u = t
  · subst hu
    cases p with
    | push => simp [sstep, stkStep]
    | setKey k v =>
      simp only [sstep, stkStep, if_true]
      cases hst : s.stack u with
      | nil => simp [hst]
      | cons fr rest => simp only []; split <;> simp [hst]
    | restoreKey =>
      simp only [sstep, stkStep, if_true]
      split <;> simp_all
    | pop =>
      simp only [sstep, stkStep, if_true]
      split <;> simp_all
    | read k => simp [sstep, stkStep]
    | assign k v => simp [sstep, stkStep]
  · simp only [hu, if_false]
    cases p with
    | push => simp [sstep, upd_other _ _ _ _ hu]
    | setKey k v =>
      simp only [sstep]
      split
      · rfl
      · split
        · rfl
        · simp [upd_other _ _ _ _ hu]
    | restoreKey =>
      simp only [sstep]
      split
      · simp [upd_other _ _ _ _ hu]
      · rfl
    | pop =>
      simp only [sstep]
      split
      · simp [upd_other _ _ _ _ hu]
      · rfl
    | read k => simp [sstep]
    | assign k v => simp [sstep]

def proj (t : Thread) (h : History) : List Prim :=
  (h.filter (fun e => e.thread == t)).map (·.prim)

theorem srun_stack (h : History) (s : SState) (t : Thread) :
    (srun s h).1.stack t = stkRun (s.stack t) (proj t h) := by
  induction h generalizing s with
  | nil => rfl
  | cons e h ih =>
    simp only [srun]
    rw [ih, sstep_stack]
    by_cases he : t = e.thread
    · have : (e.thread == t) = true := by simp [he]
      simp [proj, List.filter, he, stkRun]
    · have : (e.thread == t) = false := by
        simp only [beq_eq_false_iff_ne, ne_eq]; exact fun h => he h.symm
      simp [proj, List.filter, this, he]

/-- base value of `k` is untouched by a history with no assignment to `k` -/
theorem srun_base (h : History) (s : SState) (k : Opt)
    (hna : ∀ e ∈ h, ∀ v, e.prim ≠ .assign k v) : (srun s h).1.base k = s.base k := by
  induction h generalizing s with
  | nil => rfl
  | cons e h ih =>
    simp only [srun]
    rw [ih _ (fun e' he' => hna e' (by simp [he']))]
    obtain ⟨t, p⟩ := e
    cases p with
    | push => simp [sstep]
    | setKey k' v => simp only [sstep]; split; rfl; split <;> rfl
    | restoreKey => simp only [sstep]; split <;> rfl
    | pop => simp only [sstep]; split <;> rfl
    | read k' => rfl
    | assign k' v =>
      simp only [sstep, upd]
      have : k ≠ k' := by
        intro hk; subst hk
        exact hna ⟨t, .assign k v⟩ (by simp) v rfl
      simp [this]

/-! ## blocks are balanced: exit — normal or exceptional, any depth — restores the stack -/

theorem stkRun_setKeys_len (fr : Frame) (st : List Frame) (opts : List (Opt × Val)) :
    ∃ fr', stkRun (fr :: st) (opts.map fun p => Prim.setKey p.1 p.2) = fr' :: st ∧
      fr'.length ≤ fr.length + opts.length := by
  induction opts generalizing fr with
  | nil => exact ⟨fr, rfl, by simp⟩
  | cons p opts ih =>
    simp only [List.map_cons, stkRun, stkStep]
    split
    · obtain ⟨fr', h1, h2⟩ := ih fr
      exact ⟨fr', h1, by simp; omega⟩
    · obtain ⟨fr', h1, h2⟩ := ih (fr ++ [(p.1, p.2)])
      exact ⟨fr', h1, by simp at h2 ⊢; omega⟩

theorem stkRun_restores (fr : Frame) (st : List Frame) (n : Nat) (h : fr.length ≤ n) :
    stkRun (fr :: st) (List.replicate n Prim.restoreKey) = [] :: st := by
  induction n generalizing fr with
  | zero =>
    cases fr with
    | nil => rfl
    | cons _ _ => simp at h
  | succ n ih =>
    simp only [List.replicate_succ, stkRun]
    cases fr with
    | nil => simp only [stkStep]; exact ih [] (by simp)
    | cons p fr => simp only [stkStep]; exact ih fr (by simpa using h)

theorem map_prim_append (a b : List Event) :
    (a ++ b).map (·.prim) = a.map (·.prim) ++ b.map (·.prim) := List.map_append

mutual
theorem flat_balanced (t : Thread) (p : Prog) (st : List Frame) :
    stkRun st ((flat t p).1.map (·.prim)) = st := by
  cases p with
  | read k => simp [flat, stkRun, stkStep]
  | assign k v => simp [flat, stkRun, stkStep]
  | raise => simp [flat, stkRun]
  | block opts body =>
    simp only [flat, List.map_cons, List.map_append, List.map_map, stkRun, stkStep,
      stkRun_append]
    have hset : (opts.map ((fun e : Event => e.prim) ∘ fun p => (⟨t, .setKey p.1 p.2⟩ : Event)))
        = opts.map fun p => Prim.setKey p.1 p.2 := by
      apply List.map_congr_left; intro a _; rfl
    have hres : (opts.map ((fun e : Event => e.prim) ∘ fun _ => (⟨t, .restoreKey⟩ : Event)))
        = List.replicate opts.length Prim.restoreKey := by
      clear hset
      induction opts with
      | nil => rfl
      | cons a opts ih => simp [List.replicate_succ]; exact ih
    rw [hset, hres]
    obtain ⟨fr', h1, h2⟩ := stkRun_setKeys_len [] st opts
    rw [h1, flatL_balanced t body (fr' :: st), stkRun_restores fr' st _ (by simpa using h2)]
    simp [stkRun]
theorem flatL_balanced (t : Thread) (ps : List Prog) (st : List Frame) :
    stkRun st ((flatL t ps).1.map (·.prim)) = st := by
  cases ps with
  | nil => simp [flatL, stkRun]
  | cons p ps =>
    simp only [flatL]
    split
    · exact flat_balanced t p st
    · simp only [List.map_append, stkRun_append]
      rw [flat_balanced t p st, flatL_balanced t ps st]
end

/-- **Exact restoration.**  Let thread `t` execute one whole override block — any options, any
body (nested blocks to any depth, reads, assignments, an exception escaping through any number
of levels) — interleaved in any way with steps of other threads.  Afterwards every option that
was not assigned meanwhile reads, in `t`, exactly as before the block. -/
theorem c13_restores {m : MState} {s : SState} (r : Reach m s) (t : Thread)
    (opts : List (Opt × Val)) (body : List Prog) (h : History)
    (hproj : proj t h = (flat t (.block opts body)).1.map (·.prim))
    (k : Opt) (hna : ∀ e ∈ h, ∀ v, e.prim ≠ .assign k v) :
    mread (mrun m h).1 t k = mread m t k := by
  have rel := reach_rel r
  have rel' := (run_refines h m s rel).1
  rw [mread_eq_sread rel', mread_eq_sread rel]
  simp only [sread, srun_stack, hproj, flat_balanced, srun_base h s k hna]

/-- the same for the stack itself: whatever was assigned, no override is left behind or lost -/
theorem c13_restores_stack (s : SState) (t : Thread) (opts : List (Opt × Val))
    (body : List Prog) (h : History)
    (hproj : proj t h = (flat t (.block opts body)).1.map (·.prim)) :
    (srun s h).1.stack t = s.stack t := by
  rw [srun_stack, hproj, flat_balanced]

/-! ## inside a block -/

theorem stkRun_setKeys (fr : Frame) (st : List Frame) (opts : List (Opt × Val))
    (hn : NodupKeys (fr ++ opts)) :
    stkRun (fr :: st) (opts.map fun p => Prim.setKey p.1 p.2) = (fr ++ opts) :: st := by
  induction opts generalizing fr with
  | nil => simp [stkRun]
  | cons p opts ih =>
    obtain ⟨k, v⟩ := p
    simp only [List.map_cons, stkRun, stkStep]
    have hk : hasKey fr k = false := by
      cases hk : hasKey fr k with
      | false => rfl
      | true =>
        exfalso
        simp only [hasKey, List.any_eq_true] at hk
        obtain ⟨q, hq, hqk⟩ := hk
        simp only [NodupKeys, List.map_append, List.map_cons] at hn
        rw [List.nodup_append] at hn
        exact hn.2.2 q.1 (List.mem_map.mpr ⟨q, hq, rfl⟩) k (by simp) (by simpa using hqk)
    simp only [hk, Bool.false_eq_true, if_false]
    have := ih (fr ++ [(k, v)]) (by simpa using hn)
    simpa using this

theorem lookup_mem (fr : Frame) (k : Opt) (v : Val) (hn : NodupKeys fr) (hm : (k, v) ∈ fr) :
    lookup fr k = some v := by
  induction fr with
  | nil => simp at hm
  | cons p fr ih =>
    obtain ⟨k', v'⟩ := p
    simp only [lookup]
    simp only [NodupKeys, List.map_cons, List.nodup_cons] at hn
    simp only [List.mem_cons, Prod.mk.injEq] at hm
    rcases hm with ⟨rfl, rfl⟩ | hm
    · simp
    · have : k' ≠ k := by
        intro hk; subst hk
        exact hn.1 (List.mem_map.mpr ⟨(k', v), hm, rfl⟩)
      simp only [this, if_false]
      exact ih hn.2 hm

theorem lookup_not_mem (fr : Frame) (k : Opt) (h : k ∉ fr.map Prod.fst) : lookup fr k = none := by
  induction fr with
  | nil => rfl
  | cons p fr ih =>
    obtain ⟨k', v'⟩ := p
    simp only [List.map_cons, List.mem_cons, not_or] at h
    simp only [lookup]
    have : ¬ k' = k := fun hk => h.1 hk.symm
    simp only [this, if_false]
    exact ih h.2

/-- **Inside the block** every overridden option reads as given and every other option as
before (again under any interleaving with other threads). -/
theorem c13_inside {m : MState} {s : SState} (r : Reach m s) (t : Thread)
    (opts : List (Opt × Val)) (hn : NodupKeys opts) (h : History)
    (hproj : proj t h = Prim.push :: opts.map fun p => Prim.setKey p.1 p.2) :
    (∀ k v, (k, v) ∈ opts → mread (mrun m h).1 t k = v) ∧
    (∀ k, k ∉ opts.map Prod.fst → (∀ e ∈ h, ∀ v, e.prim ≠ .assign k v) →
        mread (mrun m h).1 t k = mread m t k) := by
  have rel := reach_rel r
  have rel' := (run_refines h m s rel).1
  have hst : (srun s h).1.stack t = opts :: s.stack t := by
    rw [srun_stack, hproj]
    simp only [stkRun, stkStep]
    simpa using stkRun_setKeys [] (s.stack t) opts (by simpa using hn)
  constructor
  · intro k v hkv
    rw [mread_eq_sread rel']
    simp only [sread, hst, overlay, lookup_mem opts k v hn hkv]
  · intro k hk hna
    rw [mread_eq_sread rel', mread_eq_sread rel]
    simp only [sread, hst, overlay, lookup_not_mem opts k hk, srun_base h s k hna]

/-! ## plain assignment keeps taking effect -/

/-- With no override block open in thread `t` (in particular after any number of completed
blocks, by `c13_restores_stack`), `settings.k = v` is what `t` reads next. -/
theorem c13_assign_after {m : MState} {s : SState} (r : Reach m s) (t u : Thread) (k : Opt)
    (v : Val) (hst : s.stack t = []) :
    mread (mstep m ⟨u, .assign k v⟩).1 t k = v := by
  have rel := reach_rel r
  have rel' := (step_refines m s ⟨u, .assign k v⟩ rel).1
  rw [mread_eq_sread rel']
  simp [sread, sstep, hst, overlay, upd]

/-- after a completed outermost block the stack of the thread is empty again -/
theorem c13_outermost_block_leaves_nothing (base : Opt → Val) (t : Thread)
    (opts : List (Opt × Val)) (body : List Prog) (h : History)
    (hproj : proj t h = (flat t (.block opts body)).1.map (·.prim)) :
    (srun (SState.init base) h).1.stack t = [] := by
  rw [c13_restores_stack _ t opts body h hproj]; rfl

/-! ## Transport.settings(timeout=…) -/

inductive TProg where
  | readT
  | assignT (v : Option Int)
  | raise
  | block (v : Option Int) (body : List TProg)

mutual
def tflat : TProg → List TOp × Bool
  | .readT => ([.readT], false)
  | .assignT v => ([.assignT v], false)
  | .raise => ([], true)
  | .block v body =>
    let (ev, r) := tflatL body
    (.enter v :: ev ++ [.exit], r)
def tflatL : List TProg → List TOp × Bool
  | [] => ([], false)
  | p :: ps =>
    let (e1, r1) := tflat p
    if r1 then (e1, true) else
    let (e2, r2) := tflatL ps
    (e1 ++ e2, r2)
end

theorem trun_append (s : TState) (a b : List TOp) :
    (trun s (a ++ b)).1 = (trun (trun s a).1 b).1 := by
  induction a generalizing s with
  | nil => rfl
  | cons o a ih => simp [trun, ih]

mutual
/-- a whole block leaves cell and saved values as they were at entry -/
theorem tflat_block_restores (v : Option Int) (body : List TProg) (s : TState) :
    (trun s (tflat (.block v body)).1).1 = s := by
  simp only [tflat]
  rw [show (TOp.enter v :: (tflatL body).1 ++ [TOp.exit]) =
        [TOp.enter v] ++ ((tflatL body).1 ++ [TOp.exit]) by simp]
  rw [trun_append, trun_append]
  obtain ⟨c, hc⟩ := tflatL_olds body (trun s [TOp.enter v]).1
  simp only [trun, tstep] at hc ⊢
  rw [hc]
theorem tflatL_olds (ps : List TProg) (s : TState) :
    ∃ c, (trun s (tflatL ps).1).1 = { cell := c, olds := s.olds } := by
  cases ps with
  | nil => exact ⟨s.cell, rfl⟩
  | cons p ps =>
    simp only [tflatL]
    split
    · exact tflat_olds p s
    · rw [trun_append]
      obtain ⟨c1, h1⟩ := tflat_olds p s
      obtain ⟨c2, h2⟩ := tflatL_olds ps (trun s (tflat p).1).1
      exact ⟨c2, by rw [h2, h1]⟩
theorem tflat_olds (p : TProg) (s : TState) :
    ∃ c, (trun s (tflat p).1).1 = { cell := c, olds := s.olds } := by
  cases p with
  | readT => exact ⟨s.cell, rfl⟩
  | assignT v => exact ⟨v, rfl⟩
  | raise => exact ⟨s.cell, rfl⟩
  | block v body => exact ⟨s.cell, tflat_block_restores v body s⟩
end

/-- **Transport.settings restores**: after the block — however it ends, whatever ran inside,
nested or not — `operation_timeout` is what it was on entry. -/
theorem c13_transport_restores (v : Option Int) (body : List TProg) (s : TState) :
    (trun s (tflat (.block v body)).1).1.cell = s.cell := by
  rw [tflat_block_restores]

/-! ## the regenerated option table -/

/-- The options of the *current* `Settings` class (regenerated from the source on every run) are
pairwise distinct and none of them collides with the private overlay slot `_tls` that
`__getattribute__` special-cases — so every option is an `Opt` of the model (its index in the
table) and the theorems above apply to each of them. -/
theorem c13_all_options :
    (Generated.settingsOptions.map (·.name)).Nodup ∧
    (∀ r ∈ Generated.settingsOptions, r.name ≠ "_tls" ∧ r.name ≠ "") ∧
    Generated.settingsOptions.length > 0 := by
  decide

/-! ## non-vacuity: concrete histories satisfying the hypotheses -/

/-- two threads, nested blocks with an equal inner value, an exception, an assignment after -/
example :
    let h : History :=
      (flat 0 (.block [(0, 5)] [.block [(0, 5), (1, 7)] [.read 0, .raise], .read 1])).1
        ++ [⟨0, .read 0⟩, ⟨1, .assign 0 9⟩, ⟨0, .read 0⟩, ⟨1, .read 0⟩]
    (mrun (MState.init fun _ => 1) h).2.filterMap id = [5, 1, 9, 9] := by decide

example : proj 0 ((flat 0 (.block [(0, 5)] [.read 0])).1 ++ [⟨1, .read 0⟩])
    = (flat 0 (.block [(0, 5)] [.read 0])).1.map (·.prim) := by decide

example : (trun ⟨some 3, []⟩ (tflat (.block none [.assignT (some 8), .raise, .readT])).1).1.cell
    = some 3 := by decide

end Zeep.Settings
