import ZeepModel.Xsd.Parse
import ZeepProofs.Lemmas.AllQueue
/-! Shrinking / progress facts about the deque parser, for every gas, mode, particle and deque —
in particular for every value of maxOccurs (the round limit `n` is universally quantified). -/
namespace Zeep.Xsd
open Zeep

theorem bind_ok {α β : Type} (x : Except Err α) (f : α → Except Err β) (r : β)
    (h : (x >>= f) = .ok r) : ∃ a, x = .ok a ∧ f a = .ok r := by
  cases x with
  | error e => simp [bind, Except.bind] at h
  | ok a => exact ⟨a, rfl, h⟩

@[simp] theorem pure_eq_ok {α : Type} (a r : α) : ((pure a : Except Err α) = Except.ok r) ↔ a = r := by
  simp [pure, Except.pure]

/-- the eight statements proved together by induction on gas -/
structure Shrinks (gas : Nat) : Prop where
  parseP : ∀ m p xs r, parseP gas m p xs = .ok r → r.rest.length ≤ xs.length
  elemLoop : ∀ m q min ty n k xs r, elemLoop gas m q min ty n k xs = .ok r →
      r.val.length + r.rest.length ≤ xs.length
  seqLoop : ∀ m ps min n d xs r, seqLoop gas m ps min n d xs = .ok r →
      r.val.length + r.rest.length ≤ xs.length
  seqRound : ∀ m ps e sl xs r, seqRound gas m ps e sl xs = .ok r → r.rest.length ≤ xs.length
  choiceLoop : ∀ m ps n xs r, choiceLoop gas m ps n xs = .ok r →
      r.val.length + r.rest.length ≤ xs.length
  choiceOptions : ∀ m ps i xs r, choiceOptions gas m ps i xs = .ok r →
      r.rest = xs ∧ ∀ j inst c, r.val = some (j, inst, c) → 0 < c ∧ c ≤ xs.length
  allMembers : ∀ m ps xs r, allMembers gas m ps xs = .ok r → r.rest.length ≤ xs.length
  groupLoop : ∀ m p n xs r, groupLoop gas m p n xs = .ok r →
      r.rest.length ≤ xs.length ∧ r.val.length + r.rest.length ≤ xs.length + 1

theorem shrinks_zero : Shrinks 0 := by
  constructor <;> intros <;> simp_all [parseP, elemLoop, seqLoop, seqRound, choiceLoop, choiceOptions, allMembers, groupLoop]


theorem filter_length_le {α : Type} (p : α → Bool) (l : List α) : (l.filter p).length ≤ l.length :=
  List.length_filter_le p l

theorem step_elemLoop (gas : Nat) (ih : Shrinks gas) :
    ∀ m q min ty n k xs r, elemLoop (gas + 1) m q min ty n k xs = .ok r →
      r.val.length + r.rest.length ≤ xs.length := by
  intro m q min ty n k xs r h
  cases n with
  | zero => simp only [elemLoop, pure_eq_ok] at h; subst h; simp
  | succ n =>
    cases xs with
    | nil => simp only [elemLoop, pure_eq_ok] at h; subst h; simp
    | cons x xs =>
      simp only [elemLoop] at h
      split at h
      · simp only [pure_eq_ok] at h; subst h; simp
      · split at h
        · obtain ⟨it, hit, h⟩ := bind_ok _ _ _ h
          obtain ⟨r', hr', h⟩ := bind_ok _ _ _ h
          simp only [pure_eq_ok] at h
          subst h
          have := ih.elemLoop _ _ _ _ _ _ _ _ hr'
          simp only [List.length_cons]; omega
        · split at h
          · cases h
          · simp only [pure_eq_ok] at h; subst h; simp

theorem step_choiceOptions (gas : Nat) (ih : Shrinks gas) :
    ∀ m ps i xs r, choiceOptions (gas + 1) m ps i xs = .ok r →
      r.rest = xs ∧ ∀ j inst c, r.val = some (j, inst, c) → 0 < c ∧ c ≤ xs.length := by
  intro m ps i xs r h
  cases ps with
  | nil => simp only [choiceOptions, pure_eq_ok] at h; subst h; simp
  | cons p ps =>
    simp only [choiceOptions] at h
    split at h
    · obtain ⟨r', hr', h⟩ := bind_ok _ _ _ h
      simp only [pure_eq_ok] at h
      subst h
      exact ⟨rfl, (ih.choiceOptions _ _ _ _ _ hr').2⟩
    · cases h
    · rename_i r0 hr0
      obtain ⟨others, ho, h⟩ := bind_ok _ _ _ h
      simp only [pure_eq_ok] at h
      subst h
      refine ⟨rfl, ?_⟩
      have hsh := ih.parseP _ _ _ _ hr0
      have hoth := (ih.choiceOptions _ _ _ _ _ ho).2
      intro j inst c hc
      simp only at hc
      split at hc
      · rename_i j' inst' c' hov
        split at hc
        · rename_i hcond
          simp only [Option.some.injEq, Prod.mk.injEq] at hc
          obtain ⟨_, _, rfl⟩ := hc
          simp only [Bool.and_eq_true, decide_eq_true_eq] at hcond
          exact ⟨hcond.2, by omega⟩
        · simp only [Option.some.injEq, Prod.mk.injEq] at hc
          obtain ⟨rfl, rfl, rfl⟩ := hc
          exact hoth _ _ _ hov
      · split at hc
        · rename_i hcond
          simp only [Option.some.injEq, Prod.mk.injEq] at hc
          obtain ⟨_, _, rfl⟩ := hc
          exact ⟨by simpa using hcond, by omega⟩
        · cases hc


theorem step_seqRound (gas : Nat) (ih : Shrinks gas) :
    ∀ m ps e sl xs r, seqRound (gas + 1) m ps e sl xs = .ok r → r.rest.length ≤ xs.length := by
  intro m ps e sl xs r h
  cases ps with
  | nil => simp only [seqRound, pure_eq_ok] at h; subst h; simp
  | cons p ps =>
    simp only [seqRound] at h
    split at h
    · -- the child raised UnexpectedElement
      split at h
      · simp only [pure_eq_ok] at h; subst h; simp
      · split at h
        · cases h
        · split at h
          · simp only [pure_eq_ok] at h; subst h; simp
          · obtain ⟨r', hr', h⟩ := bind_ok _ _ _ h
            simp only [pure_eq_ok] at h; subst h
            exact ih.seqRound _ _ _ _ _ r' hr'
    · cases h
    · rename_i r0 hr0
      have h0 := ih.parseP _ _ _ _ hr0
      split at h
      · simp only [pure_eq_ok] at h; subst h; simp
      · obtain ⟨more, hm, h⟩ := bind_ok _ _ _ h
        simp only [pure_eq_ok] at h; subst h
        have := ih.seqRound _ _ _ _ _ _ hm
        simp only; omega

theorem step_seqLoop (gas : Nat) (ih : Shrinks gas) :
    ∀ m ps min n d xs r, seqLoop (gas + 1) m ps min n d xs = .ok r →
      r.val.length + r.rest.length ≤ xs.length := by
  intro m ps min n d xs r h
  cases n with
  | zero => simp only [seqLoop, pure_eq_ok] at h; subst h; simp
  | succ n =>
    cases xs with
    | nil => simp only [seqLoop, pure_eq_ok] at h; subst h; simp
    | cons x xs =>
      simp only [seqLoop] at h
      obtain ⟨r0, hr0, h⟩ := bind_ok _ _ _ h
      have h0 := ih.seqRound _ _ _ _ _ _ hr0
      split at h
      · simp only [pure_eq_ok] at h; subst h; simp
      · split at h
        · rename_i hl
          simp only [pure_eq_ok] at h; subst h
          simp only [beq_iff_eq] at hl
          simp only [List.length_nil, Nat.zero_add]; omega
        · rename_i hl
          obtain ⟨more, hm, h⟩ := bind_ok _ _ _ h
          simp only [pure_eq_ok] at h; subst h
          have := ih.seqLoop _ _ _ _ _ _ _ hm
          simp only [beq_iff_eq] at hl
          simp only [List.length_cons] at *
          omega

theorem step_choiceLoop (gas : Nat) (ih : Shrinks gas) :
    ∀ m ps n xs r, choiceLoop (gas + 1) m ps n xs = .ok r →
      r.val.length + r.rest.length ≤ xs.length := by
  intro m ps n xs r h
  cases n with
  | zero => simp only [choiceLoop, pure_eq_ok] at h; subst h; simp
  | succ n =>
    cases xs with
    | nil => simp only [choiceLoop, pure_eq_ok] at h; subst h; simp
    | cons x xs =>
      simp only [choiceLoop] at h
      obtain ⟨opts, ho, h⟩ := bind_ok _ _ _ h
      have hopt := (ih.choiceOptions _ _ _ _ _ ho).2
      split at h
      · simp only [pure_eq_ok] at h; subst h; simp
      · rename_i i inst c hv
        obtain ⟨more, hm, h⟩ := bind_ok _ _ _ h
        simp only [pure_eq_ok] at h; subst h
        have hc := hopt _ _ _ hv
        have := ih.choiceLoop _ _ _ _ _ hm
        simp only [List.length_drop, List.length_cons] at *
        omega

theorem step_allMembers (gas : Nat) (ih : Shrinks gas) :
    ∀ m ps xs r, allMembers (gas + 1) m ps xs = .ok r → r.rest.length ≤ xs.length := by
  intro m ps xs r h
  cases ps with
  | nil => simp only [allMembers, pure_eq_ok] at h; subst h; simp
  | cons p ps =>
    cases p
    case elem q mn mx ty =>
      simp only [allMembers] at h
      split at h
      · obtain ⟨r', hr', h⟩ := bind_ok _ _ _ h
        simp only [pure_eq_ok] at h; subst h
        exact ih.allMembers _ _ _ r' hr'
      · obtain ⟨mine, hmine, h⟩ := bind_ok _ _ _ h
        obtain ⟨r', hr', h⟩ := bind_ok _ _ _ h
        simp only [pure_eq_ok] at h; subst h
        have h1 := ih.allMembers _ _ _ r' hr'
        have h2 := ih.parseP _ _ _ _ hmine
        have h3 := length_filter_split q xs
        simp only [List.length_append] at h1
        simp only; omega
    all_goals
      simp only [allMembers] at h
      obtain ⟨r', hr', h⟩ := bind_ok _ _ _ h
      simp only [pure_eq_ok] at h; subst h
      exact ih.allMembers _ _ _ r' hr'

theorem step_groupLoop (gas : Nat) (ih : Shrinks gas) :
    ∀ m p n xs r, groupLoop (gas + 1) m p n xs = .ok r →
      r.rest.length ≤ xs.length ∧ r.val.length + r.rest.length ≤ xs.length + 1 := by
  intro m p n xs r h
  cases n with
  | zero => simp only [groupLoop, pure_eq_ok] at h; subst h; simp
  | succ n =>
    simp only [groupLoop] at h
    obtain ⟨r0, hr0, h⟩ := bind_ok _ _ _ h
    have h0 := ih.parseP _ _ _ _ hr0
    split at h
    · simp only [pure_eq_ok] at h; subst h
      simp only [List.length_cons, List.length_nil]; omega
    · rename_i hcond
      obtain ⟨more, hm, h⟩ := bind_ok _ _ _ h
      simp only [pure_eq_ok] at h; subst h
      have := ih.groupLoop _ _ _ _ _ hm
      simp only [Bool.or_eq_true, List.isEmpty_iff, beq_iff_eq, not_or] at hcond
      simp only [List.length_cons]
      omega

theorem step_parseP (gas : Nat) (ih : Shrinks gas) :
    ∀ m p xs r, parseP (gas + 1) m p xs = .ok r → r.rest.length ≤ xs.length := by
  intro m p xs r h
  cases p with
  | elem q min max ty =>
    simp only [parseP] at h
    obtain ⟨r', hr', h⟩ := bind_ok _ _ _ h
    simp only [pure_eq_ok] at h; subst h
    have := ih.elemLoop _ _ _ _ _ _ _ _ hr'
    simp only; omega
  | any min max =>
    simp only [parseP, pure_eq_ok] at h; subst h
    simp
  | seq ps min max =>
    simp only [parseP] at h
    obtain ⟨r', hr', h⟩ := bind_ok _ _ _ h
    simp only [pure_eq_ok] at h; subst h
    have := ih.seqLoop _ _ _ _ _ _ _ hr'
    simp only; omega
  | choice ps min max =>
    simp only [parseP] at h
    obtain ⟨r', hr', h⟩ := bind_ok _ _ _ h
    simp only [pure_eq_ok] at h; subst h
    have := ih.choiceLoop _ _ _ _ _ hr'
    simp only; omega
  | all ps co =>
    simp only [parseP] at h
    obtain ⟨r', hr', h⟩ := bind_ok _ _ _ h
    split at h
    · simp only [pure_eq_ok] at h; subst h; simp
    · simp only [pure_eq_ok] at h; subst h
      have h1 := ih.allMembers _ _ _ r' hr'
      have h2 := byTag_length_le _ (tagsInOrder_spec (xs.filter fun x => (memberTags ps).contains x.tag) []).1 r'.rest
      have h3 := length_filter_split_p (fun x : Node => (memberTags ps).contains x.tag) xs
      simp only [List.length_append]; omega
  | group p min max =>
    simp only [parseP] at h
    obtain ⟨r', hr', h⟩ := bind_ok _ _ _ h
    simp only [pure_eq_ok] at h; subst h
    exact (ih.groupLoop _ _ _ _ _ hr').1


theorem shrinks : ∀ gas, Shrinks gas := by
  intro gas
  induction gas with
  | zero => exact shrinks_zero
  | succ gas ih =>
    exact ⟨step_parseP gas ih, step_elemLoop gas ih, step_seqLoop gas ih, step_seqRound gas ih, step_choiceLoop gas ih,
      step_choiceOptions gas ih, step_allMembers gas ih, step_groupLoop gas ih⟩

end Zeep.Xsd
