import ZeepModel.Xsd.BindKw
/-
Helper lemmas about the keyword pass (`ZeepModel/Xsd/BindKw.lean`): membership in `available_kwargs` of a name a step is
not about, the loop invariants of `Choice.parse_kwargs`, what an accepted call keeps, what a conforming call removes.
The property theorems are in `ZeepProofs/C12Choice.lean`.
-/
namespace Zeep.BindKw

/-! ### membership in `available_kwargs` of a name the step is not about -/

theorem elemKw_sub (kw : Kw) (n : String) (avail : List String) (x : String) :
    x ∈ (elemKw kw n avail).2 → x ∈ avail := by
  unfold elemKw
  split
  · split
    · intro h; exact List.mem_of_mem_erase h
    · exact id
  · exact id

theorem elemKw_other (kw : Kw) (n : String) (avail : List String) (x : String) (hx : x ≠ n) :
    x ∈ (elemKw kw n avail).2 ↔ x ∈ avail := by
  constructor
  · exact elemKw_sub kw n avail x
  · intro h
    unfold elemKw
    split
    · split
      · exact (List.mem_erase_of_ne hx).2 h
      · exact h
    · exact h

theorem choiceStep_other (kw : Kw) (st : CState) (b x : String) (hx : x ≠ b) :
    x ∈ (choiceStep kw st b).avail ↔ x ∈ st.avail := by
  unfold choiceStep
  simp only
  split
  · rfl
  · split
    · simp only [List.mem_filter, List.contains_iff_mem, elemKw_other kw b st.avail x hx, and_self]
    · split
      · simp only [List.mem_filter, List.contains_iff_mem, elemKw_other kw b st.avail x hx, and_self]
      · rfl

theorem choiceStep_sub (kw : Kw) (st : CState) (b x : String) :
    x ∈ (choiceStep kw st b).avail → x ∈ st.avail := by
  unfold choiceStep
  simp only
  split
  · exact id
  · split
    · intro h; exact (List.mem_filter.1 h).1
    · split
      · intro h; exact (List.mem_filter.1 h).1
      · exact id

theorem choiceStep_found_mono (kw : Kw) (st : CState) (b : String) (h : st.found = true) :
    (choiceStep kw st b).found = true := by
  unfold choiceStep
  simp only
  split
  · exact h
  · split
    · exact h
    · split <;> simp_all

theorem elemKw_in (kw : Kw) (b : String) (avail : List String) (v : Val) (hb : b ∈ avail) (hl : kw.lookup b = some v) :
    elemKw kw b avail = ([(b, v)], avail.erase b) := by
  unfold elemKw
  rw [if_pos (List.contains_iff_mem.2 hb), hl]

theorem elemKw_out (kw : Kw) (b : String) (avail : List String) (hb : b ∉ avail) :
    elemKw kw b avail = ([], avail) := by
  unfold elemKw
  rw [if_neg (fun h => hb (List.contains_iff_mem.1 h))]

/-- a branch that carries a value while another branch was already chosen changes nothing: its key stays available -/
theorem choiceStep_valued_found (kw : Kw) (st : CState) (b : String) (v : Val)
    (hl : kw.lookup b = some v) (hv : v.has = true) (hf : st.found = true) :
    choiceStep kw st b = st := by
  unfold choiceStep
  by_cases hb : b ∈ st.avail
  · simp only [elemKw_in kw b st.avail v hb hl]
    simp [hv, hf]
  · simp only [elemKw_out kw b st.avail hb]
    simp

/-- after a valued, still available branch has been looked at, some branch is chosen -/
theorem choiceStep_valued_sets_found (kw : Kw) (st : CState) (b : String) (v : Val)
    (hl : kw.lookup b = some v) (hv : v.has = true) (hb : b ∈ st.avail) :
    (choiceStep kw st b).found = true := by
  unfold choiceStep
  simp only [elemKw_in kw b st.avail v hb hl]
  by_cases hf : st.found = true <;> simp [hv, hf]

theorem fold_other (kw : Kw) (bs : List String) (st : CState) (x : String) (hx : x ∉ bs) :
    x ∈ (bs.foldl (choiceStep kw) st).avail ↔ x ∈ st.avail := by
  induction bs generalizing st with
  | nil => rfl
  | cons b bs ih =>
    simp only [List.foldl_cons]
    rw [ih _ (fun h => hx (List.mem_cons_of_mem _ h))]
    exact choiceStep_other kw st b x (fun h => hx (h ▸ List.mem_cons_self))

theorem fold_found_mono (kw : Kw) (bs : List String) (st : CState) (h : st.found = true) :
    (bs.foldl (choiceStep kw) st).found = true := by
  induction bs generalizing st with
  | nil => exact h
  | cons b bs ih => exact ih _ (choiceStep_found_mono kw st b h)

/-- Lemma A: once a branch is chosen, a further valued branch keeps its key available to the end of the loop -/
theorem fold_keeps_valued (kw : Kw) (bs : List String) (st : CState) (x : String) (v : Val)
    (hl : kw.lookup x = some v) (hv : v.has = true) (hf : st.found = true) (hx : x ∈ st.avail) :
    x ∈ (bs.foldl (choiceStep kw) st).avail := by
  induction bs generalizing st with
  | nil => exact hx
  | cons b bs ih =>
    simp only [List.foldl_cons]
    by_cases hb : b = x
    · subst hb
      rw [choiceStep_valued_found kw st b v hl hv hf]
      exact ih st hf hx
    · exact ih _ (choiceStep_found_mono kw st b hf) ((choiceStep_other kw st b x (fun h => hb h.symm)).2 hx)

/-- Lemma B: of two distinct valued branches whose keys are available, one is still available after the loop -/
theorem fold_two_valued (kw : Kw) (bs : List String) (st : CState) (x y : String) (vx vy : Val)
    (hxy : x ≠ y) (hxm : x ∈ bs) (hym : y ∈ bs)
    (hlx : kw.lookup x = some vx) (hvx : vx.has = true) (hly : kw.lookup y = some vy) (hvy : vy.has = true)
    (hx : x ∈ st.avail) (hy : y ∈ st.avail) :
    x ∈ (bs.foldl (choiceStep kw) st).avail ∨ y ∈ (bs.foldl (choiceStep kw) st).avail := by
  induction bs generalizing st with
  | nil => exact absurd hxm (by simp)
  | cons b bs ih =>
    simp only [List.foldl_cons]
    by_cases hbx : b = x
    · subst hbx
      right
      exact fold_keeps_valued kw bs _ y vy hly hvy (choiceStep_valued_sets_found kw st b vx hlx hvx hx)
        ((choiceStep_other kw st b y (fun h => hxy h.symm)).2 hy)
    · by_cases hby : b = y
      · subst hby
        left
        exact fold_keeps_valued kw bs _ x vx hlx hvx (choiceStep_valued_sets_found kw st b vy hly hvy hy)
          ((choiceStep_other kw st b x hxy).2 hx)
      · have hxm' : x ∈ bs := by
          rcases List.mem_cons.1 hxm with h | h
          · exact absurd h.symm hbx
          · exact h
        have hym' : y ∈ bs := by
          rcases List.mem_cons.1 hym with h | h
          · exact absurd h.symm hby
          · exact h
        exact ih _ hxm' hym' ((choiceStep_other kw st b x (fun h => hbx h.symm)).2 hx)
          ((choiceStep_other kw st b y (fun h => hby h.symm)).2 hy)

theorem choiceKw_avail (kw : Kw) (bs : List String) (avail : List String) :
    (choiceKw kw bs avail).2 = (bs.foldl (choiceStep kw) ⟨avail, [], false⟩).avail := by
  unfold choiceKw
  simp only
  split <;> rfl

theorem itemKw_other (kw : Kw) (avail : List String) (it : Item) (x : String) (hx : x ∉ it.names) :
    x ∈ (itemKw kw avail it).2 ↔ x ∈ avail := by
  cases it with
  | elem n =>
    simp only [Item.names, List.mem_singleton] at hx
    exact elemKw_other kw n avail x hx
  | choice bs =>
    simp only [Item.names] at hx
    simp only [itemKw, choiceKw_avail]
    exact fold_other kw bs _ x hx

theorem seqKw_other (kw : Kw) (items : List Item) (res : Kw) (avail : List String) (x : String)
    (hx : x ∉ allNames items) :
    x ∈ (seqKw kw items (res, avail)).2 ↔ x ∈ avail := by
  induction items generalizing res avail with
  | nil => rfl
  | cons it rest ih =>
    simp only [allNames, List.flatMap_cons, List.mem_append, not_or] at hx
    simp only [seqKw]
    rw [ih _ _ (by simpa [allNames] using hx.2)]
    exact itemKw_other kw avail it x hx.1

theorem attrKw_other (kw : Kw) (attrs : List String) (res : Kw) (avail : List String) (x : String)
    (hx : x ∉ attrs) :
    x ∈ (attrKw kw attrs (res, avail)).2 ↔ x ∈ avail := by
  induction attrs generalizing res avail with
  | nil => rfl
  | cons a rest ih =>
    have ha : x ≠ a := fun h => hx (h ▸ List.mem_cons_self)
    have hr : x ∉ rest := fun h => hx (List.mem_cons_of_mem _ h)
    simp only [attrKw]
    split
    · split
      · rw [ih _ _ hr]; exact List.mem_erase_of_ne ha
      · exact ih _ _ hr
    · exact ih _ _ hr

theorem processKw_error_of_left (items : List Item) (attrs : List String) (kw : Kw) (x : String)
    (h : x ∈ (attrKw kw attrs (seqKw kw items ([], keys kw))).2) :
    ∃ k, processKw items attrs kw = .error (.unexpectedKeyword k) := by
  unfold processKw
  simp only
  split
  · rename_i heq; rw [heq] at h; exact absurd h (by simp)
  · rename_i k _ _; exact ⟨k, rfl⟩


/-- seqKw leaves one of two valued branches of one choice among the available keywords -/
theorem seqKw_two_valued (kw : Kw) (items : List Item) (res : Kw) (avail : List String) (bs : List String)
    (x y : String) (vx vy : Val)
    (hnd : (allNames items).Nodup) (hc : Item.choice bs ∈ items)
    (hxy : x ≠ y) (hxm : x ∈ bs) (hym : y ∈ bs)
    (hlx : kw.lookup x = some vx) (hvx : vx.has = true) (hly : kw.lookup y = some vy) (hvy : vy.has = true)
    (hx : x ∈ avail) (hy : y ∈ avail) :
    x ∈ (seqKw kw items (res, avail)).2 ∨ y ∈ (seqKw kw items (res, avail)).2 := by
  induction items generalizing res avail with
  | nil => exact absurd hc (by simp)
  | cons it rest ih =>
    simp only [allNames, List.flatMap_cons] at hnd
    have hnd' := List.nodup_append.1 hnd
    simp only [seqKw]
    rcases List.mem_cons.1 hc with h | h
    · subst h
      -- this item is the choice: one of the two survives it, and nothing later carries its name
      have hB := fold_two_valued kw bs ⟨avail, [], false⟩ x y vx vy hxy hxm hym hlx hvx hly hvy hx hy
      rw [← choiceKw_avail] at hB
      have hnot : ∀ z, z ∈ bs → z ∉ allNames rest := fun z hz hz' => hnd'.2.2 z hz z hz' rfl
      rcases hB with hB | hB
      · left; exact (seqKw_other kw rest _ _ x (hnot x hxm)).2 hB
      · right; exact (seqKw_other kw rest _ _ y (hnot y hym)).2 hB
    · -- the choice comes later: this item is about other names
      have hin : ∀ z, z ∈ bs → z ∈ allNames rest := fun z hz =>
        List.mem_flatMap.2 ⟨_, h, hz⟩
      have hnot : ∀ z, z ∈ bs → z ∉ it.names := fun z hz hz' => hnd'.2.2 z hz' z (hin z hz) rfl
      exact ih _ _ hnd'.2.1 h ((itemKw_other kw avail it x (hnot x hxm)).2 hx)
        ((itemKw_other kw avail it y (hnot y hym)).2 hy)


theorem mem_upd (res sub : Kw) (k : String) (v : Val) :
    (k, v) ∈ upd res sub ↔ ((k, v) ∈ res ∧ k ∉ keys sub) ∨ (k, v) ∈ sub := by
  unfold upd
  simp only [List.mem_append, List.mem_filter, Bool.not_eq_true', List.contains_eq_mem, decide_eq_false_iff_not]

theorem keys_upd (res sub : Kw) (k : String) : k ∈ keys (upd res sub) → k ∈ keys res ∨ k ∈ keys sub := by
  unfold upd keys
  simp only [List.map_append, List.mem_append, List.mem_map]
  rintro (⟨kv, h, rfl⟩ | h)
  · exact .inl ⟨kv, (List.mem_filter.1 h).1, rfl⟩
  · exact .inr h

theorem mem_setDefaults (res : Kw) (ns : List String) (kv : String × Val) (h : kv ∈ res) : kv ∈ setDefaults res ns := by
  induction ns generalizing res with
  | nil => exact h
  | cons n ns ih =>
    simp only [setDefaults]
    apply ih
    split
    · exact h
    · exact List.mem_append_left _ h

theorem keys_setDefaults (res : Kw) (ns : List String) (k : String) :
    k ∈ keys (setDefaults res ns) → k ∈ keys res ∨ k ∈ ns := by
  induction ns generalizing res with
  | nil => intro h; exact .inl h
  | cons n ns ih =>
    simp only [setDefaults]
    intro h
    rcases ih _ h with h | h
    · split at h
      · exact .inl h
      · simp only [keys, List.map_append, List.mem_append, List.map_cons, List.map_nil, List.mem_singleton] at h
        rcases h with h | h
        · exact .inl h
        · exact .inr (h ▸ List.mem_cons_self)
    · exact .inr (List.mem_cons_of_mem _ h)

/-- the loop invariant of `Choice.parse_kwargs`: a key taken out of `available_kwargs` is in the result with the
caller's value, and if that value counts as given a branch has been chosen -/
def CInv (kw : Kw) (a0 : List String) (st : CState) : Prop :=
  ∀ k, k ∈ a0 → k ∉ st.avail → ∃ v, kw.lookup k = some v ∧ (k, v) ∈ st.result ∧ (v.has = true → st.found = true)

theorem choiceStep_inv (kw : Kw) (a0 : List String) (st : CState) (b : String) (h : CInv kw a0 st) :
    CInv kw a0 (choiceStep kw st b) := by
  unfold choiceStep
  by_cases hb : b ∈ st.avail
  · cases hl : kw.lookup b with
    | none =>
      have : elemKw kw b st.avail = ([], st.avail) := by
        unfold elemKw; rw [if_pos (List.contains_iff_mem.2 hb), hl]
      simp only [this]
      simpa using h
    | some v =>
      simp only [elemKw_in kw b st.avail v hb hl]
      have key : ∀ (f : Bool), (v.has = true → f = true) → (st.found = true → f = true) →
          CInv kw a0 ⟨st.avail.filter (st.avail.erase b).contains, upd st.result [(b, v)], f⟩ := by
        intro f hf1 hf2 k hk0 hk
        by_cases hka : k ∈ st.avail
        · -- removed now: it is `b`
          have : k = b := by
            apply Classical.byContradiction
            intro hne
            exact hk (List.mem_filter.2 ⟨hka, List.contains_iff_mem.2 ((List.mem_erase_of_ne hne).2 hka)⟩)
          subst this
          exact ⟨v, hl, (mem_upd _ _ _ _).2 (.inr (by simp)), hf1⟩
        · obtain ⟨v', hl', hm, hf⟩ := h k hk0 hka
          have hne : k ≠ b := fun e => hka (e ▸ hb)
          refine ⟨v', hl', (mem_upd _ _ _ _).2 (.inl ⟨hm, ?_⟩), fun hv => hf2 (hf hv)⟩
          simp [keys, hne]
      by_cases hv : v.has = true
      · by_cases hf : st.found = true
        · simp [hv, hf]; exact h
        · have hf' : st.found = false := by simpa using hf
          simpa [hv, hf'] using key true (fun _ => rfl) (fun _ => rfl)
      · have hv' : v.has = false := by simpa using hv
        simp [hv']
        exact key st.found (fun e => absurd e hv) id
  · simp only [elemKw_out kw b st.avail hb]
    simpa using h

theorem fold_inv (kw : Kw) (a0 : List String) (bs : List String) (st : CState) (h : CInv kw a0 st) :
    CInv kw a0 (bs.foldl (choiceStep kw) st) := by
  induction bs generalizing st with
  | nil => exact h
  | cons b bs ih => exact ih _ (choiceStep_inv kw a0 st b h)

theorem choiceStep_keys (kw : Kw) (st : CState) (b : String) (B : List String) (hb : b ∈ B)
    (h : ∀ k, k ∈ keys st.result → k ∈ B) : ∀ k, k ∈ keys (choiceStep kw st b).result → k ∈ B := by
  unfold choiceStep
  have hsub : ∀ k, k ∈ keys (elemKw kw b st.avail).1 → k = b := by
    intro k
    unfold elemKw
    split
    · split <;> simp [keys]
    · simp [keys]
  simp only
  split
  · exact h
  · split
    · intro k hk
      rcases keys_upd _ _ k hk with hk | hk
      · exact h k hk
      · exact hsub k hk ▸ hb
    · split
      · intro k hk
        rcases keys_upd _ _ k hk with hk | hk
        · exact h k hk
        · exact hsub k hk ▸ hb
      · exact h

theorem fold_keys (kw : Kw) (bs B : List String) (st : CState) (hB : ∀ b, b ∈ bs → b ∈ B)
    (h : ∀ k, k ∈ keys st.result → k ∈ B) : ∀ k, k ∈ keys (bs.foldl (choiceStep kw) st).result → k ∈ B := by
  induction bs generalizing st with
  | nil => exact h
  | cons b bs ih =>
    exact ih _ (fun x hx => hB x (List.mem_cons_of_mem _ hx))
      (choiceStep_keys kw st b B (hB b List.mem_cons_self) h)

theorem itemKw_keys (kw : Kw) (avail : List String) (it : Item) :
    ∀ k, k ∈ keys (itemKw kw avail it).1 → k ∈ it.names := by
  cases it with
  | elem n =>
    intro k
    simp only [itemKw, Item.names, List.mem_singleton]
    unfold elemKw
    split
    · split <;> simp [keys]
    · simp [keys]
  | choice bs =>
    intro k
    simp only [itemKw, Item.names, choiceKw]
    split
    · intro hk
      rcases keys_setDefaults _ _ k hk with hk | hk
      · exact fold_keys kw bs bs _ (fun _ h => h) (by simp [keys]) k hk
      · exact hk
    · simp [keys]

/-- what one member of the sequence takes out of the available keywords is in its sub-result with the caller's value -/
theorem itemKw_kept (kw : Kw) (avail : List String) (it : Item) (k : String) (v : Val)
    (hl : kw.lookup k = some v) (hv : v.has = true) (hk : k ∈ avail) (hgone : k ∉ (itemKw kw avail it).2) :
    (k, v) ∈ (itemKw kw avail it).1 := by
  cases it with
  | elem n =>
    simp only [itemKw] at hgone ⊢
    by_cases hn : n ∈ avail
    · cases hln : kw.lookup n with
      | none =>
        have : elemKw kw n avail = ([], avail) := by
          unfold elemKw; rw [if_pos (List.contains_iff_mem.2 hn), hln]
        rw [this] at hgone; exact absurd hk hgone
      | some vn =>
        rw [elemKw_in kw n avail vn hn hln] at hgone ⊢
        have : k = n := by
          apply Classical.byContradiction
          intro hne; exact hgone ((List.mem_erase_of_ne hne).2 hk)
        subst this
        rw [hl] at hln; cases hln
        simp
    · rw [elemKw_out kw n avail hn] at hgone; exact absurd hk hgone
  | choice bs =>
    simp only [itemKw] at hgone ⊢
    rw [choiceKw_avail] at hgone
    have hinv := fold_inv kw avail bs ⟨avail, [], false⟩ (fun k _ hk' => absurd ‹k ∈ avail› hk') k hk hgone
    obtain ⟨v', hl', hm, hf⟩ := hinv
    rw [hl] at hl'; cases hl'
    unfold choiceKw
    simp only [hf hv, if_true]
    exact mem_setDefaults _ _ _ hm

theorem seqKw_kept (kw : Kw) (items : List Item) (res : Kw) (avail : List String)
    (hnd : (allNames items).Nodup) (hdis : ∀ k, k ∈ keys res → k ∉ allNames items)
    (k : String) (v : Val) (hl : kw.lookup k = some v) (hv : v.has = true)
    (h : (k, v) ∈ res ∨ (k ∈ avail ∧ k ∉ (seqKw kw items (res, avail)).2)) :
    (k, v) ∈ (seqKw kw items (res, avail)).1 := by
  induction items generalizing res avail with
  | nil =>
    rcases h with h | ⟨h1, h2⟩
    · exact h
    · exact absurd h1 h2
  | cons it rest ih =>
    simp only [allNames, List.flatMap_cons] at hnd hdis
    have hnd' := List.nodup_append.1 hnd
    simp only [seqKw] at h ⊢
    -- the accumulated result after this member
    have hkeys : ∀ x, x ∈ keys (if (itemKw kw avail it).1.isEmpty then res else upd res (itemKw kw avail it).1) →
        x ∈ keys res ∨ x ∈ it.names := by
      intro x hx
      split at hx
      · exact .inl hx
      · rcases keys_upd _ _ x hx with hx | hx
        · exact .inl hx
        · exact .inr (itemKw_keys kw avail it x hx)
    have hdis' : ∀ x, x ∈ keys (if (itemKw kw avail it).1.isEmpty then res else upd res (itemKw kw avail it).1) →
        x ∉ allNames rest := by
      intro x hx hx'
      rcases hkeys x hx with hx | hx
      · exact hdis x hx (List.mem_append_right _ hx')
      · exact hnd'.2.2 x hx x hx' rfl
    have hpres : (k, v) ∈ res → (k, v) ∈ (if (itemKw kw avail it).1.isEmpty then res else upd res (itemKw kw avail it).1) := by
      intro hm
      split
      · exact hm
      · refine (mem_upd _ _ _ _).2 (.inl ⟨hm, fun hks => ?_⟩)
        exact hdis k (List.mem_map.2 ⟨(k, v), hm, rfl⟩) (List.mem_append_left _ (itemKw_keys kw avail it k hks))
    apply ih _ _ hnd'.2.1 hdis'
    rcases h with h | ⟨h1, h2⟩
    · exact .inl (hpres h)
    · by_cases hstill : k ∈ (itemKw kw avail it).2
      · exact .inr ⟨hstill, h2⟩
      · left
        have hm := itemKw_kept kw avail it k v hl hv h1 hstill
        have hne : (itemKw kw avail it).1.isEmpty = false := by
          cases hh : (itemKw kw avail it).1 with
          | nil => rw [hh] at hm; exact absurd hm (by simp)
          | cons _ _ => rfl
        rw [hne]
        exact (mem_upd _ _ _ _).2 (.inr hm)

theorem attrKw_cons_in (kw : Kw) (a : String) (rest : List String) (res : Kw) (avail : List String) (va : Val)
    (hc : avail.contains a = true) (hla : kw.lookup a = some va) :
    attrKw kw (a :: rest) (res, avail) = attrKw kw rest (upd res [(a, va)], avail.erase a) := by
  simp only [attrKw, hc, if_true, hla]

theorem attrKw_cons_out (kw : Kw) (a : String) (rest : List String) (res : Kw) (avail : List String)
    (hc : avail.contains a = false ∨ kw.lookup a = none) :
    attrKw kw (a :: rest) (res, avail) = attrKw kw rest (res, avail) := by
  rcases hc with hc | hc
  · simp only [attrKw, hc]; rfl
  · simp only [attrKw, hc]; split <;> rfl

theorem attrKw_kept (kw : Kw) (attrs : List String) (res : Kw) (avail : List String)
    (k : String) (v : Val) (hl : kw.lookup k = some v)
    (h : (k, v) ∈ res ∨ (k ∈ avail ∧ k ∉ (attrKw kw attrs (res, avail)).2)) :
    (k, v) ∈ (attrKw kw attrs (res, avail)).1 := by
  induction attrs generalizing res avail with
  | nil =>
    rcases h with h | ⟨h1, h2⟩
    · exact h
    · exact absurd h1 h2
  | cons a rest ih =>
    by_cases hc : avail.contains a = true
    · cases hla : kw.lookup a with
      | none =>
        rw [attrKw_cons_out kw a rest res avail (.inr hla)] at h ⊢
        exact ih _ _ h
      | some va =>
        rw [attrKw_cons_in kw a rest res avail va hc hla] at h ⊢
        apply ih
        rcases h with h | ⟨h1, h2⟩
        · left
          by_cases hka : k = a
          · subst hka; rw [hl] at hla; cases hla
            exact (mem_upd _ _ _ _).2 (.inr (by simp))
          · exact (mem_upd _ _ _ _).2 (.inl ⟨h, by simp [keys, hka]⟩)
        · by_cases hka : k = a
          · subst hka; rw [hl] at hla; cases hla
            exact .inl ((mem_upd _ _ _ _).2 (.inr (by simp)))
          · exact .inr ⟨(List.mem_erase_of_ne hka).2 h1, h2⟩
    · have hc' : avail.contains a = false := by simpa using hc
      rw [attrKw_cons_out kw a rest res avail (.inl hc')] at h ⊢
      exact ih _ _ h


theorem lookup_of_mem_keys (kw : Kw) (k : String) (h : k ∈ keys kw) : ∃ v, kw.lookup k = some v := by
  induction kw with
  | nil => exact absurd h (by simp [keys])
  | cons p rest ih =>
    obtain ⟨k', v'⟩ := p
    by_cases hk : k = k'
    · subst hk; exact ⟨v', by simp [List.lookup]⟩
    · simp only [keys, List.map_cons, List.mem_cons] at h
      rcases h with h | h
      · exact absurd h hk
      · obtain ⟨v, hv⟩ := ih h
        refine ⟨v, ?_⟩
        simp only [List.lookup]
        have : (k == k') = false := by simpa using hk
        rw [this]; exact hv

/-- the state of the branch loop while a conforming call is processed -/
structure FOk (kw : Kw) (B : List String) (st : CState) : Prop where
  nodup : st.avail.Nodup
  sub : ∀ x, x ∈ st.avail → x ∈ keys kw
  chosen : st.found = true → ∃ y vy, y ∈ B ∧ kw.lookup y = some vy ∧ vy.has = true ∧ y ∉ st.avail

theorem not_mem_filter_erase (l : List String) (b : String) (h : l.Nodup) : b ∉ l.filter (l.erase b).contains := by
  intro hm
  have := (List.mem_filter.1 hm).2
  exact (List.Nodup.mem_erase_iff h).1 (List.contains_iff_mem.1 this) |>.1 rfl

theorem choiceStep_take (kw : Kw) (st : CState) (b : String) (v : Val) (hb : b ∈ st.avail) (hl : kw.lookup b = some v)
    (h : v.has = false ∨ st.found = false) :
    choiceStep kw st b =
      { avail := st.avail.filter (st.avail.erase b).contains, result := upd st.result [(b, v)], found := v.has || st.found } := by
  unfold choiceStep
  simp only [elemKw_in kw b st.avail v hb hl]
  rcases h with h | h
  · simp [h]
  · cases hv : v.has <;> simp [hv, h]

theorem choiceStep_ok (kw : Kw) (B : List String) (st : CState) (b : String) (hb : b ∈ B)
    (hone : ∀ x y vx vy, x ∈ B → y ∈ B → kw.lookup x = some vx → vx.has = true →
      kw.lookup y = some vy → vy.has = true → x = y)
    (h : FOk kw B st) : FOk kw B (choiceStep kw st b) ∧ b ∉ (choiceStep kw st b).avail := by
  by_cases hba : b ∈ st.avail
  · obtain ⟨v, hl⟩ := lookup_of_mem_keys kw b (h.sub b hba)
    have hout := not_mem_filter_erase st.avail b h.nodup
    have hnd : (st.avail.filter (st.avail.erase b).contains).Nodup := List.Nodup.sublist List.filter_sublist h.nodup
    have hsub : ∀ x, x ∈ st.avail.filter (st.avail.erase b).contains → x ∈ keys kw :=
      fun x hx => h.sub x (List.mem_filter.1 hx).1
    by_cases hv : v.has = true
    · by_cases hf : st.found = true
      · -- a second valued branch: excluded for a conforming call
        obtain ⟨y, vy, hyB, hly, hvy, hyn⟩ := h.chosen hf
        have : y = b := hone y b vy v hyB hb hly hvy hl hv
        exact absurd hba (this ▸ hyn)
      · have hf' : st.found = false := by simpa using hf
        rw [choiceStep_take kw st b v hba hl (.inr hf')]
        exact ⟨⟨hnd, hsub, fun _ => ⟨b, v, hb, hl, hv, hout⟩⟩, hout⟩
    · have hv' : v.has = false := by simpa using hv
      rw [choiceStep_take kw st b v hba hl (.inl hv')]
      refine ⟨⟨hnd, hsub, fun hf => ?_⟩, hout⟩
      have hf' : st.found = true := by simpa [hv'] using hf
      obtain ⟨y, vy, hyB, hly, hvy, hyn⟩ := h.chosen hf'
      exact ⟨y, vy, hyB, hly, hvy, fun hm => hyn (List.mem_filter.1 hm).1⟩
  · have : choiceStep kw st b = st := by
      unfold choiceStep
      simp only [elemKw_out kw b st.avail hba]
      simp
    rw [this]
    exact ⟨h, hba⟩

theorem fold_sub (kw : Kw) (bs : List String) (st : CState) (x : String) :
    x ∈ (bs.foldl (choiceStep kw) st).avail → x ∈ st.avail := by
  induction bs generalizing st with
  | nil => exact id
  | cons b bs ih => intro h; exact choiceStep_sub kw st b x (ih _ h)

theorem fold_ok (kw : Kw) (B bs : List String) (st : CState) (hB : ∀ b, b ∈ bs → b ∈ B)
    (hone : ∀ x y vx vy, x ∈ B → y ∈ B → kw.lookup x = some vx → vx.has = true →
      kw.lookup y = some vy → vy.has = true → x = y)
    (h : FOk kw B st) :
    FOk kw B (bs.foldl (choiceStep kw) st) ∧ ∀ k, k ∈ bs → k ∉ (bs.foldl (choiceStep kw) st).avail := by
  induction bs generalizing st with
  | nil => exact ⟨h, fun k hk => absurd hk (by simp)⟩
  | cons b bs ih =>
    obtain ⟨h1, h2⟩ := choiceStep_ok kw B st b (hB b List.mem_cons_self) hone h
    obtain ⟨h3, h4⟩ := ih _ (fun x hx => hB x (List.mem_cons_of_mem _ hx)) h1
    refine ⟨h3, fun k hk => ?_⟩
    rcases List.mem_cons.1 hk with rfl | hk
    · exact fun hm => h2 (fold_sub kw bs _ _ hm)
    · exact h4 k hk

/-- available keywords while a conforming call is processed: duplicate-free, all of them keys of the call -/
structure AOk (kw : Kw) (avail : List String) : Prop where
  nodup : avail.Nodup
  sub : ∀ x, x ∈ avail → x ∈ keys kw

theorem itemKw_ok (kw : Kw) (avail : List String) (it : Item) (h : AOk kw avail)
    (hone : ∀ bs, it = .choice bs → ∀ x y vx vy, x ∈ bs → y ∈ bs → kw.lookup x = some vx → vx.has = true →
      kw.lookup y = some vy → vy.has = true → x = y) :
    AOk kw (itemKw kw avail it).2 ∧ ∀ k, k ∈ it.names → k ∉ (itemKw kw avail it).2 := by
  cases it with
  | elem n =>
    simp only [itemKw, Item.names, List.mem_singleton]
    by_cases hn : n ∈ avail
    · obtain ⟨v, hl⟩ := lookup_of_mem_keys kw n (h.sub n hn)
      rw [elemKw_in kw n avail v hn hl]
      refine ⟨⟨List.Nodup.erase _ h.nodup, fun x hx => h.sub x (List.mem_of_mem_erase hx)⟩, ?_⟩
      rintro k rfl hm
      exact ((List.Nodup.mem_erase_iff h.nodup).1 hm).1 rfl
    · rw [elemKw_out kw n avail hn]
      exact ⟨h, by rintro k rfl; exact hn⟩
  | choice bs =>
    simp only [itemKw, Item.names, choiceKw_avail]
    have h0 : FOk kw bs ⟨avail, [], false⟩ := ⟨h.nodup, h.sub, fun hf => by cases hf⟩
    obtain ⟨h1, h2⟩ := fold_ok kw bs bs _ (fun _ hb => hb) (hone bs rfl) h0
    exact ⟨⟨h1.nodup, h1.sub⟩, h2⟩

theorem itemKw_sub (kw : Kw) (avail : List String) (it : Item) (x : String) :
    x ∈ (itemKw kw avail it).2 → x ∈ avail := by
  cases it with
  | elem n => exact elemKw_sub kw n avail x
  | choice bs => simp only [itemKw, choiceKw_avail]; exact fold_sub kw bs _ x

theorem seqKw_sub (kw : Kw) (items : List Item) (res : Kw) (avail : List String) (x : String) :
    x ∈ (seqKw kw items (res, avail)).2 → x ∈ avail := by
  induction items generalizing res avail with
  | nil => exact id
  | cons it rest ih => intro h; simp only [seqKw] at h; exact itemKw_sub kw avail it x (ih _ _ h)

theorem seqKw_ok (kw : Kw) (items : List Item) (res : Kw) (avail : List String) (h : AOk kw avail)
    (hone : ∀ bs, Item.choice bs ∈ items → ∀ x y vx vy, x ∈ bs → y ∈ bs → kw.lookup x = some vx → vx.has = true →
      kw.lookup y = some vy → vy.has = true → x = y) :
    AOk kw (seqKw kw items (res, avail)).2 ∧ ∀ k, k ∈ allNames items → k ∉ (seqKw kw items (res, avail)).2 := by
  induction items generalizing res avail with
  | nil => exact ⟨h, fun k hk => absurd hk (by simp [allNames])⟩
  | cons it rest ih =>
    obtain ⟨h1, h2⟩ := itemKw_ok kw avail it h (fun bs e => hone bs (e ▸ List.mem_cons_self))
    simp only [seqKw]
    obtain ⟨h3, h4⟩ := ih (if (itemKw kw avail it).1.isEmpty then res else upd res (itemKw kw avail it).1) _ h1
      (fun bs hm => hone bs (List.mem_cons_of_mem _ hm))
    refine ⟨h3, fun k hk => ?_⟩
    simp only [allNames, List.flatMap_cons, List.mem_append] at hk
    rcases hk with hk | hk
    · exact fun hm => h2 k hk (seqKw_sub kw rest _ _ k hm)
    · exact h4 k (by simpa [allNames] using hk)

theorem attrKw_ok (kw : Kw) (attrs : List String) (res : Kw) (avail : List String) (h : AOk kw avail) :
    (∀ x, x ∈ (attrKw kw attrs (res, avail)).2 → x ∈ avail) ∧ ∀ k, k ∈ attrs → k ∉ (attrKw kw attrs (res, avail)).2 := by
  induction attrs generalizing res avail with
  | nil => exact ⟨fun _ hx => hx, fun k hk => absurd hk (by simp)⟩
  | cons a rest ih =>
    by_cases hc : avail.contains a = true
    · obtain ⟨va, hla⟩ := lookup_of_mem_keys kw a (h.sub a (List.contains_iff_mem.1 hc))
      rw [attrKw_cons_in kw a rest res avail va hc hla]
      have h' : AOk kw (avail.erase a) := ⟨List.Nodup.erase _ h.nodup, fun x hx => h.sub x (List.mem_of_mem_erase hx)⟩
      obtain ⟨h1, h2⟩ := ih (upd res [(a, va)]) (avail.erase a) h'
      refine ⟨fun x hx => List.mem_of_mem_erase (h1 x hx), fun k hk => ?_⟩
      rcases List.mem_cons.1 hk with rfl | hk
      · exact fun hm => ((List.Nodup.mem_erase_iff h.nodup).1 (h1 _ hm)).1 rfl
      · exact h2 k hk
    · have hc' : avail.contains a = false := by simpa using hc
      rw [attrKw_cons_out kw a rest res avail (.inl hc')]
      obtain ⟨h1, h2⟩ := ih res avail h
      refine ⟨h1, fun k hk => ?_⟩
      rcases List.mem_cons.1 hk with rfl | hk
      · exact fun hm => (by simpa using hc' : k ∉ avail) (h1 _ hm)
      · exact h2 k hk

end Zeep.BindKw
