import ZeepModel.Xsd.BindKw
/-
Helper lemmas about the keyword pass and the rendering of a choice (`ZeepModel/Xsd/BindKw.lean`): what one branch (an
element or a sequence of elements) takes and returns, membership in `available_kwargs` of a name a step is not about, the
loop invariants of `Choice.parse_kwargs`, what an accepted call keeps, what a conforming call removes, which branch
`_find_element_to_render` picks and what it emits.  The property theorems are in `ZeepProofs/C12Choice.lean`.
-/
namespace Zeep.BindKw

/-! ### one element member -/

theorem elemKw_sub (kw : Kw) (n : String) (avail : List String) (x : String) :
    x ∈ (elemKw kw n avail).2 → x ∈ avail := by
  unfold elemKw
  split
  · split
    · intro h; exact List.mem_of_mem_erase h
    · exact id
  · exact id

theorem elemKw_other (kw : Kw) (n : String) (avail : List String) (x : String) (hx : x ≠ n) :
    x ∈ (elemKw kw n avail).2 ↔ x ∈ avail := by
  constructor
  · exact elemKw_sub kw n avail x
  · intro h
    unfold elemKw
    split
    · split
      · exact (List.mem_erase_of_ne hx).2 h
      · exact h
    · exact h

theorem elemKw_in (kw : Kw) (b : String) (avail : List String) (v : Val) (hb : b ∈ avail) (hl : kw.lookup b = some v) :
    elemKw kw b avail = ([(b, v)], avail.erase b) := by
  unfold elemKw
  rw [if_pos (List.contains_iff_mem.2 hb), hl]

theorem elemKw_out (kw : Kw) (b : String) (avail : List String) (hb : b ∉ avail) :
    elemKw kw b avail = ([], avail) := by
  unfold elemKw
  rw [if_neg (fun h => hb (List.contains_iff_mem.1 h))]

theorem elemKw_nolookup (kw : Kw) (b : String) (avail : List String) (hl : kw.lookup b = none) :
    elemKw kw b avail = ([], avail) := by
  unfold elemKw
  split
  · rw [hl]
  · rfl

/-- the three shapes of what an element member returns -/
theorem elemKw_cases (kw : Kw) (n : String) (avail : List String) :
    (elemKw kw n avail = ([], avail)) ∨ (∃ v, n ∈ avail ∧ kw.lookup n = some v ∧ elemKw kw n avail = ([(n, v)], avail.erase n)) := by
  by_cases hn : n ∈ avail
  · cases hl : kw.lookup n with
    | none => exact .inl (elemKw_nolookup kw n avail hl)
    | some v => exact .inr ⟨v, hn, rfl, elemKw_in kw n avail v hn hl⟩
  · exact .inl (elemKw_out kw n avail hn)

theorem mem_upd (res sub : Kw) (k : String) (v : Val) :
    (k, v) ∈ upd res sub ↔ ((k, v) ∈ res ∧ k ∉ keys sub) ∨ (k, v) ∈ sub := by
  unfold upd
  simp only [List.mem_append, List.mem_filter, Bool.not_eq_true', List.contains_eq_mem, decide_eq_false_iff_not]

theorem keys_upd (res sub : Kw) (k : String) : k ∈ keys (upd res sub) → k ∈ keys res ∨ k ∈ keys sub := by
  unfold upd keys
  simp only [List.map_append, List.mem_append, List.mem_map]
  rintro (⟨kv, h, rfl⟩ | h)
  · exact .inl ⟨kv, (List.mem_filter.1 h).1, rfl⟩
  · exact .inr h

/-! ### one branch (an element, or a sequence of elements) -/

theorem branchKw_cons_skip (kw : Kw) (n : String) (ns : Branch) (res : Kw) (avail : List String)
    (h : elemKw kw n avail = ([], avail)) : branchKw kw (n :: ns) (res, avail) = branchKw kw ns (res, avail) := by
  simp only [branchKw, h, List.isEmpty_nil, if_true]

theorem branchKw_cons_take (kw : Kw) (n : String) (ns : Branch) (res : Kw) (avail : List String) (v : Val)
    (h : elemKw kw n avail = ([(n, v)], avail.erase n)) :
    branchKw kw (n :: ns) (res, avail) = branchKw kw ns (upd res [(n, v)], avail.erase n) := by
  simp only [branchKw, h, List.isEmpty_cons, Bool.false_eq_true, if_false]

theorem branchKw_sub (kw : Kw) (b : Branch) (res : Kw) (avail : List String) (x : String) :
    x ∈ (branchKw kw b (res, avail)).2 → x ∈ avail := by
  induction b generalizing res avail with
  | nil => exact id
  | cons n ns ih =>
    rcases elemKw_cases kw n avail with h | ⟨v, _, _, h⟩
    · rw [branchKw_cons_skip kw n ns res avail h]; exact ih res avail
    · rw [branchKw_cons_take kw n ns res avail v h]
      intro hx; exact List.mem_of_mem_erase (ih _ _ hx)

theorem branchKw_other (kw : Kw) (b : Branch) (res : Kw) (avail : List String) (x : String) (hx : x ∉ b) :
    x ∈ (branchKw kw b (res, avail)).2 ↔ x ∈ avail := by
  induction b generalizing res avail with
  | nil => rfl
  | cons n ns ih =>
    have hn : x ≠ n := fun e => hx (e ▸ List.mem_cons_self)
    have hns : x ∉ ns := fun h => hx (List.mem_cons_of_mem _ h)
    rcases elemKw_cases kw n avail with h | ⟨v, _, _, h⟩
    · rw [branchKw_cons_skip kw n ns res avail h]; exact ih res avail hns
    · rw [branchKw_cons_take kw n ns res avail v h, ih _ _ hns]
      exact List.mem_erase_of_ne hn

/-- what is in the sub-result: an entry of the accumulator, or the caller's value for a member that was available -/
theorem branchKw_entries (kw : Kw) (b : Branch) (res : Kw) (avail : List String) (k : String) (v : Val) :
    (k, v) ∈ (branchKw kw b (res, avail)).1 → (k, v) ∈ res ∨ (k ∈ b ∧ k ∈ avail ∧ kw.lookup k = some v) := by
  induction b generalizing res avail with
  | nil => intro h; exact .inl h
  | cons n ns ih =>
    rcases elemKw_cases kw n avail with h | ⟨vn, hn, hl, h⟩
    · rw [branchKw_cons_skip kw n ns res avail h]
      intro hm
      rcases ih res avail hm with h' | ⟨h1, h2, h3⟩
      · exact .inl h'
      · exact .inr ⟨List.mem_cons_of_mem _ h1, h2, h3⟩
    · rw [branchKw_cons_take kw n ns res avail vn h]
      intro hm
      rcases ih _ _ hm with h' | ⟨h1, h2, h3⟩
      · rcases (mem_upd _ _ _ _).1 h' with ⟨h'', _⟩ | h''
        · exact .inl h''
        · simp only [List.mem_singleton, Prod.mk.injEq] at h''
          obtain ⟨rfl, rfl⟩ := h''
          exact .inr ⟨List.mem_cons_self, hn, hl⟩
      · exact .inr ⟨List.mem_cons_of_mem _ h1, List.mem_of_mem_erase h2, h3⟩

/-- an entry carrying the caller's value survives, and what a branch takes out of the available keywords is in its sub-result -/
theorem branchKw_kept (kw : Kw) (b : Branch) (res : Kw) (avail : List String) (k : String) (v : Val)
    (hl : kw.lookup k = some v)
    (h : (k, v) ∈ res ∨ (k ∈ avail ∧ k ∉ (branchKw kw b (res, avail)).2)) :
    (k, v) ∈ (branchKw kw b (res, avail)).1 := by
  induction b generalizing res avail with
  | nil =>
    rcases h with h | ⟨h1, h2⟩
    · exact h
    · exact absurd h1 h2
  | cons n ns ih =>
    rcases elemKw_cases kw n avail with he | ⟨vn, hn, hln, he⟩
    · rw [branchKw_cons_skip kw n ns res avail he] at h ⊢
      exact ih res avail h
    · rw [branchKw_cons_take kw n ns res avail vn he] at h ⊢
      apply ih
      by_cases hkn : k = n
      · subst hkn; rw [hl] at hln; cases hln
        exact .inl ((mem_upd _ _ _ _).2 (.inr (by simp)))
      · rcases h with h | ⟨h1, h2⟩
        · exact .inl ((mem_upd _ _ _ _).2 (.inl ⟨h, by simp [keys, hkn]⟩))
        · exact .inr ⟨(List.mem_erase_of_ne hkn).2 h1, h2⟩

/-- a member that is available and was passed is in the sub-result with the caller's value -/
theorem branchKw_has (kw : Kw) (b : Branch) (res : Kw) (avail : List String) (x : String) (v : Val)
    (hx : x ∈ b) (ha : x ∈ avail) (hl : kw.lookup x = some v) : (x, v) ∈ (branchKw kw b (res, avail)).1 := by
  induction b generalizing res avail with
  | nil => exact absurd hx (by simp)
  | cons n ns ih =>
    by_cases hxn : x = n
    · subst hxn
      rw [branchKw_cons_take kw x ns res avail v (elemKw_in kw x avail v ha hl)]
      exact branchKw_kept kw ns _ _ x v hl (.inl ((mem_upd _ _ _ _).2 (.inr (by simp))))
    · have hxs : x ∈ ns := by
        rcases List.mem_cons.1 hx with h | h
        · exact absurd h hxn
        · exact h
      rcases elemKw_cases kw n avail with he | ⟨vn, _, _, he⟩
      · rw [branchKw_cons_skip kw n ns res avail he]; exact ih res avail hxs ha
      · rw [branchKw_cons_take kw n ns res avail vn he]
        exact ih _ _ hxs ((List.mem_erase_of_ne hxn).2 ha)

theorem branchKw_keys (kw : Kw) (b : Branch) (avail : List String) (k : String) :
    k ∈ keys (branchKw kw b ([], avail)).1 → k ∈ b := by
  intro hk
  obtain ⟨⟨k', v⟩, hm, rfl⟩ := List.mem_map.1 hk
  rcases branchKw_entries kw b [] avail k' v hm with h | ⟨h, _, _⟩
  · exact absurd h (by simp)
  · exact h

/-- the branch carries a value the caller gave: some available member of it was passed something that counts -/
def BranchValued (kw : Kw) (b : Branch) (avail : List String) : Prop :=
  ∃ x v, x ∈ b ∧ x ∈ avail ∧ kw.lookup x = some v ∧ v.has = true

theorem branchKw_any_of_valued (kw : Kw) (b : Branch) (avail : List String) (h : BranchValued kw b avail) :
    (branchKw kw b ([], avail)).1.isEmpty = false ∧ ((branchKw kw b ([], avail)).1.any fun kv => kv.2.has) = true := by
  obtain ⟨x, v, hx, ha, hl, hv⟩ := h
  have hm := branchKw_has kw b [] avail x v hx ha hl
  constructor
  · cases hh : (branchKw kw b ([], avail)).1 with
    | nil => rw [hh] at hm; exact absurd hm (by simp)
    | cons _ _ => rfl
  · exact List.any_eq_true.2 ⟨(x, v), hm, hv⟩

theorem branchKw_valued_of_any (kw : Kw) (b : Branch) (avail : List String)
    (h : ((branchKw kw b ([], avail)).1.any fun kv => kv.2.has) = true) : BranchValued kw b avail := by
  obtain ⟨⟨k, v⟩, hm, hv⟩ := List.any_eq_true.1 h
  rcases branchKw_entries kw b [] avail k v hm with h' | ⟨h1, h2, h3⟩
  · exact absurd h' (by simp)
  · exact ⟨k, v, h1, h2, h3, hv⟩


/-! ### the branch loop of `Choice.parse_kwargs` -/

theorem choiceStep_other (kw : Kw) (st : CState) (b : Branch) (x : String) (hx : x ∉ b) :
    x ∈ (choiceStep kw st b).avail ↔ x ∈ st.avail := by
  unfold choiceStep
  simp only
  split
  · rfl
  · split
    · simp only [List.mem_filter, List.contains_iff_mem, branchKw_other kw b [] st.avail x hx, and_self]
    · split
      · simp only [List.mem_filter, List.contains_iff_mem, branchKw_other kw b [] st.avail x hx, and_self]
      · rfl

theorem choiceStep_sub (kw : Kw) (st : CState) (b : Branch) (x : String) :
    x ∈ (choiceStep kw st b).avail → x ∈ st.avail := by
  unfold choiceStep
  simp only
  split
  · exact id
  · split
    · intro h; exact (List.mem_filter.1 h).1
    · split
      · intro h; exact (List.mem_filter.1 h).1
      · exact id

theorem choiceStep_found_mono (kw : Kw) (st : CState) (b : Branch) (h : st.found = true) :
    (choiceStep kw st b).found = true := by
  unfold choiceStep
  simp only
  split
  · exact h
  · split
    · exact h
    · split <;> simp_all

/-- a branch that carries a value while another branch was already chosen changes nothing: its keys stay available -/
theorem choiceStep_valued_found (kw : Kw) (st : CState) (b : Branch) (hv : BranchValued kw b st.avail) (hf : st.found = true) :
    choiceStep kw st b = st := by
  obtain ⟨h1, h2⟩ := branchKw_any_of_valued kw b st.avail hv
  unfold choiceStep
  simp [h1, h2, hf]

/-- after a branch that carries a value has been looked at, some branch is chosen -/
theorem choiceStep_valued_sets_found (kw : Kw) (st : CState) (b : Branch) (hv : BranchValued kw b st.avail) :
    (choiceStep kw st b).found = true := by
  obtain ⟨h1, h2⟩ := branchKw_any_of_valued kw b st.avail hv
  unfold choiceStep
  by_cases hf : st.found = true <;> simp [h1, h2, hf]

theorem fold_other (kw : Kw) (bs : List Branch) (st : CState) (x : String) (hx : x ∉ bs.flatten) :
    x ∈ (bs.foldl (choiceStep kw) st).avail ↔ x ∈ st.avail := by
  induction bs generalizing st with
  | nil => rfl
  | cons b bs ih =>
    simp only [List.flatten_cons, List.mem_append, not_or] at hx
    simp only [List.foldl_cons]
    rw [ih _ hx.2]
    exact choiceStep_other kw st b x hx.1

theorem fold_sub (kw : Kw) (bs : List Branch) (st : CState) (x : String) :
    x ∈ (bs.foldl (choiceStep kw) st).avail → x ∈ st.avail := by
  induction bs generalizing st with
  | nil => exact id
  | cons b bs ih => intro h; exact choiceStep_sub kw st b x (ih _ h)

theorem fold_found_mono (kw : Kw) (bs : List Branch) (st : CState) (h : st.found = true) :
    (bs.foldl (choiceStep kw) st).found = true := by
  induction bs generalizing st with
  | nil => exact h
  | cons b bs ih => exact ih _ (choiceStep_found_mono kw st b h)

/-- Lemma A: once a branch is chosen, a valued key of a further branch stays available to the end of the loop -/
theorem fold_keeps_valued (kw : Kw) (bs : List Branch) (st : CState) (x : String) (v : Val)
    (hl : kw.lookup x = some v) (hv : v.has = true) (hf : st.found = true) (hx : x ∈ st.avail) :
    x ∈ (bs.foldl (choiceStep kw) st).avail := by
  induction bs generalizing st with
  | nil => exact hx
  | cons b bs ih =>
    simp only [List.foldl_cons]
    by_cases hb : x ∈ b
    · rw [choiceStep_valued_found kw st b ⟨x, v, hb, hx, hl, hv⟩ hf]
      exact ih st hf hx
    · exact ih _ (choiceStep_found_mono kw st b hf) ((choiceStep_other kw st b x hb).2 hx)

/-- Lemma B: of two valued keys that no branch holds together, one is still available after the loop -/
theorem fold_two_valued (kw : Kw) (bs : List Branch) (st : CState) (x y : String) (vx vy : Val)
    (hapart : ∀ b, b ∈ bs → ¬ (x ∈ b ∧ y ∈ b)) (hxm : x ∈ bs.flatten) (hym : y ∈ bs.flatten)
    (hlx : kw.lookup x = some vx) (hvx : vx.has = true) (hly : kw.lookup y = some vy) (hvy : vy.has = true)
    (hx : x ∈ st.avail) (hy : y ∈ st.avail) :
    x ∈ (bs.foldl (choiceStep kw) st).avail ∨ y ∈ (bs.foldl (choiceStep kw) st).avail := by
  induction bs generalizing st with
  | nil => exact absurd hxm (by simp)
  | cons b bs ih =>
    simp only [List.foldl_cons]
    have hap := hapart b List.mem_cons_self
    by_cases hbx : x ∈ b
    · have hby : y ∉ b := fun h => hap ⟨hbx, h⟩
      right
      exact fold_keeps_valued kw bs _ y vy hly hvy (choiceStep_valued_sets_found kw st b ⟨x, vx, hbx, hx, hlx, hvx⟩)
        ((choiceStep_other kw st b y hby).2 hy)
    · by_cases hby : y ∈ b
      · left
        exact fold_keeps_valued kw bs _ x vx hlx hvx (choiceStep_valued_sets_found kw st b ⟨y, vy, hby, hy, hly, hvy⟩)
          ((choiceStep_other kw st b x hbx).2 hx)
      · have hxm' : x ∈ bs.flatten := by
          simp only [List.flatten_cons, List.mem_append] at hxm
          rcases hxm with h | h
          · exact absurd h hbx
          · exact h
        have hym' : y ∈ bs.flatten := by
          simp only [List.flatten_cons, List.mem_append] at hym
          rcases hym with h | h
          · exact absurd h hby
          · exact h
        exact ih _ (fun b' hb' => hapart b' (List.mem_cons_of_mem _ hb')) hxm' hym'
          ((choiceStep_other kw st b x hbx).2 hx) ((choiceStep_other kw st b y hby).2 hy)

theorem choiceKw_avail (kw : Kw) (bs : List Branch) (avail : List String) :
    (choiceKw kw bs avail).2 = (bs.foldl (choiceStep kw) ⟨avail, [], false⟩).avail := by
  unfold choiceKw
  simp only
  split <;> rfl

theorem itemKw_other (kw : Kw) (avail : List String) (it : Item) (x : String) (hx : x ∉ it.names) :
    x ∈ (itemKw kw avail it).2 ↔ x ∈ avail := by
  cases it with
  | elem n =>
    simp only [Item.names, List.mem_singleton] at hx
    exact elemKw_other kw n avail x hx
  | choice bs =>
    simp only [Item.names] at hx
    simp only [itemKw, choiceKw_avail]
    exact fold_other kw bs _ x hx

theorem itemKw_sub (kw : Kw) (avail : List String) (it : Item) (x : String) :
    x ∈ (itemKw kw avail it).2 → x ∈ avail := by
  cases it with
  | elem n => exact elemKw_sub kw n avail x
  | choice bs => simp only [itemKw, choiceKw_avail]; exact fold_sub kw bs _ x

theorem seqKw_other (kw : Kw) (items : List Item) (res : Kw) (avail : List String) (x : String)
    (hx : x ∉ allNames items) :
    x ∈ (seqKw kw items (res, avail)).2 ↔ x ∈ avail := by
  induction items generalizing res avail with
  | nil => rfl
  | cons it rest ih =>
    simp only [allNames, List.flatMap_cons, List.mem_append, not_or] at hx
    simp only [seqKw]
    rw [ih _ _ (by simpa [allNames] using hx.2)]
    exact itemKw_other kw avail it x hx.1

theorem seqKw_sub (kw : Kw) (items : List Item) (res : Kw) (avail : List String) (x : String) :
    x ∈ (seqKw kw items (res, avail)).2 → x ∈ avail := by
  induction items generalizing res avail with
  | nil => exact id
  | cons it rest ih => intro h; simp only [seqKw] at h; exact itemKw_sub kw avail it x (ih _ _ h)

theorem attrKw_cons_in (kw : Kw) (a : String) (rest : List String) (res : Kw) (avail : List String) (va : Val)
    (hc : avail.contains a = true) (hla : kw.lookup a = some va) :
    attrKw kw (a :: rest) (res, avail) = attrKw kw rest (upd res [(a, va)], avail.erase a) := by
  simp only [attrKw, hc, if_true, hla]

theorem attrKw_cons_out (kw : Kw) (a : String) (rest : List String) (res : Kw) (avail : List String)
    (hc : avail.contains a = false ∨ kw.lookup a = none) :
    attrKw kw (a :: rest) (res, avail) = attrKw kw rest (res, avail) := by
  rcases hc with hc | hc
  · simp only [attrKw, hc]; rfl
  · simp only [attrKw, hc]; split <;> rfl

theorem attrKw_other (kw : Kw) (attrs : List String) (res : Kw) (avail : List String) (x : String)
    (hx : x ∉ attrs) :
    x ∈ (attrKw kw attrs (res, avail)).2 ↔ x ∈ avail := by
  induction attrs generalizing res avail with
  | nil => rfl
  | cons a rest ih =>
    have ha : x ≠ a := fun h => hx (h ▸ List.mem_cons_self)
    have hr : x ∉ rest := fun h => hx (List.mem_cons_of_mem _ h)
    by_cases hc : avail.contains a = true
    · cases hla : kw.lookup a with
      | none => rw [attrKw_cons_out kw a rest res avail (.inr hla)]; exact ih _ _ hr
      | some va => rw [attrKw_cons_in kw a rest res avail va hc hla, ih _ _ hr]; exact List.mem_erase_of_ne ha
    · have hc' : avail.contains a = false := by simpa using hc
      rw [attrKw_cons_out kw a rest res avail (.inl hc')]; exact ih _ _ hr

theorem processKw_error_of_left (items : List Item) (attrs : List String) (kw : Kw) (x : String)
    (h : x ∈ (attrKw kw attrs (seqKw kw items ([], keys kw))).2) :
    ∃ k, processKw items attrs kw = .error (.unexpectedKeyword k) := by
  unfold processKw
  simp only
  split
  · rename_i heq; rw [heq] at h; exact absurd h (by simp)
  · rename_i k _ _; exact ⟨k, rfl⟩

/-- seqKw leaves one of two valued keys of different branches of one choice among the available keywords -/
theorem seqKw_two_valued (kw : Kw) (items : List Item) (res : Kw) (avail : List String) (bs : List Branch)
    (x y : String) (vx vy : Val)
    (hnd : (allNames items).Nodup) (hc : Item.choice bs ∈ items)
    (hapart : ∀ b, b ∈ bs → ¬ (x ∈ b ∧ y ∈ b)) (hxm : x ∈ bs.flatten) (hym : y ∈ bs.flatten)
    (hlx : kw.lookup x = some vx) (hvx : vx.has = true) (hly : kw.lookup y = some vy) (hvy : vy.has = true)
    (hx : x ∈ avail) (hy : y ∈ avail) :
    x ∈ (seqKw kw items (res, avail)).2 ∨ y ∈ (seqKw kw items (res, avail)).2 := by
  induction items generalizing res avail with
  | nil => exact absurd hc (by simp)
  | cons it rest ih =>
    simp only [allNames, List.flatMap_cons] at hnd
    have hnd' := List.nodup_append.1 hnd
    simp only [seqKw]
    rcases List.mem_cons.1 hc with h | h
    · subst h
      have hB := fold_two_valued kw bs ⟨avail, [], false⟩ x y vx vy hapart hxm hym hlx hvx hly hvy hx hy
      rw [← choiceKw_avail] at hB
      have hnot : ∀ z, z ∈ bs.flatten → z ∉ allNames rest := fun z hz hz' => hnd'.2.2 z hz z hz' rfl
      rcases hB with hB | hB
      · left; exact (seqKw_other kw rest _ _ x (hnot x hxm)).2 hB
      · right; exact (seqKw_other kw rest _ _ y (hnot y hym)).2 hB
    · have hin : ∀ z, z ∈ bs.flatten → z ∈ allNames rest := fun z hz =>
        List.mem_flatMap.2 ⟨_, h, hz⟩
      have hnot : ∀ z, z ∈ bs.flatten → z ∉ it.names := fun z hz hz' => hnd'.2.2 z hz' z (hin z hz) rfl
      exact ih _ _ hnd'.2.1 h ((itemKw_other kw avail it x (hnot x hxm)).2 hx)
        ((itemKw_other kw avail it y (hnot y hym)).2 hy)


theorem mem_keys_of_lookup (kw : Kw) (z : String) (v : Val) (h : kw.lookup z = some v) : z ∈ keys kw := by
  obtain ⟨l₁, l₂, heq, _⟩ := List.lookup_eq_some_iff.1 h
  exact List.mem_map.2 ⟨(z, v), by rw [heq]; simp, rfl⟩


theorem mem_setDefaults (res : Kw) (ns : List String) (kv : String × Val) (h : kv ∈ res) : kv ∈ setDefaults res ns := by
  induction ns generalizing res with
  | nil => exact h
  | cons n ns ih =>
    simp only [setDefaults]
    apply ih
    split
    · exact h
    · exact List.mem_append_left _ h

theorem keys_setDefaults (res : Kw) (ns : List String) (k : String) :
    k ∈ keys (setDefaults res ns) → k ∈ keys res ∨ k ∈ ns := by
  induction ns generalizing res with
  | nil => intro h; exact .inl h
  | cons n ns ih =>
    simp only [setDefaults]
    intro h
    rcases ih _ h with h | h
    · split at h
      · exact .inl h
      · simp only [keys, List.map_append, List.mem_append, List.map_cons, List.map_nil, List.mem_singleton] at h
        rcases h with h | h
        · exact .inl h
        · exact .inr (h ▸ List.mem_cons_self)
    · exact .inr (List.mem_cons_of_mem _ h)

theorem branchKw_removed_lookup (kw : Kw) (b : Branch) (res : Kw) (avail : List String) (k : String)
    (hk : k ∈ avail) (hgone : k ∉ (branchKw kw b (res, avail)).2) : ∃ v, kw.lookup k = some v := by
  induction b generalizing res avail with
  | nil => exact absurd hk hgone
  | cons n ns ih =>
    rcases elemKw_cases kw n avail with he | ⟨vn, _, hln, he⟩
    · rw [branchKw_cons_skip kw n ns res avail he] at hgone; exact ih res avail hk hgone
    · rw [branchKw_cons_take kw n ns res avail vn he] at hgone
      by_cases hkn : k = n
      · subst hkn; exact ⟨vn, hln⟩
      · exact ih _ _ ((List.mem_erase_of_ne hkn).2 hk) hgone

/-- the loop invariant of `Choice.parse_kwargs`: a key taken out of `available_kwargs` is in the result with the
caller's value, and if that value counts as given a branch has been chosen -/
def CInv (kw : Kw) (a0 : List String) (st : CState) : Prop :=
  ∀ k, k ∈ a0 → k ∉ st.avail → ∃ v, kw.lookup k = some v ∧ (k, v) ∈ st.result ∧ (v.has = true → st.found = true)

theorem choiceStep_inv (kw : Kw) (a0 : List String) (st : CState) (b : Branch) (h : CInv kw a0 st) :
    CInv kw a0 (choiceStep kw st b) := by
  have key : ∀ (f : Bool), (st.found = true → f = true) →
      (∀ k v, (k, v) ∈ (branchKw kw b ([], st.avail)).1 → v.has = true → f = true) →
      CInv kw a0 ⟨st.avail.filter (branchKw kw b ([], st.avail)).2.contains, upd st.result (branchKw kw b ([], st.avail)).1, f⟩ := by
    intro f hf2 hf1 k hk0 hk
    by_cases hka : k ∈ st.avail
    · -- removed by this branch
      have hgone : k ∉ (branchKw kw b ([], st.avail)).2 := fun hm =>
        hk (List.mem_filter.2 ⟨hka, List.contains_iff_mem.2 hm⟩)
      obtain ⟨v, hl⟩ := branchKw_removed_lookup kw b [] st.avail k hka hgone
      have hm := branchKw_kept kw b [] st.avail k v hl (.inr ⟨hka, hgone⟩)
      exact ⟨v, hl, (mem_upd _ _ _ _).2 (.inr hm), hf1 k v hm⟩
    · obtain ⟨v', hl', hm, hf⟩ := h k hk0 hka
      refine ⟨v', hl', (mem_upd _ _ _ _).2 (.inl ⟨hm, fun hks => ?_⟩), fun hv => hf2 (hf hv)⟩
      obtain ⟨⟨k', w⟩, hmem, hkk⟩ := List.mem_map.1 hks
      simp only at hkk; subst hkk
      rcases branchKw_entries kw b [] st.avail k' w hmem with h' | ⟨_, h2, _⟩
      · exact absurd h' (by simp)
      · exact hka h2
  unfold choiceStep
  simp only
  split
  · exact h
  · split
    · rename_i hnv
      have hnv' : ((branchKw kw b ([], st.avail)).1.any fun kv => kv.2.has) = false := by simpa using hnv
      refine key st.found id (fun k v hm hv => ?_)
      have : ((branchKw kw b ([], st.avail)).1.any fun kv => kv.2.has) = true := List.any_eq_true.2 ⟨(k, v), hm, hv⟩
      rw [hnv'] at this; cases this
    · split
      · exact key true (fun _ => rfl) (fun _ _ _ _ => rfl)
      · exact h

theorem fold_inv (kw : Kw) (a0 : List String) (bs : List Branch) (st : CState) (h : CInv kw a0 st) :
    CInv kw a0 (bs.foldl (choiceStep kw) st) := by
  induction bs generalizing st with
  | nil => exact h
  | cons b bs ih => exact ih _ (choiceStep_inv kw a0 st b h)

theorem choiceStep_keys (kw : Kw) (st : CState) (b : Branch) (B : List String) (hb : ∀ n, n ∈ b → n ∈ B)
    (h : ∀ k, k ∈ keys st.result → k ∈ B) : ∀ k, k ∈ keys (choiceStep kw st b).result → k ∈ B := by
  unfold choiceStep
  simp only
  split
  · exact h
  · split
    · intro k hk
      rcases keys_upd _ _ k hk with hk | hk
      · exact h k hk
      · exact hb k (branchKw_keys kw b st.avail k hk)
    · split
      · intro k hk
        rcases keys_upd _ _ k hk with hk | hk
        · exact h k hk
        · exact hb k (branchKw_keys kw b st.avail k hk)
      · exact h

theorem fold_keys (kw : Kw) (bs : List Branch) (B : List String) (st : CState) (hB : ∀ n, n ∈ bs.flatten → n ∈ B)
    (h : ∀ k, k ∈ keys st.result → k ∈ B) : ∀ k, k ∈ keys (bs.foldl (choiceStep kw) st).result → k ∈ B := by
  induction bs generalizing st with
  | nil => exact h
  | cons b bs ih =>
    simp only [List.flatten_cons, List.mem_append] at hB
    exact ih _ (fun n hn => hB n (.inr hn)) (choiceStep_keys kw st b B (fun n hn => hB n (.inl hn)) h)

theorem itemKw_keys (kw : Kw) (avail : List String) (it : Item) :
    ∀ k, k ∈ keys (itemKw kw avail it).1 → k ∈ it.names := by
  cases it with
  | elem n =>
    intro k
    simp only [itemKw, Item.names, List.mem_singleton]
    rcases elemKw_cases kw n avail with h | ⟨v, _, _, h⟩ <;> rw [h] <;> simp [keys]
  | choice bs =>
    intro k
    simp only [itemKw, Item.names, choiceKw]
    split
    · intro hk
      rcases keys_setDefaults _ _ k hk with hk | hk
      · exact fold_keys kw bs bs.flatten _ (fun _ h => h) (by simp [keys]) k hk
      · exact hk
    · simp [keys]

/-- what one member of the sequence takes out of the available keywords is in its sub-result with the caller's value -/
theorem itemKw_kept (kw : Kw) (avail : List String) (it : Item) (k : String) (v : Val)
    (hl : kw.lookup k = some v) (hv : v.has = true) (hk : k ∈ avail) (hgone : k ∉ (itemKw kw avail it).2) :
    (k, v) ∈ (itemKw kw avail it).1 := by
  cases it with
  | elem n =>
    simp only [itemKw] at hgone ⊢
    rcases elemKw_cases kw n avail with he | ⟨vn, _, hln, he⟩
    · rw [he] at hgone; exact absurd hk hgone
    · rw [he] at hgone ⊢
      have : k = n := by
        apply Classical.byContradiction
        intro hne; exact hgone ((List.mem_erase_of_ne hne).2 hk)
      subst this
      rw [hl] at hln; cases hln
      simp
  | choice bs =>
    simp only [itemKw] at hgone ⊢
    rw [choiceKw_avail] at hgone
    have hinv := fold_inv kw avail bs ⟨avail, [], false⟩ (fun k _ hk' => absurd ‹k ∈ avail› hk') k hk hgone
    obtain ⟨v', hl', hm, hf⟩ := hinv
    rw [hl] at hl'; cases hl'
    unfold choiceKw
    simp only [hf hv, if_true]
    exact mem_setDefaults _ _ _ hm

theorem seqKw_kept (kw : Kw) (items : List Item) (res : Kw) (avail : List String)
    (hnd : (allNames items).Nodup) (hdis : ∀ k, k ∈ keys res → k ∉ allNames items)
    (k : String) (v : Val) (hl : kw.lookup k = some v) (hv : v.has = true)
    (h : (k, v) ∈ res ∨ (k ∈ avail ∧ k ∉ (seqKw kw items (res, avail)).2)) :
    (k, v) ∈ (seqKw kw items (res, avail)).1 := by
  induction items generalizing res avail with
  | nil =>
    rcases h with h | ⟨h1, h2⟩
    · exact h
    · exact absurd h1 h2
  | cons it rest ih =>
    simp only [allNames, List.flatMap_cons] at hnd hdis
    have hnd' := List.nodup_append.1 hnd
    simp only [seqKw] at h ⊢
    have hkeys : ∀ x, x ∈ keys (if (itemKw kw avail it).1.isEmpty then res else upd res (itemKw kw avail it).1) →
        x ∈ keys res ∨ x ∈ it.names := by
      intro x hx
      split at hx
      · exact .inl hx
      · rcases keys_upd _ _ x hx with hx | hx
        · exact .inl hx
        · exact .inr (itemKw_keys kw avail it x hx)
    have hdis' : ∀ x, x ∈ keys (if (itemKw kw avail it).1.isEmpty then res else upd res (itemKw kw avail it).1) →
        x ∉ allNames rest := by
      intro x hx hx'
      rcases hkeys x hx with hx | hx
      · exact hdis x hx (List.mem_append_right _ hx')
      · exact hnd'.2.2 x hx x hx' rfl
    have hpres : (k, v) ∈ res → (k, v) ∈ (if (itemKw kw avail it).1.isEmpty then res else upd res (itemKw kw avail it).1) := by
      intro hm
      split
      · exact hm
      · refine (mem_upd _ _ _ _).2 (.inl ⟨hm, fun hks => ?_⟩)
        exact hdis k (List.mem_map.2 ⟨(k, v), hm, rfl⟩) (List.mem_append_left _ (itemKw_keys kw avail it k hks))
    apply ih _ _ hnd'.2.1 hdis'
    rcases h with h | ⟨h1, h2⟩
    · exact .inl (hpres h)
    · by_cases hstill : k ∈ (itemKw kw avail it).2
      · exact .inr ⟨hstill, h2⟩
      · left
        have hm := itemKw_kept kw avail it k v hl hv h1 hstill
        have hne : (itemKw kw avail it).1.isEmpty = false := by
          cases hh : (itemKw kw avail it).1 with
          | nil => rw [hh] at hm; exact absurd hm (by simp)
          | cons _ _ => rfl
        rw [hne]
        exact (mem_upd _ _ _ _).2 (.inr hm)

theorem attrKw_kept (kw : Kw) (attrs : List String) (res : Kw) (avail : List String)
    (k : String) (v : Val) (hl : kw.lookup k = some v)
    (h : (k, v) ∈ res ∨ (k ∈ avail ∧ k ∉ (attrKw kw attrs (res, avail)).2)) :
    (k, v) ∈ (attrKw kw attrs (res, avail)).1 := by
  induction attrs generalizing res avail with
  | nil =>
    rcases h with h | ⟨h1, h2⟩
    · exact h
    · exact absurd h1 h2
  | cons a rest ih =>
    by_cases hc : avail.contains a = true
    · cases hla : kw.lookup a with
      | none =>
        rw [attrKw_cons_out kw a rest res avail (.inr hla)] at h ⊢
        exact ih _ _ h
      | some va =>
        rw [attrKw_cons_in kw a rest res avail va hc hla] at h ⊢
        apply ih
        rcases h with h | ⟨h1, h2⟩
        · left
          by_cases hka : k = a
          · subst hka; rw [hl] at hla; cases hla
            exact (mem_upd _ _ _ _).2 (.inr (by simp))
          · exact (mem_upd _ _ _ _).2 (.inl ⟨h, by simp [keys, hka]⟩)
        · by_cases hka : k = a
          · subst hka; rw [hl] at hla; cases hla
            exact .inl ((mem_upd _ _ _ _).2 (.inr (by simp)))
          · exact .inr ⟨(List.mem_erase_of_ne hka).2 h1, h2⟩
    · have hc' : avail.contains a = false := by simpa using hc
      rw [attrKw_cons_out kw a rest res avail (.inl hc')] at h ⊢
      exact ih _ _ h


theorem lookup_of_mem_keys (kw : Kw) (k : String) (h : k ∈ keys kw) : ∃ v, kw.lookup k = some v := by
  induction kw with
  | nil => exact absurd h (by simp [keys])
  | cons p rest ih =>
    obtain ⟨k', v'⟩ := p
    by_cases hk : k = k'
    · subst hk; exact ⟨v', by simp [List.lookup]⟩
    · simp only [keys, List.map_cons, List.mem_cons] at h
      rcases h with h | h
      · exact absurd h hk
      · obtain ⟨v, hv⟩ := ih h
        refine ⟨v, ?_⟩
        simp only [List.lookup]
        have : (k == k') = false := by simpa using hk
        rw [this]; exact hv

/-- available keywords while a conforming call is processed: duplicate-free, all of them keys of the call -/
structure AOk (kw : Kw) (avail : List String) : Prop where
  nodup : avail.Nodup
  sub : ∀ x, x ∈ avail → x ∈ keys kw

theorem branchKw_ok (kw : Kw) (b : Branch) (res : Kw) (avail : List String) (h : AOk kw avail) :
    AOk kw (branchKw kw b (res, avail)).2 ∧ ∀ n, n ∈ b → n ∉ (branchKw kw b (res, avail)).2 := by
  induction b generalizing res avail with
  | nil => exact ⟨h, fun n hn => absurd hn (by simp)⟩
  | cons m ms ih =>
    by_cases hm : m ∈ avail
    · obtain ⟨v, hl⟩ := lookup_of_mem_keys kw m (h.sub m hm)
      rw [branchKw_cons_take kw m ms res avail v (elemKw_in kw m avail v hm hl)]
      have h' : AOk kw (avail.erase m) := ⟨List.Nodup.erase _ h.nodup, fun x hx => h.sub x (List.mem_of_mem_erase hx)⟩
      obtain ⟨h1, h2⟩ := ih (upd res [(m, v)]) (avail.erase m) h'
      refine ⟨h1, fun n hn => ?_⟩
      rcases List.mem_cons.1 hn with rfl | hn
      · exact fun hmem => ((List.Nodup.mem_erase_iff h.nodup).1 (branchKw_sub kw ms _ _ _ hmem)).1 rfl
      · exact h2 n hn
    · rw [branchKw_cons_skip kw m ms res avail (elemKw_out kw m avail hm)]
      obtain ⟨h1, h2⟩ := ih res avail h
      refine ⟨h1, fun n hn => ?_⟩
      rcases List.mem_cons.1 hn with rfl | hn
      · exact fun hmem => hm (branchKw_sub kw ms _ _ _ hmem)
      · exact h2 n hn

/-- the caller passed something that counts for a member of the branch -/
def ValuedIn (kw : Kw) (b : Branch) : Prop := ∃ x v, x ∈ b ∧ kw.lookup x = some v ∧ v.has = true

/-- the state of the branch loop while a conforming call is processed; `done` are the branches looked at so far -/
structure FOk (kw : Kw) (done : List Branch) (st : CState) : Prop where
  aok : AOk kw st.avail
  chosen : st.found = true → ∃ b0, b0 ∈ done ∧ ValuedIn kw b0

theorem choiceStep_ok (kw : Kw) (done : List Branch) (st : CState) (b : Branch)
    (hb : ValuedIn kw b → ∀ b0, b0 ∈ done → ¬ ValuedIn kw b0) (h : FOk kw done st) :
    FOk kw (done ++ [b]) (choiceStep kw st b) ∧ ∀ n, n ∈ b → n ∉ (choiceStep kw st b).avail := by
  obtain ⟨hr1, hr2⟩ := branchKw_ok kw b [] st.avail h.aok
  have hcommit : ∀ f : Bool, (f = true → ∃ b0, b0 ∈ done ++ [b] ∧ ValuedIn kw b0) →
      FOk kw (done ++ [b]) ⟨st.avail.filter (branchKw kw b ([], st.avail)).2.contains, upd st.result (branchKw kw b ([], st.avail)).1, f⟩ ∧
      ∀ n, n ∈ b → n ∉ st.avail.filter (branchKw kw b ([], st.avail)).2.contains := by
    intro f hf
    refine ⟨⟨⟨List.Nodup.sublist List.filter_sublist h.aok.nodup, fun x hx => h.aok.sub x (List.mem_filter.1 hx).1⟩, hf⟩, ?_⟩
    intro n hn hm
    exact hr2 n hn (List.contains_iff_mem.1 (List.mem_filter.1 hm).2)
  have hchosen' : st.found = true → ∃ b0, b0 ∈ done ++ [b] ∧ ValuedIn kw b0 := fun hf => by
    obtain ⟨b0, hb0, hv0⟩ := h.chosen hf
    exact ⟨b0, List.mem_append_left _ hb0, hv0⟩
  by_cases hval : BranchValued kw b st.avail
  · have hval' := hval
    obtain ⟨x, v, hx, _, hl, hv⟩ := hval'
    have hvb : ValuedIn kw b := ⟨x, v, hx, hl, hv⟩
    obtain ⟨h1, h2⟩ := branchKw_any_of_valued kw b st.avail hval
    by_cases hf : st.found = true
    · obtain ⟨b0, hb0, hv0⟩ := h.chosen hf
      exact absurd hv0 (hb hvb b0 hb0)
    · have hf' : st.found = false := by simpa using hf
      have := hcommit true (fun _ => ⟨b, by simp, hvb⟩)
      unfold choiceStep
      simpa [h1, h2, hf'] using this
  · have hnv : ((branchKw kw b ([], st.avail)).1.any fun kv => kv.2.has) = false := by
      cases hh : ((branchKw kw b ([], st.avail)).1.any fun kv => kv.2.has) with
      | false => rfl
      | true => exact absurd (branchKw_valued_of_any kw b st.avail hh) hval
    by_cases hemp : (branchKw kw b ([], st.avail)).1.isEmpty = true
    · have hst : choiceStep kw st b = st := by unfold choiceStep; simp [hemp]
      rw [hst]
      refine ⟨⟨h.aok, hchosen'⟩, fun n hn hm => ?_⟩
      obtain ⟨v, hl⟩ := lookup_of_mem_keys kw n (h.aok.sub n hm)
      have := branchKw_has kw b [] st.avail n v hn hm hl
      rw [List.isEmpty_iff.1 hemp] at this
      exact absurd this (by simp)
    · have hemp' : (branchKw kw b ([], st.avail)).1.isEmpty = false := by simpa using hemp
      have := hcommit st.found hchosen'
      unfold choiceStep
      simpa [hemp', hnv] using this

theorem fold_ok (kw : Kw) (rest : List Branch) (done : List Branch) (st : CState)
    (hone : ∀ pre b post, rest = pre ++ b :: post → ValuedIn kw b → ∀ b0, b0 ∈ done ++ pre → ¬ ValuedIn kw b0)
    (h : FOk kw done st) :
    FOk kw (done ++ rest) (rest.foldl (choiceStep kw) st) ∧ ∀ n, n ∈ rest.flatten → n ∉ (rest.foldl (choiceStep kw) st).avail := by
  induction rest generalizing done st with
  | nil => exact ⟨by simpa using h, fun n hn => absurd hn (by simp)⟩
  | cons b rest ih =>
    obtain ⟨h1, h2⟩ := choiceStep_ok kw done st b
      (fun hv b0 hb0 => hone [] b rest rfl hv b0 (by simpa using hb0)) h
    obtain ⟨h3, h4⟩ := ih (done ++ [b]) (choiceStep kw st b)
      (fun pre b' post heq hv b0 hb0 => hone (b :: pre) b' post (by rw [heq]; rfl) hv b0 (by simpa [List.append_assoc] using hb0)) h1
    refine ⟨by simpa [List.append_assoc] using h3, fun n hn => ?_⟩
    simp only [List.flatten_cons, List.mem_append] at hn
    simp only [List.foldl_cons]
    rcases hn with hn | hn
    · exact fun hm => h2 n hn (fold_sub kw rest _ _ hm)
    · exact h4 n hn

/-- at most one branch of the choice is given a value that counts -/
def OneBranch (kw : Kw) (bs : List Branch) : Prop :=
  ∀ pre b post, bs = pre ++ b :: post → ValuedIn kw b → ∀ b0, b0 ∈ pre → ¬ ValuedIn kw b0

theorem itemKw_ok (kw : Kw) (avail : List String) (it : Item) (h : AOk kw avail)
    (hone : ∀ bs, it = .choice bs → OneBranch kw bs) :
    AOk kw (itemKw kw avail it).2 ∧ ∀ k, k ∈ it.names → k ∉ (itemKw kw avail it).2 := by
  cases it with
  | elem n =>
    simp only [itemKw, Item.names, List.mem_singleton]
    have := branchKw_ok kw [n] [] avail h
    have heq : (branchKw kw [n] ([], avail)).2 = (elemKw kw n avail).2 := by
      rcases elemKw_cases kw n avail with he | ⟨v, _, _, he⟩
      · rw [branchKw_cons_skip kw n [] [] avail he, he]; rfl
      · rw [branchKw_cons_take kw n [] [] avail v he, he]; rfl
    rw [heq] at this
    exact ⟨this.1, fun k hk => by subst hk; exact this.2 k (by simp)⟩
  | choice bs =>
    simp only [itemKw, Item.names, choiceKw_avail]
    have h0 : FOk kw [] ⟨avail, [], false⟩ := ⟨h, fun hf => by cases hf⟩
    obtain ⟨h1, h2⟩ := fold_ok kw bs [] _ (fun pre b post heq hv b0 hb0 => hone bs rfl pre b post heq hv b0 (by simpa using hb0)) h0
    exact ⟨h1.aok, h2⟩

theorem seqKw_ok (kw : Kw) (items : List Item) (res : Kw) (avail : List String) (h : AOk kw avail)
    (hone : ∀ bs, Item.choice bs ∈ items → OneBranch kw bs) :
    AOk kw (seqKw kw items (res, avail)).2 ∧ ∀ k, k ∈ allNames items → k ∉ (seqKw kw items (res, avail)).2 := by
  induction items generalizing res avail with
  | nil => exact ⟨h, fun k hk => absurd hk (by simp [allNames])⟩
  | cons it rest ih =>
    obtain ⟨h1, h2⟩ := itemKw_ok kw avail it h (fun bs e => hone bs (e ▸ List.mem_cons_self))
    simp only [seqKw]
    obtain ⟨h3, h4⟩ := ih (if (itemKw kw avail it).1.isEmpty then res else upd res (itemKw kw avail it).1) _ h1
      (fun bs hm => hone bs (List.mem_cons_of_mem _ hm))
    refine ⟨h3, fun k hk => ?_⟩
    simp only [allNames, List.flatMap_cons, List.mem_append] at hk
    rcases hk with hk | hk
    · exact fun hm => h2 k hk (seqKw_sub kw rest _ _ k hm)
    · exact h4 k (by simpa [allNames] using hk)

theorem attrKw_ok (kw : Kw) (attrs : List String) (res : Kw) (avail : List String) (h : AOk kw avail) :
    (∀ x, x ∈ (attrKw kw attrs (res, avail)).2 → x ∈ avail) ∧ ∀ k, k ∈ attrs → k ∉ (attrKw kw attrs (res, avail)).2 := by
  induction attrs generalizing res avail with
  | nil => exact ⟨fun _ hx => hx, fun k hk => absurd hk (by simp)⟩
  | cons a rest ih =>
    by_cases hc : avail.contains a = true
    · obtain ⟨va, hla⟩ := lookup_of_mem_keys kw a (h.sub a (List.contains_iff_mem.1 hc))
      rw [attrKw_cons_in kw a rest res avail va hc hla]
      have h' : AOk kw (avail.erase a) := ⟨List.Nodup.erase _ h.nodup, fun x hx => h.sub x (List.mem_of_mem_erase hx)⟩
      obtain ⟨h1, h2⟩ := ih (upd res [(a, va)]) (avail.erase a) h'
      refine ⟨fun x hx => List.mem_of_mem_erase (h1 x hx), fun k hk => ?_⟩
      rcases List.mem_cons.1 hk with rfl | hk
      · exact fun hm => ((List.Nodup.mem_erase_iff h.nodup).1 (h1 _ hm)).1 rfl
      · exact h2 k hk
    · have hc' : avail.contains a = false := by simpa using hc
      rw [attrKw_cons_out kw a rest res avail (.inl hc')]
      obtain ⟨h1, h2⟩ := ih res avail h
      refine ⟨h1, fun k hk => ?_⟩
      rcases List.mem_cons.1 hk with rfl | hk
      · exact fun hm => (by simpa using hc' : k ∉ avail) (h1 _ hm)
      · exact h2 k hk

/-! ### which branch is rendered, and what it emits -/

theorem best_none_of_no_score (fields : Kw) (bs : List RBranch) (h : ∀ b, b ∈ bs → score fields b = 0) : best fields bs = none := by
  induction bs with
  | nil => rfl
  | cons b bs ih =>
    simp only [best, ih (fun b' hb' => h b' (List.mem_cons_of_mem _ hb'))]
    simp [h b List.mem_cons_self]

/-- when exactly one branch has members whose value is not None, that branch is the one rendered -/
theorem best_single (fields : Kw) (pre : List RBranch) (b : RBranch) (post : List RBranch)
    (hpre : ∀ b', b' ∈ pre → score fields b' = 0) (hpost : ∀ b', b' ∈ post → score fields b' = 0) (hb : score fields b > 0) :
    best fields (pre ++ b :: post) = some b := by
  induction pre with
  | nil =>
    simp only [List.nil_append, best, best_none_of_no_score fields post hpost]
    simp [hb]
  | cons p pre ih =>
    have := ih (fun b' hb' => hpre b' (List.mem_cons_of_mem _ hb'))
    simp only [List.cons_append, best, this]
    have hp := hpre p List.mem_cons_self
    simp only [hp]
    have : ¬ (0 ≥ score fields b) := by omega
    simp [this]

theorem renderBranch_emits (fields : Kw) (b : RBranch) (out : List (String × Val)) (h : renderBranch fields b = .ok out)
    (m : Member) (hm : m ∈ b) (v : Val) (hl : fields.lookup m.name = some v) (hv : v ≠ .none) : (m.name, v) ∈ out := by
  induction b generalizing out with
  | nil => exact absurd hm (by simp)
  | cons m0 ms ih =>
    simp only [renderBranch] at h
    cases h1 : renderMember fields m0 with
    | error e => rw [h1] at h; simp at h
    | ok a =>
      cases h2 : renderBranch fields ms with
      | error e => rw [h1, h2] at h; simp at h
      | ok b' =>
        rw [h1, h2] at h
        simp only [Except.ok.injEq] at h
        subst h
        rcases List.mem_cons.1 hm with rfl | hm'
        · apply List.mem_append_left
          unfold renderMember at h1
          rw [hl] at h1
          cases v with
          | none => exact absurd rfl hv
          | empty => simp at h1; subst h1; simp
          | leaf t => simp at h1; subst h1; simp
        · exact List.mem_append_right _ (ih b' h2 hm')

theorem renderMember_ok (fields : Kw) (m : Member) (a : List (String × Val)) (h : renderMember fields m = .ok a) :
    a = [] ∨ ∃ v, fields.lookup m.name = some v ∧ v ≠ .none ∧ a = [(m.name, v)] := by
  unfold renderMember at h
  cases hl : fields.lookup m.name with
  | none =>
    rw [hl] at h
    by_cases ho : m.optional = true
    · simp [ho] at h; exact .inl h
    · simp [ho] at h
  | some w =>
    rw [hl] at h
    cases w with
    | none =>
      by_cases ho : m.optional = true
      · simp [ho] at h; exact .inl h
      · simp [ho] at h
    | empty => simp at h; exact .inr ⟨.empty, rfl, by simp, h.symm⟩
    | leaf t => simp at h; exact .inr ⟨.leaf t, rfl, by simp, h.symm⟩

/-- only the caller's data: everything a branch emits is a field bound to a value that is not None -/
theorem renderBranch_sound (fields : Kw) (b : RBranch) (out : List (String × Val)) (h : renderBranch fields b = .ok out)
    (k : String) (v : Val) (hm : (k, v) ∈ out) : fields.lookup k = some v ∧ v ≠ .none ∧ k ∈ b.names := by
  induction b generalizing out with
  | nil => simp only [renderBranch, Except.ok.injEq] at h; subst h; exact absurd hm (by simp)
  | cons m0 ms ih =>
    simp only [renderBranch] at h
    cases h1 : renderMember fields m0 with
    | error e => rw [h1] at h; simp at h
    | ok a =>
      cases h2 : renderBranch fields ms with
      | error e => rw [h1, h2] at h; simp at h
      | ok b' =>
        rw [h1, h2] at h
        simp only [Except.ok.injEq] at h
        subst h
        rcases List.mem_append.1 hm with hm | hm
        · rcases renderMember_ok fields m0 a h1 with rfl | ⟨w, hl, hw, rfl⟩
          · exact absurd hm (by simp)
          · simp only [List.mem_singleton, Prod.mk.injEq] at hm
            obtain ⟨rfl, rfl⟩ := hm
            exact ⟨hl, hw, by simp [RBranch.names]⟩
        · obtain ⟨h3, h4, h5⟩ := ih b' h2 hm
          exact ⟨h3, h4, by simp only [RBranch.names, List.map_cons, List.mem_cons]; exact .inr (by simpa [RBranch.names] using h5)⟩


/-! ### the bound fields: one entry per key, every entry the caller's value or a `None` default -/

def Prov (kw : Kw) (res : Kw) : Prop := ∀ k v, (k, v) ∈ res → v = .none ∨ kw.lookup k = some v
def Uniq (res : Kw) : Prop := (keys res).Nodup

theorem lookup_of_mem_uniq (res : Kw) (h : Uniq res) (k : String) (v : Val) (hm : (k, v) ∈ res) : res.lookup k = some v := by
  induction res with
  | nil => exact absurd hm (by simp)
  | cons p rest ih =>
    obtain ⟨k', v'⟩ := p
    simp only [Uniq, keys, List.map_cons, List.nodup_cons] at h
    rcases List.mem_cons.1 hm with heq | hm'
    · simp only [Prod.mk.injEq] at heq; obtain ⟨rfl, rfl⟩ := heq; simp [List.lookup]
    · have hne : k ≠ k' := fun e => h.1 (e ▸ List.mem_map.2 ⟨(k, v), hm', rfl⟩)
      simp only [List.lookup]
      have : (k == k') = false := by simpa using hne
      rw [this]
      exact ih h.2 hm'

theorem mem_of_lookup (res : Kw) (k : String) (v : Val) (h : res.lookup k = some v) : (k, v) ∈ res := by
  obtain ⟨l₁, l₂, heq, _⟩ := List.lookup_eq_some_iff.1 h
  rw [heq]; simp

theorem uniq_upd (res sub : Kw) (hr : Uniq res) (hs : Uniq sub) : Uniq (upd res sub) := by
  unfold Uniq upd keys at *
  rw [List.map_append]
  apply List.nodup_append.2
  refine ⟨List.Nodup.sublist (List.Sublist.map _ List.filter_sublist) hr, hs, ?_⟩
  intro a ha b hb hab
  subst hab
  obtain ⟨kv, hkv, rfl⟩ := List.mem_map.1 ha
  have := (List.mem_filter.1 hkv).2
  simp only [Bool.not_eq_true', List.contains_eq_mem, decide_eq_false_iff_not] at this
  exact this hb

theorem prov_upd (kw : Kw) (res sub : Kw) (hr : Prov kw res) (hs : Prov kw sub) : Prov kw (upd res sub) := by
  intro k v hm
  rcases (mem_upd _ _ _ _).1 hm with ⟨h, _⟩ | h
  · exact hr k v h
  · exact hs k v h

theorem uniq_setDefaults (res : Kw) (ns : List String) (h : Uniq res) : Uniq (setDefaults res ns) := by
  induction ns generalizing res with
  | nil => exact h
  | cons n ns ih =>
    simp only [setDefaults]
    apply ih
    split
    · exact h
    · rename_i hc
      unfold Uniq keys at *
      rw [List.map_append]
      apply List.nodup_append.2
      refine ⟨h, by simp, ?_⟩
      intro a ha b hb hab
      simp only [List.map_cons, List.map_nil, List.mem_singleton] at hb
      subst hab; subst hb
      exact hc (by simpa [keys] using ha)

theorem prov_setDefaults (kw : Kw) (res : Kw) (ns : List String) (h : Prov kw res) : Prov kw (setDefaults res ns) := by
  induction ns generalizing res with
  | nil => exact h
  | cons n ns ih =>
    simp only [setDefaults]
    apply ih
    split
    · exact h
    · intro k v hm
      rcases List.mem_append.1 hm with hm | hm
      · exact h k v hm
      · simp only [List.mem_singleton, Prod.mk.injEq] at hm; exact .inl hm.2

theorem uniq_single (k : String) (v : Val) : Uniq [(k, v)] := by simp [Uniq, keys]

theorem branchKw_uniq (kw : Kw) (b : Branch) (res : Kw) (avail : List String) (h : Uniq res) :
    Uniq (branchKw kw b (res, avail)).1 := by
  induction b generalizing res avail with
  | nil => exact h
  | cons n ns ih =>
    rcases elemKw_cases kw n avail with he | ⟨v, _, _, he⟩
    · rw [branchKw_cons_skip kw n ns res avail he]; exact ih res avail h
    · rw [branchKw_cons_take kw n ns res avail v he]; exact ih _ _ (uniq_upd res _ h (uniq_single n v))

theorem branchKw_prov (kw : Kw) (b : Branch) (res : Kw) (avail : List String) (h : Prov kw res) :
    Prov kw (branchKw kw b (res, avail)).1 := by
  intro k v hm
  rcases branchKw_entries kw b res avail k v hm with h' | ⟨_, _, h3⟩
  · exact h k v h'
  · exact .inr h3

theorem choiceStep_fields (kw : Kw) (st : CState) (b : Branch) (hu : Uniq st.result) (hp : Prov kw st.result) :
    Uniq (choiceStep kw st b).result ∧ Prov kw (choiceStep kw st b).result := by
  have hu' := branchKw_uniq kw b [] st.avail (by simp [Uniq, keys])
  have hp' := branchKw_prov kw b [] st.avail (fun _ _ h => absurd h (by simp))
  unfold choiceStep
  simp only
  split
  · exact ⟨hu, hp⟩
  · split
    · exact ⟨uniq_upd _ _ hu hu', prov_upd kw _ _ hp hp'⟩
    · split
      · exact ⟨uniq_upd _ _ hu hu', prov_upd kw _ _ hp hp'⟩
      · exact ⟨hu, hp⟩

theorem fold_fields (kw : Kw) (bs : List Branch) (st : CState) (hu : Uniq st.result) (hp : Prov kw st.result) :
    Uniq (bs.foldl (choiceStep kw) st).result ∧ Prov kw (bs.foldl (choiceStep kw) st).result := by
  induction bs generalizing st with
  | nil => exact ⟨hu, hp⟩
  | cons b bs ih =>
    obtain ⟨h1, h2⟩ := choiceStep_fields kw st b hu hp
    exact ih _ h1 h2

theorem itemKw_fields (kw : Kw) (avail : List String) (it : Item) :
    Uniq (itemKw kw avail it).1 ∧ Prov kw (itemKw kw avail it).1 := by
  cases it with
  | elem n =>
    simp only [itemKw]
    rcases elemKw_cases kw n avail with he | ⟨v, _, hl, he⟩
    · rw [he]; exact ⟨by simp [Uniq, keys], fun _ _ h => absurd h (by simp)⟩
    · rw [he]
      refine ⟨uniq_single n v, fun k w hm => ?_⟩
      simp only [List.mem_singleton, Prod.mk.injEq] at hm
      obtain ⟨rfl, rfl⟩ := hm
      exact .inr hl
  | choice bs =>
    simp only [itemKw, choiceKw]
    obtain ⟨h1, h2⟩ := fold_fields kw bs ⟨avail, [], false⟩ (by simp [Uniq, keys]) (fun _ _ h => absurd h (by simp))
    split
    · exact ⟨uniq_setDefaults _ _ h1, prov_setDefaults kw _ _ h2⟩
    · exact ⟨by simp [Uniq, keys], fun _ _ h => absurd h (by simp)⟩

theorem seqKw_fields (kw : Kw) (items : List Item) (res : Kw) (avail : List String) (hu : Uniq res) (hp : Prov kw res) :
    Uniq (seqKw kw items (res, avail)).1 ∧ Prov kw (seqKw kw items (res, avail)).1 := by
  induction items generalizing res avail with
  | nil => exact ⟨hu, hp⟩
  | cons it rest ih =>
    simp only [seqKw]
    obtain ⟨h1, h2⟩ := itemKw_fields kw avail it
    apply ih
    · split
      · exact hu
      · exact uniq_upd _ _ hu h1
    · split
      · exact hp
      · exact prov_upd kw _ _ hp h2

theorem attrKw_fields (kw : Kw) (attrs : List String) (res : Kw) (avail : List String) (hu : Uniq res) (hp : Prov kw res) :
    Uniq (attrKw kw attrs (res, avail)).1 ∧ Prov kw (attrKw kw attrs (res, avail)).1 := by
  induction attrs generalizing res avail with
  | nil => exact ⟨hu, hp⟩
  | cons a rest ih =>
    by_cases hc : avail.contains a = true
    · cases hla : kw.lookup a with
      | none => rw [attrKw_cons_out kw a rest res avail (.inr hla)]; exact ih _ _ hu hp
      | some va =>
        rw [attrKw_cons_in kw a rest res avail va hc hla]
        refine ih _ _ (uniq_upd _ _ hu (uniq_single a va)) (prov_upd kw _ _ hp (fun k w hm => ?_))
        simp only [List.mem_singleton, Prod.mk.injEq] at hm
        obtain ⟨rfl, rfl⟩ := hm
        exact .inr hla
    · have hc' : avail.contains a = false := by simpa using hc
      rw [attrKw_cons_out kw a rest res avail (.inl hc')]; exact ih _ _ hu hp

theorem processKw_fields (items : List Item) (attrs : List String) (kw fields : Kw) (hok : processKw items attrs kw = .ok fields) :
    Uniq fields ∧ Prov kw fields := by
  unfold processKw at hok
  simp only at hok
  split at hok
  · cases hok
    obtain ⟨h1, h2⟩ := seqKw_fields kw items [] (keys kw) (by simp [Uniq, keys]) (fun _ _ h => absurd h (by simp))
    exact attrKw_fields kw attrs _ _ h1 h2
  · cases hok

end Zeep.BindKw
