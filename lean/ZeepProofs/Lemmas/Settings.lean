import ZeepModel.Settings
/-! Helper lemmas for C13: the save/restore overlay refines the frame stack. -/
namespace Zeep.Settings

@[simp] theorem upd_same {β : Type} (f : Nat → β) (a : Nat) (b : β) : upd f a b a = b := by
  simp [upd]

theorem upd_other {β : Type} (f : Nat → β) (a x : Nat) (b : β) (h : x ≠ a) : upd f a b x = f x := by
  simp [upd, h]

/-- the `current` dicts determined by the frame stack -/
def savedOf : List Frame → List (List (Opt × Option Val))
  | [] => []
  | fr :: rest => (fr.map fun p => (p.1, overlay rest p.1)) :: savedOf rest

def NodupKeys (fr : Frame) : Prop := (fr.map Prod.fst).Nodup

structure Rel (m : MState) (s : SState) : Prop where
  inst : m.inst = s.base
  tls : ∀ t k, m.tls t k = overlay (s.stack t) k
  saved : ∀ t, m.saved t = savedOf (s.stack t)
  nodup : ∀ t, ∀ fr ∈ s.stack t, NodupKeys fr

theorem lookup_none_of_hasKey_false (fr : Frame) (k : Opt) (h : hasKey fr k = false) :
    lookup fr k = none := by
  induction fr with
  | nil => rfl
  | cons p fr ih =>
    obtain ⟨k', v⟩ := p
    simp [hasKey] at h
    simp only [lookup]
    have h1 : ¬ k' = k := h.1
    simp only [h1, if_false]
    apply ih
    simp [hasKey]
    exact h.2

theorem hasKey_map {β γ : Type} (fr : List (Opt × β)) (g : Opt → γ) (k : Opt) :
    hasKey (fr.map fun p => (p.1, g p.1)) k = hasKey fr k := by
  induction fr with
  | nil => rfl
  | cons p fr ih => simp [hasKey] at ih ⊢; rw [ih]

theorem lookup_append_single (fr : Frame) (k k' : Opt) (v : Val) :
    lookup (fr ++ [(k, v)]) k' =
      match lookup fr k' with
      | some x => some x
      | none => if k = k' then some v else none := by
  induction fr with
  | nil => simp [lookup]
  | cons p fr ih =>
    obtain ⟨a, b⟩ := p
    simp only [List.cons_append, lookup]
    split
    · rfl
    · exact ih

theorem lookup_tail_of_nodup (k : Opt) (v : Val) (fr : Frame) (h : NodupKeys ((k, v) :: fr)) :
    lookup fr k = none := by
  apply lookup_none_of_hasKey_false
  simp only [NodupKeys, List.map_cons, List.nodup_cons] at h
  have h1 := h.1
  cases hk : hasKey fr k with
  | false => rfl
  | true =>
    exfalso
    apply h1
    simp only [hasKey, List.any_eq_true] at hk
    obtain ⟨p, hp, hpk⟩ := hk
    simp only [List.mem_map]
    exact ⟨p, hp, by simpa using hpk⟩

theorem nodup_append_single (fr : Frame) (k : Opt) (v : Val) (h : NodupKeys fr)
    (hk : hasKey fr k = false) : NodupKeys (fr ++ [(k, v)]) := by
  unfold NodupKeys at *
  rw [List.map_append, List.nodup_append]
  refine ⟨h, by simp, ?_⟩
  intro a ha b hb
  simp at hb
  subst hb
  intro hab
  subst hab
  simp only [List.mem_map] at ha
  obtain ⟨p, hp, hpk⟩ := ha
  have : hasKey fr a = true := by
    simp only [hasKey, List.any_eq_true]
    exact ⟨p, hp, by simpa using hpk⟩
  rw [this] at hk
  cases hk

theorem step_refines (m : MState) (s : SState) (e : Event) (h : Rel m s) :
    Rel (mstep m e).1 (sstep s e).1 ∧ (mstep m e).2 = (sstep s e).2 := by
  obtain ⟨t, p⟩ := e
  cases p with
  | push =>
    refine ⟨⟨h.inst, ?_, ?_, ?_⟩, rfl⟩
    · intro u k
      simp only [mstep, sstep]
      by_cases hu : u = t
      · subst hu; simp [overlay, lookup, h.tls]
      · simp [upd_other _ _ _ _ hu, h.tls]
    · intro u
      simp only [mstep, sstep]
      by_cases hu : u = t
      · subst hu; simp [savedOf, h.saved]
      · simp [upd_other _ _ _ _ hu, h.saved]
    · intro u fr hfr
      simp only [sstep] at hfr
      by_cases hu : u = t
      · subst hu
        simp at hfr
        rcases hfr with rfl | hfr
        · simp [NodupKeys]
        · exact h.nodup _ _ hfr
      · rw [upd_other _ _ _ _ hu] at hfr
        exact h.nodup _ _ hfr
  | setKey k v =>
    simp only [mstep, sstep]
    have hs := h.saved t
    cases hst : s.stack t with
    | nil =>
      rw [hst] at hs
      simp only [savedOf] at hs
      simp only [hs]
      exact ⟨h, trivial⟩
    | cons fr rest =>
      rw [hst] at hs
      simp only [savedOf] at hs
      simp only [hs, hasKey_map]
      cases hk : hasKey fr k with
      | true => simp; exact h
      | false =>
        simp only [Bool.false_eq_true, if_false]
        refine ⟨⟨h.inst, ?_, ?_, ?_⟩, trivial⟩
        · intro u k'
          by_cases hu : u = t
          · subst hu
            simp only [upd_same, overlay, lookup_append_single]
            have htls := h.tls u k'
            rw [hst] at htls
            simp only [overlay] at htls
            by_cases hkk : k' = k
            · subst hkk
              simp [lookup_none_of_hasKey_false _ _ hk]
            · rw [upd_other _ _ _ _ hkk, htls]
              have hkk' : ¬ k = k' := fun h => hkk h.symm
              cases lookup fr k' <;> simp [hkk']
          · simp only [upd_other _ _ _ _ hu]; exact h.tls u k'
        · intro u
          by_cases hu : u = t
          · subst hu
            simp only [upd_same, savedOf, List.map_append, List.map_cons, List.map_nil]
            have htls := h.tls u k
            rw [hst] at htls
            simp only [overlay, lookup_none_of_hasKey_false _ _ hk] at htls
            rw [htls]
          · simp only [upd_other _ _ _ _ hu]; exact h.saved u
        · intro u fr' hfr'
          by_cases hu : u = t
          · subst hu
            simp only [upd_same, List.mem_cons] at hfr'
            have hn := h.nodup u
            rw [hst] at hn
            rcases hfr' with rfl | hfr'
            · exact nodup_append_single _ _ _ (hn fr (by simp)) hk
            · exact hn _ (by simp [hfr'])
          · simp only [upd_other _ _ _ _ hu] at hfr'
            exact h.nodup _ _ hfr'
  | restoreKey =>
    simp only [mstep, sstep]
    have hs := h.saved t
    cases hst : s.stack t with
    | nil =>
      rw [hst] at hs
      simp only [savedOf] at hs
      simp only [hs]
      exact ⟨h, trivial⟩
    | cons fr rest =>
      rw [hst] at hs
      cases fr with
      | nil =>
        simp only [savedOf, List.map_nil] at hs
        simp only [hs]
        exact ⟨h, trivial⟩
      | cons p fr =>
        obtain ⟨k, v⟩ := p
        simp only [savedOf, List.map_cons] at hs
        simp only [hs]
        have hn := h.nodup t
        rw [hst] at hn
        have hnk : NodupKeys ((k, v) :: fr) := hn _ (by simp)
        refine ⟨⟨h.inst, ?_, ?_, ?_⟩, trivial⟩
        · intro u k'
          by_cases hu : u = t
          · subst hu
            simp only [upd_same, overlay]
            by_cases hkk : k' = k
            · subst hkk
              simp [lookup_tail_of_nodup _ _ _ hnk]
            · rw [upd_other _ _ _ _ hkk]
              have htls := h.tls u k'
              rw [hst] at htls
              simp only [overlay, lookup] at htls
              have hkk' : ¬ k = k' := fun h => hkk h.symm
              simp only [hkk', if_false] at htls
              exact htls
          · simp only [upd_other _ _ _ _ hu]; exact h.tls u k'
        · intro u
          by_cases hu : u = t
          · subst hu; simp [savedOf]
          · simp only [upd_other _ _ _ _ hu]; exact h.saved u
        · intro u fr' hfr'
          by_cases hu : u = t
          · subst hu
            simp only [upd_same, List.mem_cons] at hfr'
            rcases hfr' with rfl | hfr'
            · simp only [NodupKeys, List.map_cons, List.nodup_cons] at hnk
              exact hnk.2
            · exact hn _ (by simp [hfr'])
          · simp only [upd_other _ _ _ _ hu] at hfr'
            exact h.nodup _ _ hfr'
  | pop =>
    simp only [mstep, sstep]
    have hs := h.saved t
    cases hst : s.stack t with
    | nil =>
      rw [hst] at hs
      simp only [savedOf] at hs
      simp only [hs]
      exact ⟨h, trivial⟩
    | cons fr rest =>
      rw [hst] at hs
      cases fr with
      | cons p fr =>
        simp only [savedOf, List.map_cons] at hs
        simp only [hs]
        exact ⟨h, trivial⟩
      | nil =>
        simp only [savedOf, List.map_nil] at hs
        simp only [hs]
        refine ⟨⟨h.inst, ?_, ?_, ?_⟩, trivial⟩
        · intro u k'
          by_cases hu : u = t
          · subst hu
            have htls := h.tls u k'
            rw [hst] at htls
            simpa [overlay, lookup] using htls
          · simp only [upd_other _ _ _ _ hu]; exact h.tls u k'
        · intro u
          by_cases hu : u = t
          · subst hu; simp
          · simp only [upd_other _ _ _ _ hu]; exact h.saved u
        · intro u fr' hfr'
          by_cases hu : u = t
          · subst hu
            simp only [upd_same] at hfr'
            have hn := h.nodup u
            rw [hst] at hn
            exact hn _ (by simp [hfr'])
          · simp only [upd_other _ _ _ _ hu] at hfr'
            exact h.nodup _ _ hfr'
  | read k =>
    refine ⟨h, ?_⟩
    simp only [mstep, sstep, mread, sread, h.tls, h.inst]
  | assign k v =>
    refine ⟨⟨?_, h.tls, h.saved, h.nodup⟩, rfl⟩
    simp only [mstep, sstep, h.inst]

theorem rel_init (base : Opt → Val) : Rel (MState.init base) (SState.init base) :=
  ⟨rfl, fun _ _ => rfl, fun _ => rfl, fun _ _ h => by simp [SState.init] at h⟩

theorem run_refines (h : History) : ∀ (m : MState) (s : SState), Rel m s →
    Rel (mrun m h).1 (srun s h).1 ∧ (mrun m h).2 = (srun s h).2 := by
  induction h with
  | nil => intro m s r; exact ⟨r, rfl⟩
  | cons e h ih =>
    intro m s r
    have hs := step_refines m s e r
    have := ih _ _ hs.1
    simp only [mrun, srun]
    exact ⟨this.1, by rw [hs.2, this.2]⟩

end Zeep.Settings
