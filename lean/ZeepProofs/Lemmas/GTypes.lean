import ZeepModel.Lex.GTypes
import ZeepProofs.Lemmas.Digits
namespace Zeep.GTypes
open Zeep.Digits

theorem cd (d : Nat) (h : d < 10) : charDigit (digitChar d) = some d := charDigit_digitChar d h

theorem parseTwo_two (n : Nat) (h : n < 100) (rest : List Char) : parseTwo (two n ++ rest) = some (n, rest) := by
  simp only [two, List.cons_append, List.nil_append, parseTwo, cd (n / 10 % 10) (by omega), cd (n % 10) (by omega)]
  congr 2; omega

theorem digitChar_ne (d : Nat) (h : d < 10) : digitChar d ≠ ':' ∧ digitChar d ≠ 'Z' := by
  have : ∀ d, d < 10 → digitChar d ≠ ':' ∧ digitChar d ≠ 'Z' := by decide
  exact this d h

/-- timezone round trip: every offset of less than 100 hours -/
theorem tz_rt (tz : Tz) (h : ∀ m, tz = some m → m.natAbs < 6000) : parseTz (unparseTz tz) = some tz := by
  cases tz with
  | none => rfl
  | some m =>
    have hm := h m rfl
    have hz := Int.natAbs_eq m
    simp only [unparseTz]
    split
    · rename_i h0; subst h0; rfl
    · rename_i h0
      have ha : m.natAbs / 60 < 100 := by omega
      have hb : m.natAbs % 60 < 100 := by omega
      simp only [two, List.cons_append, List.nil_append, parseTz, parseTz.tz4,
        cd (m.natAbs / 60 / 10 % 10) (by omega), cd (m.natAbs / 60 % 10) (by omega),
        cd (m.natAbs % 60 / 10 % 10) (by omega), cd (m.natAbs % 60 % 10) (by omega)]
      have e : (m.natAbs / 60 / 10 % 10 * 10 + m.natAbs / 60 % 10) * 60 +
          (m.natAbs % 60 / 10 % 10 * 10 + m.natAbs % 60 % 10) = m.natAbs := by omega
      rw [e]
      by_cases hneg : m < 0
      · have : ('-' : Char) ≠ '+' := by decide
        simp only [hneg, if_true, this, if_false]
        congr 2; omega
      · simp only [hneg, if_false, if_true]
        congr 2; omega

theorem spanDigits_append (ds rest : List Char) (hd : ∀ c ∈ ds, isDigit c = true)
    (hr : ∀ c, rest.head? = some c → isDigit c = false) : spanDigits (ds ++ rest) = (ds, rest) := by
  induction ds with
  | nil =>
    cases rest with
    | nil => rfl
    | cons c cs => simp [spanDigits, hr c rfl]
  | cons d ds ih =>
    simp only [List.cons_append, spanDigits, hd d (by simp), if_true]
    rw [ih (fun c hc => hd c (by simp [hc]))]

theorem unparseTz_head (tz : Tz) : ∀ c, (unparseTz tz).head? = some c → isDigit c = false := by
  intro c hc
  cases tz with
  | none => simp [unparseTz] at hc
  | some m =>
    simp only [unparseTz] at hc
    split at hc
    · simp at hc; subst hc; decide
    · simp only [List.head?_cons, Option.some.injEq] at hc
      subst hc; split <;> decide

/-- year prefix: `parseYear (unparseYear y ++ rest) = (y, rest)` when `rest` does not start with a digit -/
theorem parseYear_unparse (y : Int) (rest : List Char)
    (hr : ∀ c, rest.head? = some c → isDigit c = false) :
    parseYear (unparseYear y ++ rest) = some (y, rest) := by
  have hz := Int.natAbs_eq y
  have hpd := pad_all_digit 4 y.natAbs
  have hlen := pad_length 4 y.natAbs
  unfold unparseYear parseYear
  by_cases hneg : y < 0
  · simp only [hneg, if_true, List.cons_append, List.nil_append, stripMinus]
    rw [spanDigits_append _ _ hpd hr]
    have : ¬ (pad 4 y.natAbs).length < 4 := by omega
    have hy : -(y.natAbs : Int) = y := by omega
    simp [this, readNat_pad, hy]
  · simp only [hneg, if_false, List.nil_append]
    have hne : pad 4 y.natAbs ≠ [] := by intro e; rw [e] at hlen; simp at hlen
    have hstrip : stripMinus (pad 4 y.natAbs ++ rest) = (false, pad 4 y.natAbs ++ rest) := by
      cases hp : pad 4 y.natAbs with
      | nil => exact absurd hp hne
      | cons c cs =>
        have hc : isDigit c = true := hpd c (by simp [hp])
        have hc' : c ≠ '-' := by intro e; subst e; revert hc; decide
        simp only [List.cons_append]
        unfold stripMinus
        split
        · rename_i heq; cases heq; exact absurd rfl hc'
        · rfl
    rw [hstrip]
    simp only []
    rw [spanDigits_append _ _ hpd hr]
    have : ¬ (pad 4 y.natAbs).length < 4 := by omega
    have hy : (y.natAbs : Int) = y := by omega
    simp [this, readNat_pad, hy]

end Zeep.GTypes
