import ZeepProofs.Lemmas.ParseShrink
/-!
Accounting for the deque: for every wildcard-free content model built from element declarations,
sequences, choices and groups — any nesting, any occurrence bounds — whatever `parse_xmlelements`
removes from the deque is a *prefix*, and every node of that prefix was decoded, successfully, by an
element declaration of the content model that carries the node's local name.  Nothing else leaves
the deque.  (`xsd:all`, which filters instead of taking a prefix, is accounted for separately at
the top of a content model, where XSD allows it.)
-/
namespace Zeep.Xsd
open Zeep

mutual
/-- the element declarations of a content model (this level: not descending into element types) -/
def levelElems : Particle → List (QName × Ty)
  | .elem q _ _ ty => [(q, ty)]
  | .any _ _ => []
  | .seq ps _ _ => levelElemsL ps
  | .choice ps _ _ => levelElemsL ps
  | .all ps _ => levelElemsL ps
  | .group p _ _ => levelElems p
def levelElemsL : List Particle → List (QName × Ty)
  | [] => []
  | p :: ps => levelElems p ++ levelElemsL ps
end

mutual
/-- no wildcard and no `xsd:all` inside -/
def Regular : Particle → Bool
  | .elem .. => true
  | .any .. => false
  | .seq ps _ _ => RegularL ps
  | .choice ps _ _ => RegularL ps
  | .all .. => false
  | .group p _ _ => Regular p
def RegularL : List Particle → Bool
  | [] => true
  | p :: ps => Regular p && RegularL ps
end

/-- `y` was decoded successfully, with a step budget below `G`, by one of the declarations `es`
carrying its local name -/
def DecodedBy (m : Mode) (G : Nat) (es : List (QName × Ty)) (y : Node) : Prop :=
  ∃ q ty g a r, g < G ∧ (q, ty) ∈ es ∧ y.tag.name = q.name ∧ parseNode g m a ty y = .ok r

theorem DecodedBy.mono {m : Mode} {G : Nat} {es es' : List (QName × Ty)} {y : Node} (h : DecodedBy m G es y)
    (hs : ∀ e ∈ es, e ∈ es') : DecodedBy m G es' y := by
  obtain ⟨q, ty, g, a, r, hg, hm, hn, hp⟩ := h
  exact ⟨q, ty, g, a, r, hg, hs _ hm, hn, hp⟩

theorem DecodedBy.lift {m : Mode} {G G' : Nat} {es : List (QName × Ty)} {y : Node} (h : DecodedBy m G es y)
    (hG : G ≤ G') : DecodedBy m G' es y := by
  obtain ⟨q, ty, g, a, r, hg, hm, hn, hp⟩ := h
  exact ⟨q, ty, g, a, r, Nat.lt_of_lt_of_le hg hG, hm, hn, hp⟩

/-- `xs` = a prefix decoded by declarations of `es`, followed by `rest` -/
def Taken (m : Mode) (G : Nat) (es : List (QName × Ty)) (xs rest : List Node) : Prop :=
  ∃ taken, xs = taken ++ rest ∧ ∀ y ∈ taken, DecodedBy m G es y

theorem Taken.refl (m : Mode) (G : Nat) (es : List (QName × Ty)) (xs : List Node) : Taken m G es xs xs :=
  ⟨[], rfl, by simp⟩

theorem Taken.mono {m : Mode} {G : Nat} {es es' : List (QName × Ty)} {xs rest : List Node} (h : Taken m G es xs rest)
    (hs : ∀ e ∈ es, e ∈ es') : Taken m G es' xs rest := by
  obtain ⟨t, ht, hall⟩ := h
  exact ⟨t, ht, fun y hy => (hall y hy).mono hs⟩

theorem Taken.lift {m : Mode} {G G' : Nat} {es : List (QName × Ty)} {xs rest : List Node} (h : Taken m G es xs rest)
    (hG : G ≤ G') : Taken m G' es xs rest := by
  obtain ⟨t, ht, hall⟩ := h
  exact ⟨t, ht, fun y hy => (hall y hy).lift hG⟩

theorem Taken.trans {m : Mode} {G : Nat} {es : List (QName × Ty)} {xs mid rest : List Node}
    (h1 : Taken m G es xs mid) (h2 : Taken m G es mid rest) : Taken m G es xs rest := by
  obtain ⟨t1, ht1, hall1⟩ := h1
  obtain ⟨t2, ht2, hall2⟩ := h2
  refine ⟨t1 ++ t2, by rw [ht1, ht2, List.append_assoc], ?_⟩
  intro y hy
  simp only [List.mem_append] at hy
  rcases hy with hy | hy
  · exact hall1 y hy
  · exact hall2 y hy

theorem Taken.drop {m : Mode} {G : Nat} {es : List (QName × Ty)} {xs rest : List Node} (h : Taken m G es xs rest) :
    xs.drop (xs.length - rest.length) = rest := by
  obtain ⟨t, ht, _⟩ := h
  subst ht
  simp

theorem mem_left {α : Type} {a b : List α} : ∀ e ∈ a, e ∈ a ++ b := fun _ h => List.mem_append_left _ h
theorem mem_right {α : Type} {a b : List α} : ∀ e ∈ b, e ∈ a ++ b := fun _ h => List.mem_append_right _ h

/-- the element loop takes a prefix, every node of it decoded by this very declaration -/
theorem acct_elemLoop (gas : Nat) (m : Mode) (q : QName) (min : Nat) (ty : Ty) (n k : Nat)
    (xs : List Node) (r : Out (List Item)) (h : elemLoop gas m q min ty n k xs = .ok r) :
    Taken m gas [(q, ty)] xs r.rest := by
  induction gas generalizing n k xs r with
  | zero => simp [elemLoop] at h
  | succ gas ih =>
    cases n with
    | zero => simp only [elemLoop, pure_eq_ok] at h; subst h; exact Taken.refl ..
    | succ n =>
      cases xs with
      | nil => simp only [elemLoop, pure_eq_ok] at h; subst h; exact Taken.refl ..
      | cons x xs =>
        simp only [elemLoop] at h
        split at h
        · simp only [pure_eq_ok] at h; subst h; exact Taken.refl ..
        · split at h
          · rename_i hname
            obtain ⟨it, hit, h⟩ := bind_ok _ _ _ h
            obtain ⟨r', hr', h⟩ := bind_ok _ _ _ h
            simp only [pure_eq_ok] at h; subst h
            obtain ⟨taken, ht, hall⟩ := ih n (k + 1) xs r' hr'
            refine ⟨x :: taken, by simp [ht], ?_⟩
            intro y hy
            simp only [List.mem_cons] at hy
            rcases hy with rfl | hy
            · exact ⟨q, ty, gas, true, it, Nat.lt_succ_self gas, by simp, by simpa using hname, hit⟩
            · exact (hall y hy).lift (Nat.le_succ gas)
          · split at h
            · cases h
            · simp only [pure_eq_ok] at h; subst h; exact Taken.refl ..

theorem acct_parseP_elem (gas : Nat) (m : Mode) (q : QName) (min : Nat) (max : Occ) (ty : Ty)
    (xs : List Node) (r : Out Inst) (h : parseP gas m (.elem q min max ty) xs = .ok r) :
    Taken m gas [(q, ty)] xs r.rest := by
  cases gas with
  | zero => simp [parseP] at h
  | succ gas =>
    simp only [parseP] at h
    obtain ⟨r', hr', h⟩ := bind_ok _ _ _ h
    simp only [pure_eq_ok] at h; subst h
    exact (acct_elemLoop gas m q min ty _ _ xs r' hr').lift (Nat.le_succ gas)

/-- the statements proved together by induction on gas -/
structure Acct (gas : Nat) : Prop where
  parseP : ∀ m p xs r, Regular p = true → parseP gas m p xs = .ok r → Taken m gas (levelElems p) xs r.rest
  seqLoop : ∀ m ps min n d xs r, RegularL ps = true → seqLoop gas m ps min n d xs = .ok r →
      Taken m gas (levelElemsL ps) xs r.rest
  seqRound : ∀ m ps e sl xs r, RegularL ps = true → seqRound gas m ps e sl xs = .ok r →
      Taken m gas (levelElemsL ps) xs r.rest
  choiceLoop : ∀ m ps n xs r, RegularL ps = true → choiceLoop gas m ps n xs = .ok r →
      Taken m gas (levelElemsL ps) xs r.rest
  choiceOptions : ∀ m ps i xs r, RegularL ps = true → choiceOptions gas m ps i xs = .ok r →
      ∀ j inst c, r.val = some (j, inst, c) → Taken m gas (levelElemsL ps) xs (xs.drop c)
  groupLoop : ∀ m p n xs r, Regular p = true → groupLoop gas m p n xs = .ok r →
      Taken m gas (levelElems p) xs r.rest

theorem acct_zero : Acct 0 := by
  constructor <;> intros <;> simp_all [parseP, seqLoop, seqRound, choiceLoop, choiceOptions, groupLoop]

theorem acct_step_seqRound (gas : Nat) (ih : Acct gas) :
    ∀ m ps e sl xs r, RegularL ps = true → seqRound (gas + 1) m ps e sl xs = .ok r →
      Taken m (gas + 1) (levelElemsL ps) xs r.rest := by
  intro m ps e sl xs r hreg h
  cases ps with
  | nil => simp only [seqRound, pure_eq_ok] at h; subst h; exact Taken.refl ..
  | cons p ps =>
    simp only [RegularL, Bool.and_eq_true] at hreg
    simp only [seqRound] at h
    split at h
    · split at h
      · simp only [pure_eq_ok] at h; subst h; exact Taken.refl ..
      · split at h
        · cases h
        · split at h
          · simp only [pure_eq_ok] at h; subst h; exact Taken.refl ..
          · obtain ⟨r', hr', h⟩ := bind_ok _ _ _ h
            simp only [pure_eq_ok] at h; subst h
            exact ((ih.seqRound _ _ _ _ _ r' hreg.2 hr').lift (Nat.le_succ gas)).mono mem_right
    · cases h
    · rename_i r0 hr0
      have h0 := ((ih.parseP _ _ _ _ hreg.1 hr0).lift (Nat.le_succ gas)).mono (es' := levelElemsL (p :: ps)) mem_left
      split at h
      · rename_i hemp
        simp only [pure_eq_ok] at h; subst h
        simpa [List.isEmpty_iff.mp hemp] using h0
      · obtain ⟨more, hm, h⟩ := bind_ok _ _ _ h
        simp only [pure_eq_ok] at h; subst h
        exact h0.trans (((ih.seqRound _ _ _ _ _ more hreg.2 hm).lift (Nat.le_succ gas)).mono mem_right)

theorem acct_step_seqLoop (gas : Nat) (ih : Acct gas) :
    ∀ m ps min n d xs r, RegularL ps = true → seqLoop (gas + 1) m ps min n d xs = .ok r →
      Taken m (gas + 1) (levelElemsL ps) xs r.rest := by
  intro m ps min n d xs r hreg h
  cases n with
  | zero => simp only [seqLoop, pure_eq_ok] at h; subst h; exact Taken.refl ..
  | succ n =>
    cases xs with
    | nil => simp only [seqLoop, pure_eq_ok] at h; subst h; exact Taken.refl ..
    | cons x xs =>
      simp only [seqLoop] at h
      obtain ⟨r0, hr0, h⟩ := bind_ok _ _ _ h
      have h0 := (ih.seqRound _ _ _ _ _ _ hreg hr0).lift (Nat.le_succ gas)
      split at h
      · simp only [pure_eq_ok] at h; subst h; exact Taken.refl ..
      · split at h
        · simp only [pure_eq_ok] at h; subst h; exact h0
        · obtain ⟨more, hm, h⟩ := bind_ok _ _ _ h
          simp only [pure_eq_ok] at h; subst h
          exact h0.trans ((ih.seqLoop _ _ _ _ _ _ more hreg hm).lift (Nat.le_succ gas))

theorem acct_step_choiceOptions (gas : Nat) (ih : Acct gas) :
    ∀ m ps i xs r, RegularL ps = true → choiceOptions (gas + 1) m ps i xs = .ok r →
      ∀ j inst c, r.val = some (j, inst, c) → Taken m (gas + 1) (levelElemsL ps) xs (xs.drop c) := by
  intro m ps i xs r hreg h
  cases ps with
  | nil => simp only [choiceOptions, pure_eq_ok] at h; subst h; intro j inst c hc; cases hc
  | cons p ps =>
    simp only [RegularL, Bool.and_eq_true] at hreg
    simp only [choiceOptions] at h
    split at h
    · obtain ⟨r', hr', h⟩ := bind_ok _ _ _ h
      simp only [pure_eq_ok] at h; subst h
      intro j inst c hc
      exact ((ih.choiceOptions _ _ _ _ _ hreg.2 hr' j inst c hc).lift (Nat.le_succ gas)).mono mem_right
    · cases h
    · rename_i r0 hr0
      obtain ⟨others, ho, h⟩ := bind_ok _ _ _ h
      simp only [pure_eq_ok] at h; subst h
      have h0 := ((ih.parseP _ _ _ _ hreg.1 hr0).lift (Nat.le_succ gas)).mono (es' := levelElemsL (p :: ps)) mem_left
      have hmine : Taken m (gas + 1) (levelElemsL (p :: ps)) xs (xs.drop (xs.length - r0.rest.length)) := by
        rw [h0.drop]; exact h0
      have hoth := fun j inst c hc => (ih.choiceOptions _ _ _ _ _ hreg.2 ho j inst c hc).lift (Nat.le_succ gas)
      intro j inst c hc
      simp only at hc
      split at hc
      · rename_i j' inst' c' hov
        split at hc
        · simp only [Option.some.injEq, Prod.mk.injEq] at hc
          obtain ⟨_, _, rfl⟩ := hc
          exact hmine
        · simp only [Option.some.injEq, Prod.mk.injEq] at hc
          obtain ⟨rfl, rfl, rfl⟩ := hc
          exact (hoth _ _ _ hov).mono mem_right
      · split at hc
        · simp only [Option.some.injEq, Prod.mk.injEq] at hc
          obtain ⟨_, _, rfl⟩ := hc
          exact hmine
        · cases hc

theorem acct_step_choiceLoop (gas : Nat) (ih : Acct gas) :
    ∀ m ps n xs r, RegularL ps = true → choiceLoop (gas + 1) m ps n xs = .ok r →
      Taken m (gas + 1) (levelElemsL ps) xs r.rest := by
  intro m ps n xs r hreg h
  cases n with
  | zero => simp only [choiceLoop, pure_eq_ok] at h; subst h; exact Taken.refl ..
  | succ n =>
    cases xs with
    | nil => simp only [choiceLoop, pure_eq_ok] at h; subst h; exact Taken.refl ..
    | cons x xs =>
      simp only [choiceLoop] at h
      obtain ⟨opts, ho, h⟩ := bind_ok _ _ _ h
      have hopt := fun j inst c hc => (ih.choiceOptions _ _ _ _ _ hreg ho j inst c hc).lift (Nat.le_succ gas)
      split at h
      · simp only [pure_eq_ok] at h; subst h; exact Taken.refl ..
      · rename_i i inst c hv
        obtain ⟨more, hm, h⟩ := bind_ok _ _ _ h
        simp only [pure_eq_ok] at h; subst h
        exact (hopt _ _ _ hv).trans ((ih.choiceLoop _ _ _ _ more hreg hm).lift (Nat.le_succ gas))

theorem acct_step_groupLoop (gas : Nat) (ih : Acct gas) :
    ∀ m p n xs r, Regular p = true → groupLoop (gas + 1) m p n xs = .ok r →
      Taken m (gas + 1) (levelElems p) xs r.rest := by
  intro m p n xs r hreg h
  cases n with
  | zero => simp only [groupLoop, pure_eq_ok] at h; subst h; exact Taken.refl ..
  | succ n =>
    simp only [groupLoop] at h
    obtain ⟨r0, hr0, h⟩ := bind_ok _ _ _ h
    have h0 := (ih.parseP _ _ _ _ hreg hr0).lift (Nat.le_succ gas)
    split at h
    · simp only [pure_eq_ok] at h; subst h; exact h0
    · obtain ⟨more, hm, h⟩ := bind_ok _ _ _ h
      simp only [pure_eq_ok] at h; subst h
      exact h0.trans ((ih.groupLoop _ _ _ _ more hreg hm).lift (Nat.le_succ gas))

theorem acct_step_parseP (gas : Nat) (ih : Acct gas) :
    ∀ m p xs r, Regular p = true → parseP (gas + 1) m p xs = .ok r → Taken m (gas + 1) (levelElems p) xs r.rest := by
  intro m p xs r hreg h
  cases p with
  | elem q min max ty => simpa [levelElems] using acct_parseP_elem (gas + 1) m q min max ty xs r h
  | any min max => simp [Regular] at hreg
  | seq ps min max =>
    simp only [parseP] at h
    obtain ⟨r', hr', h⟩ := bind_ok _ _ _ h
    simp only [pure_eq_ok] at h; subst h
    simpa [levelElems] using (ih.seqLoop _ _ _ _ _ _ _ (by simpa [Regular] using hreg) hr').lift (Nat.le_succ gas)
  | choice ps min max =>
    simp only [parseP] at h
    obtain ⟨r', hr', h⟩ := bind_ok _ _ _ h
    simp only [pure_eq_ok] at h; subst h
    simpa [levelElems] using (ih.choiceLoop _ _ _ _ _ (by simpa [Regular] using hreg) hr').lift (Nat.le_succ gas)
  | all ps co => simp [Regular] at hreg
  | group p min max =>
    simp only [parseP] at h
    obtain ⟨r', hr', h⟩ := bind_ok _ _ _ h
    simp only [pure_eq_ok] at h; subst h
    simpa [levelElems] using (ih.groupLoop _ _ _ _ _ (by simpa [Regular] using hreg) hr').lift (Nat.le_succ gas)

/-- **Accounting**, every gas: what a wildcard-free content model removes from the deque is a prefix
whose every node was decoded by a declaration of the model carrying the node's local name. -/
theorem acct : ∀ gas, Acct gas := by
  intro gas
  induction gas with
  | zero => exact acct_zero
  | succ gas ih =>
    exact ⟨acct_step_parseP gas ih, acct_step_seqLoop gas ih, acct_step_seqRound gas ih, acct_step_choiceLoop gas ih,
      acct_step_choiceOptions gas ih, acct_step_groupLoop gas ih⟩

/-! ### `xsd:all` -/

/-- members of an `xsd:all`: every node of the pool is decoded by a member or still in the queues -/
theorem acct_allMembers (m : Mode) (ps : List Particle) : ∀ (gas : Nat) (pool : List Node) (r : Out (List Inst)),
    allMembers gas m ps pool = .ok r → ∀ s ∈ pool, s ∈ r.rest ∨ DecodedBy m gas (levelElemsL ps) s := by
  induction ps with
  | nil =>
    intro gas pool r h s hs
    cases gas with
    | zero => simp [allMembers] at h
    | succ gas => simp only [allMembers, pure_eq_ok] at h; subst h; exact Or.inl hs
  | cons p ps ihp =>
    intro gas pool r h s hs
    cases gas with
    | zero => simp [allMembers] at h
    | succ gas =>
      cases p
      case elem q mn mx ty =>
        simp only [allMembers] at h
        split at h
        · obtain ⟨r', hr', h⟩ := bind_ok _ _ _ h
          simp only [pure_eq_ok] at h; subst h
          rcases ihp gas pool r' hr' s hs with h1 | h1
          · exact Or.inl h1
          · exact Or.inr ((h1.lift (Nat.le_succ gas)).mono mem_right)
        · obtain ⟨mine, hmine, h⟩ := bind_ok _ _ _ h
          obtain ⟨r', hr', h⟩ := bind_ok _ _ _ h
          simp only [pure_eq_ok] at h; subst h
          obtain ⟨taken, ht, hall⟩ := acct_parseP_elem gas m q mn mx ty _ mine hmine
          have hnext : ∀ s', s' ∈ (pool.filter fun x => !(x.tag == q)) ++ mine.rest →
              s' ∈ r'.rest ∨ DecodedBy m (gas + 1) (levelElemsL (Particle.elem q mn mx ty :: ps)) s' := by
            intro s' hs'
            rcases ihp gas _ r' hr' s' hs' with h1 | h1
            · exact Or.inl h1
            · exact Or.inr ((h1.lift (Nat.le_succ gas)).mono mem_right)
          by_cases hq : (s.tag == q) = true
          · have hsub : s ∈ pool.filter fun x => x.tag == q := List.mem_filter.mpr ⟨hs, hq⟩
            rw [ht] at hsub
            rcases List.mem_append.mp hsub with h1 | h1
            · exact Or.inr (((hall s h1).lift (Nat.le_succ gas)).mono (by intro e he; simp only [levelElemsL, levelElems]; exact List.mem_append_left _ he))
            · exact hnext s (List.mem_append_right _ h1)
          · exact hnext s (List.mem_append_left _ (List.mem_filter.mpr ⟨hs, by simpa using hq⟩))
      all_goals
        simp only [allMembers] at h
        obtain ⟨r', hr', h⟩ := bind_ok _ _ _ h
        simp only [pure_eq_ok] at h; subst h
        rcases ihp gas pool r' hr' s hs with h1 | h1
        · exact Or.inl h1
        · exact Or.inr ((h1.lift (Nat.le_succ gas)).mono mem_right)

/-- raw nodes an instance hands to the caller at this level -/
def rawOfInst : Inst → List Node
  | .allR _ other => other
  | _ => []

/-- `xsd:all`: every node of the deque is decoded by a member, or handed back (rest), or kept raw
(`consume_other`, SOAP headers) — none is dropped -/
theorem acct_parseP_all (gas : Nat) (m : Mode) (ps : List Particle) (co : Bool) (xs : List Node) (r : Out Inst)
    (h : parseP gas m (.all ps co) xs = .ok r) :
    ∀ s ∈ xs, (if co then s ∈ rawOfInst r.val else s ∈ r.rest) ∨ DecodedBy m gas (levelElemsL ps) s := by
  intro s hs
  cases gas with
  | zero => simp [parseP] at h
  | succ gas =>
    simp only [parseP] at h
    obtain ⟨r', hr', h⟩ := bind_ok _ _ _ h
    have hback : s ∈ (xs.filter fun x => !((memberTags ps).contains x.tag)) ++
        byTag (tagsInOrder (xs.filter fun x => (memberTags ps).contains x.tag) []) r'.rest ∨ DecodedBy m (gas + 1) (levelElemsL ps) s := by
      by_cases ht : (memberTags ps).contains s.tag = true
      · have hmine : s ∈ xs.filter fun x => (memberTags ps).contains x.tag := List.mem_filter.mpr ⟨hs, ht⟩
        rcases acct_allMembers m ps gas _ r' hr' s hmine with h1 | h1
        · left
          refine List.mem_append_right _ (mem_byTag _ _ s h1 ?_)
          rcases (tagsInOrder_spec _ []).2.2 s hmine with h2 | h2
          · simp at h2
          · exact h2
        · exact Or.inr (h1.lift (Nat.le_succ gas))
      · left
        exact List.mem_append_left _ (List.mem_filter.mpr ⟨hs, by simpa using ht⟩)
    split at h
    · rename_i hco
      simp only [pure_eq_ok] at h; subst h
      simpa [hco, rawOfInst] using hback
    · rename_i hco
      simp only [pure_eq_ok] at h; subst h
      have : co = false := by simpa using hco
      simpa [this] using hback

end Zeep.Xsd
