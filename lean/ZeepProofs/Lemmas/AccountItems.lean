import ZeepProofs.Lemmas.Account
/-!
The accounting invariant of `Account.lean`, refined: every node a wildcard-free content model
removes from the deque was decoded into an item that *is part of the returned instance*
(`itemsOf`).  This ties the nodes of the document to places in the decoded value, which the
non-strict half of C07 needs at depth: what a nested element kept as raw XML is reachable from the
value the caller receives.
-/
namespace Zeep.Xsd
open Zeep

mutual
/-- the items an instance holds at this level (not descending into the items' own content) -/
def itemsOf : Inst → List Item
  | .elems items => items
  | .wild _ => []
  | .seqR rounds => itemsOfRounds rounds
  | .choiceR rounds => itemsOfChoice rounds
  | .allR ms _ => itemsOfList ms
  | .groupR rounds => itemsOfList rounds
  | .failed => []
def itemsOfList : List Inst → List Item
  | [] => []
  | i :: is => itemsOf i ++ itemsOfList is
def itemsOfRounds : List (List Inst) → List Item
  | [] => []
  | r :: rs => itemsOfList r ++ itemsOfRounds rs
def itemsOfChoice : List (Nat × Inst) → List Item
  | [] => []
  | (_, i) :: rs => itemsOf i ++ itemsOfChoice rs
end

/-- `y` was decoded by a declaration of `es` carrying its local name, into one of the items `its` -/
def DecodedAs (m : Mode) (es : List (QName × Ty)) (its : List Item) (y : Node) : Prop :=
  ∃ q ty g a r, (q, ty) ∈ es ∧ y.tag.name = q.name ∧ parseNode g m a ty y = .ok r ∧ r.val ∈ its

theorem DecodedAs.mono {m : Mode} {es es' : List (QName × Ty)} {its its' : List Item} {y : Node} (h : DecodedAs m es its y)
    (hs : ∀ e ∈ es, e ∈ es') (hi : ∀ i ∈ its, i ∈ its') : DecodedAs m es' its' y := by
  obtain ⟨q, ty, g, a, r, hm, hn, hp, hv⟩ := h
  exact ⟨q, ty, g, a, r, hs _ hm, hn, hp, hi _ hv⟩

def TakenI (m : Mode) (es : List (QName × Ty)) (its : List Item) (xs rest : List Node) : Prop :=
  ∃ taken, xs = taken ++ rest ∧ ∀ y ∈ taken, DecodedAs m es its y

theorem TakenI.refl (m : Mode) (es : List (QName × Ty)) (its : List Item) (xs : List Node) : TakenI m es its xs xs :=
  ⟨[], rfl, by simp⟩

theorem TakenI.mono {m : Mode} {es es' : List (QName × Ty)} {its its' : List Item} {xs rest : List Node}
    (h : TakenI m es its xs rest) (hs : ∀ e ∈ es, e ∈ es') (hi : ∀ i ∈ its, i ∈ its') : TakenI m es' its' xs rest := by
  obtain ⟨t, ht, hall⟩ := h
  exact ⟨t, ht, fun y hy => (hall y hy).mono hs hi⟩

theorem TakenI.trans {m : Mode} {es : List (QName × Ty)} {its : List Item} {xs mid rest : List Node}
    (h1 : TakenI m es its xs mid) (h2 : TakenI m es its mid rest) : TakenI m es its xs rest := by
  obtain ⟨t1, ht1, hall1⟩ := h1
  obtain ⟨t2, ht2, hall2⟩ := h2
  refine ⟨t1 ++ t2, by rw [ht1, ht2, List.append_assoc], ?_⟩
  intro y hy
  simp only [List.mem_append] at hy
  rcases hy with hy | hy
  · exact hall1 y hy
  · exact hall2 y hy

theorem TakenI.drop {m : Mode} {es : List (QName × Ty)} {its : List Item} {xs rest : List Node} (h : TakenI m es its xs rest) :
    xs.drop (xs.length - rest.length) = rest := by
  obtain ⟨t, ht, _⟩ := h
  subst ht
  simp

theorem id_sub {α : Type} {a : List α} : ∀ e ∈ a, e ∈ a := fun _ h => h

theorem accti_elemLoop (gas : Nat) (m : Mode) (q : QName) (min : Nat) (ty : Ty) (n k : Nat)
    (xs : List Node) (r : Out (List Item)) (h : elemLoop gas m q min ty n k xs = .ok r) :
    TakenI m [(q, ty)] r.val xs r.rest := by
  induction gas generalizing n k xs r with
  | zero => simp [elemLoop] at h
  | succ gas ih =>
    cases n with
    | zero => simp only [elemLoop, pure_eq_ok] at h; subst h; exact TakenI.refl ..
    | succ n =>
      cases xs with
      | nil => simp only [elemLoop, pure_eq_ok] at h; subst h; exact TakenI.refl ..
      | cons x xs =>
        simp only [elemLoop] at h
        split at h
        · simp only [pure_eq_ok] at h; subst h; exact TakenI.refl ..
        · split at h
          · rename_i hname
            obtain ⟨it, hit, h⟩ := bind_ok _ _ _ h
            obtain ⟨r', hr', h⟩ := bind_ok _ _ _ h
            simp only [pure_eq_ok] at h; subst h
            obtain ⟨taken, ht, hall⟩ := ih n (k + 1) xs r' hr'
            refine ⟨x :: taken, by simp [ht], ?_⟩
            intro y hy
            simp only [List.mem_cons] at hy
            rcases hy with rfl | hy
            · exact ⟨q, ty, gas, true, it, by simp, by simpa using hname, hit, by simp⟩
            · exact (hall y hy).mono id_sub (fun i hi => List.mem_cons_of_mem _ hi)
          · split at h
            · cases h
            · simp only [pure_eq_ok] at h; subst h; exact TakenI.refl ..

theorem accti_parseP_elem (gas : Nat) (m : Mode) (q : QName) (min : Nat) (max : Occ) (ty : Ty)
    (xs : List Node) (r : Out Inst) (h : parseP gas m (.elem q min max ty) xs = .ok r) :
    TakenI m [(q, ty)] (itemsOf r.val) xs r.rest := by
  cases gas with
  | zero => simp [parseP] at h
  | succ gas =>
    simp only [parseP] at h
    obtain ⟨r', hr', h⟩ := bind_ok _ _ _ h
    simp only [pure_eq_ok] at h; subst h
    simpa [itemsOf] using accti_elemLoop gas m q min ty _ _ xs r' hr'

structure AcctI (gas : Nat) : Prop where
  parseP : ∀ m p xs r, Regular p = true → parseP gas m p xs = .ok r → TakenI m (levelElems p) (itemsOf r.val) xs r.rest
  seqLoop : ∀ m ps min n d xs r, RegularL ps = true → seqLoop gas m ps min n d xs = .ok r →
      TakenI m (levelElemsL ps) (itemsOfRounds r.val) xs r.rest
  seqRound : ∀ m ps e sl xs r, RegularL ps = true → seqRound gas m ps e sl xs = .ok r →
      ∀ insts, r.val = some insts → TakenI m (levelElemsL ps) (itemsOfList insts) xs r.rest
  choiceLoop : ∀ m ps n xs r, RegularL ps = true → choiceLoop gas m ps n xs = .ok r →
      TakenI m (levelElemsL ps) (itemsOfChoice r.val) xs r.rest
  choiceOptions : ∀ m ps i xs r, RegularL ps = true → choiceOptions gas m ps i xs = .ok r →
      ∀ j inst c, r.val = some (j, inst, c) → TakenI m (levelElemsL ps) (itemsOf inst) xs (xs.drop c)
  groupLoop : ∀ m p n xs r, Regular p = true → groupLoop gas m p n xs = .ok r →
      TakenI m (levelElems p) (itemsOfList r.val) xs r.rest

theorem accti_zero : AcctI 0 := by
  constructor <;> intros <;> simp_all [parseP, seqLoop, seqRound, choiceLoop, choiceOptions, groupLoop]

theorem mem_app_left {α : Type} {a b : List α} : ∀ e ∈ a, e ∈ a ++ b := fun _ h => List.mem_append_left _ h
theorem mem_app_right {α : Type} {a b : List α} : ∀ e ∈ b, e ∈ a ++ b := fun _ h => List.mem_append_right _ h

theorem accti_step_seqRound (gas : Nat) (ih : AcctI gas) :
    ∀ m ps e sl xs r, RegularL ps = true → seqRound (gas + 1) m ps e sl xs = .ok r →
      ∀ insts, r.val = some insts → TakenI m (levelElemsL ps) (itemsOfList insts) xs r.rest := by
  intro m ps e sl xs r hreg h insts hv
  cases ps with
  | nil => simp only [seqRound, pure_eq_ok] at h; subst h; exact TakenI.refl ..
  | cons p ps =>
    simp only [RegularL, Bool.and_eq_true] at hreg
    simp only [seqRound] at h
    split at h
    · split at h
      · simp only [pure_eq_ok] at h; subst h; cases hv
      · split at h
        · cases h
        · split at h
          · simp only [pure_eq_ok] at h; subst h; exact TakenI.refl ..
          · obtain ⟨r', hr', h⟩ := bind_ok _ _ _ h
            simp only [pure_eq_ok] at h; subst h
            simp only [Option.map_eq_some_iff] at hv
            obtain ⟨l, hl, rfl⟩ := hv
            exact (ih.seqRound _ _ _ _ _ r' hreg.2 hr' l hl).mono mem_app_right (by simp [itemsOfList, itemsOf])
    · cases h
    · rename_i r0 hr0
      have h0 := ih.parseP _ _ _ _ hreg.1 hr0
      split at h
      · rename_i hemp
        simp only [pure_eq_ok] at h; subst h
        simp only [Option.some.injEq] at hv
        subst hv
        have := h0.mono (es' := levelElemsL (p :: ps)) (its' := itemsOfList [r0.val]) mem_app_left (by simp [itemsOfList])
        simpa [List.isEmpty_iff.mp hemp] using this
      · obtain ⟨more, hm, h⟩ := bind_ok _ _ _ h
        simp only [pure_eq_ok] at h; subst h
        simp only [Option.map_eq_some_iff] at hv
        obtain ⟨l, hl, rfl⟩ := hv
        have h1 := ih.seqRound _ _ _ _ _ more hreg.2 hm l hl
        exact (h0.mono (es' := levelElemsL (p :: ps)) (its' := itemsOfList (r0.val :: l)) mem_app_left (by simp [itemsOfList]; intro i hi; exact Or.inl hi)).trans
          (h1.mono mem_app_right (by simp [itemsOfList]; intro i hi; exact Or.inr hi))

theorem accti_step_seqLoop (gas : Nat) (ih : AcctI gas) :
    ∀ m ps min n d xs r, RegularL ps = true → seqLoop (gas + 1) m ps min n d xs = .ok r →
      TakenI m (levelElemsL ps) (itemsOfRounds r.val) xs r.rest := by
  intro m ps min n d xs r hreg h
  cases n with
  | zero => simp only [seqLoop, pure_eq_ok] at h; subst h; exact TakenI.refl ..
  | succ n =>
    cases xs with
    | nil => simp only [seqLoop, pure_eq_ok] at h; subst h; exact TakenI.refl ..
    | cons x xs =>
      simp only [seqLoop] at h
      obtain ⟨r0, hr0, h⟩ := bind_ok _ _ _ h
      split at h
      · simp only [pure_eq_ok] at h; subst h; exact TakenI.refl ..
      · rename_i round hround
        have h0 := ih.seqRound _ _ _ _ _ _ hreg hr0 round hround
        split at h
        · rename_i hl
          simp only [pure_eq_ok] at h; subst h
          -- no progress: nothing was taken
          obtain ⟨t, ht, _⟩ := h0
          simp only [beq_iff_eq] at hl
          have : t = [] := by
            have := congrArg List.length ht
            simp only [List.length_append] at this
            cases t with
            | nil => rfl
            | cons _ _ => simp only [List.length_cons] at this hl; omega
          subst this
          simp only [List.nil_append] at ht
          rw [← ht]
          exact TakenI.refl ..
        · obtain ⟨more, hm, h⟩ := bind_ok _ _ _ h
          simp only [pure_eq_ok] at h; subst h
          have h1 := ih.seqLoop _ _ _ _ _ _ more hreg hm
          exact (h0.mono id_sub (by simp [itemsOfRounds]; intro i hi; exact Or.inl hi)).trans
            (h1.mono id_sub (by simp [itemsOfRounds]; intro i hi; exact Or.inr hi))

theorem accti_step_choiceOptions (gas : Nat) (ih : AcctI gas) :
    ∀ m ps i xs r, RegularL ps = true → choiceOptions (gas + 1) m ps i xs = .ok r →
      ∀ j inst c, r.val = some (j, inst, c) → TakenI m (levelElemsL ps) (itemsOf inst) xs (xs.drop c) := by
  intro m ps i xs r hreg h
  cases ps with
  | nil => simp only [choiceOptions, pure_eq_ok] at h; subst h; intro j inst c hc; cases hc
  | cons p ps =>
    simp only [RegularL, Bool.and_eq_true] at hreg
    simp only [choiceOptions] at h
    split at h
    · obtain ⟨r', hr', h⟩ := bind_ok _ _ _ h
      simp only [pure_eq_ok] at h; subst h
      intro j inst c hc
      exact (ih.choiceOptions _ _ _ _ _ hreg.2 hr' j inst c hc).mono mem_app_right id_sub
    · cases h
    · rename_i r0 hr0
      obtain ⟨others, ho, h⟩ := bind_ok _ _ _ h
      simp only [pure_eq_ok] at h; subst h
      have h0 := (ih.parseP _ _ _ _ hreg.1 hr0).mono (es' := levelElemsL (p :: ps)) mem_app_left id_sub
      have hmine : TakenI m (levelElemsL (p :: ps)) (itemsOf r0.val) xs (xs.drop (xs.length - r0.rest.length)) := by
        rw [h0.drop]; exact h0
      have hoth := ih.choiceOptions _ _ _ _ _ hreg.2 ho
      intro j inst c hc
      simp only at hc
      split at hc
      · rename_i j' inst' c' hov
        split at hc
        · simp only [Option.some.injEq, Prod.mk.injEq] at hc
          obtain ⟨_, rfl, rfl⟩ := hc
          exact hmine
        · simp only [Option.some.injEq, Prod.mk.injEq] at hc
          obtain ⟨rfl, rfl, rfl⟩ := hc
          exact (hoth _ _ _ hov).mono mem_app_right id_sub
      · split at hc
        · simp only [Option.some.injEq, Prod.mk.injEq] at hc
          obtain ⟨_, rfl, rfl⟩ := hc
          exact hmine
        · cases hc

theorem accti_step_choiceLoop (gas : Nat) (ih : AcctI gas) :
    ∀ m ps n xs r, RegularL ps = true → choiceLoop (gas + 1) m ps n xs = .ok r →
      TakenI m (levelElemsL ps) (itemsOfChoice r.val) xs r.rest := by
  intro m ps n xs r hreg h
  cases n with
  | zero => simp only [choiceLoop, pure_eq_ok] at h; subst h; exact TakenI.refl ..
  | succ n =>
    cases xs with
    | nil => simp only [choiceLoop, pure_eq_ok] at h; subst h; exact TakenI.refl ..
    | cons x xs =>
      simp only [choiceLoop] at h
      obtain ⟨opts, ho, h⟩ := bind_ok _ _ _ h
      have hopt := ih.choiceOptions _ _ _ _ _ hreg ho
      split at h
      · simp only [pure_eq_ok] at h; subst h; exact TakenI.refl ..
      · rename_i i inst c hv
        obtain ⟨more, hm, h⟩ := bind_ok _ _ _ h
        simp only [pure_eq_ok] at h; subst h
        exact ((hopt _ _ _ hv).mono id_sub (by simp [itemsOfChoice]; intro i hi; exact Or.inl hi)).trans
          ((ih.choiceLoop _ _ _ _ more hreg hm).mono id_sub (by simp [itemsOfChoice]; intro i hi; exact Or.inr hi))

theorem accti_step_groupLoop (gas : Nat) (ih : AcctI gas) :
    ∀ m p n xs r, Regular p = true → groupLoop (gas + 1) m p n xs = .ok r →
      TakenI m (levelElems p) (itemsOfList r.val) xs r.rest := by
  intro m p n xs r hreg h
  cases n with
  | zero => simp only [groupLoop, pure_eq_ok] at h; subst h; exact TakenI.refl ..
  | succ n =>
    simp only [groupLoop] at h
    obtain ⟨r0, hr0, h⟩ := bind_ok _ _ _ h
    have h0 := ih.parseP _ _ _ _ hreg hr0
    split at h
    · simp only [pure_eq_ok] at h; subst h
      exact h0.mono id_sub (by simp [itemsOfList])
    · obtain ⟨more, hm, h⟩ := bind_ok _ _ _ h
      simp only [pure_eq_ok] at h; subst h
      exact (h0.mono id_sub (by simp [itemsOfList]; intro i hi; exact Or.inl hi)).trans
        ((ih.groupLoop _ _ _ _ more hreg hm).mono id_sub (by simp [itemsOfList]; intro i hi; exact Or.inr hi))

theorem accti_step_parseP (gas : Nat) (ih : AcctI gas) :
    ∀ m p xs r, Regular p = true → parseP (gas + 1) m p xs = .ok r → TakenI m (levelElems p) (itemsOf r.val) xs r.rest := by
  intro m p xs r hreg h
  cases p with
  | elem q min max ty => simpa [levelElems] using accti_parseP_elem (gas + 1) m q min max ty xs r h
  | any min max => simp [Regular] at hreg
  | seq ps min max =>
    simp only [parseP] at h
    obtain ⟨r', hr', h⟩ := bind_ok _ _ _ h
    simp only [pure_eq_ok] at h; subst h
    simpa [levelElems, itemsOf] using ih.seqLoop _ _ _ _ _ _ _ (by simpa [Regular] using hreg) hr'
  | choice ps min max =>
    simp only [parseP] at h
    obtain ⟨r', hr', h⟩ := bind_ok _ _ _ h
    simp only [pure_eq_ok] at h; subst h
    simpa [levelElems, itemsOf] using ih.choiceLoop _ _ _ _ _ (by simpa [Regular] using hreg) hr'
  | all ps co => simp [Regular] at hreg
  | group p min max =>
    simp only [parseP] at h
    obtain ⟨r', hr', h⟩ := bind_ok _ _ _ h
    simp only [pure_eq_ok] at h; subst h
    simpa [levelElems, itemsOf] using ih.groupLoop _ _ _ _ _ (by simpa [Regular] using hreg) hr'

/-- **Accounting with places**, every gas and both modes -/
theorem accti : ∀ gas, AcctI gas := by
  intro gas
  induction gas with
  | zero => exact accti_zero
  | succ gas ih =>
    exact ⟨accti_step_parseP gas ih, accti_step_seqLoop gas ih, accti_step_seqRound gas ih, accti_step_choiceLoop gas ih,
      accti_step_choiceOptions gas ih, accti_step_groupLoop gas ih⟩

end Zeep.Xsd
