import ZeepModel.Lex.Base64
namespace Zeep.Base64

theorem char_rt : ∀ i, i < 65 → charSextet (sextetChar i) = some i := by decide +kernel

theorem encChunks_le (bs : List Nat) (h : ∀ b ∈ bs, b < 256) : ∀ s ∈ encChunks bs, s < 65 := by
  fun_induction encChunks bs with
  | case1 a b c rest ih =>
    intro s hs
    have ha := h a (by simp); have hb := h b (by simp); have hc := h c (by simp)
    simp only [List.mem_cons] at hs
    rcases hs with rfl | rfl | rfl | rfl | hs
    · omega
    · omega
    · omega
    · omega
    · exact ih (fun x hx => h x (by simp [hx])) s hs
  | case2 a b =>
    intro s hs
    have ha := h a (by simp); have hb := h b (by simp)
    simp at hs
    rcases hs with rfl | rfl | rfl | rfl <;> omega
  | case3 a =>
    intro s hs
    have ha := h a (by simp)
    simp at hs
    rcases hs with rfl | rfl | rfl <;> omega
  | case4 => simp

theorem chunks_rt (bs : List Nat) (h : ∀ b ∈ bs, b < 256) : decChunks (encChunks bs) = some bs := by
  fun_induction encChunks bs with
  | case1 a b c rest ih =>
    have ha := h a (by simp); have hb := h b (by simp); have hc := h c (by simp)
    have ih' := ih (fun x hx => h x (by simp [hx]))
    simp only [decChunks]
    have h1 : a / 4 < 64 ∧ a % 4 * 16 + b / 16 < 64 := by omega
    have h2 : ¬ (b % 16 * 4 + c / 64 = 64) := by omega
    have h3 : b % 16 * 4 + c / 64 < 64 := by omega
    have h4 : ¬ (c % 64 = 64) := by omega
    have h5 : c % 64 < 64 := by omega
    simp only [h1, h2, h3, h4, h5, and_self, if_true, if_false, ih']
    have e1 : a / 4 * 4 + (a % 4 * 16 + b / 16) / 16 = a := by omega
    have e2 : (a % 4 * 16 + b / 16) % 16 * 16 + (b % 16 * 4 + c / 64) / 4 = b := by omega
    have e3 : (b % 16 * 4 + c / 64) % 4 * 64 + c % 64 = c := by omega
    rw [e1, e2, e3]
  | case2 a b =>
    have ha := h a (by simp); have hb := h b (by simp)
    simp only [decChunks]
    have h1 : a / 4 < 64 ∧ a % 4 * 16 + b / 16 < 64 := by omega
    have h2 : ¬ (b % 16 * 4 = 64) := by omega
    have h3 : b % 16 * 4 < 64 := by omega
    simp only [h1, h2, h3, and_self, if_true, if_false]
    have e1 : a / 4 * 4 + (a % 4 * 16 + b / 16) / 16 = a := by omega
    have e2 : (a % 4 * 16 + b / 16) % 16 * 16 + b % 16 * 4 / 4 = b := by omega
    rw [e1, e2]
  | case3 a =>
    have ha := h a (by simp)
    simp only [decChunks]
    have h1 : a / 4 < 64 ∧ a % 4 * 16 < 64 := by omega
    simp only [h1, and_self, if_true]
    have e1 : a / 4 * 4 + a % 4 * 16 / 16 = a := by omega
    rw [e1]
  | case4 => rfl

theorem mapM_char_rt (ss : List Nat) (h : ∀ s ∈ ss, s < 65) :
    (ss.map sextetChar).mapM charSextet = some ss := by
  induction ss with
  | nil => rfl
  | cons s ss ih =>
    simp only [List.map_cons, List.mapM_cons]
    rw [char_rt s (h s (by simp)), ih (fun x hx => h x (by simp [hx]))]
    rfl

/-- `b64decode (b64encode bs) = bs` for every byte string. -/
theorem base64_rt (bs : List Nat) (h : ∀ b ∈ bs, b < 256) : decode (encode bs) = some bs := by
  simp only [decode, encode, mapM_char_rt _ (encChunks_le bs h), chunks_rt bs h]

theorem sextetChar_not_space_lt : ∀ i, i < 65 → isSpace (sextetChar i) = false := by decide +kernel

theorem sextetChar_not_space (i : Nat) : isSpace (sextetChar i) = false := by
  by_cases h : i < 65
  · exact sextetChar_not_space_lt i h
  · have hl : table.length = 65 := by decide
    have : sextetChar i = '=' := by
      unfold sextetChar
      rw [List.getD_eq_getElem?_getD, List.getElem?_eq_none (by omega)]
      rfl
    rw [this]; decide

/-- the canonical encoding contains no white space -/
theorem encode_no_space (bs : List Nat) : (encode bs).filter (fun c => !isSpace c) = encode bs := by
  apply List.filter_eq_self.mpr
  intro c hc
  simp only [encode, List.mem_map] at hc
  obtain ⟨i, _, rfl⟩ := hc
  simp [sextetChar_not_space i]

/-- **line-wrapped / grouped encodings**: any text that is the canonical encoding with white space
inserted anywhere (between any two characters, before, after; any amount) reads as the same bytes -/
theorem base64_ws_rt (bs : List Nat) (h : ∀ b ∈ bs, b < 256) (cs : List Char)
    (hcs : cs.filter (fun c => !isSpace c) = encode bs) : decodeLenient cs = some bs := by
  simp only [decodeLenient, hcs, base64_rt bs h]

theorem base64_lenient_rt (bs : List Nat) (h : ∀ b ∈ bs, b < 256) : decodeLenient (encode bs) = some bs :=
  base64_ws_rt bs h _ (encode_no_space bs)

end Zeep.Base64
