import ZeepModel.Xsd.Parse
/-! Facts about the per-tag queues of `xsd:all` (`tagsInOrder`, `byTag`): the concatenation of the
queues in dict order is a rearrangement of the pool — nothing is duplicated, and nothing whose tag
is among the keys is lost. -/
namespace Zeep.Xsd
open Zeep

theorem tagsInOrder_spec (xs : List Node) : ∀ seen : List QName,
    (tagsInOrder xs seen).Nodup ∧ (∀ t ∈ tagsInOrder xs seen, t ∉ seen) ∧
    (∀ x ∈ xs, x.tag ∈ seen ∨ x.tag ∈ tagsInOrder xs seen) := by
  induction xs with
  | nil => intro seen; simp [tagsInOrder]
  | cons x xs ih =>
    intro seen
    simp only [tagsInOrder]
    by_cases hc : seen.contains x.tag = true
    · rw [if_pos hc]
      obtain ⟨h1, h2, h3⟩ := ih seen
      refine ⟨h1, h2, ?_⟩
      intro y hy
      simp only [List.mem_cons] at hy
      rcases hy with rfl | hy
      · left; simpa using hc
      · exact h3 y hy
    · rw [if_neg hc]
      obtain ⟨h1, h2, h3⟩ := ih (x.tag :: seen)
      have hx : x.tag ∉ seen := by simpa using hc
      refine ⟨?_, ?_, ?_⟩
      · refine List.nodup_cons.mpr ⟨?_, h1⟩
        intro hm; exact (h2 _ hm) (List.mem_cons_self ..)
      · intro t ht
        simp only [List.mem_cons] at ht
        rcases ht with rfl | ht
        · exact hx
        · intro hs; exact (h2 t ht) (List.mem_cons_of_mem _ hs)
      · intro y hy
        simp only [List.mem_cons] at hy
        rcases hy with rfl | hy
        · right; exact List.mem_cons_self ..
        · rcases h3 y hy with h | h
          · simp only [List.mem_cons] at h
            rcases h with h | h
            · right; rw [h]; exact List.mem_cons_self ..
            · left; exact h
          · right; exact List.mem_cons_of_mem _ h

theorem byTag_filter_ne (t : QName) (order : List QName) (pool : List Node) (ht : t ∉ order) :
    byTag order (pool.filter fun x => !(x.tag == t)) = byTag order pool := by
  induction order with
  | nil => simp [byTag]
  | cons t' ts ih =>
    simp only [List.mem_cons, not_or] at ht
    have ih' := ih ht.2
    simp only [byTag, List.flatMap_cons] at ih' ⊢
    rw [ih']
    congr 1
    rw [List.filter_filter]
    apply List.filter_congr
    intro x _
    by_cases h : x.tag = t'
    · have hne : ¬ t' = t := fun e => ht.1 e.symm
      simp [h, hne]
    · simp [h]

theorem length_filter_split_p {α : Type} (p : α → Bool) (l : List α) :
    (l.filter p).length + (l.filter fun x => !(p x)).length = l.length := by
  induction l with
  | nil => rfl
  | cons x xs ih =>
    cases h : p x
    · simp only [List.filter_cons, h, Bool.false_eq_true, if_false, Bool.not_false, if_true, List.length_cons]; omega
    · simp only [List.filter_cons, h, if_true, Bool.not_true, Bool.false_eq_true, if_false, List.length_cons]; omega

theorem length_filter_split (t : QName) (pool : List Node) :
    (pool.filter fun x => x.tag == t).length + (pool.filter fun x => !(x.tag == t)).length = pool.length :=
  length_filter_split_p (fun x => x.tag == t) pool

/-- nothing is duplicated: the concatenated queues are no longer than the pool -/
theorem byTag_length_le (order : List QName) (hnd : order.Nodup) : ∀ pool : List Node,
    (byTag order pool).length ≤ pool.length := by
  induction order with
  | nil => intro pool; simp [byTag]
  | cons t ts ih =>
    intro pool
    obtain ⟨ht, hts⟩ := List.nodup_cons.mp hnd
    have h1 := ih hts (pool.filter fun x => !(x.tag == t))
    rw [byTag_filter_ne t ts pool ht] at h1
    have h2 := length_filter_split t pool
    simp only [byTag, List.flatMap_cons, List.length_append] at h1 ⊢
    omega

/-- nothing is lost: a node of the pool whose tag is a key is in the concatenated queues -/
theorem mem_byTag (order : List QName) (pool : List Node) (s : Node) (hs : s ∈ pool) (ht : s.tag ∈ order) :
    s ∈ byTag order pool := by
  simp only [byTag, List.mem_flatMap, List.mem_filter]
  exact ⟨s.tag, ht, hs, by simp⟩

/-- …and only nodes of the pool are -/
theorem of_mem_byTag (order : List QName) (pool : List Node) (s : Node) (h : s ∈ byTag order pool) : s ∈ pool := by
  simp only [byTag, List.mem_flatMap, List.mem_filter] at h
  obtain ⟨_, _, hs, _⟩ := h
  exact hs

end Zeep.Xsd
