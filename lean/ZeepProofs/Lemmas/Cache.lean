import ZeepModel.Cache
import ZeepProofs.Lemmas.Base64
namespace Zeep.Cache

def WFBackend : Backend → Prop
  | .sqlite v => '$' ∉ v
  | .memory => True

def WFBytes (c : Bytes) : Prop := ∀ b ∈ c, b < 256

theorem isPrefixOf_append_self (p r : List Char) : p.isPrefixOf (p ++ r) = true := by
  induction p with
  | nil => simp [List.isPrefixOf]
  | cons a p ih => simp [List.isPrefixOf, ih]

theorem drop_append_self (p r : List Char) : (p ++ r).drop p.length = r := by
  simp

/-- `v ++ '$' :: _` is a prefix of `v' ++ '$' :: _` only when `v = v'` (no `$` inside) -/
theorem tag_prefix (v v' r : List Char) (hv : '$' ∉ v) (hv' : '$' ∉ v')
    (h : (v ++ ['$']).isPrefixOf (v' ++ '$' :: r) = true) : v = v' := by
  induction v generalizing v' with
  | nil =>
    cases v' with
    | nil => rfl
    | cons a v' =>
      simp [List.isPrefixOf] at h
      simp at hv'
      exact absurd h hv'.1
  | cons a v ih =>
    cases v' with
    | nil =>
      simp [List.isPrefixOf] at h
      simp at hv
      exact absurd h.1.symm hv.1
    | cons b v' =>
      simp only [List.cons_append, List.isPrefixOf, Bool.and_eq_true, beq_iff_eq] at h
      simp at hv hv'
      rw [h.1, ih v' hv.2 hv'.2 h.2]

theorem isPrefixOf_append_left (p a b : List Char) :
    (p ++ a).isPrefixOf (p ++ b) = a.isPrefixOf b := by
  induction p with
  | nil => rfl
  | cons c p ih => simp [List.isPrefixOf, ih]

theorem decode_encode (b b' : Backend) (c : Bytes) (hb : WFBackend b) (hb' : WFBackend b')
    (hc : WFBytes c) :
    decodeData b (encodeData b' c) = if b' = b then some c else none := by
  cases b with
  | memory =>
    cases b' with
    | memory => simp [decodeData, encodeData]
    | sqlite v' => simp [decodeData, encodeData]
  | sqlite v =>
    cases b' with
    | memory => simp [decodeData, encodeData]
    | sqlite v' =>
      simp only [decodeData, encodeData, stripPrefix]
      by_cases hvv : v' = v
      · subst hvv
        simp only [isPrefixOf_append_self, if_true, drop_append_self]
        rw [Base64.base64_rt c hc]
      · have : (prefixOf v).isPrefixOf (prefixOf v' ++ Base64.encode c) = false := by
          cases hp : (prefixOf v).isPrefixOf (prefixOf v' ++ Base64.encode c) with
          | false => rfl
          | true =>
            exfalso
            apply hvv
            simp only [prefixOf, List.append_assoc] at hp
            rw [isPrefixOf_append_left] at hp
            exact (tag_prefix v v' _ hb hb' (by simpa using hp)).symm
        simp [this, hvv]

/-- the database holds, for every url, exactly the latest store of the specification -/
def Rel (db : Db) (s : Spec) : Prop :=
  ∀ u, match db.find? (fun r => r.url == u), s u with
    | none, none => True
    | some r, some st => r.created = st.at_ ∧ r.data = encodeData st.by_ st.content ∧
        WFBackend st.by_ ∧ WFBytes st.content
    | _, _ => False

theorem find_filter_ne (db : Db) (u x : Url) (h : x ≠ u) :
    (db.filter (fun r => r.url != u)).find? (fun r => r.url == x) = db.find? (fun r => r.url == x) := by
  induction db with
  | nil => rfl
  | cons r db ih =>
    by_cases hr : r.url = u
    · have h1 : (r.url != u) = false := by simp [hr]
      have h2 : (r.url == x) = false := by simp [hr]; exact fun e => h e.symm
      simp [List.filter, h1, List.find?, h2, ih]
    · have h1 : (r.url != u) = true := by simp [hr]
      simp only [List.filter, h1, List.find?]
      split
      · rfl
      · exact ih

theorem find_filter_eq (db : Db) (u : Url) :
    (db.filter (fun r => r.url != u)).find? (fun r => r.url == u) = none := by
  induction db with
  | nil => rfl
  | cons r db ih =>
    by_cases hr : r.url = u
    · have h1 : (r.url != u) = false := by simp [hr]
      simp [List.filter, h1, ih]
    · have h1 : (r.url != u) = true := by simp [hr]
      have h2 : (r.url == u) = false := by simp [hr]
      simp only [List.filter, h1, List.find?, h2]
      exact ih

theorem find_add (db : Db) (b : Backend) (u x : Url) (c : Bytes) (now : Instant) :
    (add db b u c now).find? (fun r => r.url == x) =
      if x = u then some ⟨now, u, encodeData b c⟩ else db.find? (fun r => r.url == x) := by
  unfold add
  rw [List.find?_append]
  by_cases hx : x = u
  · subst hx
    rw [find_filter_eq]
    simp [List.find?]
  · rw [find_filter_ne db u x hx]
    have hx' : (u == x) = false := by simp; exact fun e => hx e.symm
    simp [List.find?, hx', hx]

theorem rel_add (db : Db) (s : Spec) (b : Backend) (u : Url) (c : Bytes) (now : Instant)
    (h : Rel db s) (hb : WFBackend b) (hc : WFBytes c) : Rel (add db b u c now) (sadd s b u c now) := by
  intro x
  rw [find_add]
  simp only [sadd]
  by_cases hx : x = u
  · subst hx
    simp [hb, hc]
  · simp only [hx, if_false]
    exact h x

theorem rel_get (db : Db) (s : Spec) (b : Backend) (u : Url) (now : Instant) (to : Option Nat)
    (h : Rel db s) (hb : WFBackend b) : get db b u now to = sget s b u now to := by
  have := h u
  simp only [get, sget]
  cases hf : db.find? (fun r => r.url == u) with
  | none =>
    cases hs : s u with
    | none => rfl
    | some st => simp [hf, hs] at this
  | some r =>
    cases hs : s u with
    | none => simp [hf, hs] at this
    | some st =>
      simp [hf, hs] at this
      obtain ⟨h1, h2, h3, h4⟩ := this
      simp only [h1, h2]
      split
      · rfl
      · exact decode_encode b st.by_ st.content hb h3 h4

def WFOp : Op → Prop
  | .add b _ c _ => WFBackend b ∧ WFBytes c
  | .get b _ _ _ => WFBackend b
  | .load b _ c _ _ => WFBackend b ∧ WFBytes c

theorem step_refines (db : Db) (s : Spec) (o : Op) (h : Rel db s) (hw : WFOp o) :
    Rel (step db o).1 (sstep s o).1 ∧ (step db o).2 = (sstep s o).2 := by
  cases o with
  | add b u c now => exact ⟨rel_add db s b u c now h hw.1 hw.2, rfl⟩
  | get b u now to =>
    refine ⟨h, ?_⟩
    simp only [step, sstep, rel_get db s b u now to h hw]
  | load b u c now to =>
    simp only [step, sstep, rel_get db s b u now to h hw.1]
    cases sget s b u now to with
    | some x => exact ⟨h, rfl⟩
    | none => exact ⟨rel_add db s b u c now h hw.1 hw.2, rfl⟩

theorem run_refines (ops : List Op) : ∀ (db : Db) (s : Spec), Rel db s → (∀ o ∈ ops, WFOp o) →
    Rel (run db ops).1 (srun s ops).1 ∧ (run db ops).2 = (srun s ops).2 := by
  induction ops with
  | nil => intro db s h _; exact ⟨h, rfl⟩
  | cons o ops ih =>
    intro db s h hw
    have h1 := step_refines db s o h (hw o (by simp))
    have h2 := ih _ _ h1.1 (fun o' ho' => hw o' (by simp [ho']))
    simp only [run, srun]
    exact ⟨h2.1, by rw [h1.2, h2.2]⟩

theorem rel_empty : Rel [] (fun _ => none) := by intro u; simp

end Zeep.Cache
