import ZeepModel.Lex.Digits
namespace Zeep.Digits

theorem charDigit_digitChar (d : Nat) (h : d < 10) : charDigit (digitChar d) = some d := by
  have : ∀ d, d < 10 → charDigit (digitChar d) = some d := by decide
  exact this d h

theorem readAcc_append (acc : Nat) (a b : List Char) :
    readAcc acc (a ++ b) = (readAcc acc a).bind (fun x => readAcc x b) := by
  induction a generalizing acc with
  | nil => rfl
  | cons c cs ih =>
    simp only [List.cons_append, readAcc]
    cases charDigit c with
    | none => rfl
    | some d => exact ih _

theorem readAcc_digits (n acc : Nat) : readAcc acc (digits n) = some (acc * 10 ^ (digits n).length + n) := by
  induction n using Nat.strongRecOn generalizing acc with
  | _ n ih =>
    unfold digits
    split
    · rename_i h
      simp [readAcc, charDigit_digitChar n h]
    · rename_i h
      rw [readAcc_append, ih (n / 10) (by omega)]
      simp only [Option.bind_some, readAcc, charDigit_digitChar (n % 10) (by omega), List.length_append,
        List.length_cons, List.length_nil, Nat.pow_succ]
      congr 1
      have : n / 10 * 10 + n % 10 = n := by omega
      rw [Nat.add_mul, Nat.add_assoc, this, Nat.mul_assoc]

theorem digits_ne_nil (n : Nat) : digits n ≠ [] := by
  unfold digits; split <;> simp

theorem readAcc_zeros (k : Nat) (s : List Char) : readAcc 0 (List.replicate k '0' ++ s) = readAcc 0 s := by
  induction k with
  | zero => rfl
  | succ k ih =>
    simp only [List.replicate_succ, List.cons_append, readAcc]
    have : charDigit '0' = some 0 := by decide
    simp [this, ih]

/-- `int(str(n)) = n` -/
theorem readNat_digits (n : Nat) : readNat (digits n) = some n := by
  simp [readNat, digits_ne_nil, readAcc_digits]

/-- `int("%0wd" % n) = n` -/
theorem readNat_pad (w n : Nat) : readNat (pad w n) = some n := by
  unfold readNat pad
  have : List.replicate (w - (digits n).length) '0' ++ digits n ≠ [] := by
    simp [digits_ne_nil]
  simp only [this, if_false, readAcc_zeros, readAcc_digits]
  simp

theorem pad_length (w n : Nat) : w ≤ (pad w n).length := by
  simp [pad]; omega

theorem pad_length_eq (w n : Nat) (h : (digits n).length ≤ w) : (pad w n).length = w := by
  simp [pad]; omega

theorem digits_length_two (n : Nat) (h : n < 100) : (digits n).length ≤ 2 := by
  unfold digits
  split
  · simp
  · have : n / 10 < 10 := by omega
    unfold digits
    simp [this]

theorem digits_all_digit (n : Nat) : ∀ c ∈ digits n, isDigit c = true := by
  induction n using Nat.strongRecOn with
  | _ n ih =>
    unfold digits
    split
    · rename_i h
      intro c hc; simp at hc; subst hc
      simp [isDigit, charDigit_digitChar n h]
    · rename_i h
      intro c hc
      simp only [List.mem_append, List.mem_cons, List.not_mem_nil, or_false] at hc
      rcases hc with hc | hc
      · exact ih (n / 10) (by omega) c hc
      · subst hc; simp [isDigit, charDigit_digitChar (n % 10) (by omega)]

theorem pad_all_digit (w n : Nat) : ∀ c ∈ pad w n, isDigit c = true := by
  intro c hc
  simp only [pad, List.mem_append, List.mem_replicate] at hc
  rcases hc with ⟨_, rfl⟩ | hc
  · decide
  · exact digits_all_digit n c hc

theorem digits_head_not_sign (n : Nat) : ∀ c, (digits n).head? = some c → c ≠ '-' ∧ c ≠ '+' := by
  intro c hc
  have hm : c ∈ digits n := List.mem_of_mem_head? hc
  have := digits_all_digit n c hm
  constructor <;> (intro h; subst h; revert this; decide)

/-- `int(str(z)) = z` for every integer -/
theorem readInt_showInt (z : Int) : readInt (showInt z) = some z := by
  have hz := Int.natAbs_eq z
  unfold showInt
  split
  · rename_i h
    have : readInt ('-' :: digits z.natAbs) = some (-(z.natAbs : Int)) := by
      simp [readInt, readNat_digits]
    rw [this]
    congr 1; omega
  · rename_i h
    have hd := digits_head_not_sign z.natAbs
    cases hds : digits z.natAbs with
    | nil => exact absurd hds (digits_ne_nil _)
    | cons c cs =>
      have := hd c (by simp [hds])
      have h1 : c ≠ '-' := this.1
      have h2 : c ≠ '+' := this.2
      have hr : readInt (c :: cs) = (readNat (c :: cs)).map (fun n => (n : Int)) := by
        unfold readInt
        split
        · rename_i heq; cases heq; exact absurd rfl h1
        · rename_i heq; cases heq; exact absurd rfl h2
        · rfl
      rw [hr, ← hds, readNat_digits]
      show some ((z.natAbs : Nat) : Int) = some z
      congr 1; omega

end Zeep.Digits
