import ZeepModel.Sharing
import Generated.MemoSites
/-! C09: the state that outlives a call in the files this property's mechanism lives in is exactly the state the model
knows of (inventory regenerated from the source on every run by harness/translators/memo_sites.py). -/
namespace Zeep.Sharing

def scopeC09 : List String := ["zeep/xsd/schema.py", "zeep/xsd/visitor.py", "zeep/wsdl/wsdl.py", "zeep/wsdl/definitions.py"]

theorem c09_shared_state_known :
    ((Generated.memoSites.filter fun s => inScope scopeC09 s.file).map fun s => (s.file, s.name, s.kind)) = knownIn scopeC09 := by
  decide +kernel

end Zeep.Sharing
