import ZeepModel.Sharing
import Generated.MemoSites
/-! C04: the state that outlives a call in the files this property's mechanism lives in is exactly the state the model
knows of (inventory regenerated from the source on every run by harness/translators/memo_sites.py). -/
namespace Zeep.Sharing

def scopeC04 : List String := ["zeep/wsdl/messages/", "zeep/wsdl/bindings/"]

theorem c04_shared_state_known :
    ((Generated.memoSites.filter fun s => inScope scopeC04 s.file).map fun s => (s.file, s.name, s.kind)) = knownIn scopeC04 := by
  decide +kernel

end Zeep.Sharing
