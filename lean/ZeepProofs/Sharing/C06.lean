import ZeepModel.Sharing
import Generated.MemoSites
/-! C06: the state that outlives a call in the files this property's mechanism lives in is exactly the state the model
knows of (inventory regenerated from the source on every run by harness/translators/memo_sites.py). -/
namespace Zeep.Sharing

def scopeC06 : List String := ["zeep/wsdl/bindings/"]

theorem c06_shared_state_known :
    ((Generated.memoSites.filter fun s => inScope scopeC06 s.file).map fun s => (s.file, s.name, s.kind)) = knownIn scopeC06 := by
  decide +kernel

end Zeep.Sharing
