import ZeepModel.Sharing
import Generated.MemoSites
/-! C14: the state that outlives a call in the files this property's mechanism lives in is exactly the state the model
knows of (inventory regenerated from the source on every run by harness/translators/memo_sites.py). -/
namespace Zeep.Sharing

def scopeC14 : List String := ["zeep/loader.py", "zeep/wsdl/utils.py"]

theorem c14_shared_state_known :
    ((Generated.memoSites.filter fun s => inScope scopeC14 s.file).map fun s => (s.file, s.name, s.kind)) = knownIn scopeC14 := by
  decide +kernel

end Zeep.Sharing
