import ZeepModel.Sharing
import Generated.MemoSites
/-! C19: the state that outlives a call in the files this property's mechanism lives in is exactly the state the model
knows of (inventory regenerated from the source on every run by harness/translators/memo_sites.py). -/
namespace Zeep.Sharing

def scopeC19 : List String := ["zeep/wsdl/messages/multiref.py", "zeep/wsdl/messages/xop.py", "zeep/wsdl/attachments.py"]

theorem c19_shared_state_known :
    ((Generated.memoSites.filter fun s => inScope scopeC19 s.file).map fun s => (s.file, s.name, s.kind)) = knownIn scopeC19 := by
  decide +kernel

end Zeep.Sharing
