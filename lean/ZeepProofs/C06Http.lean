import Generated.SoapFlow
/-!
# C06 — the plain HTTP bindings (`HttpBinding.process_reply`, GET / POST with `mime:mimeXml` or `mime:content` output)

Only a 200 reply is a result; every other status is a transport error that carries the status.  The comparison the code makes is
re-read from `src/zeep/wsdl/bindings/http.py` on every run (`Generated.httpReplyStatus*`, translator `soap_flow.py`).
-/
namespace Zeep.HttpReply

inductive Outcome where
  | decode                          -- the body is handed to the output message's deserialiser
  | transportError (status : Nat)
deriving Repr, DecidableEq

/-- `if response.status_code != 200: raise TransportError(..., status_code=response.status_code)` -/
def triage (status : Nat) : Outcome := if status = 200 then .decode else .transportError status

/-- **success only on 200**, for every status -/
theorem c06_http_success_only_on_200 (status : Nat) : triage status = .decode ↔ status = 200 := by
  unfold triage; split <;> simp_all

/-- **the error carries the status** -/
theorem c06_http_error_carries_status (status s : Nat) (h : triage status = .transportError s) : s = status ∧ status ≠ 200 := by
  unfold triage at h
  split at h
  · cases h
  · injection h with h; exact ⟨h.symm, by assumption⟩

/-- the comparison in the source is the model's: `!= 200` and nothing else -/
theorem c06_http_status_constants_match_source :
    Generated.httpReplyStatusNotEq = [200] ∧ Generated.httpReplyStatusIn = [] ∧ Generated.httpReplyStatusEq = [] ∧
    Generated.httpReplyStatusOtherOps = [] := by decide

example : triage 203 = .transportError 203 ∧ triage 304 = .transportError 304 ∧ triage 200 = .decode := by decide

end Zeep.HttpReply
