import ZeepProofs.C01Choice
/-!
# C01 — round trip for records with repeated sequences (`_value_N`)

Extends `c01_record_with_choices_roundtrip`: a member of a record may also be a **repeated nested
sequence** `(<first> <more…>){min,max}` — zeep's `_value_N` list of dicts — whose rounds each start
with a single required element and end with a non-empty member; the members of a round are element
declarations (any bounds, leaf or record typed) or non-repeating choices.  Any number of rounds
within the bounds (including zero when `min = 0`, including `maxOccurs="unbounded"`), followed by
any sibling that starts with none of the sequence's names.

This is the construct where the defects F6 / F17 / F18 / F24 / F25 / F28 lived (end of repetition,
progress, the generated name, bounds); the theorem pins the decoder's behaviour there for every
number of rounds:

* `seqRound_full`  — one complete round followed by *anything* that cannot be mistaken for its last
  member decodes to exactly that round and leaves the rest;
* `seqRound_skip`  — on a deque that starts with none of the sequence's names a round either ends
  the repetition or consumes nothing (never raises, in both modes);
* `seqLoop_rounds` — hence the loop returns exactly the rounds and the rest, whatever `maxOccurs`.
-/
namespace Zeep.Xsd
open Zeep

/-- members a repeated sequence may have: element declarations and non-repeating choices between
single required element declarations -/
def SimpleMembers : List Particle → Prop
  | [] => True
  | .elem .. :: ps => SimpleMembers ps
  | .choice bs _ (.bounded 1) :: ps => SimpleBranches bs ∧ SimpleMembers ps
  | _ :: _ => False

/-- an element declaration on a deque that starts with another name: it raises `unexpected` or takes nothing -/
theorem elem_skip (m : Mode) (g : Nat) (q : QName) (mn : Nat) (mx : Occ) (ty : Ty) (x : Node) (xs : List Node)
    (hne : x.tag.name ≠ q.name) :
    parseP (g + 2) m (.elem q mn mx ty) (x :: xs) = .error .unexpected ∨
    parseP (g + 2) m (.elem q mn mx ty) (x :: xs) = .ok ⟨.elems [], x :: xs, 1⟩ := by
  have hn : (x.tag.name == q.name) = false := by simpa using hne
  simp only [parseP]
  cases hl : mx.limit with
  | zero => right; simp [elemLoop, bind, Except.bind, pure, Except.pure]
  | succ n =>
    simp only [elemLoop]
    split
    · right; simp [bind, Except.bind, pure, Except.pure]
    · simp only [hn, Bool.false_eq_true, if_false]
      by_cases h0 : mn = 0
      · right; simp [h0, bind, Except.bind, pure, Except.pure]
      · left; simp [h0, bind, Except.bind]

theorem headNot_of_any {names : List String} {x : Node} {xs : List Node} (h : HeadNotAny names (x :: xs)) :
    ∀ n ∈ names, x.tag.name ≠ n := fun n hn => h n hn

/-- **no start**: on a deque that starts with none of the members' names one round either ends the
repetition (`none`) or returns having consumed nothing — it never raises -/
theorem seqRound_skip (m : Mode) : ∀ ps : List Particle, SimpleMembers ps →
    ∃ g0, ∀ gas, g0 ≤ gas → ∀ (x : Node) (xs : List Node), HeadNotAny (lnames ps) (x :: xs) →
      ∃ v c, seqRound gas m ps true (x :: xs).length (x :: xs) = .ok ⟨v, x :: xs, c⟩ := by
  intro ps
  induction ps with
  | nil =>
    intro _
    refine ⟨1, ?_⟩
    intro gas hg x xs _
    obtain ⟨g, rfl⟩ : ∃ g, gas = g + 1 := ⟨gas - 1, by omega⟩
    exact ⟨some [], 0, by simp [seqRound, pure, Except.pure]⟩
  | cons p ps ih =>
    intro hs
    cases p with
    | elem q mn mx ty =>
      simp only [SimpleMembers] at hs
      obtain ⟨g1, h1⟩ := ih hs
      refine ⟨g1 + 3, ?_⟩
      intro gas hg x xs hh
      obtain ⟨g, rfl⟩ : ∃ g, gas = g + 3 := ⟨gas - 3, by omega⟩
      have hne : x.tag.name ≠ q.name := headNot_of_any hh q.name (by simp [lnames, mnames])
      have hrest : HeadNotAny (lnames ps) (x :: xs) := fun n hn => hh n (by simp [lnames, hn])
      obtain ⟨v, c, hv⟩ := h1 (g + 2) (by omega) x xs hrest
      simp only [List.length_cons] at hv
      rcases elem_skip m g q mn mx ty x xs hne with h | h
      · exact ⟨none, 1, by simp [seqRound, h, pure, Except.pure]⟩
      · exact ⟨v.map (Inst.elems [] :: ·), 1 + c, by simp [seqRound, h, hv, bind, Except.bind, pure, Except.pure]⟩
    | choice bs cmin cmax =>
      cases cmax with
      | unbounded => simp [SimpleMembers] at hs
      | bounded b =>
        match b, hs with
        | 1, hs =>
          simp only [SimpleMembers] at hs
          obtain ⟨g1, h1⟩ := ih hs.2
          obtain ⟨_, g2, h2⟩ := member_choice_absent m bs cmin hs.1
          refine ⟨g1 + g2 + 1, ?_⟩
          intro gas hg x xs hh
          obtain ⟨g, rfl⟩ : ∃ g, gas = g + 1 := ⟨gas - 1, by omega⟩
          have hmine : HeadNotAny (mnames (.choice bs cmin (.bounded 1))) (x :: xs) := fun n hn => hh n (by simp [lnames, hn])
          have hrest : HeadNotAny (lnames ps) (x :: xs) := fun n hn => hh n (by simp [lnames, hn])
          obtain ⟨c2, hc2⟩ := h2 g (by omega) (x :: xs) hmine
          obtain ⟨v, c, hv⟩ := h1 g (by omega) x xs hrest
          simp only [List.length_cons] at hv
          simp only [serInst, serChoice, List.nil_append] at hc2
          exact ⟨v.map (Inst.choiceR [] :: ·), c2 + c, by simp [seqRound, hc2, hv, bind, Except.bind, pure, Except.pure]⟩
        | 0, hs => simp [SimpleMembers] at hs
        | _ + 2, hs => simp [SimpleMembers] at hs
    | any _ _ => simp [SimpleMembers] at hs
    | seq _ _ _ => simp [SimpleMembers] at hs
    | all _ _ => simp [SimpleMembers] at hs
    | group _ _ _ => simp [SimpleMembers] at hs

/-- names the last member of a content model can start with -/
def lastNames : List Particle → List String
  | [] => []
  | [p] => mnames p
  | _ :: p :: ps => lastNames (p :: ps)

theorem lastNames_sub : ∀ (ps : List Particle) (n : String), n ∈ lastNames ps → n ∈ lnames ps := by
  intro ps
  induction ps with
  | nil => intro n h; simp [lastNames] at h
  | cons p ps ih =>
    intro n h
    cases ps with
    | nil => simpa [lastNames, lnames] using h
    | cons p' ps' =>
      simp only [lastNames] at h
      simp only [lnames, List.mem_append]
      exact Or.inr (by simpa [lnames] using ih n h)

theorem headNot_append_ne {n : String} {a b : List Node} (hne : a ≠ []) (ha : HeadNot n a) : HeadNot n (a ++ b) := by
  cases a with
  | nil => exact absurd rfl hne
  | cons x xs => simpa [HeadNot] using ha

/-- **one complete round, followed by anything that cannot be mistaken for its last member**, decodes
to exactly that round and leaves what follows -/
theorem seqRound_full (m : Mode) (M : Particle → Inst → Prop) (hM : ∀ p i, M p i → MemberOK m p i) :
    ∀ (ps : List Particle) (insts : List Inst), insts.length = ps.length → WTRoundG M ps insts →
      ∃ g0, ∀ gas, g0 ≤ gas → ∀ (e : Bool) (sl : Nat) (tail : List Node), HeadNotAny (lastNames ps) tail →
        ∃ calls, seqRound gas m ps e sl (serList ps insts ++ tail) = .ok ⟨some insts, tail, calls⟩ := by
  intro ps
  induction ps with
  | nil => intro insts _ hw; cases insts <;> simp [WTRoundG] at hw
  | cons p ps ih =>
    intro insts hlen hw
    cases insts with
    | nil => simp at hlen
    | cons i is =>
      obtain ⟨hm, hdisj, _, hmore⟩ := hw
      obtain ⟨_, g1, h1⟩ := hM p i hm
      cases ps with
      | nil =>
        have his : is = [] := by simpa using hlen
        subst his
        refine ⟨g1 + 2, ?_⟩
        intro gas hg e sl tail htail
        obtain ⟨g, rfl⟩ : ∃ g, gas = g + 2 := ⟨gas - 2, by omega⟩
        obtain ⟨c, hc⟩ := h1 (g + 1) (by omega) tail (by simpa [lastNames] using htail)
        refine ⟨c, ?_⟩
        simp only [serList, List.append_nil, seqRound, hc]
        cases tail with
        | nil => simp [pure, Except.pure]
        | cons t ts => simp [seqRound, bind, Except.bind, pure, Except.pure]
      | cons p' ps' =>
        have his : is ≠ [] := by
          intro h; subst h; simp at hlen
        obtain ⟨g2, h2⟩ := ih is (by simpa using hlen) (hmore his)
        obtain ⟨hne', hh'⟩ := serList_members m M hM (p' :: ps') is his (hmore his)
        refine ⟨g1 + g2 + 1, ?_⟩
        intro gas hg e sl tail htail
        obtain ⟨g, rfl⟩ : ∃ g, gas = g + 1 := ⟨gas - 1, by omega⟩
        have hfollow : HeadNotAny (mnames p) (serList (p' :: ps') is ++ tail) :=
          fun n hn => headNot_append_ne hne' (hh' n (hdisj n hn))
        obtain ⟨c, hc⟩ := h1 g (by omega) (serList (p' :: ps') is ++ tail) hfollow
        obtain ⟨c', hr⟩ := h2 g (by omega) e sl tail (by simpa [lastNames] using htail)
        refine ⟨c + c', ?_⟩
        have hemp : (serList (p' :: ps') is ++ tail).isEmpty = false := by
          cases h : serList (p' :: ps') is with
          | nil => exact absurd h hne'
          | cons _ _ => rfl
        have hassoc : serList (p :: p' :: ps') (i :: is) ++ tail = serInst p i ++ (serList (p' :: ps') is ++ tail) := by
          simp [serList, List.append_assoc]
        rw [hassoc]
        simp [seqRound, hc, hr, hemp, bind, Except.bind, pure, Except.pure]

/-! ### rounds that start with a single required element -/

/-- the shape of a repeated sequence the theorem covers -/
structure RepShape (W : Ty → Item → Prop) (q1 : QName) (ty1 : Ty) (ps' : List Particle) (rounds : List (List Inst)) : Prop where
  more : ps' ≠ []
  simple : SimpleMembers ps'
  rounds_ok : ∀ r ∈ rounds, r.length = ps'.length + 1 ∧ WTRoundG (WTMember W) (.elem q1 1 (.bounded 1) ty1 :: ps') r

/-- a well-formed round starts with an element named `q1` -/
theorem round_starts (m : Mode) (W : Ty → Item → Prop) (hW : ∀ ty it, W ty it → Dec m ty it)
    (q1 : QName) (ty1 : Ty) (ps' : List Particle) (r : List Inst) (tail : List Node)
    (hw : WTRoundG (WTMember W) (.elem q1 1 (.bounded 1) ty1 :: ps') r) :
    ∃ y ys, serList (.elem q1 1 (.bounded 1) ty1 :: ps') r ++ tail = y :: ys ∧ y.tag.name = q1.name := by
  cases r with
  | nil => simp [WTRoundG] at hw
  | cons i is =>
    obtain ⟨hm, _, _, _⟩ := hw
    cases i with
    | elems items =>
      obtain ⟨h1, h2, h3⟩ := hm
      simp only [Occ.limit] at h2
      match items, h1, h2, h3 with
      | [it], _, _, h3 =>
        have htag := (hW ty1 it (h3 it (by simp))).1 q1
        refine ⟨serItem q1 ty1 it, serList ps' is ++ tail, ?_, by rw [htag]⟩
        simp [serList, serInst, serItems]
      | [], h1, _, _ => simp at h1
      | _ :: _ :: _, _, h2, _ => simp at h2
    | _ => simp [WTMember] at hm

theorem q1_not_last (M : Particle → Inst → Prop) (q1 : QName) (ty1 : Ty) (ps' : List Particle) (r : List Inst)
    (hne : ps' ≠ []) (hw : WTRoundG M (.elem q1 1 (.bounded 1) ty1 :: ps') r) :
    q1.name ∉ lastNames (.elem q1 1 (.bounded 1) ty1 :: ps') := by
  cases r with
  | nil => simp [WTRoundG] at hw
  | cons i is =>
    obtain ⟨_, hdisj, _, _⟩ := hw
    cases ps' with
    | nil => exact absurd rfl hne
    | cons p' ps'' =>
      simp only [lastNames]
      intro h
      exact hdisj q1.name (by simp [mnames]) (lastNames_sub _ _ h)

/-- **the loop returns exactly the rounds**, whatever the round limit (`maxOccurs`) -/
theorem seqLoop_rounds (m : Mode) (W : Ty → Item → Prop) (hW : ∀ ty it, W ty it → Dec m ty it)
    (q1 : QName) (ty1 : Ty) (ps' : List Particle) (smin : Nat) :
    ∀ rounds : List (List Inst), RepShape W q1 ty1 ps' rounds →
      ∃ g0, ∀ gas, g0 ≤ gas → ∀ (n d : Nat) (rest : List Node), rounds.length ≤ n → smin ≤ d + rounds.length →
        HeadNotAny (lnames (.elem q1 1 (.bounded 1) ty1 :: ps')) rest →
        ∃ calls, seqLoop gas m (.elem q1 1 (.bounded 1) ty1 :: ps') smin n d
            (serRounds (.elem q1 1 (.bounded 1) ty1 :: ps') rounds ++ rest) = .ok ⟨rounds, rest, calls⟩ := by
  intro rounds
  induction rounds with
  | nil =>
    intro hs
    obtain ⟨g1, h1⟩ := seqRound_skip m (.elem q1 1 (.bounded 1) ty1 :: ps') (by simpa [SimpleMembers] using hs.simple)
    refine ⟨g1 + 1, ?_⟩
    intro gas hg n d rest _ hmin hrest
    obtain ⟨g, rfl⟩ : ∃ g, gas = g + 1 := ⟨gas - 1, by omega⟩
    simp only [serRounds, List.nil_append]
    cases n with
    | zero => exact ⟨0, by simp [seqLoop, pure, Except.pure]⟩
    | succ n =>
      cases rest with
      | nil => exact ⟨0, by simp [seqLoop, pure, Except.pure]⟩
      | cons x xs =>
        obtain ⟨v, c, hv⟩ := h1 g (by omega) x xs hrest
        have hd : decide (d ≥ smin) = true := by simpa using hmin
        refine ⟨c, ?_⟩
        simp only [seqLoop, hd, hv, bind, Except.bind]
        cases v with
        | none => simp [pure, Except.pure]
        | some r => simp [pure, Except.pure]
  | cons r rs ih =>
    intro hs
    have hs' : RepShape W q1 ty1 ps' rs := ⟨hs.more, hs.simple, fun x hx => hs.rounds_ok x (List.mem_cons_of_mem _ hx)⟩
    obtain ⟨hlen, hwr⟩ := hs.rounds_ok r (List.mem_cons_self ..)
    obtain ⟨g1, h1⟩ := ih hs'
    have hM := memberOK_of_WT m W hW
    obtain ⟨g2, h2⟩ := seqRound_full m _ hM (.elem q1 1 (.bounded 1) ty1 :: ps') r (by simpa using hlen) hwr
    refine ⟨g1 + g2 + 1, ?_⟩
    intro gas hg n d rest hn hmin hrest
    obtain ⟨g, rfl⟩ : ∃ g, gas = g + 1 := ⟨gas - 1, by omega⟩
    obtain ⟨n', rfl⟩ : ∃ n', n = n' + 1 := ⟨n - 1, by simp at hn; omega⟩
    -- what follows this round: the next round (starts with q1) or the rest
    have htail : HeadNotAny (lastNames (.elem q1 1 (.bounded 1) ty1 :: ps')) (serRounds (.elem q1 1 (.bounded 1) ty1 :: ps') rs ++ rest) := by
      intro nm hnm
      cases rs with
      | nil => simpa [serRounds] using hrest nm (lastNames_sub _ _ hnm)
      | cons r2 rs2 =>
        obtain ⟨_, hw2⟩ := hs.rounds_ok r2 (by simp)
        obtain ⟨y, ys, hy, hyn⟩ := round_starts m W hW q1 ty1 ps' r2 (serRounds (.elem q1 1 (.bounded 1) ty1 :: ps') rs2 ++ rest) hw2
        have : serRounds (.elem q1 1 (.bounded 1) ty1 :: ps') (r2 :: rs2) ++ rest = y :: ys := by
          simpa [serRounds, List.append_assoc] using hy
        rw [this]
        simp only [HeadNot, hyn]
        intro e
        exact q1_not_last _ q1 ty1 ps' r hs.more hwr (e ▸ hnm)
    obtain ⟨c, hc⟩ := h2 g (by omega) (decide (d ≥ smin)) (serList (.elem q1 1 (.bounded 1) ty1 :: ps') r ++
      (serRounds (.elem q1 1 (.bounded 1) ty1 :: ps') rs ++ rest)).length _ htail
    obtain ⟨c', hl⟩ := h1 g (by omega) n' (d + 1) rest (by simpa using hn) (by simp at hmin; omega) hrest
    obtain ⟨y, ys, hy, _⟩ := round_starts m W hW q1 ty1 ps' r (serRounds (.elem q1 1 (.bounded 1) ty1 :: ps') rs ++ rest) hwr
    refine ⟨c + c', ?_⟩
    have hser : serRounds (.elem q1 1 (.bounded 1) ty1 :: ps') (r :: rs) ++ rest =
        serList (.elem q1 1 (.bounded 1) ty1 :: ps') r ++ (serRounds (.elem q1 1 (.bounded 1) ty1 :: ps') rs ++ rest) := by
      simp [serRounds, List.append_assoc]
    rw [hser, hy]
    simp only [seqLoop]
    rw [← hy, hc]
    have hne : serList (.elem q1 1 (.bounded 1) ty1 :: ps') r ≠ [] := by
      obtain ⟨y', ys', hy', _⟩ := round_starts m W hW q1 ty1 ps' r [] hwr
      intro h
      rw [h] at hy'
      simp at hy'
    simp [bind, Except.bind, hne, hl, pure, Except.pure]

/-- **a repeated sequence as a member of a record** -/
theorem member_seq_repeated (m : Mode) (W : Ty → Item → Prop) (hW : ∀ ty it, W ty it → Dec m ty it)
    (q1 : QName) (ty1 : Ty) (ps' : List Particle) (smin : Nat) (smax : Occ) (rounds : List (List Inst))
    (hs : RepShape W q1 ty1 ps' rounds) (hmin : smin ≤ rounds.length) (hmax : rounds.length ≤ smax.limit) :
    MemberOK m (.seq (.elem q1 1 (.bounded 1) ty1 :: ps') smin smax) (.seqR rounds) := by
  constructor
  · intro n hn
    simp only [serInst]
    cases rounds with
    | nil => simp [serRounds, HeadNot]
    | cons r rs =>
      obtain ⟨_, hwr⟩ := hs.rounds_ok r (List.mem_cons_self ..)
      obtain ⟨y, ys, hy, hyn⟩ := round_starts m W hW q1 ty1 ps' r (serRounds (.elem q1 1 (.bounded 1) ty1 :: ps') rs) hwr
      simp only [serRounds, hy, HeadNot, hyn]
      intro e
      exact hn (by simp [mnames, lnames, e])
  · obtain ⟨g1, h1⟩ := seqLoop_rounds m W hW q1 ty1 ps' smin rounds hs
    refine ⟨g1 + 1, ?_⟩
    intro gas hg rest hrest
    obtain ⟨g, rfl⟩ : ∃ g, gas = g + 1 := ⟨gas - 1, by omega⟩
    obtain ⟨c, hc⟩ := h1 g (by omega) smax.limit 0 rest hmax (by omega) (by simpa [mnames] using hrest)
    exact ⟨c + 1, by simp [serInst, parseP, hc, bind, Except.bind, pure, Except.pure]⟩

/-! ### records whose members are elements, choices or repeated sequences -/

/-- a member is an element / choice member, or a repeated sequence of the covered shape -/
def WTMemberR (W : Ty → Item → Prop) (p : Particle) (i : Inst) : Prop :=
  WTMember W p i ∨
  ∃ q1 ty1 ps' smin smax rounds, p = .seq (.elem q1 1 (.bounded 1) ty1 :: ps') smin smax ∧ i = .seqR rounds ∧
    RepShape W q1 ty1 ps' rounds ∧ smin ≤ rounds.length ∧ rounds.length ≤ smax.limit

def WTItemR : Nat → Ty → Item → Prop
  | _, .simple, .leaf _ => True
  | d + 1, .complex (some (.seq ps _ (.bounded 1))) decls true, .complex attrs (some (.seqR [insts])) [] =>
      declaredAttrs decls attrs = attrs ∧ WTRoundG (WTMemberR (WTItemR d)) ps insts
  | _, _, _ => False

theorem memberOK_of_WTR (m : Mode) (W : Ty → Item → Prop) (hW : ∀ ty it, W ty it → Dec m ty it) :
    ∀ p i, WTMemberR W p i → MemberOK m p i := by
  intro p i h
  rcases h with h | ⟨q1, ty1, ps', smin, smax, rounds, rfl, rfl, hs, hmin, hmax⟩
  · exact memberOK_of_WT m W hW p i h
  · exact member_seq_repeated m W hW q1 ty1 ps' smin smax rounds hs hmin hmax

/-- **Records with element, choice and repeated-sequence members, nested to any depth, round-trip** —
both modes, `allow_none` on or off, any number of rounds, every sufficiently large step budget. -/
theorem c01_record_with_repeated_sequences_roundtrip (m : Mode) :
    ∀ (d : Nat) (ty : Ty) (it : Item), WTItemR d ty it → Dec m ty it := by
  intro d
  induction d with
  | zero =>
    intro ty it hw
    cases ty <;> cases it <;> simp [WTItemR] at hw
    refine ⟨fun q => rfl, 1, ?_⟩
    intro gas hg q a
    obtain ⟨g, rfl⟩ : ∃ g, gas = g + 1 := ⟨gas - 1, by omega⟩
    exact ⟨1, by simp [serItem, parseNode, Node.text, pure, Except.pure]⟩
  | succ d ih =>
    intro ty it hw
    cases ty with
    | simple =>
      cases it <;> simp [WTItemR] at hw
      refine ⟨fun q => rfl, 1, ?_⟩
      intro gas hg q a
      obtain ⟨g, rfl⟩ : ∃ g, gas = g + 1 := ⟨gas - 1, by omega⟩
      exact ⟨1, by simp [serItem, parseNode, Node.text, pure, Except.pure]⟩
    | complex content decls hasFields =>
      cases it with
      | complex attrs ci raw =>
        match content, hasFields, ci, raw, hw with
        | some (.seq ps smin (.bounded 1)), true, some (.seqR [insts]), [], hw =>
          simp only [WTItemR] at hw
          obtain ⟨hattrs, hround⟩ := hw
          exact dec_record_of_members m _ (memberOK_of_WTR m (WTItemR d) ih) ps insts smin decls attrs hattrs hround
      | _ => simp [WTItemR] at hw
    | _ => cases it <;> simp [WTItemR] at hw

theorem c01_record_with_repeated_sequences_roundtrip_root (m : Mode) (d : Nat) (ty : Ty) (it : Item) (q : QName)
    (hw : WTItemR d ty it) :
    ∃ g0, ∀ gas, g0 ≤ gas → ∃ calls, parseRoot gas m ty (serItem q ty it) = .ok ⟨it, [], calls⟩ := by
  obtain ⟨_, g0, h⟩ := c01_record_with_repeated_sequences_roundtrip m d ty it hw
  exact ⟨g0, fun gas hg => h gas hg q false⟩

/-! ### non-vacuity: `a, (k, v?, w+){0,∞}, z?` with two rounds (an absent optional inside the first) and a trailing sibling -/
private def el (n : String) (mn : Nat) (mx : Occ) : Particle := .elem ⟨none, n⟩ mn mx .simple
private def tyRep : Ty :=
  .complex (some (.seq [el "a" 1 (.bounded 1),
                        .seq [el "k" 1 (.bounded 1), el "v" 0 (.bounded 1), el "w" 1 .unbounded] 0 .unbounded,
                        el "z" 0 (.bounded 1)] 1 (.bounded 1))) [] true
private def lv (t : String) : Item := .leaf (some t)
private def roundsRep : List (List Inst) :=
  [[.elems [lv "k1"], .elems [], .elems [lv "w1", lv "w2"]], [.elems [lv "k2"], .elems [lv "v2"], .elems [lv "0"]]]
private def itRep : Item := .complex [] (some (.seqR [[.elems [lv "1"], .seqR roundsRep, .elems [lv ""]]])) []

example : WTItemR 1 tyRep itRep := by
  refine ⟨rfl, ?_⟩
  refine ⟨Or.inl ⟨by decide, by decide, fun it _ => ?_⟩, by simp [mnames, lnames, el], by simp, fun _ => ?_⟩
  · simp only [List.mem_singleton] at *; subst_vars; exact trivial
  refine ⟨Or.inr ⟨⟨none, "k"⟩, .simple, [el "v" 0 (.bounded 1), el "w" 1 .unbounded], 0, .unbounded, roundsRep, rfl, rfl, ?_, by decide, by decide⟩,
    by simp [mnames, lnames, el], by simp, fun _ => ?_⟩
  · refine ⟨by simp, by simp [SimpleMembers, el], ?_⟩
    intro r hr
    simp only [roundsRep, List.mem_cons, List.mem_nil_iff, or_false] at hr
    rcases hr with rfl | rfl <;>
      simp [WTRoundG, WTMember, WTItemR, lv, el, mnames, lnames, Occ.limit, serInst, serItems, serItem]
  · exact ⟨Or.inl ⟨by decide, by decide, fun it hit => by simp only [List.mem_singleton] at hit; subst hit; exact trivial⟩,
      by simp [mnames, lnames, el], by simp [serInst, serItems, el], by simp⟩

/-- …and it decodes back (evaluated), as does the same record with no round at all -/
example : (match parseRoot 100 .strict tyRep (serItem ⟨none, "root"⟩ tyRep itRep) with
    | .ok r => r.rest.isEmpty | .error _ => false) = true := by decide +kernel
example : (match parseRoot 100 .strict tyRep (serItem ⟨none, "root"⟩ tyRep (.complex [] (some (.seqR [[.elems [lv "1"], .seqR [], .elems [lv "z"]]])) [])) with
    | .ok ⟨.complex [] (some (.seqR [[.elems [.leaf (some "1")], .seqR [], .elems [.leaf (some "z")]]])) [], [], _⟩ => true
    | _ => false) = true := by decide +kernel

end Zeep.Xsd
