import ZeepProofs.C19Body
namespace Zeep.MultiRef
open Zeep

/-- **the Body as a whole, any main tree** - also one whose root is itself out-lined (a stub directly under the Body, as when the rpc
wrapper element is a reference): the copy that takes the stub's place stays (it carries the object's `id`), the objects go. -/
theorem c19_body_inverse_any (bt : QName) (ba : List (QName × String)) (bx : Option String)
    (o : O) (extra : List Node) (fuel : Nat)
    (hb : hrefTarget ba = none) (hroot : getAttr (wire o).attrs idAttr = none)
    (hn : NoHref o) (hfuel : height o + 1 ≤ fuel)
    (hne : extra ≠ [])
    (hex : ∀ k ∈ extra, ∃ i, getAttr k.attrs idAttr = some i ∧ i ∈ (objs o).map (·.1))
    (hl : ∀ e ∈ objs o, lookupT (tblOf (wire o :: extra)) e.1 = some e.2) :
    processMultiref fuel (.mk bt ba bx (wire o :: extra)) = .mk bt ba bx [inl o] := by
  obtain ⟨f, rfl⟩ : ∃ f, fuel = f + 1 := ⟨fuel - 1, by omega⟩
  have hf : height o ≤ f := by omega
  have htbl : (tblOf (wire o :: extra)).isEmpty = false := by
    cases extra with
    | nil => exact absurd rfl hne
    | cons k rest =>
      obtain ⟨i, hi, _⟩ := hex k (by simp)
      simp [tblOf, hroot, hi]
  have hmain := proc_wire (tblOf (wire o :: extra)) o f hf hl hn
  have hused := used_wire (tblOf (wire o :: extra)) o f hf hl hn
  unfold processMultiref
  simp only [htbl, Bool.false_eq_true, if_false]
  simp only [proc, hb, Option.bind_none, List.nil_append, List.map_cons, List.flatten_cons, List.zip_cons_cons,
    List.filterMap_cons]
  simp only [attrs_mk, kids_mk, tag_mk, text_mk, List.zip_cons_cons, List.filterMap_cons, hroot, hmain]
  congr 1
  congr 1
  rw [List.map_map]
  apply zip_filterMap_drop
  intro k hk
  obtain ⟨i, hi, hmem⟩ := hex k hk
  refine ⟨i, hi, ?_⟩
  simp only [List.mem_map] at hmem
  obtain ⟨e, he, rfl⟩ := hmem
  simp only [List.contains_eq_mem, List.mem_append, decide_eq_true_eq]
  left
  exact hused e he

/-- a stub never carries an `id` of its own -/
theorem wire_out_no_id (i : List Char) (t : QName) (a : List (QName × String)) (x : Option String) (ks : List O) :
    getAttr (wire (.out i t a x ks)).attrs idAttr = none := by
  simp [wire, getAttr, Node.attrs, hrefAttr, idAttr]

/-- non-vacuity: the rpc wrapper itself is a reference -/
example :
    let o : O := .out ['w'] ⟨some "urn:rpc", "getResponse"⟩ [] none [.node ⟨none, "result"⟩ [] (some "r") []]
    let extra : List Node := [.mk ⟨none, "multiRef"⟩ [(idAttr, "w")] none [.mk ⟨none, "result"⟩ [] (some "r") []]]
    getAttr (wire o).attrs idAttr = none ∧ extra ≠ [] ∧ NoHref o ∧
    (∀ k ∈ extra, ∃ i, getAttr k.attrs idAttr = some i ∧ i ∈ (objs o).map (·.1)) ∧
    (∀ e ∈ objs o, lookupT (tblOf (wire o :: extra)) e.1 = some e.2) := by
  refine ⟨by simp [wire, getAttr, Node.attrs, hrefAttr, idAttr], by simp, by simp [NoHref, NoHrefL, getAttr], ?_, ?_⟩
  · intro k hk
    simp at hk
    subst hk
    simp [getAttr, objs, objsL, Node.attrs, idAttr]
  · intro e he
    simp [objs, objsL, wireL] at he
    subst he
    rfl

end Zeep.MultiRef
