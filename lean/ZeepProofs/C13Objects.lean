import ZeepModel.Settings
/-!
# C13 — several Settings objects in one process

Every client, every loaded schema and every transport owns a `Settings` object; `self._tls` is a `threading.local` created per object
(`attr.Factory(threading.local)`).  The model of one object is `MState`; a process is a family of them.  The theorem says that what
one object answers, and the state it ends in, depend only on the events addressed to *that* object — an override block entered on
another client's settings is invisible to it, whatever the interleaving.
-/
namespace Zeep.Settings

theorem upd_same {β : Type} (f : Nat → β) (a : Nat) (b : β) : upd f a b a = b := by simp [upd]
theorem upd_other {β : Type} (f : Nat → β) (a c : Nat) (b : β) (h : c ≠ a) : upd f a b c = f c := by simp [upd, h]

/-- **object locality.**  In any interleaved history over any number of Settings objects, the final state of object `o` and the
sequence of values it answered are those of running only the events addressed to `o` on `o`'s own initial state. -/
theorem c13_object_local (o : Obj) (h : List OEvent) : ∀ w : World,
    (wrun w h).1 o = (mrun (w o) (eventsOf o h)).1 ∧
    outputsOf o (wrun w h).2 = (mrun (w o) (eventsOf o h)).2 := by
  induction h with
  | nil => intro w; simp [wrun, eventsOf, outputsOf, mrun]
  | cons oe h ih =>
    intro w
    obtain ⟨o', e⟩ := oe
    by_cases ho : o' = o
    · subst ho
      have := ih (upd w o' (mstep (w o') e).1)
      simp only [upd_same] at this
      simp only [wrun, wstep, eventsOf, outputsOf, List.filter_cons, beq_self_eq_true, if_true, List.map_cons, mrun]
      simp only [eventsOf, outputsOf] at this
      exact ⟨this.1, by rw [this.2]⟩
    · have hb : (o' == o) = false := by simp [ho]
      have := ih (upd w o' (mstep (w o') e).1)
      rw [upd_other _ _ _ _ (Ne.symm ho)] at this
      simp only [wrun, wstep, eventsOf, outputsOf, List.filter_cons, hb, Bool.false_eq_true, if_false]
      simpa [eventsOf, outputsOf] using this

/-- corollary, the form a caller relies on: a read on object `o` by thread `t` right after any history in which NO event was addressed
to `o` returns `o`'s own value - whatever blocks are open on other objects, by the same thread or others -/
theorem c13_foreign_blocks_invisible (o : Obj) (h : List OEvent) (w : World) (t : Thread) (k : Opt)
    (hforeign : ∀ oe ∈ h, oe.1 ≠ o) :
    mread ((wrun w h).1 o) t k = mread (w o) t k := by
  have hnil : eventsOf o h = [] := by
    simp only [eventsOf, List.map_eq_nil_iff, List.filter_eq_nil_iff]
    intro oe hoe
    simpa using hforeign oe hoe
  rw [(c13_object_local o h w).1, hnil]
  rfl

/-- non-vacuity: thread 0 opens a block on object 1 setting option 3 to 9; a read of option 3 on object 2 by the same thread inside
the block still gives object 2's own value 5, a read on object 1 gives 9 -/
example :
    let w : World := fun _ => MState.init (fun _ => 5)
    let h : List OEvent := [(1, ⟨0, .push⟩), (1, ⟨0, .setKey 3 9⟩), (2, ⟨0, .read 3⟩), (1, ⟨0, .read 3⟩)]
    (wrun w h).2 = [(1, none), (1, none), (2, some 5), (1, some 9)] := by decide

end Zeep.Settings
