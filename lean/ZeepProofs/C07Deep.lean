import ZeepProofs.C07
import ZeepProofs.Lemmas.Account
/-!
# C07 at full strength for wildcard-free content models

`c07_stranger_flat` (C07.lean) covers flat sequences.  Here, for **every** content model built from
element declarations, sequences, choices and groups in any nesting with any occurrence bounds — and
`xsd:all` at the top of a content model, where XSD allows it — and for a stranger at **any depth**:

* `c07_strict_rejects_stranger_any_depth`: strict decoding never succeeds on a document that has,
  anywhere below an element of such a type, a child that no declaration of the enclosing content
  model can account for (`HasStranger`).  The witness may sit at any position among its siblings and
  at any nesting depth; at each level on the path down to it the enclosing child may match several
  declarations (same local name) — every one of them must lead to the stranger.
* `c07_lax_keeps_stranger`: in non-strict mode a child whose local name is declared nowhere in the
  content model is among the raw elements of its parent.
* `c07_header_entries_kept`: under `consume_other` (SOAP header parsing) an entry that is not a
  declared header part is kept among the raw elements, in both modes, at whatever position.
* `c07_all_surplus_kept`: a node an `xsd:all` member does not consume (an occurrence beyond its
  maxOccurs) is handed back, not dropped (fix F31).

Outside these theorems, by construction of `HasStranger`: parents whose type has no element content
(K1), names that differ in the namespace only (K16 — strangers are judged by local name, as the
decoder does), wildcards (an `xsd:any` accepts strangers by definition).
-/
namespace Zeep.Xsd
open Zeep

/-- content models the theorems cover: `xsd:all` (not in header mode) at the top, otherwise wildcard- and all-free -/
def TopRegular : Particle → Bool
  | .all _ co => !co
  | p => Regular p

/-- at the top of a content model: every child is decoded by a declaration of the model or left in the deque -/
theorem acct_top (gas : Nat) (m : Mode) (p : Particle) (xs : List Node) (r : Out Inst) (hreg : TopRegular p = true)
    (h : parseP gas m p xs = .ok r) : ∀ s ∈ xs, s ∈ r.rest ∨ DecodedBy m gas (levelElems p) s := by
  intro s hs
  cases p with
  | all ps co =>
    have hco : co = false := by simpa [TopRegular] using hreg
    subst hco
    simpa [levelElems] using acct_parseP_all gas m ps false xs r h s hs
  | elem q mn mx ty =>
    obtain ⟨taken, ht, hall⟩ := (acct gas).parseP m _ xs r (by simp [Regular]) h
    rw [ht] at hs
    rcases List.mem_append.mp hs with h1 | h1
    · exact Or.inr (hall s h1)
    · exact Or.inl h1
  | any mn mx => simp [TopRegular, Regular] at hreg
  | seq ps mn mx =>
    obtain ⟨taken, ht, hall⟩ := (acct gas).parseP m _ xs r (by simpa [TopRegular] using hreg) h
    rw [ht] at hs
    rcases List.mem_append.mp hs with h1 | h1
    · exact Or.inr (hall s h1)
    · exact Or.inl h1
  | choice ps mn mx =>
    obtain ⟨taken, ht, hall⟩ := (acct gas).parseP m _ xs r (by simpa [TopRegular] using hreg) h
    rw [ht] at hs
    rcases List.mem_append.mp hs with h1 | h1
    · exact Or.inr (hall s h1)
    · exact Or.inl h1
  | group p' mn mx =>
    obtain ⟨taken, ht, hall⟩ := (acct gas).parseP m _ xs r (by simpa [TopRegular] using hreg) h
    rw [ht] at hs
    rcases List.mem_append.mp hs with h1 | h1
    · exact Or.inr (hall s h1)
    · exact Or.inl h1

/-- `x`, decoded against `ty`, has somewhere below it a child nothing can account for: a child `k`
of `x` such that every declaration of `x`'s content model that carries `k`'s local name (possibly
none: then `k` itself is the stranger) again has such a child below `k`. -/
inductive HasStranger : Ty → Node → Prop
  | node (p : Particle) (decls : List AttrDecl) (x k : Node) :
      TopRegular p = true → k ∈ x.kids →
      (∀ q ty, (q, ty) ∈ levelElems p → q.name = k.tag.name → HasStranger ty k) →
      HasStranger (.complex (some p) decls true) x

/-- **Strict mode rejects a stranger at any depth, under any wildcard-free content model.** -/
theorem c07_strict_rejects_stranger_any_depth (ty : Ty) (x : Node) (hs : HasStranger ty x) :
    ∀ (gas : Nat) (allowNone : Bool) (r : Out Item), parseNode gas .strict allowNone ty x ≠ .ok r := by
  induction hs with
  | node p decls x k htop hk _ ih =>
    intro gas allowNone r h
    cases gas with
    | zero => simp [parseNode] at h
    | succ gas =>
      have hkids : x.kids.isEmpty = false := by
        cases hx : x.kids with
        | nil => rw [hx] at hk; simp at hk
        | cons a t => rfl
      simp only [parseNode, Bool.not_true, Bool.false_eq_true, if_false, hkids, Bool.and_false, Bool.false_and] at h
      split at h
      · cases h
      · cases h
      · rename_i r0 hr0
        split at h
        · rename_i hemp
          rcases acct_top gas .strict p x.kids r0 htop hr0 k hk with h1 | h1
          · rw [List.isEmpty_iff.mp hemp] at h1; simp at h1
          · obtain ⟨q, ty', g, a, r', _, hmem, hname, hp⟩ := h1
            exact ih q ty' hmem hname.symm g a r' hp
        · simp at h

/-- the plain stranger: a child whose local name is declared nowhere in the content model -/
theorem hasStranger_of_undeclared (p : Particle) (decls : List AttrDecl) (x s : Node) (htop : TopRegular p = true)
    (hs : s ∈ x.kids) (hstr : ∀ q ty, (q, ty) ∈ levelElems p → q.name ≠ s.tag.name) :
    HasStranger (.complex (some p) decls true) x :=
  .node p decls x s htop hs (fun q ty hm hn => absurd hn (hstr q ty hm))

/-- corollary: an undeclared child, at any position, under any wildcard-free content model: strict decoding fails -/
theorem c07_strict_rejects_undeclared_child (p : Particle) (decls : List AttrDecl) (x s : Node) (htop : TopRegular p = true)
    (hs : s ∈ x.kids) (hstr : ∀ q ty, (q, ty) ∈ levelElems p → q.name ≠ s.tag.name)
    (gas : Nat) (allowNone : Bool) (r : Out Item) :
    parseNode gas .strict allowNone (.complex (some p) decls true) x ≠ .ok r :=
  c07_strict_rejects_stranger_any_depth _ _ (hasStranger_of_undeclared p decls x s htop hs hstr) gas allowNone r

/-- **Non-strict mode keeps the stranger**: under any wildcard-free content model a child declared
nowhere in it is among the raw elements of its parent, at whatever position it stood. -/
theorem c07_lax_keeps_stranger (p : Particle) (decls : List AttrDecl) (x s : Node) (htop : TopRegular p = true)
    (hs : s ∈ x.kids) (hstr : ∀ q ty, (q, ty) ∈ levelElems p → q.name ≠ s.tag.name)
    (gas : Nat) (allowNone : Bool) (r : Out Item)
    (h : parseNode gas .lax allowNone (.complex (some p) decls true) x = .ok r) :
    ∃ attrs c raw, r.val = .complex attrs c raw ∧ s ∈ raw := by
  cases gas with
  | zero => simp [parseNode] at h
  | succ gas =>
    have hkids : x.kids.isEmpty = false := by
      cases hx : x.kids with
      | nil => rw [hx] at hs; simp at hs
      | cons a t => rfl
    simp only [parseNode, Bool.not_true, Bool.false_eq_true, if_false, hkids, Bool.and_false, Bool.false_and] at h
    split at h
    · cases h
    · cases h
    · rename_i r0 hr0
      have hin : s ∈ r0.rest := by
        rcases acct_top gas .lax p x.kids r0 htop hr0 s hs with h1 | h1
        · exact h1
        · obtain ⟨q, ty', _, _, _, _, hmem, hname, _⟩ := h1
          exact absurd hname.symm (hstr q ty' hmem)
      have hne : r0.rest.isEmpty = false := by
        cases hr : r0.rest with
        | nil => rw [hr] at hin; simp at hin
        | cons a t => rfl
      simp only [hne, Bool.false_eq_true, if_false] at h
      split at h
      · rename_i hm; simp at hm
      · simp only [pure_eq_ok] at h; subst h
        exact ⟨_, _, _, rfl, hin⟩

/-- **Unknown SOAP header entries are always kept**: with `consume_other` every node that is not
decoded by a declared member is among the raw elements — both modes, any position, any number. -/
theorem c07_header_entries_kept (gas : Nat) (m : Mode) (ps : List Particle) (xs : List Node) (r : Out Inst)
    (h : parseP gas m (.all ps true) xs = .ok r) (s : Node) (hs : s ∈ xs)
    (hstr : ∀ q ty, (q, ty) ∈ levelElemsL ps → q.name ≠ s.tag.name) :
    s ∈ rawOfInst r.val ∧ r.rest = [] := by
  constructor
  · rcases acct_parseP_all gas m ps true xs r h s hs with h1 | h1
    · simpa using h1
    · obtain ⟨q, ty', _, _, _, _, hmem, hname, _⟩ := h1
      exact absurd hname.symm (hstr q ty' hmem)
  · cases gas with
    | zero => simp [parseP] at h
    | succ gas =>
      simp only [parseP] at h
      obtain ⟨r', _, h⟩ := bind_ok _ _ _ h
      simp only [if_true, pure_eq_ok] at h; subst h; rfl

/-- **`xsd:all` drops nothing** (fix F31): every child is decoded by a member or handed back to the
deque — in particular an occurrence beyond a member's maxOccurs, which the member does not decode. -/
theorem c07_all_surplus_kept (gas : Nat) (m : Mode) (ps : List Particle) (xs : List Node) (r : Out Inst)
    (h : parseP gas m (.all ps false) xs = .ok r) (s : Node) (hs : s ∈ xs) :
    s ∈ r.rest ∨ DecodedBy m gas (levelElemsL ps) s := by
  simpa using acct_parseP_all gas m ps false xs r h s hs

/-! ### non-vacuity -/

private def leafT : Ty := .simple
private def innerT : Ty :=
  .complex (some (.seq [.elem ⟨none, "p"⟩ 1 (.bounded 1) leafT,
                        .choice [.elem ⟨none, "u"⟩ 1 (.bounded 1) leafT,
                                 .group (.seq [.elem ⟨none, "v"⟩ 1 (.bounded 1) leafT, .elem ⟨none, "w"⟩ 0 .unbounded leafT] 1 (.bounded 1)) 1 (.bounded 1)]
                          0 (.bounded 3)] 1 (.bounded 1))) [] true
private def outerT : Ty :=
  .complex (some (.seq [.elem ⟨none, "a"⟩ 1 (.bounded 1) leafT, .elem ⟨none, "b"⟩ 0 (.bounded 2) innerT] 1 (.bounded 1))) [] true
private def lf (n t : String) : Node := .mk ⟨none, n⟩ [] (some t) []
private def strangerDoc : Node :=
  .mk ⟨none, "root"⟩ [] none [lf "a" "1",
    .mk ⟨none, "b"⟩ [] none [lf "p" "2", lf "v" "3", lf "w" "4", lf "X" "stranger", lf "u" "5"]]

/-- a stranger two levels down, between the rounds of a repeated choice whose branch is a group -/
example : HasStranger outerT strangerDoc := by
  refine .node _ _ _ (.mk ⟨none, "b"⟩ [] none [lf "p" "2", lf "v" "3", lf "w" "4", lf "X" "stranger", lf "u" "5"]) (by decide) (by simp [strangerDoc, Node.kids]) ?_
  intro q ty hm hn
  simp [levelElems, levelElemsL, outerT] at hm
  rcases hm with ⟨rfl, rfl⟩ | ⟨rfl, rfl⟩
  · simp [Node.tag] at hn
  · refine hasStranger_of_undeclared _ _ _ (lf "X" "stranger") (by decide) (by simp [Node.kids, lf]) ?_
    intro q ty hm
    simp [levelElems, levelElemsL, innerT] at hm
    rcases hm with ⟨rfl, _⟩ | ⟨rfl, _⟩ | ⟨rfl, _⟩ | ⟨rfl, _⟩ <;> simp [lf, Node.tag]

/-- …and the model does reject it (evaluated), while the same document without the stranger decodes -/
example : (match parseRoot 60 .strict outerT strangerDoc with | .error .xmlParse => true | _ => false) = true := by decide +kernel
example : (match parseRoot 60 .strict outerT (.mk ⟨none, "root"⟩ [] none [lf "a" "1",
    .mk ⟨none, "b"⟩ [] none [lf "p" "2", lf "v" "3", lf "w" "4", lf "u" "5"]]) with | .ok _ => true | _ => false) = true := by decide +kernel

end Zeep.Xsd
