import ZeepModel.Wsdl.Load
/-!
# C09 — WSDL loading is complete and independent of declaration order and file split

Proved here, about the resolution function that exposes services / ports / bindings / operations:
* order independence: permuting the sibling declarations of any document (unique names) does not
  change what any name resolves to;
* soundness: whatever resolves is a declaration of some document of the file system;
* completeness for the root and for directly imported documents;
* termination: `get` is a total function (Lean's termination checker accepts it): cyclic import
  graphs included.
What is *not* proved: completeness across arbitrary chains of imports (an instance: `c09_chain_same_namespace`)
and parse-time lookups inside import cycles (known finding K4) — carried by the tie.
-/
namespace Zeep.Wsdl

/-! ### order independence -/

def UniqueKeys (d : Doc) : Prop := (d.decls.filterMap declKey).Nodup

theorem find_perm {α : Type} (p : α → Bool) (l l' : List α) (hp : l.Perm l')
    (huniq : ∀ a ∈ l, ∀ b ∈ l, p a = true → p b = true → a = b) : l.find? p = l'.find? p := by
  induction hp with
  | nil => rfl
  | cons x _ ih =>
    simp only [List.find?_cons]
    split
    · rfl
    · exact ih (fun a ha b hb => huniq a (List.mem_cons_of_mem _ ha) b (List.mem_cons_of_mem _ hb))
  | swap x y l =>
    simp only [List.find?_cons]
    by_cases hx : p x = true <;> by_cases hy : p y = true <;> simp [hx, hy]
    exact (huniq y (by simp) x (by simp) hy hx)
  | trans h1 h2 ih1 ih2 =>
    rw [ih1 huniq]
    apply ih2
    intro a ha b hb
    exact huniq a (h1.mem_iff.mpr ha) b (h1.mem_iff.mpr hb)

theorem key_unique (d : Doc) (hu : UniqueKeys d) (k : Kind) (n : Name) :
    ∀ a ∈ d.decls, ∀ b ∈ d.decls, (declKey a == some (k, n)) = true → (declKey b == some (k, n)) = true → a = b := by
  intro a ha b hb hka hkb
  simp only [beq_iff_eq] at hka hkb
  unfold UniqueKeys at hu
  generalize d.decls = l at *
  induction l with
  | nil => simp at ha
  | cons x xs ih =>
    simp only [List.mem_cons] at ha hb
    simp only [List.filterMap_cons] at hu
    rcases ha with rfl | ha <;> rcases hb with rfl | hb
    · rfl
    · rw [hka] at hu
      simp only [List.nodup_cons] at hu
      exact absurd (List.mem_filterMap.mpr ⟨b, hb, hkb⟩) hu.1
    · rw [hkb] at hu
      simp only [List.nodup_cons] at hu
      exact absurd (List.mem_filterMap.mpr ⟨a, ha, hka⟩) hu.1
    · apply ih _ ha hb
      cases hx : declKey x with
      | none => simpa [hx] using hu
      | some v => rw [hx] at hu; simp only [List.nodup_cons] at hu; exact hu.2

/-- **Order inside a document.**  With unique names, any permutation of the sibling declarations
gives every container lookup the same answer. -/
theorem c09_own_order (d d' : Doc) (hu : UniqueKeys d) (hp : d.decls.Perm d'.decls) (k : Kind) (n : Name) :
    own d k n = own d' k n :=
  find_perm _ _ _ hp (key_unique d hu k n)

/-- two file systems whose documents agree on namespace, imports and every container lookup -/
def SameLookups (fs fs' : FS) : Prop :=
  ∀ l, match fsGet fs l, fsGet fs' l with
    | none, none => True
    | some d, some d' => d.tns = d'.tns ∧ d.imports = d'.imports ∧ ∀ k n, own d k n = own d' k n
    | _, _ => False

theorem get_same (fs fs' : FS) (h : SameLookups fs fs') (k : Kind) (n : Name) :
    ∀ fuel processed loc, get fs k n fuel processed loc = get fs' k n fuel processed loc := by
  intro fuel
  induction fuel with
  | zero => intro p l; rfl
  | succ fuel ih =>
    intro processed loc
    have hl := h loc
    simp only [get]
    cases h1 : fsGet fs loc with
    | none =>
      cases h2 : fsGet fs' loc with
      | none => rfl
      | some d' => simp [h1, h2] at hl
    | some d =>
      cases h2 : fsGet fs' loc with
      | none => simp [h1, h2] at hl
      | some d' =>
        simp only [h1, h2] at hl
        obtain ⟨ht, hi, ho⟩ := hl
        simp only [ho k n, ht, hi]
        cases own d' k n with
        | some x => rfl
        | none =>
          simp only []
          split
          · rfl
          · congr 1
            funext acc imp
            cases acc.1 <;> simp [ih]

/-- **Order independence of resolution**: permuted documents (and any other rewrite that keeps the
container lookups) resolve every name to the same declaration, through any import graph. -/
theorem c09_lookup_order (fs fs' : FS) (h : SameLookups fs fs') (hlen : fs.length = fs'.length)
    (root : Loc) (k : Kind) (n : Name) : lookup fs root k n = lookup fs' root k n := by
  simp only [lookup, hlen, get_same fs fs' h k n]

/-! ### soundness: nothing is invented -/

theorem get_sound (fs : FS) (k : Kind) (n : Name) :
    ∀ fuel processed loc x, (get fs k n fuel processed loc).1 = some x →
      ∃ d, fsGet fs x.2 = some d ∧ own d k n = some x.1 := by
  intro fuel
  induction fuel with
  | zero => intro p l x h; simp [get] at h
  | succ fuel ih =>
    intro processed loc x h
    simp only [get] at h
    cases h1 : fsGet fs loc with
    | none => simp [h1] at h
    | some d =>
      simp only [h1] at h
      cases h2 : own d k n with
      | some y => simp [h2] at h; subst h; exact ⟨d, h1, h2⟩
      | none =>
        simp only [h2] at h
        split at h
        · simp at h
        · -- fold over the imports: invariant "if something is found it is declared somewhere"
          have key : ∀ (imps : List Loc) (acc : Option (Decl × Loc) × List Loc),
              (∀ y, acc.1 = some y → ∃ d, fsGet fs y.2 = some d ∧ own d k n = some y.1) →
              ∀ y, (imps.foldl (fun (acc : Option (Decl × Loc) × List Loc) imp =>
                match acc.1 with
                | some x => (some x, acc.2)
                | none => get fs k n fuel acc.2 imp) acc).1 = some y →
                ∃ d, fsGet fs y.2 = some d ∧ own d k n = some y.1 := by
            intro imps
            induction imps with
            | nil => intro acc hacc y hy; exact hacc y hy
            | cons i is ihf =>
              intro acc hacc y hy
              simp only [List.foldl_cons] at hy
              apply ihf _ _ y hy
              intro z hz
              cases ha : acc.1 with
              | some w => simp only [ha] at hz; exact hacc z (by rw [ha]; exact hz)
              | none => simp only [ha] at hz; exact ih _ _ z hz
          exact key d.imports _ (by intro y hy; simp at hy) x h

/-- **Soundness**: every binding / portType / message a port or operation resolves to is a
declaration of some document of the file system. -/
theorem c09_sound (fs : FS) (root : Loc) (k : Kind) (n : Name) (x : Decl) (l : Loc)
    (h : lookup fs root k n = some (x, l)) : ∃ d, fsGet fs l = some d ∧ own d k n = some x :=
  get_sound fs k n _ _ _ (x, l) h

/-- **Completeness for the root document**: what the root declares always resolves -/
theorem c09_complete_root (fs : FS) (root : Loc) (d : Doc) (k : Kind) (n : Name) (x : Decl)
    (hd : fsGet fs root = some d) (ho : own d k n = some x) : lookup fs root k n = some (x, root) := by
  simp [lookup, get, hd, ho]

/-- **Termination**: the resolver is a total function on every file system — import cycles
(A → B → A, A → B → C → A) included; this instance is such a cycle. -/
theorem c09_terminates_on_cycles :
    let a : Doc := ⟨"urn:a", ["b.wsdl"], [.message ("urn:a", "m") []]⟩
    let b : Doc := ⟨"urn:b", ["a.wsdl"], []⟩
    lookup [("a.wsdl", a), ("b.wsdl", b)] "b.wsdl" .message ("urn:a", "m") = some (.message ("urn:a", "m") [], "a.wsdl") ∧
    lookup [("a.wsdl", a), ("b.wsdl", b)] "b.wsdl" .message ("urn:a", "zzz") = none := by decide

/-- a chain of imports inside one namespace (root → A → C) is searched to the end (this was the
defect repaired by the per-definition guard: the per-namespace guard stopped at A) -/
theorem c09_chain_same_namespace :
    let root : Doc := ⟨"urn:t", ["a.wsdl"], []⟩
    let a : Doc := ⟨"urn:t", ["c.wsdl"], []⟩
    let c : Doc := ⟨"urn:t", [], [.message ("urn:t", "m") []]⟩
    lookup [("root.wsdl", root), ("a.wsdl", a), ("c.wsdl", c)] "root.wsdl" .message ("urn:t", "m")
      = some (.message ("urn:t", "m") [], "c.wsdl") := by
  decide

end Zeep.Wsdl
