import ZeepModel.Soap.Unwrap
/-!
# C05 — a call returns exactly the payload the server sent (the convenience rule)
-/
namespace Zeep.Unwrap

/-- a well-formed value object of a type with one child and no attribute has exactly that one field -/
def WF : V → Prop
  | .obj 1 0 fields => fields.length = 1
  | _ => True

/-- **The rule.**  What the code computes is the rule of the statement, for every header / body
value (sole fields that are objects being well-formed value objects). -/
theorem c05_rule (outHeaders : Bool) (header body : V)
    (hwf : ∀ c a n v, body = .obj c a [(n, v)] → WF v) :
    unwrap outHeaders header body = specUnwrap outHeaders header body := by
  unfold unwrap specUnwrap
  cases outHeaders with
  | true => rfl
  | false =>
    simp only [Bool.false_eq_true, if_false]
    cases body with
    | none => rfl
    | prim t => rfl
    | list l => rfl
    | obj c a fields =>
      cases fields with
      | nil => rfl
      | cons f rest =>
        cases rest with
        | cons g rest' => simp
        | nil =>
          obtain ⟨n, v⟩ := f
          have hv := hwf c a n v rfl
          simp only [List.length_cons, List.length_nil, Nat.zero_add, Nat.one_ne_zero, if_false,
            Nat.lt_irrefl, List.head?_cons]
          cases v with
          | none => rfl
          | prim t => rfl
          | list l => rfl
          | obj c' a' inner =>
            by_cases h1 : c' = 1 ∧ a' = 0
            · obtain ⟨rfl, rfl⟩ := h1
              simp only [WF] at hv
              cases inner with
              | nil => simp at hv
              | cons x xs =>
                cases xs with
                | nil => obtain ⟨m, y⟩ := x; rfl
                | cons _ _ => simp at hv
            · have : ¬ (c' = 1 ∧ a' = 0) := h1
              cases c' with
              | zero => rfl
              | succ k =>
                cases k with
                | zero =>
                  cases a' with
                  | zero => exact absurd ⟨rfl, rfl⟩ this
                  | succ _ => rfl
                | succ _ => rfl

/-- several fields: the whole output object -/
theorem c05_several (header : V) (c a : Nat) (f g : String × V) (rest : List (String × V)) :
    unwrap false header (.obj c a (f :: g :: rest)) = .value (.obj c a (f :: g :: rest)) := by
  simp [unwrap]

/-- no field: None -/
theorem c05_none (header : V) (c a : Nat) : unwrap false header (.obj c a []) = .value .none := rfl

/-- output headers declared: always the header/body pair, whatever the reply carried -/
theorem c05_headers (header body : V) : unwrap true header body = .pair header body := rfl

/-- raw-response mode: the transport's response object, untouched -/
theorem c05_raw (outHeaders : Bool) (header body : V) : send true outHeaders header body = .rawResponse := rfl

example : (match unwrap false .none (.obj 1 0 [("r", .obj 1 0 [("v", .prim "x")])]) with
    | .value (.prim "x") => true | _ => false) = true := by decide

end Zeep.Unwrap
