import ZeepProofs.C01Repeat
/-!
# C01 — round trip for records whose content model is `xsd:all`

A complex type whose content is `xsd:all` over element declarations with pairwise distinct expanded
names (any occurrence bounds the decoder supports, leaf or record typed).  The reference
serialisation writes the members in declaration order; the decoder (`All.parse_xmlelements`) sorts
the children into one queue per tag and lets every member consume its own queue.  Proved: decoding
the serialisation returns exactly the instance — one entry per member, an absent member as the empty
list — and leaves nothing in the queues.
-/
namespace Zeep.Xsd
open Zeep

/-- well-formed `xsd:all` content: one instance per member, bounds respected, tags pairwise distinct -/
def WTAll (W : Ty → Item → Prop) : List Particle → List Inst → Prop
  | [], [] => True
  | .elem q min max ty :: ps, .elems items :: is =>
      min ≤ items.length ∧ items.length ≤ max.limit ∧ (∀ it ∈ items, W ty it) ∧ q ∉ memberTags ps ∧ WTAll W ps is
  | _, _ => False

/-- what the queues must look like for the remaining members -/
def PoolOK : List Particle → List Inst → List Node → Prop
  | [], [], _ => True
  | .elem q _ _ ty :: ps, .elems items :: is, pool =>
      (pool.filter fun x => x.tag == q) = serItems q ty items ∧ PoolOK ps is (pool.filter fun x => !(x.tag == q))
  | _, _, _ => False

theorem tags_serList_all (m : Mode) (W : Ty → Item → Prop) (hW : ∀ ty it, W ty it → Dec m ty it) :
    ∀ (ps : List Particle) (is : List Inst), WTAll W ps is → ∀ x ∈ serList ps is, x.tag ∈ memberTags ps := by
  intro ps
  induction ps with
  | nil => intro is _ x hx; cases is <;> simp [serList] at hx
  | cons p ps ih =>
    intro is hw x hx
    cases p with
    | elem q mn mx ty =>
      cases is with
      | nil => simp [WTAll] at hw
      | cons i is =>
        cases i with
        | elems items =>
          obtain ⟨_, _, hit, _, hrest⟩ := hw
          simp only [serList, serInst, List.mem_append] at hx
          rcases hx with hx | hx
          · have := tag_serItems q ty items m (fun it h => hW ty it (hit it h)) x hx
            simp [memberTags, this]
          · simp [memberTags, ih is hrest x hx]
        | _ => simp [WTAll] at hw
    | _ => cases is <;> simp [WTAll] at hw

theorem filter_eq_nil_of_tags {q : QName} {l : List Node} (h : ∀ x ∈ l, x.tag ≠ q) : (l.filter fun x => x.tag == q) = [] := by
  apply List.filter_eq_nil_iff.mpr
  intro x hx
  simpa using h x hx

theorem filter_ne_self_of_tags {q : QName} {l : List Node} (h : ∀ x ∈ l, x.tag ≠ q) : (l.filter fun x => !(x.tag == q)) = l := by
  apply List.filter_eq_self.mpr
  intro x hx
  simpa using h x hx

theorem filter_eq_self_of_tags {q : QName} {l : List Node} (h : ∀ x ∈ l, x.tag = q) : (l.filter fun x => x.tag == q) = l := by
  apply List.filter_eq_self.mpr
  intro x hx
  simpa using h x hx

theorem filter_ne_nil_of_tags {q : QName} {l : List Node} (h : ∀ x ∈ l, x.tag = q) : (l.filter fun x => !(x.tag == q)) = [] := by
  apply List.filter_eq_nil_iff.mpr
  intro x hx
  simp [h x hx]

/-- the serialisation of well-formed content is a pool the members can work through -/
theorem poolOK_serList (m : Mode) (W : Ty → Item → Prop) (hW : ∀ ty it, W ty it → Dec m ty it) :
    ∀ (ps : List Particle) (is : List Inst), WTAll W ps is → PoolOK ps is (serList ps is) := by
  intro ps
  induction ps with
  | nil => intro is hw; cases is <;> simp_all [WTAll, PoolOK]
  | cons p ps ih =>
    intro is hw
    cases p with
    | elem q mn mx ty =>
      cases is with
      | nil => simp [WTAll] at hw
      | cons i is =>
        cases i with
        | elems items =>
          obtain ⟨_, _, hit, hq, hrest⟩ := hw
          have hmine : ∀ x ∈ serItems q ty items, x.tag = q := tag_serItems q ty items m (fun it h => hW ty it (hit it h))
          have hother : ∀ x ∈ serList ps is, x.tag ≠ q := by
            intro x hx e
            exact hq (e ▸ tags_serList_all m W hW ps is hrest x hx)
          simp only [PoolOK, serList, serInst, List.filter_append]
          refine ⟨by rw [filter_eq_self_of_tags hmine, filter_eq_nil_of_tags hother]; simp, ?_⟩
          rw [filter_ne_nil_of_tags hmine, filter_ne_self_of_tags hother]
          simpa using ih is hrest
        | _ => simp [WTAll] at hw
    | _ => cases is <;> simp [WTAll] at hw

/-- the members work through a pool that holds exactly their queues -/
theorem allMembers_pool (m : Mode) (W : Ty → Item → Prop) (hW : ∀ ty it, W ty it → Dec m ty it) :
    ∀ (ps : List Particle) (is : List Inst), WTAll W ps is →
      ∃ g0, ∀ gas, g0 ≤ gas → ∀ pool : List Node, PoolOK ps is pool → (∀ x ∈ pool, x.tag ∈ memberTags ps) →
        ∃ calls, allMembers gas m ps pool = .ok ⟨is, [], calls⟩ := by
  intro ps
  induction ps with
  | nil =>
    intro is hw
    cases is with
    | cons _ _ => simp [WTAll] at hw
    | nil =>
      refine ⟨1, ?_⟩
      intro gas hg pool _ htags
      obtain ⟨g, rfl⟩ : ∃ g, gas = g + 1 := ⟨gas - 1, by omega⟩
      have : pool = [] := by
        cases pool with
        | nil => rfl
        | cons x xs => have := htags x (by simp); simp [memberTags] at this
      subst this
      exact ⟨0, by simp [allMembers, pure, Except.pure]⟩
  | cons p ps ih =>
    intro is hw
    cases p with
    | elem q mn mx ty =>
      cases is with
      | nil => simp [WTAll] at hw
      | cons i is =>
        cases i with
        | elems items =>
          obtain ⟨hmin, hmax, hit, hq, hrest⟩ := hw
          obtain ⟨g1, h1⟩ := ih is hrest
          obtain ⟨g2, h2⟩ := elemLoop_items m q mn ty items (fun it h => hW ty it (hit it h))
          refine ⟨g1 + g2 + 2, ?_⟩
          intro gas hg pool hpool htags
          obtain ⟨g, rfl⟩ : ∃ g, gas = g + 2 := ⟨gas - 2, by omega⟩
          obtain ⟨hsub, hnext⟩ := hpool
          have htags' : ∀ x ∈ pool.filter (fun x => !(x.tag == q)), x.tag ∈ memberTags ps := by
            intro x hx
            obtain ⟨hxp, hxq⟩ := List.mem_filter.mp hx
            have := htags x hxp
            simp only [memberTags, List.mem_cons] at this
            rcases this with e | h
            · simp [e] at hxq
            · exact h
          cases items with
          | nil =>
            obtain ⟨c1, hc1⟩ := h1 (g + 1) (by omega) pool (by
              have : pool.filter (fun x => !(x.tag == q)) = pool := by
                apply List.filter_eq_self.mpr
                intro x hx
                have hnil : (pool.filter fun x => x.tag == q) = [] := by simpa [serItems] using hsub
                have := List.filter_eq_nil_iff.mp hnil x hx
                simpa using this
              rw [this] at hnext; exact hnext) (by
              intro x hx
              have hnil : (pool.filter fun x => x.tag == q) = [] := by simpa [serItems] using hsub
              have hne := List.filter_eq_nil_iff.mp hnil x hx
              have := htags x hx
              simp only [memberTags, List.mem_cons] at this
              rcases this with e | h
              · simp [e] at hne
              · exact h)
            refine ⟨c1, ?_⟩
            simp only [allMembers]
            rw [hsub]
            simp [serItems, hc1, bind, Except.bind, pure, Except.pure]
          | cons it its =>
            obtain ⟨c2, hc2⟩ := h2 g (by omega) mx.limit 0 [] hmax trivial (fun h => by cases h)
            obtain ⟨c1, hc1⟩ := h1 (g + 1) (by omega) _ hnext htags'
            refine ⟨c2 + 1 + c1, ?_⟩
            simp only [List.append_nil] at hc2
            simp only [allMembers]
            rw [hsub]
            have hemp : (serItems q ty (it :: its)).isEmpty = false := rfl
            simp only [hemp, Bool.false_eq_true, if_false, parseP, hc2, bind, Except.bind, pure, Except.pure, List.append_nil, hc1]
        | _ => simp [WTAll] at hw
    | _ => cases is <;> simp [WTAll] at hw

/-- **A record whose content is `xsd:all` decodes back** (content not empty: K8) -/
theorem dec_record_all (m : Mode) (W : Ty → Item → Prop) (hW : ∀ ty it, W ty it → Dec m ty it)
    (ps : List Particle) (is : List Inst) (decls : List AttrDecl) (attrs : List (QName × String))
    (hattrs : declaredAttrs decls attrs = attrs) (hw : WTAll W ps is) (hne : serList ps is ≠ []) :
    Dec m (.complex (some (.all ps false)) decls true) (.complex attrs (some (.allR is [])) []) := by
  obtain ⟨g0, h0⟩ := allMembers_pool m W hW ps is hw
  have htags := tags_serList_all m W hW ps is hw
  refine ⟨fun q => by simp [serItem, Node.tag], g0 + 2, ?_⟩
  intro gas hg q a
  obtain ⟨g, rfl⟩ : ∃ g, gas = g + 2 := ⟨gas - 2, by omega⟩
  have hmine : ((serList ps is).filter fun x => (memberTags ps).contains x.tag) = serList ps is := by
    apply List.filter_eq_self.mpr
    intro x hx
    simpa using htags x hx
  have hothers : ((serList ps is).filter fun x => !((memberTags ps).contains x.tag)) = [] := by
    apply List.filter_eq_nil_iff.mpr
    intro x hx
    simpa using htags x hx
  obtain ⟨c, hc⟩ := h0 g (by omega) (serList ps is) (poolOK_serList m W hW ps is hw) htags
  obtain ⟨y, ys, hy⟩ : ∃ y ys, serList ps is = y :: ys := by
    cases h : serList ps is with
    | nil => exact absurd h hne
    | cons y ys => exact ⟨y, ys, rfl⟩
  refine ⟨c + 1 + 1, ?_⟩
  have hkids : (serList ps is).isEmpty = false := by rw [hy]; rfl
  simp only [serItem, serInst, List.append_nil, parseNode, Node.kids, Node.attrs, hkids, Bool.not_true, Bool.false_eq_true, if_false,
    Bool.and_false, Bool.false_and, parseP]
  rw [hmine, hothers, hc]
  simp [byTag, hattrs, bind, Except.bind, pure, Except.pure]

/-- records whose content is `xsd:all` over leaf / record typed elements, the element types again
records of any of the covered kinds (`WTItemR`) -/
def WTItemAll (d : Nat) : Ty → Item → Prop
  | .complex (some (.all ps false)) decls true, .complex attrs (some (.allR is [])) [] =>
      declaredAttrs decls attrs = attrs ∧ WTAll (WTItemR d) ps is ∧ serList ps is ≠ []
  | _, _ => False

/-- **`xsd:all` records round-trip** — both modes, `allow_none` on or off. -/
theorem c01_all_record_roundtrip (m : Mode) (d : Nat) (ty : Ty) (it : Item) (hw : WTItemAll d ty it) : Dec m ty it := by
  match ty, it, hw with
  | .complex (some (.all ps false)) decls true, .complex attrs (some (.allR is [])) [], hw =>
    obtain ⟨hattrs, hall, hne⟩ := hw
    exact dec_record_all m (WTItemR d) (c01_record_with_repeated_sequences_roundtrip m d) ps is decls attrs hattrs hall hne

theorem c01_all_record_roundtrip_root (m : Mode) (d : Nat) (ty : Ty) (it : Item) (q : QName) (hw : WTItemAll d ty it) :
    ∃ g0, ∀ gas, g0 ≤ gas → ∃ calls, parseRoot gas m ty (serItem q ty it) = .ok ⟨it, [], calls⟩ := by
  obtain ⟨_, g0, h⟩ := c01_all_record_roundtrip m d ty it hw
  exact ⟨g0, fun gas hg => h gas hg q false⟩

/-! non-vacuity -/
private def tyAll : Ty :=
  .complex (some (.all [.elem ⟨none, "a"⟩ 1 (.bounded 1) .simple, .elem ⟨none, "b"⟩ 0 (.bounded 1) .simple,
                        .elem ⟨none, "c"⟩ 0 (.bounded 1) .simple] false)) [⟨⟨none, "id"⟩, false⟩] true
private def itAll : Item := .complex [(⟨none, "id"⟩, "7")] (some (.allR [.elems [.leaf (some "0")], .elems [], .elems [.leaf (some "")]] [])) []

example : WTItemAll 0 tyAll itAll := by
  refine ⟨by simp [declaredAttrs], ?_, by simp [serList, serInst, serItems, serItem]⟩
  simp [WTAll, WTItemR, memberTags, Occ.limit]

example : (match parseRoot 50 .strict tyAll (serItem ⟨none, "root"⟩ tyAll itAll) with
    | .ok ⟨.complex [(⟨none, "id"⟩, "7")] (some (.allR [.elems [.leaf (some "0")], .elems [], .elems [.leaf (some "")]] [])) [], [], _⟩ => true
    | _ => false) = true := by decide +kernel

end Zeep.Xsd
