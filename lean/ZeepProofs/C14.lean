import ZeepModel.Url
import Generated.Sites
/-!
# C14 — with force_https nothing goes over plain http that should go over https
-/
namespace Zeep.Url

/-! ### `rsplit(":", 1)` -/

theorem rsplit_none_of_not_mem (s : Str) (h : ':' ∉ s) : rsplitColon s = none := by
  induction s with
  | nil => rfl
  | cons c cs ih =>
    simp only [List.mem_cons, not_or] at h
    simp only [rsplitColon, ih h.2]
    have : ¬ c = ':' := fun e => h.1 e.symm
    simp [this]

theorem rsplit_append (a b : Str) (h : ':' ∉ b) : rsplitColon (a ++ ':' :: b) = some (a, b) := by
  induction a with
  | nil => simp [rsplitColon, rsplit_none_of_not_mem b h]
  | cons c a ih => simp [rsplitColon, ih]

theorem rsplit_some (s a b : Str) (h : rsplitColon s = some (a, b)) : s = a ++ ':' :: b := by
  induction s generalizing a with
  | nil => simp [rsplitColon] at h
  | cons c cs ih =>
    simp only [rsplitColon] at h
    cases hr : rsplitColon cs with
    | some p =>
      obtain ⟨a', b'⟩ := p
      simp only [hr, Option.some.injEq, Prod.mk.injEq] at h
      obtain ⟨rfl, rfl⟩ := h
      simp [ih a' hr]
    | none =>
      simp only [hr] at h
      split at h
      · simp only [Option.some.injEq, Prod.mk.injEq] at h
        obtain ⟨rfl, rfl⟩ := h
        simp_all
      · cases h

/-- well-formed netloc: the port has no colon; the host either has no colon or is a bracketed
IPv6 literal (ends in `]`) -/
def Netloc.WF (n : Netloc) : Prop :=
  (∀ p, n.port = some p → ':' ∉ p) ∧
  ((':' ∉ n.host) ∨ n.host.getLast? = some ']')

def Netloc.dropDefaultPort (n : Netloc) : Netloc :=
  if n.port = some p80 then { n with port := none } else n

theorem no_port_not_80 (ui : Option Str) (host a : Str)
    (hh : (':' ∉ host) ∨ host.getLast? = some ']')
    (h : (match ui with | some u => u ++ ['@'] | none => []) ++ host = a ++ ':' :: p80) : False := by
  rcases hh with hh | hh
  · cases ui with
    | none =>
      simp only [List.nil_append] at h
      rw [h] at hh
      simp at hh
    | some u =>
      simp only [List.append_assoc, List.singleton_append] at h
      rw [List.append_eq_append_iff] at h
      rcases h with ⟨a', rfl, h2⟩ | ⟨c', rfl, h2⟩
      · -- '@' :: host = a' ++ ':' :: "80"
        have : ':' ∈ ('@' :: host) := by rw [h2]; simp
        simp only [List.mem_cons] at this
        rcases this with h3 | h3
        · revert h3; decide
        · exact hh h3
      · -- ':' :: "80" = c' ++ '@' :: host
        have : '@' ∈ (':' :: p80) := by rw [h2]; simp
        revert this; decide
  · have h1 := congrArg List.getLast? h
    simp only [List.getLast?_append, hh, Option.some_or] at h1
    have h2 : (':' :: p80).getLast? = some '0' := by decide
    rw [h2] at h1
    simp only [Option.some_or] at h1
    revert h1; decide

/-- **The rewrite.**  An `http` address becomes `https` with the default port `80` dropped and
userinfo, host (IPv6 literals included), every other port, path, params, query and fragment
preserved. -/
theorem c14_rewrite (n : Netloc) (hw : n.WF) (path params query fragment : Str) :
    httpToHttps ⟨http, n.render, path, params, query, fragment⟩ =
      ⟨https, n.dropDefaultPort.render, path, params, query, fragment⟩ := by
  obtain ⟨ui, host, port⟩ := n
  obtain ⟨hp, hh⟩ := hw
  simp only at hp hh
  simp only [httpToHttps, ne_eq, not_true_eq_false, if_false, Url6.mk.injEq, true_and, and_true]
  cases port with
  | some p =>
    have hp' := hp p rfl
    simp only [Netloc.render]
    rw [rsplit_append _ p hp']
    by_cases h80 : p = p80
    · subst h80; simp [Netloc.dropDefaultPort, Netloc.render]
    · simp [h80, Netloc.dropDefaultPort, Netloc.render]
  | none =>
    simp only [Netloc.render, Netloc.dropDefaultPort, List.append_nil]
    have h0 : ¬ ((none : Option Str) = some p80) := by simp
    simp only [h0, if_false, Netloc.render, List.append_nil]
    cases hr : rsplitColon ((match ui with | some u => u ++ ['@'] | none => []) ++ host) with
    | none => rfl
    | some ab =>
      obtain ⟨a, b⟩ := ab
      simp only
      split
      · rename_i hb
        subst hb
        exact (no_port_not_80 ui host a hh (rsplit_some _ _ _ hr)).elim
      · rfl

/-- a url that is not `http` is returned unchanged -/
theorem c14_rewrite_only_http (u : Url6) (h : u.scheme ≠ http) : httpToHttps u = u := by
  simp [httpToHttps, h]

/-- **Never downgrades**: each rewriting function maps an `https` url to an `https` url, and
in fact leaves it untouched. -/
theorem c14_never_downgrades (u : Url6) (h : u.scheme = https) :
    httpToHttps u = u ∧
    (∀ fh ws, portAddress fh ws u = u) ∧
    (∀ fh base, (normalize fh base u).scheme = https) := by
  have hne : u.scheme ≠ http := by rw [h]; decide
  refine ⟨c14_rewrite_only_http u hne, ?_, ?_⟩
  · intro fh ws
    simp only [portAddress]
    split
    · exact c14_rewrite_only_http u hne
    · rfl
  · intro fh base
    simp only [normalize]
    cases base with
    | none => exact h
    | some b => simp only; split <;> simp [h]

/-- **Off means untouched**: with the setting off, or a WSDL not loaded over https (http, file,
stream without location), addresses and locations are used exactly as declared. -/
theorem c14_off_is_identity (u : Url6) :
    (∀ base, normalize false base u = u) ∧
    (∀ ws, portAddress false ws u = u) ∧
    (∀ fh ws, ws ≠ some https → portAddress fh ws u = u) := by
  refine ⟨?_, ?_, ?_⟩
  · intro base; cases base <;> simp [normalize]
  · intro ws; cases ws <;> simp [portAddress, portForce]
  · intro fh ws hws
    cases ws with
    | none => simp [portAddress, portForce]
    | some s =>
      have : (s == https) = false := by
        simp only [beq_eq_false_iff_ne, ne_eq]; intro e; exact hws (by rw [e])
      simp [portAddress, portForce, this]

/-- **Decision**: the operation address is rewritten iff force_https is on and the WSDL was
loaded over https. -/
theorem c14_decision (fh : Bool) (ws : Option Str) :
    portForce fh ws = true ↔ fh = true ∧ ws = some https := by
  cases ws with
  | none => simp [portForce]
  | some s => simp [portForce]

theorem c14_address_https (n : Netloc) (hw : n.WF) (path params query fragment : Str) :
    portAddress true (some https) ⟨http, n.render, path, params, query, fragment⟩ =
      ⟨https, n.dropDefaultPort.render, path, params, query, fragment⟩ := by
  simp only [portAddress, portForce, Bool.true_and, beq_self_eq_true, if_true]
  exact c14_rewrite n hw path params query fragment

/-- **References**: a document referenced from an https document on the same netloc is fetched
over https, everything but the scheme preserved. -/
theorem c14_normalize_upgrades (b u : Url6) (hb : b.scheme = https) (hn : b.netloc = u.netloc)
    (hu : u.scheme ≠ https) : normalize true (some b) u = { u with scheme := https } := by
  have h1 : (b.netloc == u.netloc) = true := by simp [hn]
  have h2 : (b.scheme != u.scheme) = true := by
    simp only [bne_iff_ne, ne_eq]; rw [hb]; exact fun e => hu e.symm
  simp [normalize, h1, h2]

/-- references on another netloc are left exactly as declared -/
theorem c14_normalize_other_host (fh : Bool) (b u : Url6) (hn : b.netloc ≠ u.netloc) :
    normalize fh (some b) u = u := by
  have h1 : (b.netloc == u.netloc) = false := by simp [hn]
  simp [normalize, h1]

/-! ### which kinds of reference pass through the rewriting functions (regenerated inventory) -/

/-- helpers that load a location handed to them (already normalised by their caller) and the
root entry points, which have no referring document -/
def loaderHelpers : List (String × String) := [
  ("zeep/loader.py", "ImportResolver.resolve"),
  ("zeep/loader.py", "load_external"),
  ("zeep/loader.py", "load_external_async"),
  ("zeep/wsdl/wsdl.py", "Document._get_xml_document"),
  ("zeep/wsdl/wsdl.py", "Document.load"),
  ("zeep/xsd/schema.py", "Schema.add_document_by_url"),
  ("zeep/xsd/visitor.py", "SchemaVisitor._retrieve_data")]

/-- **Every reference kind is rewritten.**  In the call-site inventory regenerated from the
current source: every function that loads a referenced document computes the location with
`normalize_location` (or is one of the listed helpers / root entry points); the three reference
kinds xsd:import, xsd:include and wsdl:import each do; and both bindings rewrite the port
address with `url_http_to_https`. -/
theorem c14_reference_kinds :
    (∀ s ∈ Generated.locationSites, s.loadsDocument = true →
        s.callsNormalize = true ∨ (s.file, s.func) ∈ loaderHelpers) ∧
    (∀ f ∈ ["SchemaVisitor.visit_import", "SchemaVisitor.visit_include", "Definition.parse_imports"],
        ∃ s ∈ Generated.locationSites, s.func = f ∧ s.callsNormalize = true) ∧
    (∀ f ∈ ["SoapBinding.process_service_port", "HttpBinding.process_service_port"],
        ∃ s ∈ Generated.locationSites, s.func = f ∧ s.callsHttpToHttps = true) := by
  decide

/-! ### non-vacuity -/

example : (⟨some "user:pw".toList, "[::80]".toList, none⟩ : Netloc).WF := by
  refine ⟨by simp, Or.inr (by decide)⟩

example : (⟨none, "example.com".toList, some "80".toList⟩ : Netloc).WF := by
  refine ⟨?_, Or.inl (by decide)⟩
  intro p hp; simp at hp; subst hp; decide

example :
    httpToHttps ⟨http, "u:80@h:80".toList, "/p".toList, [], "q=1".toList, []⟩ =
      ⟨https, "u:80@h".toList, "/p".toList, [], "q=1".toList, []⟩ := by decide

end Zeep.Url
