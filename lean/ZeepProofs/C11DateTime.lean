import ZeepModel.Lex.DateTime
import ZeepProofs.C11
/-!
# C11 — `xsd:date`, `xsd:time`, `xsd:dateTime`: what is written reads back equal

For the whole value space `datetime` admits (years 1..9999, every valid calendar day, every time of day with microseconds,
naive or with any offset of less than 100 hours): `pythonvalue (xmlvalue v) = v`; plus the lexical variants the XSD grammar
allows for the same value (a fraction with trailing zeros or more than six digits, `+00:00` for `Z`, a timezone on a date).
-/
namespace Zeep.DateTime
open Zeep.Digits Zeep.GTypes Zeep.C11

theorem dc (d : Nat) (h : d < 10) : charDigit (digitChar d) = some d := charDigit_digitChar d h

theorem digitChar_isDigit (d : Nat) (h : d < 10) : isDigit (digitChar d) = true := by
  simp [isDigit, dc d h]

theorem digitChar_plain (d : Nat) (h : d < 10) : digitChar d ≠ 'T' ∧ digitChar d ≠ '.' ∧ digitChar d ≠ ':' ∧ digitChar d ≠ '-' := by
  have : ∀ d, d < 10 → digitChar d ≠ 'T' ∧ digitChar d ≠ '.' ∧ digitChar d ≠ ':' ∧ digitChar d ≠ '-' := by decide
  exact this d h

theorem parseFour_four (n : Nat) (h : n < 10000) (rest : List Char) : parseFour (four n ++ rest) = some (n, rest) := by
  simp only [four, List.cons_append, List.nil_append, parseFour, dc (n / 1000 % 10) (by omega), dc (n / 100 % 10) (by omega),
    dc (n / 10 % 10) (by omega), dc (n % 10) (by omega)]
  congr 2; omega

theorem six_all_digit (n : Nat) : ∀ c ∈ six n, isDigit c = true := by
  intro c hc
  simp only [six, List.mem_cons, List.mem_nil_iff, or_false] at hc
  rcases hc with rfl | rfl | rfl | rfl | rfl | rfl <;> exact digitChar_isDigit _ (by omega)

theorem fracMicro_six (n : Nat) (h : n < 1000000) : fracMicro (six n) = some n := by
  simp only [fracMicro, six, List.cons_append, List.nil_append, List.take, readAcc,
    dc (n / 100000 % 10) (by omega), dc (n / 10000 % 10) (by omega), dc (n / 1000 % 10) (by omega),
    dc (n / 100 % 10) (by omega), dc (n / 10 % 10) (by omega), dc (n % 10) (by omega)]
  congr 1; omega

theorem six_ne_nil (n : Nat) : six n ≠ [] := by simp [six]

theorem unparseTz_head_not_dot (tz : Tz) : ∀ c, (unparseTz tz).head? = some c → c ≠ '.' := by
  intro c hc
  cases tz with
  | none => simp [unparseTz] at hc
  | some m =>
    simp only [unparseTz] at hc
    split at hc
    · simp at hc; subst hc; decide
    · simp only [List.head?_cons, Option.some.injEq] at hc
      subst hc; split <;> decide

theorem parseFraction_nodot (r : List Char) (h : ∀ c, r.head? = some c → c ≠ '.') : parseFraction r = some (0, r) := by
  cases r with
  | nil => rfl
  | cons c cs =>
    have hc : c ≠ '.' := h c rfl
    unfold parseFraction
    split
    · rename_i r' heq; simp only [List.cons.injEq] at heq; exact absurd heq.1 hc
    · rfl

theorem parseFraction_six (us : Nat) (hu : us < 1000000) (rest : List Char) (hr : ∀ c, rest.head? = some c → isDigit c = false) :
    parseFraction ('.' :: (six us ++ rest)) = some (us, rest) := by
  have hspan : spanDigits (six us ++ rest) = (six us, rest) := spanDigits_append (six us) rest (six_all_digit us) hr
  simp [parseFraction, hspan, six_ne_nil, fracMicro_six us hu]

/-- **time round trip**: every time of day `datetime.time` admits, with or without microseconds, naive or with an offset -/
theorem time_rt (t : TimeV) (hv : t.valid = true) (htz : TzOk t.tz) : decTime (encTime t) = some t := by
  obtain ⟨h, mi, se, us, tz⟩ := t
  have hv' := hv
  simp only [TimeV.valid, Bool.and_eq_true, decide_eq_true_eq] at hv'
  obtain ⟨⟨⟨hh, hm⟩, hs⟩, hu⟩ := hv'
  have htzrt : parseTz (unparseTz tz) = some tz := tz_rt tz htz
  have hfrac : parseFraction ((if us = 0 then [] else '.' :: six us) ++ unparseTz tz) = some (us, unparseTz tz) := by
    by_cases hus : us = 0
    · subst hus
      simp only [if_true, List.nil_append]
      exact parseFraction_nodot _ (unparseTz_head_not_dot tz)
    · simp only [hus, if_false, List.cons_append]
      exact parseFraction_six us hu _ (unparseTz_head tz)
  unfold decTime encTime
  simp only [parseTwo_two h (by omega), Option.bind_eq_bind, Option.bind_some, parseTwo_two mi (by omega),
    parseTwo_two se (by omega), hfrac, htzrt, hv, if_true]

theorem parseDatePrefix_enc (d : DateV) (hv : d.valid = true) (rest : List Char) :
    parseDatePrefix (encDate d ++ rest) = some (d, rest) := by
  obtain ⟨y, m, dd⟩ := d
  have hv' := hv
  simp only [DateV.valid, Bool.and_eq_true, decide_eq_true_eq] at hv'
  obtain ⟨⟨⟨⟨⟨_, hy⟩, _⟩, hm⟩, _⟩, hd⟩ := hv'
  have hd31 : dd ≤ 31 := by
    have : daysIn y m ≤ 31 := by unfold daysIn; split <;> (try split) <;> omega
    omega
  unfold parseDatePrefix encDate
  simp only [List.append_assoc, List.cons_append, parseFour_four y (by omega), Option.bind_eq_bind, Option.bind_some,
    parseTwo_two m (by omega), parseTwo_two dd (by omega), hv, if_true]

/-- **date round trip**: every calendar day `datetime.date` admits -/
theorem date_rt (d : DateV) (hv : d.valid = true) : decDate (encDate d) = some d := by
  have := parseDatePrefix_enc d hv []
  simp only [List.append_nil] at this
  simp [decDate, this, parseTz]

/-- a date written with a timezone (a valid XSD form a peer may send) reads as the same date -/
theorem date_with_tz (d : DateV) (hv : d.valid = true) (tz : Tz) (htz : TzOk tz) : decDate (encDate d ++ unparseTz tz) = some d := by
  simp [decDate, parseDatePrefix_enc d hv (unparseTz tz), tz_rt tz htz]

theorem encDate_noT (d : DateV) (hv : d.valid = true) : ∀ c ∈ encDate d, c ≠ 'T' := by
  obtain ⟨y, m, dd⟩ := d
  intro c hc
  simp only [encDate, four, two, List.cons_append, List.nil_append, List.mem_cons, List.mem_nil_iff, or_false] at hc
  rcases hc with rfl | rfl | rfl | rfl | rfl | rfl | rfl | rfl | rfl | rfl <;>
    first | exact (digitChar_plain _ (by omega)).1 | decide

theorem unparseTz_noT (tz : Tz) (htz : TzOk tz) : ∀ c ∈ unparseTz tz, c ≠ 'T' := by
  intro c hc
  cases tz with
  | none => simp [unparseTz] at hc
  | some m =>
    simp only [unparseTz] at hc
    split at hc
    · simp at hc; subst hc; decide
    · simp only [two, List.cons_append, List.nil_append, List.mem_cons, List.mem_nil_iff, or_false] at hc
      rcases hc with rfl | rfl | rfl | rfl | rfl | rfl
      · split <;> decide
      all_goals first | exact (digitChar_plain _ (by omega)).1 | decide

theorem encTime_noT (t : TimeV) (htz : TzOk t.tz) : ∀ c ∈ encTime t, c ≠ 'T' := by
  obtain ⟨h, mi, se, us, tz⟩ := t
  intro c hc
  simp only [encTime, two, List.cons_append, List.nil_append, List.mem_cons, List.mem_append] at hc
  rcases hc with rfl | rfl | rfl | rfl | rfl | rfl | rfl | rfl | hc
  all_goals try (first | exact (digitChar_plain _ (by omega)).1 | decide)
  rcases hc with hc | hc
  · split at hc
    · exact absurd hc (by simp)
    · simp only [six, List.mem_cons, List.mem_nil_iff, or_false] at hc
      rcases hc with rfl | rfl | rfl | rfl | rfl | rfl | rfl <;>
        first | exact (digitChar_plain _ (by omega)).1 | decide
  · exact unparseTz_noT tz htz c hc

theorem splitT_append (a b : List Char) (ha : ∀ c ∈ a, c ≠ 'T') (hb : ∀ c ∈ b, c ≠ 'T') :
    splitT (a ++ 'T' :: b) = some (a, b) := by
  induction a with
  | nil =>
    have : ¬ ('T' ∈ b) := fun hm => hb 'T' hm rfl
    simp [splitT, this]
  | cons x xs ih =>
    have hx : x ≠ 'T' := ha x (by simp)
    have := ih (fun c hc => ha c (by simp [hc]))
    simp only [List.cons_append]
    unfold splitT
    split
    · simp at *
    · rename_i heq; simp only [List.cons.injEq] at heq; exact absurd heq.1.symm (fun e => hx e.symm)
    · rename_i c r _ heq
      simp only [List.cons.injEq] at heq
      obtain ⟨rfl, rfl⟩ := heq
      simp [this]

/-- **dateTime round trip**: every value `datetime.datetime` admits -/
theorem datetime_rt (v : DateTimeV) (hd : v.date.valid = true) (ht : v.time.valid = true) (htz : TzOk v.time.tz) :
    decDateTime (encDateTime v) = some v := by
  obtain ⟨d, t⟩ := v
  have hlen : (encDateTime ⟨d, t⟩).length ≠ 10 := by
    simp only [encDateTime, encDate, encTime, four, two, List.length_append, List.length_cons, List.length_nil]
    omega
  have hsplit := splitT_append (encDate d) (encTime t) (encDate_noT d hd) (encTime_noT t htz)
  have hdate := parseDatePrefix_enc d hd []
  simp only [List.append_nil] at hdate
  unfold decDateTime
  simp only [hlen, if_false]
  simp only [encDateTime] at hsplit ⊢
  simp [hsplit, hdate, time_rt t ht htz]

/-- a bare date in a dateTime position reads as midnight of that day (zeep's documented leniency) -/
theorem datetime_bare_date (d : DateV) (hv : d.valid = true) :
    decDateTime (encDate d) = some ⟨d, ⟨0, 0, 0, 0, none⟩⟩ := by
  have hlen : (encDate d).length = 10 := by simp [encDate, four, two]
  have hmid : decTime ['0', '0', ':', '0', '0', ':', '0', '0'] = some ⟨0, 0, 0, 0, none⟩ := by decide
  have hsplit := splitT_append (encDate d) ['0', '0', ':', '0', '0', ':', '0', '0'] (encDate_noT d hv) (by decide)
  have hdate := parseDatePrefix_enc d hv []
  simp only [List.append_nil] at hdate
  have e : "T00:00:00".toList = 'T' :: ['0', '0', ':', '0', '0', ':', '0', '0'] := by decide
  unfold decDateTime
  simp only [hlen, if_true, e, hsplit, Option.bind_eq_bind, Option.bind_some, hdate, hmid]
  simp

/-- lexical variants of one time: a fraction with trailing zeros, with more than six digits (floored), `+00:00` for `Z` -/
theorem time_variants :
    decTime "12:30:45.5".toList = some ⟨12, 30, 45, 500000, none⟩ ∧
    decTime "12:30:45.500000".toList = some ⟨12, 30, 45, 500000, none⟩ ∧
    decTime "12:30:45.1234567899Z".toList = some ⟨12, 30, 45, 123456, some 0⟩ ∧
    decTime "12:30:45+00:00".toList = decTime "12:30:45Z".toList ∧
    decTime "24:00:00".toList = none ∧ decTime "12:30:60".toList = none := by decide

/-- calendar validity is enforced the way `datetime.date` enforces it -/
theorem date_calendar :
    decDate "2024-02-29".toList = some ⟨2024, 2, 29⟩ ∧ decDate "2023-02-29".toList = none ∧
    decDate "1900-02-29".toList = none ∧ decDate "2000-02-29".toList = some ⟨2000, 2, 29⟩ ∧
    decDate "2024-04-31".toList = none ∧ decDate "2024-13-01".toList = none ∧ decDate "0000-01-01".toList = none := by decide

end Zeep.DateTime
