import ZeepProofs.Lemmas.Cache
/-!
# C15 — caches return exactly what was stored, only while fresh, at any instant

`run` is the model of both cache backends and of `Transport.load` (rows, version prefix, base64,
inclusive expiry boundary); `srun` is the specification `url ↦ latest store`.  Histories are
arbitrary lists of operations, each carrying its own clock value — so the theorems hold for
every sequence of stores, lookups and clock values, and, the operations being atomic
(`RLock` + one sqlite transaction each: trusted, exercised by the tie), for every interleaving
of threads, an interleaving of atomic operations being such a list.
-/
namespace Zeep.Cache

/-- **Refinement**: on every well-formed history the model answers exactly as the
`latest store per url` specification: `get` returns the bytes most recently stored for that url
by the same backend / format version when they are not older than the timeout (never expired
when the timeout is `none`), and nothing otherwise. -/
theorem c15_refines (ops : List Op) (hw : ∀ o ∈ ops, WFOp o) :
    (run [] ops).2 = (srun (fun _ => none) ops).2 :=
  (run_refines ops [] _ rel_empty hw).2

/-- what the specification answers, spelled out (definitionally `sget`) -/
theorem c15_spec_get (s : Spec) (b : Backend) (u : Url) (now : Instant) (to : Option Nat) :
    sget s b u now to =
      match s u with
      | none => none
      | some st =>
        match to with
        | none => if st.by_ = b then some st.content else none
        | some t => if now > st.at_ + t then none else if st.by_ = b then some st.content else none := by
  simp only [sget, expired]
  cases s u with
  | none => rfl
  | some st =>
    cases to with
    | none => simp
    | some t => by_cases h : now > st.at_ + t <;> simp [h]

/-- a lookup straight after a store returns those very bytes, whatever they are
(NUL, high bytes, empty), while fresh -/
theorem c15_store_then_get (db : Db) (b : Backend) (u : Url) (c : Bytes) (t now : Instant)
    (to : Option Nat) (hb : WFBackend b) (hc : WFBytes c) (hfresh : expired t now to = false) :
    get (add db b u c t) b u now to = some c := by
  simp only [get, find_add, if_true, hfresh, Bool.false_eq_true, if_false]
  rw [decode_encode b b c hb hb hc]; simp

/-- and nothing once `now > created + timeout` -/
theorem c15_expired_is_miss (db : Db) (b : Backend) (u : Url) (c : Bytes) (t now : Instant)
    (to : Nat) (hexp : now > t + to) : get (add db b u c t) b u now (some to) = none := by
  simp [get, find_add, expired, hexp]

/-- entries of other urls never leak into, or disturb, a result -/
theorem c15_no_cross_url (db : Db) (b b' : Backend) (u u' : Url) (c : Bytes) (t now : Instant)
    (to : Option Nat) (h : u ≠ u') :
    get (add db b' u' c t) b u now to = get db b u now to := by
  simp only [get, find_add, h, if_false]

/-- entries written under another on-disk format version never leak into a result -/
theorem c15_version_isolated (db : Db) (b b' : Backend) (u : Url) (c : Bytes) (t now : Instant)
    (to : Option Nat) (hb : WFBackend b) (hb' : WFBackend b') (hc : WFBytes c) (h : b' ≠ b) :
    get (add db b' u c t) b u now to = none := by
  simp only [get, find_add, if_true]
  split
  · rfl
  · rw [decode_encode b b' c hb hb' hc]; simp [h]

/-- contents ever offered for `u` in a history: stored by `add`, or fetched for it by `load` -/
def contentsFor (u : Url) : List Op → List Bytes
  | [] => []
  | .add _ u' c _ :: ops => if u' = u then c :: contentsFor u ops else contentsFor u ops
  | .load _ u' c _ _ :: ops => if u' = u then c :: contentsFor u ops else contentsFor u ops
  | .get .. :: ops => contentsFor u ops

theorem spec_only_stored (ops : List Op) (s : Spec) (acc : List Bytes) (u : Url)
    (h : ∀ st, s u = some st → st.content ∈ acc) :
    ∀ st, (srun s ops).1 u = some st → st.content ∈ acc ++ contentsFor u ops := by
  induction ops generalizing s acc with
  | nil => intro st hst; simp only [srun] at hst; simp [contentsFor, h st hst]
  | cons o ops ih =>
    intro st hst
    simp only [srun] at hst
    cases o with
    | get b u' now to =>
      simpa [contentsFor] using ih s acc h st hst
    | add b u' c now =>
      simp only [sstep, contentsFor] at hst ⊢
      by_cases hu : u' = u
      · subst hu
        have := ih (sadd s b u' c now) (acc ++ [c]) (by
          intro st' hst'; simp [sadd] at hst'; subst hst'; simp) st hst
        simpa using this
      · simp only [hu, if_false]
        exact ih (sadd s b u' c now) acc (by
          intro st' hst'
          have : u ≠ u' := fun e => hu e.symm
          simp [sadd, this] at hst'; exact h st' hst') st hst
    | load b u' c now to =>
      simp only [sstep, contentsFor] at hst ⊢
      cases hg : sget s b u' now to with
      | some x =>
        simp only [hg] at hst
        by_cases hu : u' = u
        · simp only [hu, if_true]
          have := ih s acc h st hst
          simp only [List.mem_append, List.mem_cons] at this ⊢
          rcases this with h1 | h1
          · exact Or.inl h1
          · exact Or.inr (Or.inr h1)
        · simp only [hu, if_false]; exact ih s acc h st hst
      | none =>
        simp only [hg] at hst
        by_cases hu : u' = u
        · subst hu
          have := ih (sadd s b u' c now) (acc ++ [c]) (by
            intro st' hst'; simp [sadd] at hst'; subst hst'; simp) st hst
          simpa using this
        · simp only [hu, if_false]
          exact ih (sadd s b u' c now) acc (by
            intro st' hst'
            have : u ≠ u' := fun e => hu e.symm
            simp [sadd, this] at hst'; exact h st' hst') st hst

/-- **Only what was stored.**  After any history — hence at any point of any interleaving of
atomic operations of several threads — a lookup never returns bytes that were not stored (or
fetched) for that very url. -/
theorem c15_only_stored (ops : List Op) (hw : ∀ o ∈ ops, WFOp o) (b : Backend) (hb : WFBackend b)
    (u : Url) (now : Instant) (to : Option Nat) (c : Bytes)
    (h : get (run [] ops).1 b u now to = some c) : c ∈ contentsFor u ops := by
  have rel := (run_refines ops [] _ rel_empty hw).1
  rw [rel_get _ _ b u now to rel hb] at h
  simp only [sget] at h
  cases hs : (srun (fun _ => none) ops).1 u with
  | none => simp [hs] at h
  | some st =>
    simp only [hs] at h
    have := spec_only_stored ops (fun _ => none) [] u (by simp) st hs
    split at h
    · cases h
    · split at h
      · cases h; simpa using this
      · cases h

def urlOf : Op → Url
  | .add _ u _ _ => u
  | .get _ u _ _ => u
  | .load _ u _ _ _ => u

theorem srun_other_url (ops : List Op) (s : Spec) (u : Url) (h : ∀ o ∈ ops, urlOf o ≠ u) :
    (srun s ops).1 u = s u := by
  induction ops generalizing s with
  | nil => rfl
  | cons o ops ih =>
    simp only [srun]
    rw [ih _ (fun o' ho' => h o' (by simp [ho']))]
    have ho := h o (by simp)
    cases o with
    | get b u' now to => rfl
    | add b u' c now =>
      simp only [urlOf] at ho
      have : u ≠ u' := fun e => ho e.symm
      simp [sstep, sadd, this]
    | load b u' c now to =>
      simp only [urlOf] at ho
      have : u ≠ u' := fun e => ho e.symm
      simp only [sstep]
      split
      · rfl
      · simp [sadd, this]

/-- **At most one remote fetch per validity window.**  Once `Transport.load` has fetched `u` at
instant `t`, then — whatever happens to other urls meanwhile — every further load of `u` at an
instant not later than `t + timeout` (any instant, when the timeout is `none`) is served from
the cache without a remote fetch, and returns the fetched bytes. -/
theorem c15_fetch_once (db : Db) (s : Spec) (rel : Rel db s) (b : Backend) (u : Url)
    (r r' : Bytes) (t t' : Instant) (to : Option Nat) (ops : List Op)
    (hb : WFBackend b) (hr : WFBytes r) (hr' : WFBytes r')
    (hfetched : (step db (.load b u r t to)).2 = .loaded r true)
    (hw : ∀ o ∈ ops, WFOp o) (hother : ∀ o ∈ ops, urlOf o ≠ u)
    (hwin : expired t t' to = false) :
    (step (run (step db (.load b u r t to)).1 ops).1 (.load b u r' t' to)).2 = .loaded r false := by
  have h1 := step_refines db s (.load b u r t to) rel ⟨hb, hr⟩
  have h2 := run_refines ops _ _ h1.1 hw
  have h3 := step_refines _ _ (.load b u r' t' to) h2.1 ⟨hb, hr'⟩
  rw [h3.2]
  rw [h1.2] at hfetched
  have hst : (srun (sstep s (.load b u r t to)).1 ops).1 u = some ⟨t, b, r⟩ := by
    rw [srun_other_url ops _ u hother]
    simp only [sstep] at hfetched ⊢
    cases hg : sget s b u t to with
    | some x => simp [hg] at hfetched
    | none => simp [sadd]
  generalize (srun (sstep s (.load b u r t to)).1 ops).1 = S at hst ⊢
  simp [sstep, sget, hst, hwin]

/-! ## non-vacuity -/

example :
    let v1 : Backend := .sqlite ['1']
    let v2 : Backend := .sqlite ['2']
    (run [] [.add v1 0 [0, 255, 10] 5, .get v1 0 65 (some 60), .get v1 0 66 (some 60),
             .get v2 0 6 none, .get v1 1 6 none, .add v1 0 [] 70, .get v1 0 70 (some 0),
             .load v1 2 [7] 80 (some 10), .load v1 2 [8] 90 (some 10), .load v1 2 [9] 91 (some 10)]).2
      = [.none, .got (some [0, 255, 10]), .got none, .got none, .got none, .none, .got (some []),
         .loaded [7] true, .loaded [7] false, .loaded [9] true] := by decide +kernel

example : WFOp (.add (.sqlite ['1']) 0 [0, 255, 10] 5) := by
  refine ⟨by simp [WFBackend], ?_⟩
  intro b hb; simp at hb; rcases hb with rfl | rfl | rfl <;> omega

end Zeep.Cache
