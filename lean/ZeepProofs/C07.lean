import ZeepProofs.Lemmas.ParseShrink
/-!
# C07 — unexpected reply content is never silently discarded

About `parseNode` (`ComplexType.parse_xmlelement`) of the model:
* whatever the content model leaves in the deque is an error in strict mode and is handed over as
  `_raw_elements` in lax mode — for every content particle;
* an element loop only ever takes nodes carrying its own local name, so a stranger is never
  consumed by an element declaration; lifted to every flat content model (a sequence of element
  declarations with any occurrence bounds): a child whose name is declared nowhere in it makes
  strict decoding fail and is found among the raw elements in lax mode.
`…_partial`: nested choice / all / group content models are covered by the first item and by the
tie, not by the stranger theorem; the leak sites of the pinned code (children of an element whose
type has no element content: known finding K1) are exhibited by `c07_leak_counterexample`.
-/
namespace Zeep.Xsd
open Zeep

/-- **Strict mode**: a decoded complex element has no leftover (nothing is dropped, nothing raw) -/
theorem c07_strict_no_raw (gas : Nat) (allowNone : Bool) (content : Option Particle) (decls : List AttrDecl)
    (x : Node) (r : Out Item) (attrs : List (QName × String)) (c : Option Inst) (raw : List Node)
    (h : parseNode gas .strict allowNone (.complex content decls true) x = .ok r)
    (hv : r.val = .complex attrs c raw) : raw = [] := by
  cases gas with
  | zero => simp [parseNode] at h
  | succ gas =>
    cases content with
    | none =>
      simp only [parseNode, Bool.not_true, Bool.false_eq_true, if_false] at h
      split at h
      · simp only [pure_eq_ok] at h; subst h; cases hv
      · split at h
        · simp only [pure_eq_ok] at h; subst h; cases hv; rfl
        · simp at h
    | some p =>
      simp only [parseNode, Bool.not_true, Bool.false_eq_true, if_false] at h
      split at h
      · simp only [pure_eq_ok] at h; subst h; cases hv
      · split at h
        · cases h
        · cases h
        · split at h
          · simp only [pure_eq_ok] at h; subst h; cases hv; rfl
          · simp at h

/-- **Strict mode rejects leftovers**: if the content model leaves anything in the deque, decoding
the element fails with XMLParseError -/
theorem c07_strict_rejects_leftover (gas : Nat) (allowNone : Bool) (p : Particle) (decls : List AttrDecl)
    (x : Node) (r0 : Out Inst) (hne : ¬ (allowNone = true ∧ x.kids = [] ∧ x.attrs = []))
    (hp : parseP gas .strict p x.kids = .ok r0) (hrest : r0.rest ≠ []) :
    parseNode (gas + 1) .strict allowNone (.complex (some p) decls true) x = .error .xmlParse := by
  have h1 : (allowNone && x.kids.isEmpty && x.attrs.isEmpty) = false := by
    cases allowNone <;> simp_all
  have h2 : r0.rest.isEmpty = false := by simpa using hrest
  simp [parseNode, h1, hp, h2]

/-- **Lax mode hands leftovers to the caller**: exactly the nodes the content model left become
the element's raw elements -/
theorem c07_lax_keeps_leftover (gas : Nat) (allowNone : Bool) (p : Particle) (decls : List AttrDecl)
    (x : Node) (r0 : Out Inst) (hne : ¬ (allowNone = true ∧ x.kids = [] ∧ x.attrs = []))
    (hp : parseP gas .lax p x.kids = .ok r0) (hrest : r0.rest ≠ []) :
    parseNode (gas + 1) .lax allowNone (.complex (some p) decls true) x =
      .ok ⟨.complex (declaredAttrs decls x.attrs) (some r0.val) r0.rest, [], r0.calls + 1⟩ := by
  have h1 : (allowNone && x.kids.isEmpty && x.attrs.isEmpty) = false := by
    cases allowNone <;> simp_all
  have h2 : r0.rest.isEmpty = false := by simpa using hrest
  simp [parseNode, h1, hp, h2, pure, Except.pure]

/-! ### an element declaration never consumes a stranger -/

/-- the element loop splits the deque into the nodes it took — all carrying its local name — and
the untouched rest -/
theorem elemLoop_takes_own_name (gas : Nat) (m : Mode) (q : QName) (min : Nat) (ty : Ty) (n k : Nat)
    (xs : List Node) (r : Out (List Item)) (h : elemLoop gas m q min ty n k xs = .ok r) :
    ∃ taken, xs = taken ++ r.rest ∧ ∀ y ∈ taken, y.tag.name = q.name := by
  induction gas generalizing n k xs r with
  | zero => simp [elemLoop] at h
  | succ gas ih =>
    cases n with
    | zero => simp only [elemLoop, pure_eq_ok] at h; subst h; exact ⟨[], rfl, by simp⟩
    | succ n =>
      cases xs with
      | nil => simp only [elemLoop, pure_eq_ok] at h; subst h; exact ⟨[], rfl, by simp⟩
      | cons x xs =>
        simp only [elemLoop] at h
        split at h
        · simp only [pure_eq_ok] at h; subst h; exact ⟨[], rfl, by simp⟩
        · split at h
          · rename_i hname
            obtain ⟨it, _, h⟩ := bind_ok _ _ _ h
            obtain ⟨r', hr', h⟩ := bind_ok _ _ _ h
            simp only [pure_eq_ok] at h; subst h
            obtain ⟨taken, ht, hall⟩ := ih n (k + 1) xs r' hr'
            refine ⟨x :: taken, by simp [ht], ?_⟩
            intro y hy
            simp only [List.mem_cons] at hy
            rcases hy with rfl | hy
            · simpa using hname
            · exact hall y hy
          · split at h
            · cases h
            · simp only [pure_eq_ok] at h; subst h; exact ⟨[], rfl, by simp⟩

/-- the same for an element particle -/
theorem parseP_elem_takes_own_name (gas : Nat) (m : Mode) (q : QName) (min : Nat) (max : Occ) (ty : Ty)
    (xs : List Node) (r : Out Inst) (h : parseP gas m (.elem q min max ty) xs = .ok r) :
    ∃ taken, xs = taken ++ r.rest ∧ ∀ y ∈ taken, y.tag.name = q.name := by
  cases gas with
  | zero => simp [parseP] at h
  | succ gas =>
    simp only [parseP] at h
    obtain ⟨r', hr', h⟩ := bind_ok _ _ _ h
    simp only [pure_eq_ok] at h; subst h
    exact elemLoop_takes_own_name gas m q min ty _ _ xs r' hr'

/-- a flat content model: element declarations only -/
def Flat : List Particle → Prop
  | [] => True
  | .elem .. :: ps => Flat ps
  | _ :: _ => False

def declaredNames : List Particle → List String
  | [] => []
  | .elem q _ _ _ :: ps => q.name :: declaredNames ps
  | _ :: ps => declaredNames ps

/-- one round of a flat sequence never consumes a node whose local name is not declared in it -/
theorem seqRound_flat_keeps_strangers (gas : Nat) (m : Mode) (ps : List Particle) (e : Bool) (sl : Nat)
    (xs : List Node) (r : Out (Option (List Inst))) (hf : Flat ps)
    (h : seqRound gas m ps e sl xs = .ok r) :
    ∃ taken, xs = taken ++ r.rest ∧ ∀ y ∈ taken, y.tag.name ∈ declaredNames ps := by
  induction gas generalizing ps xs r with
  | zero => simp [seqRound] at h
  | succ gas ih =>
    cases ps with
    | nil => simp only [seqRound, pure_eq_ok] at h; subst h; exact ⟨[], rfl, by simp⟩
    | cons p ps =>
      cases p with
      | elem q min max ty =>
        simp only [Flat] at hf
        simp only [seqRound] at h
        split at h
        · split at h
          · simp only [pure_eq_ok] at h; subst h; exact ⟨[], rfl, by simp⟩
          · split at h
            · cases h
            · split at h
              · simp only [pure_eq_ok] at h; subst h; exact ⟨[], rfl, by simp⟩
              · obtain ⟨r', hr', h⟩ := bind_ok _ _ _ h
                simp only [pure_eq_ok] at h; subst h
                obtain ⟨taken, ht, hall⟩ := ih ps xs r' hf hr'
                exact ⟨taken, ht, fun y hy => by simp [declaredNames, hall y hy]⟩
        · cases h
        · rename_i r0 hr0
          obtain ⟨t0, ht0, hall0⟩ := parseP_elem_takes_own_name gas m q min max ty xs r0 hr0
          split at h
          · rename_i hemp
            simp only [pure_eq_ok] at h; subst h
            refine ⟨t0, by simpa [List.isEmpty_iff.mp hemp] using ht0, ?_⟩
            intro y hy; simp [declaredNames, hall0 y hy]
          · obtain ⟨more, hm, h⟩ := bind_ok _ _ _ h
            simp only [pure_eq_ok] at h; subst h
            obtain ⟨t1, ht1, hall1⟩ := ih ps r0.rest more hf hm
            refine ⟨t0 ++ t1, by rw [ht0, ht1]; simp, ?_⟩
            intro y hy
            simp only [List.mem_append] at hy
            rcases hy with hy | hy
            · simp [declaredNames, hall0 y hy]
            · simp [declaredNames, hall1 y hy]
      | any _ _ => simp [Flat] at hf
      | seq _ _ _ => simp [Flat] at hf
      | choice _ _ _ => simp [Flat] at hf
      | all _ _ => simp [Flat] at hf
      | group _ _ _ => simp [Flat] at hf

/-- a flat sequence particle `{1,1}` leaves every stranger in the deque -/
theorem parseP_flat_seq_keeps_strangers (gas : Nat) (m : Mode) (ps : List Particle) (min : Nat) (xs : List Node)
    (r : Out Inst) (hf : Flat ps) (h : parseP gas m (.seq ps min (.bounded 1)) xs = .ok r)
    (s : Node) (hs : s ∈ xs) (hstr : s.tag.name ∉ declaredNames ps) : s ∈ r.rest := by
  cases gas with
  | zero => simp [parseP] at h
  | succ gas =>
    simp only [parseP, Occ.limit] at h
    obtain ⟨r1, hr1, h⟩ := bind_ok _ _ _ h
    simp only [pure_eq_ok] at h; subst h
    simp only
    cases gas with
    | zero => simp [seqLoop] at hr1
    | succ gas =>
      cases xs with
      | nil => simp at hs
      | cons x xs =>
        simp only [seqLoop] at hr1
        obtain ⟨r0, hr0, hr1⟩ := bind_ok _ _ _ hr1
        obtain ⟨taken, ht, hall⟩ := seqRound_flat_keeps_strangers gas m ps _ _ _ r0 hf hr0
        have hin : s ∈ r0.rest := by
          rw [ht] at hs
          simp only [List.mem_append] at hs
          rcases hs with hs | hs
          · exact absurd (hall s hs) hstr
          · exact hs
        split at hr1
        · simp only [pure_eq_ok] at hr1; subst hr1; exact hs
        · split at hr1
          · simp only [pure_eq_ok] at hr1; subst hr1; exact hin
          · obtain ⟨more, hm, hr1⟩ := bind_ok _ _ _ hr1
            simp only [pure_eq_ok] at hr1; subst hr1
            cases gas with
            | zero => simp [seqLoop] at hm
            | succ gas => simp only [seqLoop, pure_eq_ok] at hm; subst hm; exact hin

/-- **Strangers under a flat content model.**  Let an element's type have a sequence of element
declarations as content.  If one of its children carries a local name declared nowhere in that
sequence, then in strict mode decoding the element does not succeed, and in lax mode, if it
succeeds, the stranger is among the element's raw elements — at whatever position it was inserted. -/
theorem c07_stranger_flat (gas : Nat) (m : Mode) (ps : List Particle) (min : Nat) (decls : List AttrDecl)
    (x : Node) (hf : Flat ps) (s : Node) (hs : s ∈ x.kids) (hstr : s.tag.name ∉ declaredNames ps) (r : Out Item)
    (h : parseNode gas m true (.complex (some (.seq ps min (.bounded 1))) decls true) x = .ok r) :
    m = .lax ∧ ∃ attrs c raw, r.val = .complex attrs c raw ∧ s ∈ raw := by
  cases gas with
  | zero => simp [parseNode] at h
  | succ gas =>
    have hk : x.kids.isEmpty = false := by
      cases hx : x.kids with
      | nil => rw [hx] at hs; simp at hs
      | cons a t => rfl
    simp only [parseNode, Bool.not_true, Bool.false_eq_true, if_false, hk, Bool.and_false, Bool.false_and] at h
    split at h
    · cases h
    · cases h
    · rename_i r0 hr0
      have hin := parseP_flat_seq_keeps_strangers gas m ps min x.kids r0 hf hr0 s hs hstr
      have hne : r0.rest.isEmpty = false := by
        cases hr : r0.rest with
        | nil => rw [hr] at hin; simp at hin
        | cons a t => rfl
      simp only [hne, Bool.false_eq_true, if_false] at h
      split at h
      · cases h
      · rename_i hm
        simp only [pure_eq_ok] at h; subst h
        refine ⟨?_, _, _, _, rfl, hin⟩
        cases m with
        | strict => simp at hm
        | lax => rfl

/-- K1: children of an element whose type declares no element content vanish (model = code) -/
theorem c07_leak_counterexample :
    (match parseNode 5 .strict true (.complex none [] false) (.mk ⟨none, "e"⟩ [] none [.mk ⟨none, "X"⟩ [] none []]) with
      | .ok r => (match r.val with | .none_ leaked => leaked.length | _ => 99)
      | .error _ => 98) = 1 := by decide +kernel

end Zeep.Xsd
