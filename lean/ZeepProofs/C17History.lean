import ZeepProofs.C17
/-!
# C17 — histories in which the configuration changes between calls

Whether zeep adds the addressing entries itself is decided per request from the operation called and the plugin list *as it is at
that moment*: the plugin may be appended to or removed from `client.plugins` between calls, and two clients with different plugin
lists may share one parsed document.  In the model a history is a list of per-call configurations; call `i` draws id `ids i`.
-/
namespace Zeep.Wsa

/-- the header entries of the calls of a history, call by call (no caller-supplied headers) -/
def historyRequests (ids : Nat → String) (cfgs : List Config) : List (List Entry) :=
  (List.range cfgs.length).zipWith (fun i c => request c [ids i] []) cfgs

theorem historyRequests_get (ids : Nat → String) (cfgs : List Config) (i : Nat) (c : Config) (h : cfgs[i]? = some c) :
    (historyRequests ids cfgs)[i]? = some (request c [ids i] []) := by
  have hi : i < cfgs.length := by
    rcases Nat.lt_or_ge i cfgs.length with h1 | h1
    · exact h1
    · rw [List.getElem?_eq_none h1] at h; cases h
  simp [historyRequests, List.getElem?_zipWith, List.getElem?_range hi, h]

/-- **every call of every history**: call `i` carries each managed entry exactly once when its own configuration asks for
addressing, and none when it does not - whatever the configurations of the calls before and after it were -/
theorem c17_history_exactly_once (ids : Nat → String) (cfgs : List Config) (i : Nat) (c : Config)
    (h : cfgs[i]? = some c) (hinst : c.installed ≤ 1) :
    ∃ hs, (historyRequests ids cfgs)[i]? = some hs ∧
      (Applies c → count "wsa:Action" hs = 1 ∧ count "wsa:MessageID" hs = 1 ∧ count "wsa:To" hs = 1) ∧
      (c.declaredAction = none → c.installed = 0 → hs = []) := by
  refine ⟨_, historyRequests_get ids cfgs i c h, ?_, ?_⟩
  · intro happ
    exact c17_exactly_once c (ids i) [] happ hinst (by simp)
  · intro hd hi
    exact c17_none_without_addressing c [ids i] [] hd hi

/-- non-vacuity: no plugin / plugin appended / plugin removed again, then an operation without a declared action -/
example :
    let c0 : Config := ⟨some "urn:in", "urn:sa", 0, none, "http://a/svc"⟩
    let c1 : Config := ⟨some "urn:in", "urn:sa", 1, none, "http://a/svc"⟩
    let c2 : Config := ⟨none, "urn:sa2", 0, none, "http://a/svc"⟩
    (historyRequests (fun i => toString i) [c0, c1, c0, c2]).map (fun hs => (count "wsa:Action" hs, count "wsa:MessageID" hs, count "wsa:To" hs)) =
      [(1, 1, 1), (1, 1, 1), (1, 1, 1), (0, 0, 0)] := by decide

end Zeep.Wsa
