import ZeepProofs.C04
import Generated.Constants
/-! Obligations tying the framing model to constants regenerated from the source on every run
(`harness/translators/constants.py`): the envelope namespaces per SOAP version and the literals
the Content-Type is assembled from. -/
namespace Zeep.Frame
open Zeep Zeep.Soap

/-- the envelope namespace of the model is the `soap-env` entry of the binding class's nsmap -/
theorem c04_envelope_ns_matches_source :
    Generated.soapEnvOf = [("Soap11Binding", envNs .v11), ("Soap12Binding", envNs .v12)] := by decide

private def op11 : Op := ⟨.v11, .document, "op", none, some "urn:a", "http://h/", 1⟩
private def op12 (a : Option String) : Op := ⟨.v12, .document, "op", none, a, "http://h/", 1⟩

/-- SOAP 1.1: the literals of `Soap11Binding._set_http_headers` are the header name and the model's value -/
theorem c04_content_type_11_matches_source :
    Generated.setHttpHeaders_Soap11Binding = ["Content-Type", (httpHeaders op11).1] := by decide

/-- SOAP 1.2: the literals of `Soap12Binding._set_http_headers` (two fixed parts, the `action="%s"` template, the header
name, the separator) assemble to the model's value, without and with a soapAction -/
theorem c04_content_type_12_matches_source :
    Generated.setHttpHeaders_Soap12Binding = ["application/soap+xml", "charset=utf-8", "action=\"%s\"", "Content-Type", "; "] ∧
    (httpHeaders (op12 none)).1 = "; ".intercalate (Generated.setHttpHeaders_Soap12Binding.take 2) ∧
    (httpHeaders (op12 (some "urn:a"))).1 =
      "; ".intercalate (Generated.setHttpHeaders_Soap12Binding.take 2 ++ ["action=\"urn:a\""]) := by decide

end Zeep.Frame
