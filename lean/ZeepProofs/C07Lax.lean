import ZeepProofs.C07Deep
import ZeepProofs.Lemmas.AccountItems
/-!
# C07, non-strict mode, at any depth

`c07_lax_keeps_stranger` (C07Deep.lean) covers a stranger directly below the decoded element.  Here:
**wherever** the stranger sits — any depth, any position, content models of any wildcard-free nesting
of sequence / choice / group (`xsd:all` at the top) — if non-strict decoding returns a value, the
stranger is reachable from that value as raw XML (`KeptIn`): it is among the raw elements of the
item its parent decoded to, or it lies inside an element that was itself kept raw.  "In neither
mode does it vanish without trace."
-/
namespace Zeep.Xsd
open Zeep

/-- `s` is a proper descendant of `n` -/
inductive Inside (s : Node) : Node → Prop
  | child (n : Node) : s ∈ n.kids → Inside s n
  | deeper (n k : Node) : k ∈ n.kids → Inside s k → Inside s n

/-- `s` is handed to the caller as raw XML somewhere in the decoded item -/
inductive KeptIn (s : Node) : Item → Prop
  | raw (attrs : List (QName × String)) (c : Option Inst) (raw : List Node) : s ∈ raw → KeptIn s (.complex attrs c raw)
  | rawDeep (attrs : List (QName × String)) (c : Option Inst) (raw : List Node) (n : Node) :
      n ∈ raw → Inside s n → KeptIn s (.complex attrs c raw)
  | inItem (attrs : List (QName × String)) (i : Inst) (raw : List Node) (it : Item) :
      it ∈ itemsOf i → KeptIn s it → KeptIn s (.complex attrs (some i) raw)

/-- `s` is an element nothing declares, somewhere below `x` (decoded against `ty`): directly below, or
below a child that some declaration of the content model names — then below that child for every
declaration that names it -/
inductive LaxStranger (s : Node) : Ty → Node → Prop
  | here (p : Particle) (decls : List AttrDecl) (x : Node) : TopRegular p = true → s ∈ x.kids →
      (∀ q ty, (q, ty) ∈ levelElems p → q.name ≠ s.tag.name) → LaxStranger s (.complex (some p) decls true) x
  | under (p : Particle) (decls : List AttrDecl) (x k : Node) : TopRegular p = true → k ∈ x.kids → Inside s k →
      (∀ q ty, (q, ty) ∈ levelElems p → q.name = k.tag.name → LaxStranger s ty k) →
      LaxStranger s (.complex (some p) decls true) x

/-- members of an `xsd:all`, with places -/
theorem accti_allMembers (m : Mode) (ps : List Particle) : ∀ (gas : Nat) (pool : List Node) (r : Out (List Inst)),
    allMembers gas m ps pool = .ok r → ∀ s ∈ pool, s ∈ r.rest ∨ DecodedAs m (levelElemsL ps) (itemsOfList r.val) s := by
  induction ps with
  | nil =>
    intro gas pool r h s hs
    cases gas with
    | zero => simp [allMembers] at h
    | succ gas => simp only [allMembers, pure_eq_ok] at h; subst h; exact Or.inl hs
  | cons p ps ihp =>
    intro gas pool r h s hs
    cases gas with
    | zero => simp [allMembers] at h
    | succ gas =>
      cases p
      case elem q mn mx ty =>
        simp only [allMembers] at h
        split at h
        · obtain ⟨r', hr', h⟩ := bind_ok _ _ _ h
          simp only [pure_eq_ok] at h; subst h
          rcases ihp gas pool r' hr' s hs with h1 | h1
          · exact Or.inl h1
          · exact Or.inr (h1.mono mem_app_right (by simp [itemsOfList, itemsOf]))
        · obtain ⟨mine, hmine, h⟩ := bind_ok _ _ _ h
          obtain ⟨r', hr', h⟩ := bind_ok _ _ _ h
          simp only [pure_eq_ok] at h; subst h
          obtain ⟨taken, ht, hall⟩ := accti_parseP_elem gas m q mn mx ty _ mine hmine
          have hnext : ∀ s', s' ∈ (pool.filter fun x => !(x.tag == q)) ++ mine.rest →
              s' ∈ r'.rest ∨ DecodedAs m (levelElemsL (Particle.elem q mn mx ty :: ps)) (itemsOfList (mine.val :: r'.val)) s' := by
            intro s' hs'
            rcases ihp gas _ r' hr' s' hs' with h1 | h1
            · exact Or.inl h1
            · exact Or.inr (h1.mono mem_app_right (by simp [itemsOfList]; intro i hi; exact Or.inr hi))
          by_cases hq : (s.tag == q) = true
          · have hsub : s ∈ pool.filter fun x => x.tag == q := List.mem_filter.mpr ⟨hs, hq⟩
            rw [ht] at hsub
            rcases List.mem_append.mp hsub with h1 | h1
            · exact Or.inr ((hall s h1).mono (by intro e he; simp only [levelElemsL, levelElems]; exact List.mem_append_left _ he)
                (by simp [itemsOfList]; intro i hi; exact Or.inl hi))
            · exact hnext s (List.mem_append_right _ h1)
          · exact hnext s (List.mem_append_left _ (List.mem_filter.mpr ⟨hs, by simpa using hq⟩))
      all_goals
        simp only [allMembers] at h
        obtain ⟨r', hr', h⟩ := bind_ok _ _ _ h
        simp only [pure_eq_ok] at h; subst h
        rcases ihp gas pool r' hr' s hs with h1 | h1
        · exact Or.inl h1
        · exact Or.inr (h1.mono mem_app_right (by simp [itemsOfList, itemsOf]))

/-- at the top of a content model: every child is decoded into an item of the returned instance, or left in the deque -/
theorem accti_top (gas : Nat) (m : Mode) (p : Particle) (xs : List Node) (r : Out Inst) (hreg : TopRegular p = true)
    (h : parseP gas m p xs = .ok r) : ∀ s ∈ xs, s ∈ r.rest ∨ DecodedAs m (levelElems p) (itemsOf r.val) s := by
  intro s hs
  have prefixCase : ∀ (hr : Regular p = true), s ∈ r.rest ∨ DecodedAs m (levelElems p) (itemsOf r.val) s := by
    intro hr
    obtain ⟨taken, ht, hall⟩ := (accti gas).parseP m p xs r hr h
    rw [ht] at hs
    rcases List.mem_append.mp hs with h1 | h1
    · exact Or.inr (hall s h1)
    · exact Or.inl h1
  cases p with
  | all ps co =>
    have hco : co = false := by simpa [TopRegular] using hreg
    subst hco
    cases gas with
    | zero => simp [parseP] at h
    | succ gas =>
      simp only [parseP] at h
      obtain ⟨r', hr', h⟩ := bind_ok _ _ _ h
      simp only [Bool.false_eq_true, if_false, pure_eq_ok] at h; subst h
      by_cases ht : (memberTags ps).contains s.tag = true
      · have hmine : s ∈ xs.filter fun x => (memberTags ps).contains x.tag := List.mem_filter.mpr ⟨hs, ht⟩
        rcases accti_allMembers m ps gas _ r' hr' s hmine with h1 | h1
        · left
          refine List.mem_append_right _ (mem_byTag _ _ s h1 ?_)
          rcases (tagsInOrder_spec _ []).2.2 s hmine with h2 | h2
          · simp at h2
          · exact h2
        · exact Or.inr (by simpa [levelElems, itemsOf] using h1)
      · left
        exact List.mem_append_left _ (List.mem_filter.mpr ⟨hs, by simpa using ht⟩)
  | elem q mn mx ty => exact prefixCase (by simp [Regular])
  | any mn mx => simp [TopRegular, Regular] at hreg
  | seq ps mn mx => exact prefixCase (by simpa [TopRegular] using hreg)
  | choice ps mn mx => exact prefixCase (by simpa [TopRegular] using hreg)
  | group p' mn mx => exact prefixCase (by simpa [TopRegular] using hreg)

/-- **Non-strict mode keeps a stranger at any depth**: if decoding returns a value, the stranger is
reachable from it as raw XML. -/
theorem c07_lax_keeps_stranger_any_depth (s : Node) (ty : Ty) (x : Node) (hs : LaxStranger s ty x) :
    ∀ (gas : Nat) (allowNone : Bool) (r : Out Item), parseNode gas .lax allowNone ty x = .ok r → KeptIn s r.val := by
  induction hs with
  | here p decls x htop hk hstr =>
    intro gas allowNone r h
    obtain ⟨attrs, c, raw, hv, hin⟩ := c07_lax_keeps_stranger p decls x s htop hk hstr gas allowNone r h
    rw [hv]; exact .raw attrs c raw hin
  | under p decls x k htop hk hinside _ ih =>
    intro gas allowNone r h
    cases gas with
    | zero => simp [parseNode] at h
    | succ gas =>
      have hkids : x.kids.isEmpty = false := by
        cases hx : x.kids with
        | nil => rw [hx] at hk; simp at hk
        | cons a t => rfl
      simp only [parseNode, Bool.not_true, Bool.false_eq_true, if_false, hkids, Bool.and_false, Bool.false_and] at h
      split at h
      · cases h
      · cases h
      · rename_i r0 hr0
        have hitem : ∃ raw, r.val = .complex (declaredAttrs decls x.attrs) (some r0.val) raw ∧ (∀ n, n ∈ r0.rest → n ∈ raw) := by
          split at h
          · rename_i hemp
            simp only [pure_eq_ok] at h; subst h
            exact ⟨[], rfl, by rw [List.isEmpty_iff.mp hemp]; simp⟩
          · split at h
            · rename_i hm; simp at hm
            · simp only [pure_eq_ok] at h; subst h
              exact ⟨r0.rest, rfl, fun n hn => hn⟩
        obtain ⟨raw, hv, hraw⟩ := hitem
        rw [hv]
        rcases accti_top gas .lax p x.kids r0 htop hr0 k hk with h1 | h1
        · exact .rawDeep _ _ raw k (hraw k h1) hinside
        · obtain ⟨q, ty', g, a, r', hmem, hname, hp, hval⟩ := h1
          exact .inItem _ r0.val raw r'.val hval (ih q ty' hmem hname.symm g a r' hp)

/-! ### non-vacuity -/
private def lf2 (n t : String) : Node := .mk ⟨none, n⟩ [] (some t) []
private def inT2 : Ty :=
  .complex (some (.seq [.elem ⟨none, "p"⟩ 1 (.bounded 1) .simple,
                        .choice [.elem ⟨none, "u"⟩ 1 (.bounded 1) .simple, .elem ⟨none, "v"⟩ 1 (.bounded 1) .simple] 0 (.bounded 3)] 1 (.bounded 1))) [] true
private def outT2 : Ty :=
  .complex (some (.seq [.elem ⟨none, "a"⟩ 1 (.bounded 1) .simple, .elem ⟨none, "b"⟩ 0 (.bounded 2) inT2] 1 (.bounded 1))) [] true
private def bNode : Node := .mk ⟨none, "b"⟩ [] none [lf2 "p" "2", lf2 "v" "3", lf2 "X" "stranger", lf2 "u" "5"]
private def doc2 : Node := .mk ⟨none, "root"⟩ [] none [lf2 "a" "1", bNode]

example : LaxStranger (lf2 "X" "stranger") outT2 doc2 := by
  refine .under _ _ _ bNode (by decide) (by simp [doc2, Node.kids]) (.child _ (by simp [bNode, Node.kids])) ?_
  intro q ty hm hn
  simp [levelElems, levelElemsL] at hm
  rcases hm with ⟨rfl, rfl⟩ | ⟨rfl, rfl⟩
  · simp [bNode, Node.tag] at hn
  · refine .here _ _ _ (by decide) (by simp [bNode, Node.kids]) ?_
    intro q ty hm
    simp [levelElems, levelElemsL] at hm
    rcases hm with ⟨rfl, _⟩ | ⟨rfl, _⟩ | ⟨rfl, _⟩ <;> simp [lf2, Node.tag]

/-- the model does return a value for it in non-strict mode (and none in strict mode) -/
example : (match parseRoot 60 .lax outT2 doc2 with | .ok _ => true | _ => false) = true := by decide +kernel
example : (match parseRoot 60 .strict outT2 doc2 with | .error .xmlParse => true | _ => false) = true := by decide +kernel

end Zeep.Xsd
