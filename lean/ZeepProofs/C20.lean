import ZeepModel.Soap.Headers
/-!
# C20 — calls are isolated: inputs are not mutated and calls do not influence each other
-/
namespace Zeep.Isolation

theorem deepcopy_fresh_list (hv : HV) (o : Owner) (xs : List Item) (h : hv.deepcopy = .list o xs) :
    o = .fresh ∧ ∀ x ∈ xs, x.owner = .fresh := by
  cases hv with
  | none => simp [HV.deepcopy] at h
  | dict _ _ => simp [HV.deepcopy] at h
  | list o' ys =>
    simp only [HV.deepcopy, HV.list.injEq] at h
    obtain ⟨rfl, rfl⟩ := h
    exact ⟨rfl, by intro x hx; simp only [List.mem_map] at hx; obtain ⟨y, _, rfl⟩ := hx; rfl⟩

theorem deepcopy_fresh_dict (hv : HV) (o : Owner) (xs : List (String × Item)) (h : hv.deepcopy = .dict o xs) :
    o = .fresh ∧ ∀ p ∈ xs, p.2.owner = .fresh := by
  cases hv with
  | none => simp [HV.deepcopy] at h
  | list _ _ => simp [HV.deepcopy] at h
  | dict o' ys =>
    simp only [HV.deepcopy, HV.dict.injEq] at h
    obtain ⟨rfl, rfl⟩ := h
    exact ⟨rfl, by intro x hx; simp only [List.mem_map] at hx; obtain ⟨y, _, rfl⟩ := hx; rfl⟩

/-- **No caller-owned object is written** by merging and serialising headers: every write — the
container that is extended / updated and every element that is appended (and thereby re-parented) —
targets an object allocated by the call itself, whatever the caller passed and whatever the
defaults are. -/
theorem c20_no_caller_mutation (c : Client) (k : Call) :
    ∀ w ∈ (call c k).1.writes, w.target = .fresh := by
  intro w hw
  simp only [call] at hw
  cases hm : merge c.defaultHeaders k.headers with
  | none => simp [hm] at hw
  | some r =>
    obtain ⟨hv, w1⟩ := r
    simp only [hm, List.mem_append] at hw
    rcases hw with hw | hw
    · -- writes of merge
      simp only [merge] at hm
      split at hm
      · split at hm
        · rename_i o xs _ ys hd _
          simp only [Option.some.injEq, Prod.mk.injEq] at hm
          obtain ⟨_, rfl⟩ := hm
          simp at hw; subst hw
          exact (deepcopy_fresh_list _ _ _ hd).1
        · rename_i o xs _ ys hd _
          simp only [Option.some.injEq, Prod.mk.injEq] at hm
          obtain ⟨_, rfl⟩ := hm
          simp at hw; subst hw
          exact (deepcopy_fresh_dict _ _ _ hd).1
        · cases hm
      · split at hm <;> (simp only [Option.some.injEq, Prod.mk.injEq] at hm; obtain ⟨_, rfl⟩ := hm; simp at hw)
    · -- writes of serializeHeader
      simp only [serializeHeader] at hw
      split at hw
      · simp at hw
      · split at hw
        · rename_i o xs hd
          simp only [List.mem_map] at hw
          obtain ⟨x, hx, rfl⟩ := hw
          exact (deepcopy_fresh_list _ _ _ hd).2 x hx
        · rename_i o xs hd
          simp only [List.mem_map] at hw
          obtain ⟨p, hp, rfl⟩ := hw
          exact (deepcopy_fresh_dict _ _ _ hd).2 p hp
        · simp at hw

/-- the client's configuration (default headers, plugin list, settings) is the same object state
after a call as before, whether the call succeeded or raised -/
theorem c20_client_unchanged (c : Client) (k : Call) : (call c k).2 = c := by
  simp only [call]
  split <;> rfl

/-- **History independence.**  The outcome of every call in any sequence — including sequences
with failing calls — is the outcome that call has on a fresh client with the same configuration. -/
theorem c20_history_independent (c : Client) (ks : List Call) :
    (runCalls c ks).1 = ks.map (fun k => (call c k).1) ∧ (runCalls c ks).2 = c := by
  induction ks with
  | nil => exact ⟨rfl, rfl⟩
  | cons k ks ih =>
    simp only [runCalls, c20_client_unchanged, List.map_cons]
    exact ⟨by rw [ih.1], ih.2⟩

/-- **Idempotent build**: building a message twice from the same inputs gives the same message -/
theorem c20_idempotent_build (c : Client) (k : Call) :
    (call (call c k).2 k).1.message = (call c k).1.message := by
  rw [c20_client_unchanged]

/-- what goes wrong without the deep copy in `_serialize_header` (a shallow copy keeps the caller's
elements): the append would write a caller-owned object -/
theorem c20_shallow_copy_counterexample :
    let callerList : HV := .list .caller [⟨.caller, 1, "<Token/>"⟩]
    ∃ x ∈ (match callerList with | .list _ xs => xs | _ => []), x.owner = .caller := by
  exact ⟨⟨.caller, 1, "<Token/>"⟩, by simp, rfl⟩

example : (call ⟨.list .caller [⟨.caller, 1, "d"⟩], ["p"], []⟩ ⟨"op", "x", .list .caller [⟨.caller, 2, "h"⟩]⟩).1.message
    = some ("op(x)", ["d", "h"]) := by decide

end Zeep.Isolation
