import ZeepProofs.C01Choice
/-!
# C01 — round trip for records with *repeating* choices

`C01Choice.lean` covers a choice taken at most once.  Here the choice repeats (`maxOccurs` any bound, `unbounded`
included; zeep's `_value_N` list of single-key dicts): the instance is a list of picks, each naming a branch and carrying
one item; the same branch may be picked several times, also in a row.  The serialisation is the concatenation of the
picked elements; `choiceLoop` reads it back pick by pick, because in every round exactly one branch — the one carrying the
next node's name — consumes, and it consumes exactly one node.
-/
namespace Zeep.Xsd
open Zeep

/-- every pick names a single-element branch and carries one item that decodes back -/
def PicksOK (m : Mode) (bs : List Particle) : List (Nat × Inst) → Prop
  | [] => True
  | (i, .elems [it]) :: rest => (∃ q ty, bs[i]? = some (.elem q 1 (.bounded 1) ty) ∧ Dec m ty it) ∧ PicksOK m bs rest
  | _ => False

theorem serChoice_cons_pick (bs : List Particle) (i : Nat) (q : QName) (ty : Ty) (it : Item) (rest : List (Nat × Inst))
    (hb : bs[i]? = some (.elem q 1 (.bounded 1) ty)) :
    serChoice bs ((i, .elems [it]) :: rest) = serItem q ty it :: serChoice bs rest := by
  simp [serChoice, hb, serInst, serItems]

/-- the rounds of a repeating choice: `choiceLoop` returns exactly the picks and stops in front of a rest that starts
with none of the branch names (or at the end of the input, or when `maxOccurs` rounds have been read) -/
theorem choiceLoop_picks (m : Mode) (bs : List Particle) (hs : SimpleBranches bs) (hnd : (pnames bs).Nodup) :
    ∀ (picks : List (Nat × Inst)), PicksOK m bs picks →
      ∃ g0, ∀ g, g0 ≤ g → ∀ (n : Nat) (rest : List Node), picks.length ≤ n → HeadNotAny (pnames bs) rest →
        ∃ calls, choiceLoop g m bs n (serChoice bs picks ++ rest) = .ok ⟨picks, rest, calls⟩ := by
  intro picks
  induction picks with
  | nil =>
    intro _
    refine ⟨bs.length + 4, ?_⟩
    intro g hg n rest _ hrest
    obtain ⟨g', rfl⟩ : ∃ g', g = g' + 1 := ⟨g - 1, by omega⟩
    cases n with
    | zero => exact ⟨0, by simp [serChoice, choiceLoop, pure, Except.pure]⟩
    | succ n' =>
      cases rest with
      | nil => exact ⟨0, by simp [serChoice, choiceLoop, pure, Except.pure]⟩
      | cons x xs =>
        have hx : x.tag.name ∉ pnames bs := by
          intro hmem
          have := hrest x.tag.name hmem
          simp [HeadNot] at this
        obtain ⟨c, hc⟩ := choiceOptions_none m x xs bs g' 0 hs hx (by omega)
        exact ⟨c, by simp [serChoice, choiceLoop, hc, bind, Except.bind, pure, Except.pure]⟩
  | cons pk picks ih =>
    intro hp
    match pk, hp with
    | (i, .elems [it]), hp =>
      simp only [PicksOK] at hp
      obtain ⟨⟨q, ty, hb, hd⟩, hrestp⟩ := hp
      obtain ⟨g1, h1⟩ := ih hrestp
      obtain ⟨g2, h2⟩ := choiceOptions_taken m q ty it hd bs i hs hnd hb
      refine ⟨g1 + g2 + 1, ?_⟩
      intro g hg n rest hlen hrest
      obtain ⟨g', rfl⟩ : ∃ g', g = g' + 1 := ⟨g - 1, by omega⟩
      obtain ⟨n', rfl⟩ : ∃ n', n = n' + 1 := ⟨n - 1, by simp at hlen; omega⟩
      obtain ⟨c2, hc2⟩ := h2 g' (by omega) 0 (serChoice bs picks ++ rest)
      obtain ⟨c1, hc1⟩ := h1 g' (by omega) n' rest (by simp at hlen; omega) hrest
      refine ⟨c2 + c1, ?_⟩
      rw [serChoice_cons_pick bs i q ty it picks hb]
      simp only [List.cons_append, choiceLoop, hc2, Nat.zero_add, bind, Except.bind, List.drop_succ_cons, List.drop_zero, hc1,
        pure, Except.pure]

/-- the serialisation of the picks starts with a branch name -/
theorem serChoice_head (m : Mode) (bs : List Particle) (hs : SimpleBranches bs) (picks : List (Nat × Inst))
    (hp : PicksOK m bs picks) (n : String) (hn : n ∉ pnames bs) : HeadNot n (serChoice bs picks) := by
  cases picks with
  | nil => simp [serChoice]; trivial
  | cons pk rest =>
    match pk, hp with
    | (i, .elems [it]), hp =>
      simp only [PicksOK] at hp
      obtain ⟨⟨q, ty, hb, hd⟩, _⟩ := hp
      rw [serChoice_cons_pick bs i q ty it rest hb]
      have := name_mem_of_get bs i hs hb
      simp only [HeadNot, hd.1 q]
      intro e; exact hn (e ▸ this)

/-- a repeating choice member: any number of picks up to `maxOccurs` -/
theorem member_choice_repeated (m : Mode) (bs : List Particle) (cmin : Nat) (cmax : Occ) (picks : List (Nat × Inst))
    (hs : SimpleBranches bs) (hnd : (pnames bs).Nodup) (hp : PicksOK m bs picks) (hlen : picks.length ≤ cmax.limit) :
    MemberOK m (.choice bs cmin cmax) (.choiceR picks) := by
  constructor
  · intro n hn
    simp only [mnames] at hn
    simp only [serInst]
    exact serChoice_head m bs hs picks hp n hn
  · obtain ⟨g1, h1⟩ := choiceLoop_picks m bs hs hnd picks hp
    refine ⟨g1 + 1, ?_⟩
    intro gas hg rest hrest
    obtain ⟨g, rfl⟩ : ∃ g, gas = g + 1 := ⟨gas - 1, by omega⟩
    obtain ⟨c, hc⟩ := h1 g (by omega) cmax.limit rest hlen (by simpa [mnames] using hrest)
    exact ⟨c + 1, by simp [serInst, parseP, hc, bind, Except.bind, pure, Except.pure]⟩

/-! ### records whose members are elements or (repeating) choices -/

/-- the picks of a choice against the well-formedness `W` of items one level down -/
def PicksW (W : Ty → Item → Prop) (bs : List Particle) : List (Nat × Inst) → Prop
  | [] => True
  | (i, .elems [it]) :: rest => (∃ q ty, bs[i]? = some (.elem q 1 (.bounded 1) ty) ∧ W ty it) ∧ PicksW W bs rest
  | _ => False

theorem picksOK_of_W (m : Mode) (W : Ty → Item → Prop) (hW : ∀ ty it, W ty it → Dec m ty it) (bs : List Particle) :
    ∀ picks, PicksW W bs picks → PicksOK m bs picks := by
  intro picks
  induction picks with
  | nil => intro _; trivial
  | cons pk rest ih =>
    intro h
    match pk, h with
    | (i, .elems [it]), h =>
      simp only [PicksW] at h
      obtain ⟨⟨q, ty, hb, hw⟩, hr⟩ := h
      exact ⟨⟨q, ty, hb, hW ty it hw⟩, ih hr⟩

def WTMemberC (W : Ty → Item → Prop) : Particle → Inst → Prop
  | .elem _ min max ty, .elems items => min ≤ items.length ∧ items.length ≤ max.limit ∧ ∀ it ∈ items, W ty it
  | .choice bs _ cmax, .choiceR picks =>
      SimpleBranches bs ∧ (pnames bs).Nodup ∧ picks.length ≤ cmax.limit ∧ PicksW W bs picks
  | _, _ => False

/-- records (with element members and choices repeating any number of times) of nesting depth at most `d` -/
def WTItemC : Nat → Ty → Item → Prop
  | _, .simple, .leaf _ => True
  | d + 1, .complex (some (.seq ps _ (.bounded 1))) decls true, .complex attrs (some (.seqR [insts])) [] =>
      declaredAttrs decls attrs = attrs ∧ WTRoundG (WTMemberC (WTItemC d)) ps insts
  | _, _, _ => False

theorem memberOK_of_WTC (m : Mode) (W : Ty → Item → Prop) (hW : ∀ ty it, W ty it → Dec m ty it) :
    ∀ p i, WTMemberC W p i → MemberOK m p i := by
  intro p i h
  cases p with
  | elem q min max ty =>
    cases i with
    | elems items =>
      obtain ⟨h1, h2, h3⟩ := h
      exact member_elem m q min max ty items h1 h2 (fun it hit => hW ty it (h3 it hit))
    | _ => simp [WTMemberC] at h
  | choice bs cmin cmax =>
    cases i with
    | choiceR picks =>
      obtain ⟨hs, hnd, hlen, hp⟩ := h
      exact member_choice_repeated m bs cmin cmax picks hs hnd (picksOK_of_W m W hW bs picks hp) hlen
    | _ => simp [WTMemberC] at h
  | _ => cases i <;> simp [WTMemberC] at h

/-- **Records whose members are elements and choices that repeat any number of times (`maxOccurs` unbounded included),
nested to any depth, round-trip** — both modes, `allow_none` on or off, every sufficiently large step budget. -/
theorem c01_record_with_repeated_choices_roundtrip (m : Mode) :
    ∀ (d : Nat) (ty : Ty) (it : Item), WTItemC d ty it → Dec m ty it := by
  intro d
  induction d with
  | zero =>
    intro ty it hw
    cases ty <;> cases it <;> simp [WTItemC] at hw
    refine ⟨fun q => rfl, 1, ?_⟩
    intro gas hg q a
    obtain ⟨g, rfl⟩ : ∃ g, gas = g + 1 := ⟨gas - 1, by omega⟩
    exact ⟨1, by simp [serItem, parseNode, Node.text, pure, Except.pure]⟩
  | succ d ih =>
    intro ty it hw
    cases ty with
    | simple =>
      cases it <;> simp [WTItemC] at hw
      refine ⟨fun q => rfl, 1, ?_⟩
      intro gas hg q a
      obtain ⟨g, rfl⟩ : ∃ g, gas = g + 1 := ⟨gas - 1, by omega⟩
      exact ⟨1, by simp [serItem, parseNode, Node.text, pure, Except.pure]⟩
    | complex content decls hasFields =>
      cases it with
      | complex attrs ci raw =>
        match content, hasFields, ci, raw, hw with
        | some (.seq ps smin (.bounded 1)), true, some (.seqR [insts]), [], hw =>
          simp only [WTItemC] at hw
          obtain ⟨hattrs, hround⟩ := hw
          exact dec_record_of_members m _ (memberOK_of_WTC m (WTItemC d) ih) ps insts smin decls attrs hattrs hround
      | _ => simp [WTItemC] at hw
    | _ => cases it <;> simp [WTItemC] at hw

theorem c01_record_with_repeated_choices_roundtrip_root (m : Mode) (d : Nat) (ty : Ty) (it : Item) (q : QName)
    (hw : WTItemC d ty it) :
    ∃ g0, ∀ gas, g0 ≤ gas → ∃ calls, parseRoot gas m ty (serItem q ty it) = .ok ⟨it, [], calls⟩ := by
  obtain ⟨_, g0, h⟩ := c01_record_with_repeated_choices_roundtrip m d ty it hw
  exact ⟨g0, fun gas hg => h gas hg q false⟩

/-! non-vacuity: an unbounded choice picked x, y, y, x (the same branch twice in a row), a falsy leaf, a nested record in a
branch, followed by another member -/
private def tyLeafRec2 : Ty := .complex (some (.seq [.elem ⟨none, "p"⟩ 1 (.bounded 1) .simple] 1 (.bounded 1))) [] true
private def tyRC : Ty :=
  .complex (some (.seq [.elem ⟨none, "a"⟩ 1 (.bounded 1) .simple,
                        .choice [.elem ⟨none, "x"⟩ 1 (.bounded 1) .simple, .elem ⟨none, "y"⟩ 1 (.bounded 1) tyLeafRec2] 0 .unbounded,
                        .elem ⟨none, "z"⟩ 0 .unbounded .simple] 1 (.bounded 1))) [] true
private def recY (t : String) : Item := .complex [] (some (.seqR [[.elems [.leaf (some t)]]])) []
private def itRC : Item :=
  .complex [] (some (.seqR [[.elems [.leaf (some "0")],
                              .choiceR [(0, .elems [.leaf (some "")]), (1, .elems [recY "1"]), (1, .elems [recY "2"]), (0, .elems [.leaf (some "false")])],
                              .elems [.leaf (some "tail")]]])) []

example : WTItemC 2 tyRC itRC := by
  simp [WTItemC, WTRoundG, WTMemberC, PicksW, SimpleBranches, tyRC, itRC, tyLeafRec2, recY, declaredAttrs, pnames, mnames, lnames,
    Occ.limit, serInst, serItems, serChoice, serItem, serRounds, serList]
  have hleaf : ∀ t, WTItemC 1 .simple (.leaf t) := fun _ => by simp [WTItemC]
  have hrec : ∀ t, WTItemC 1 (.complex (some (.seq [.elem ⟨none, "p"⟩ 1 (.bounded 1) .simple] 1 (.bounded 1))) [] true)
      (.complex [] (some (.seqR [[.elems [.leaf (some t)]]])) []) := fun _ => by
    simp [WTItemC, WTRoundG, WTMemberC, declaredAttrs, mnames, lnames, Occ.limit, serInst, serItems, serItem]
  exact ⟨⟨_, _, ⟨rfl, rfl⟩, hleaf _⟩, ⟨_, _, ⟨rfl, rfl⟩, hrec _⟩, ⟨_, _, ⟨rfl, rfl⟩, hrec _⟩, ⟨_, _, ⟨rfl, rfl⟩, hleaf _⟩⟩

example : (match parseRoot 100 .strict tyRC (serItem ⟨none, "root"⟩ tyRC itRC) with
    | .ok r => r.rest.isEmpty | .error _ => false) = true := by decide +kernel

end Zeep.Xsd
