import ZeepProofs.C01Repeat
/-!
# C01 — non-repeating nested sequences and groups as members of a record

`xs:group ref=…` and a nested `xs:sequence` without occurrence attributes are flattened by zeep
into the fields of the enclosing type; in the decoder they are a `Group` / `Sequence` particle run
once.  Proved here: such a member, holding one complete round (any members the generic argument
covers, the last one non-empty), decodes back in front of any sibling that cannot be mistaken for
its last member — and an optional one (`minOccurs="0"`) that is left out decodes to no round.
-/
namespace Zeep.Xsd
open Zeep

/-- a nested sequence run once, holding one complete round -/
theorem member_seq_once (m : Mode) (M : Particle → Inst → Prop) (hM : ∀ p i, M p i → MemberOK m p i)
    (ps : List Particle) (smin : Nat) (round : List Inst) (hlen : round.length = ps.length) (hw : WTRoundG M ps round) :
    MemberOK m (.seq ps smin (.bounded 1)) (.seqR [round]) := by
  have hne : round ≠ [] := by
    intro h; subst h; cases ps <;> simp [WTRoundG] at hw
  obtain ⟨hser, hhead⟩ := serList_members m M hM ps round hne hw
  constructor
  · intro n hn
    simpa [serInst, serRounds, mnames] using hhead n (by simpa [mnames] using hn)
  · obtain ⟨g1, h1⟩ := seqRound_full m M hM ps round hlen hw
    refine ⟨g1 + 3, ?_⟩
    intro gas hg rest hrest
    obtain ⟨g, rfl⟩ : ∃ g, gas = g + 3 := ⟨gas - 3, by omega⟩
    have hlast : HeadNotAny (lastNames ps) rest := fun n hn => hrest n (by simpa [mnames] using lastNames_sub ps n hn)
    obtain ⟨c, hc⟩ := h1 (g + 1) (by omega) (decide (0 ≥ smin)) (serList ps round ++ rest).length rest hlast
    obtain ⟨y, ys, hy⟩ : ∃ y ys, serList ps round ++ rest = y :: ys := by
      cases h : serList ps round with
      | nil => exact absurd h hser
      | cons y ys => exact ⟨y, ys ++ rest, rfl⟩
    refine ⟨c + 0 + 1, ?_⟩
    simp only [serInst, serRounds, List.append_nil, parseP, Occ.limit]
    rw [hy]
    simp only [seqLoop]
    rw [← hy, hc]
    have hl : seqLoop (g + 1) m ps smin 0 (0 + 1) rest = .ok ⟨[], rest, 0⟩ := by simp [seqLoop, pure, Except.pure]
    simp [bind, Except.bind, hser, hl, pure, Except.pure]

/-- an optional nested sequence that is left out -/
theorem member_seq_absent (m : Mode) (ps : List Particle) (hs : SimpleMembers ps) :
    MemberOK m (.seq ps 0 (.bounded 1)) (.seqR []) := by
  constructor
  · intro n _; simp [serInst, serRounds, HeadNot]
  · obtain ⟨g1, h1⟩ := seqRound_skip m ps hs
    refine ⟨g1 + 2, ?_⟩
    intro gas hg rest hrest
    obtain ⟨g, rfl⟩ : ∃ g, gas = g + 2 := ⟨gas - 2, by omega⟩
    simp only [serInst, serRounds, List.nil_append, parseP, Occ.limit]
    cases rest with
    | nil => exact ⟨1, by simp [seqLoop, bind, Except.bind, pure, Except.pure]⟩
    | cons x xs =>
      obtain ⟨v, c, hv⟩ := h1 g (by omega) x xs (by simpa [mnames] using hrest)
      refine ⟨c + 1, ?_⟩
      simp only [seqLoop, Nat.zero_le, ge_iff_le, decide_true, hv, bind, Except.bind]
      cases v with
      | none => simp [pure, Except.pure]
      | some r => simp [pure, Except.pure]

/-- a group run once wraps its content model: whatever decodes as the content model decodes as the group -/
theorem member_group_once (m : Mode) (p : Particle) (gmin : Nat) (i : Inst) (h : MemberOK m p i) :
    MemberOK m (.group p gmin (.bounded 1)) (.groupR [i]) := by
  obtain ⟨hhead, g1, h1⟩ := h
  constructor
  · intro n hn
    simpa [serInst, serGroup, mnames] using hhead n (by simpa [mnames] using hn)
  · refine ⟨g1 + 3, ?_⟩
    intro gas hg rest hrest
    obtain ⟨g, rfl⟩ : ∃ g, gas = g + 3 := ⟨gas - 3, by omega⟩
    obtain ⟨c, hc⟩ := h1 (g + 1) (by omega) rest (by simpa [mnames] using hrest)
    refine ⟨c + 1, ?_⟩
    have hl : groupLoop (g + 1) m p 0 rest = .ok ⟨[], rest, 0⟩ := by simp [groupLoop, pure, Except.pure]
    simp only [serInst, serGroup, List.append_nil, parseP, Occ.limit, groupLoop, hc, bind, Except.bind]
    by_cases hcond : rest = [] ∨ serInst p i = []
    · simp [hcond, pure, Except.pure]
    · simp [hcond, hl, pure, Except.pure]

/-! ### records whose members are elements, choices, repeated sequences, nested sequences or groups -/

/-- members one level of nesting may hold -/
def WTMemberN (W : Ty → Item → Prop) (p : Particle) (i : Inst) : Prop :=
  WTMemberR W p i ∨
  (∃ ps smin round, p = .seq ps smin (.bounded 1) ∧ i = .seqR [round] ∧ round.length = ps.length ∧ WTRoundG (WTMemberR W) ps round) ∨
  (∃ ps, p = .seq ps 0 (.bounded 1) ∧ i = .seqR [] ∧ SimpleMembers ps) ∨
  (∃ ps smin gmin round, p = .group (.seq ps smin (.bounded 1)) gmin (.bounded 1) ∧ i = .groupR [.seqR [round]] ∧
      round.length = ps.length ∧ WTRoundG (WTMemberR W) ps round)

def WTItemN : Nat → Ty → Item → Prop
  | _, .simple, .leaf _ => True
  | d + 1, .complex (some (.seq ps _ (.bounded 1))) decls true, .complex attrs (some (.seqR [insts])) [] =>
      declaredAttrs decls attrs = attrs ∧ WTRoundG (WTMemberN (WTItemN d)) ps insts
  | _, _, _ => False

theorem memberOK_of_WTN (m : Mode) (W : Ty → Item → Prop) (hW : ∀ ty it, W ty it → Dec m ty it) :
    ∀ p i, WTMemberN W p i → MemberOK m p i := by
  intro p i h
  have hR := memberOK_of_WTR m W hW
  rcases h with h | ⟨ps, smin, round, rfl, rfl, hlen, hw⟩ | ⟨ps, rfl, rfl, hs⟩ | ⟨ps, smin, gmin, round, rfl, rfl, hlen, hw⟩
  · exact hR p i h
  · exact member_seq_once m _ hR ps smin round hlen hw
  · exact member_seq_absent m ps hs
  · exact member_group_once m _ gmin _ (member_seq_once m _ hR ps smin round hlen hw)

/-- **Records with nested sequences and groups, to any depth, round-trip.** -/
theorem c01_record_with_nested_particles_roundtrip (m : Mode) :
    ∀ (d : Nat) (ty : Ty) (it : Item), WTItemN d ty it → Dec m ty it := by
  intro d
  induction d with
  | zero =>
    intro ty it hw
    cases ty <;> cases it <;> simp [WTItemN] at hw
    refine ⟨fun q => rfl, 1, ?_⟩
    intro gas hg q a
    obtain ⟨g, rfl⟩ : ∃ g, gas = g + 1 := ⟨gas - 1, by omega⟩
    exact ⟨1, by simp [serItem, parseNode, Node.text, pure, Except.pure]⟩
  | succ d ih =>
    intro ty it hw
    cases ty with
    | simple =>
      cases it <;> simp [WTItemN] at hw
      refine ⟨fun q => rfl, 1, ?_⟩
      intro gas hg q a
      obtain ⟨g, rfl⟩ : ∃ g, gas = g + 1 := ⟨gas - 1, by omega⟩
      exact ⟨1, by simp [serItem, parseNode, Node.text, pure, Except.pure]⟩
    | complex content decls hasFields =>
      cases it with
      | complex attrs ci raw =>
        match content, hasFields, ci, raw, hw with
        | some (.seq ps smin (.bounded 1)), true, some (.seqR [insts]), [], hw =>
          simp only [WTItemN] at hw
          obtain ⟨hattrs, hround⟩ := hw
          exact dec_record_of_members m _ (memberOK_of_WTN m (WTItemN d) ih) ps insts smin decls attrs hattrs hround
      | _ => simp [WTItemN] at hw
    | _ => cases it <;> simp [WTItemN] at hw

/-! non-vacuity: `a, group(seq(g1, g2?)), seq(n1), z?` -/
private def e' (n : String) (mn : Nat) (mx : Occ) : Particle := .elem ⟨none, n⟩ mn mx .simple
private def tyN : Ty :=
  .complex (some (.seq [e' "a" 1 (.bounded 1),
                        .group (.seq [e' "g1" 1 (.bounded 1), e' "g2" 0 (.bounded 1)] 1 (.bounded 1)) 1 (.bounded 1),
                        .seq [e' "n1" 1 (.bounded 1)] 1 (.bounded 1),
                        e' "z" 0 (.bounded 1)] 1 (.bounded 1))) [] true
private def l' (t : String) : Item := .leaf (some t)
private def itN : Item :=
  .complex [] (some (.seqR [[.elems [l' "1"], .groupR [.seqR [[.elems [l' "x"], .elems [l' "0"]]]], .seqR [[.elems [l' ""]]]]])) []

example : WTItemN 1 tyN itN := by
  refine ⟨by simp [declaredAttrs], ?_⟩
  -- a
  refine ⟨Or.inl (Or.inl ⟨by decide, by decide, fun it hit => by simp only [List.mem_singleton] at hit; subst hit; exact trivial⟩),
    by simp [mnames, lnames, e'], by simp, fun _ => ?_⟩
  -- the group
  refine ⟨Or.inr (Or.inr (Or.inr ⟨[e' "g1" 1 (.bounded 1), e' "g2" 0 (.bounded 1)], 1, 1, _, rfl, rfl, rfl, ?_⟩)),
    by simp [mnames, lnames, e'], by simp, fun _ => ?_⟩
  · simp [WTRoundG, WTMemberR, WTMember, WTItemN, l', e', mnames, lnames, Occ.limit, serInst, serItems, serItem]
  -- the nested sequence (last member)
  refine ⟨Or.inr (Or.inl ⟨[e' "n1" 1 (.bounded 1)], 1, _, rfl, rfl, rfl, ?_⟩), by simp [mnames, lnames, e'],
    by simp [serInst, serRounds, serList, serItems, e'], by simp⟩
  simp [WTRoundG, WTMemberR, WTMember, WTItemN, l', e', mnames, lnames, Occ.limit, serInst, serItems, serItem]

example : (match parseRoot 100 .strict tyN (serItem ⟨none, "root"⟩ tyN itN) with
    | .ok r => r.rest.isEmpty | .error _ => false) = true := by decide +kernel

end Zeep.Xsd
