import ZeepModel.MultiRef
import ZeepProofs.Lemmas.Base64
/-!
# C19 — multiRef, XOP and attachments decode to the same data as the inline form
-/
namespace Zeep.MultiRef
open Zeep

/-! ### multiRef: moving sub-trees out and dereferencing them is the identity -/

/-- a reply tree in which some sub-trees are marked "moved out under id `i`" (nesting allowed) -/
inductive O where
  | node (tag : QName) (attrs : List (QName × String)) (text : Option String) (kids : List O)
  | out (id : List Char) (tag : QName) (attrs : List (QName × String)) (text : Option String) (kids : List O)

mutual
/-- the inline reply (an out-lined node keeps the object's `id` attribute, as zeep's clone does) -/
def inl : O → Node
  | .node t a x ks => .mk t a x (inlL ks)
  | .out i t a x ks => .mk t ((idAttr, String.ofList i) :: a) x (inlL ks)
def inlL : List O → List Node
  | [] => []
  | k :: ks => inl k :: inlL ks
end

mutual
/-- the main tree on the wire: marked nodes are `href` stubs -/
def wire : O → Node
  | .node t a x ks => .mk t a x (wireL ks)
  | .out i t _ _ _ => .mk t [(hrefAttr, String.ofList ('#' :: i))] none []
def wireL : List O → List Node
  | [] => []
  | k :: ks => wire k :: wireL ks
end

mutual
/-- the top-level multiRef objects on the wire (their own children in wire form) -/
def objs : O → Table
  | .node _ _ _ ks => objsL ks
  | .out i _ a x ks => (String.ofList i, .mk ⟨none, "multiRef"⟩ ((idAttr, String.ofList i) :: a) x (wireL ks)) :: objsL ks
def objsL : List O → Table
  | [] => []
  | k :: ks => objs k ++ objsL ks
end

mutual
def height : O → Nat
  | .node _ _ _ ks => 1 + heightL ks
  | .out _ _ _ _ ks => 1 + heightL ks
def heightL : List O → Nat
  | [] => 0
  | k :: ks => Nat.max (height k) (heightL ks)
end

-- attributes of the caller's elements do not themselves carry an `href` (only stubs do)
mutual
def NoHref : O → Prop
  | .node _ a _ ks => getAttr a hrefAttr = none ∧ NoHrefL ks
  | .out _ _ _ _ ks => NoHrefL ks
def NoHrefL : List O → Prop
  | [] => True
  | k :: ks => NoHref k ∧ NoHrefL ks
end

theorem hrefTarget_stub (i : List Char) :
    hrefTarget [(hrefAttr, String.ofList ('#' :: i))] = some (String.ofList i) := by
  simp [hrefTarget, getAttr, String.toList_ofList]

mutual
theorem proc_wire (tbl : Table) (o : O) (fuel : Nat) (hf : height o ≤ fuel)
    (hl : ∀ e ∈ objs o, lookupT tbl e.1 = some e.2) (hn : NoHref o) :
    (proc tbl fuel (wire o)).1 = inl o := by
  cases o with
  | node t a x ks =>
    cases fuel with
    | zero => simp [height] at hf
    | succ fuel =>
      simp only [NoHref] at hn
      simp only [wire, proc, hrefTarget, hn.1, Option.bind_none, inl]
      congr 1
      simp only [height] at hf
      rw [List.map_map]
      exact procL_wire tbl ks fuel (by omega) (by simpa [objs] using hl) hn.2
  | out i t a x ks =>
    cases fuel with
    | zero => simp [height] at hf
    | succ fuel =>
      have hlk : lookupT tbl (String.ofList i) =
          some (.mk ⟨none, "multiRef"⟩ ((idAttr, String.ofList i) :: a) x (wireL ks)) :=
        hl (String.ofList i, .mk ⟨none, "multiRef"⟩ ((idAttr, String.ofList i) :: a) x (wireL ks)) (by simp [objs])
      simp only [wire, proc, hrefTarget_stub, Option.bind_some, hlk, Option.map_some, inl]
      congr 1
      simp only [height] at hf
      simp only [NoHref] at hn
      rw [List.map_map]
      exact procL_wire tbl ks fuel (by omega) (by intro e he; exact hl e (by simp [objs, he])) hn
theorem procL_wire (tbl : Table) (ks : List O) (fuel : Nat) (hf : heightL ks ≤ fuel)
    (hl : ∀ e ∈ objsL ks, lookupT tbl e.1 = some e.2) (hn : NoHrefL ks) :
    (wireL ks).map ((fun r => r.1) ∘ proc tbl fuel) = inlL ks := by
  cases ks with
  | nil => rfl
  | cons k ks =>
    simp only [heightL] at hf
    simp only [NoHrefL] at hn
    have h1 : height k ≤ fuel := Nat.le_trans (Nat.le_max_left _ _) hf
    have h2 : heightL ks ≤ fuel := Nat.le_trans (Nat.le_max_right _ _) hf
    simp only [wireL, List.map_cons, inlL, Function.comp]
    rw [proc_wire tbl k fuel h1 (fun e he => hl e (by simp [objsL, he])) hn.1]
    congr 1
    exact procL_wire tbl ks fuel h2 (fun e he => hl e (by simp [objsL, he])) hn.2
end

/-- **multiRef inverse.**  Take any reply tree, move any sub-trees (nested ones included) out into
id-carrying top-level objects referenced by `href`, and dereference with a table in which every id
finds its object (ids distinct): the result is the inline tree — same elements, attributes, text,
order — so it decodes to the same value. -/
theorem c19_multiref_inverse (tbl : Table) (o : O)
    (hl : ∀ e ∈ objs o, lookupT tbl e.1 = some e.2) (hn : NoHref o) :
    (proc tbl (height o) (wire o)).1 = inl o :=
  proc_wire tbl o (height o) (Nat.le_refl _) hl hn

/-! ### XOP: an Include replaced by the base64 of the part -/

/-- a base64 leaf whose content was moved to a MIME part: dereferencing gives the leaf with the
base64 text of exactly those bytes, which decodes to exactly those bytes (any byte string) -/
theorem c19_xop_inverse (parts : Parts) (tag : QName) (attrs : List (QName × String))
    (href : String) (bytes : List Nat) (fuel : Nat) (hb : ∀ b ∈ bytes, b < 256)
    (hp : (parts.find? (fun p => p.1 == cidOf href)).map (·.2) = some bytes) :
    procXop parts (fuel + 1) (.mk tag attrs none [.mk xopInclude [(hrefAttr, href)] none []]) =
      some (.mk tag attrs (some (String.ofList (Base64.encode bytes))) []) ∧
    Base64.decode (Base64.encode bytes) = some bytes := by
  refine ⟨?_, Base64.base64_rt bytes hb⟩
  have h1 : ((Node.mk xopInclude [(hrefAttr, href)] none []).tag == xopInclude) = true := by
    simp [Node.tag]
  simp [procXop, List.find?, h1, getAttr, Node.attrs, hp, List.filter]

/-- a missing part is an error, never a silent success -/
theorem c19_xop_missing (parts : Parts) (tag : QName) (attrs : List (QName × String)) (href : String) (fuel : Nat)
    (hp : (parts.find? (fun p => p.1 == cidOf href)).map (·.2) = none) :
    procXop parts (fuel + 1) (.mk tag attrs none [.mk xopInclude [(hrefAttr, href)] none []]) = none := by
  have h1 : ((Node.mk xopInclude [(hrefAttr, href)] none []).tag == xopInclude) = true := by
    simp [Node.tag]
  simp [procXop, List.find?, h1, getAttr, Node.attrs, hp]

/-- content-id spellings: url-encoded ids designate the decoded id, in angle brackets -/
theorem c19_cid_match :
    cidOf "cid:part1@example.org" = "<part1@example.org>" ∧
    cidOf "cid:part%2B1%40example.org" = "<part+1@example.org>" ∧
    cidOf "cid:a+b@example.org" = "<a+b@example.org>" := by decide

/-! ### attachments: byte-for-byte -/

/-- `…_partial`: byte-for-byte for base64 (any bytes), for 8bit / absent encodings (any bytes) and
for `binary` payloads that neither begin nor end with CR / LF.  What is missing: binary payloads
with leading / trailing CR or LF, which zeep strips (known finding K6, counterexample below). -/
theorem c19_attachment_bytes_partial (te : TE) (payload : List Nat) (hb : ∀ b ∈ payload, b < 256) :
    (te = .base64 → attachmentContent te ((Base64.encode payload).map Char.toNat) = some payload) ∧
    (te = .other → attachmentContent te payload = some payload) ∧
    (te = .binary → (∀ x, payload.head? = some x → x ≠ 13 ∧ x ≠ 10) →
        (∀ x, payload.getLast? = some x → x ≠ 13 ∧ x ≠ 10) → attachmentContent te payload = some payload) := by
  refine ⟨?_, ?_, ?_⟩
  · intro h; subst h
    simp only [attachmentContent, List.map_map]
    have : (Base64.encode payload).map (Char.ofNat ∘ Char.toNat) = Base64.encode payload := by
      rw [List.map_congr_left (g := id)]
      · simp
      · intro c _; simp [Char.ofNat_toNat]
    rw [this]; exact Base64.base64_lenient_rt payload hb
  · intro h; subst h; rfl
  · intro h h1 h2; subst h
    have hd : ∀ l : List Nat, (∀ x, l.head? = some x → x ≠ 13 ∧ x ≠ 10) →
        l.dropWhile (fun x => x == 13 || x == 10) = l := by
      intro l hl
      cases l with
      | nil => rfl
      | cons a t =>
        have := hl a rfl
        have e1 : (a == 13) = false := by simp [this.1]
        have e2 : (a == 10) = false := by simp [this.2]
        simp [List.dropWhile, e1, e2]
    simp only [attachmentContent, stripCRLF]
    rw [hd payload h1, hd payload.reverse (by intro x hx; rw [List.head?_reverse] at hx; exact h2 x hx)]
    simp

/-- **folded base64 bodies** (RFC 2045 6.8: encoded lines of at most 76 characters): a part body that is the canonical
encoding with line breaks / blanks inserted anywhere is returned as the payload, byte for byte -/
theorem c19_attachment_folded (payload : List Nat) (hb : ∀ b ∈ payload, b < 256) (raw : List Nat)
    (hraw : (raw.map Char.ofNat).filter (fun c => !Base64.isSpace c) = Base64.encode payload) :
    attachmentContent .base64 raw = some payload := by
  simp only [attachmentContent]
  exact Base64.base64_ws_rt payload hb _ hraw

example : attachmentContent .base64 ("QUJD\r\nREVG\r\nIA==".toList.map Char.toNat) = some [65, 66, 67, 68, 69, 70, 32] := by decide +kernel

/-- K6: a binary attachment ending in CR LF is altered -/
theorem c19_attachment_binary_counterexample :
    attachmentContent .binary [65, 13, 10] = some [65] := by decide

/-! non-vacuity of the multiRef theorem: a nested out-lining -/
example :
    let o : O := .node ⟨none, "resp"⟩ [] none
      [.out ['1'] ⟨none, "a"⟩ [] none [.out ['2'] ⟨none, "b"⟩ [] (some "x") []], .node ⟨none, "c"⟩ [] (some "y") []]
    (∀ e ∈ objs o, lookupT (objs o) e.1 = some e.2) ∧ NoHref o := by
  refine ⟨?_, by simp [NoHref, NoHrefL, getAttr]⟩
  intro e he
  simp [objs, objsL, wireL] at he
  rcases he with rfl | rfl <;> simp [lookupT, objs, objsL, wireL, List.find?]

end Zeep.MultiRef
