import ZeepModel.Xsd.Bind
import ZeepProofs.C02
/-!
# C12 — an accepted call is faithful: every datum the caller passed is on the wire

`c12_faithful`: for every record signature and every argument tree whose dicts have distinct keys
(python dicts do), if `Bind.call` accepts the call, then every scalar supplied — at any depth, in
any item of any list, in any iteration of a repeated sequence, as element or attribute value —
occurs in the character data of the element that is sent.  Together with the refusal theorems of
`ZeepProofs/C12.lean` this is "bound faithfully or refused — never silently ignored" for the model.
-/
namespace Zeep.Bind
open Zeep Zeep.Xsd

mutual
/-- the scalars a caller supplied -/
def Arg.leaves : Arg → List String
  | .leaf t => [t]
  | .none => []
  | .nil => []
  | .skip => []
  | .list xs => Arg.leavesL xs
  | .dict kvs => Arg.leavesD kvs
def Arg.leavesL : List Arg → List String
  | [] => []
  | x :: xs => x.leaves ++ Arg.leavesL xs
def Arg.leavesD : List (String × Arg) → List String
  | [] => []
  | (_, v) :: r => v.leaves ++ Arg.leavesD r
end

mutual
/-- dicts have distinct keys, at every depth -/
def Arg.WF : Arg → Prop
  | .list xs => Arg.WFL xs
  | .dict kvs => (kvs.map (·.1)).Nodup ∧ Arg.WFD kvs
  | _ => True
def Arg.WFL : List Arg → Prop
  | [] => True
  | x :: xs => x.WF ∧ Arg.WFL xs
def Arg.WFD : List (String × Arg) → Prop
  | [] => True
  | (_, v) :: r => v.WF ∧ Arg.WFD r
end

theorem mem_leavesD {kvs : List (String × Arg)} {t : String} (h : t ∈ Arg.leavesD kvs) : ∃ k v, (k, v) ∈ kvs ∧ t ∈ v.leaves := by
  induction kvs with
  | nil => simp [Arg.leavesD] at h
  | cons kv r ih =>
    obtain ⟨k, v⟩ := kv
    simp only [Arg.leavesD, List.mem_append] at h
    rcases h with h | h
    · exact ⟨k, v, by simp, h⟩
    · obtain ⟨k', v', hm, ht⟩ := ih h
      exact ⟨k', v', by simp [hm], ht⟩

theorem mem_leavesL {xs : List Arg} {t : String} (h : t ∈ Arg.leavesL xs) : ∃ x, x ∈ xs ∧ t ∈ x.leaves := by
  induction xs with
  | nil => simp [Arg.leavesL] at h
  | cons x r ih =>
    simp only [Arg.leavesL, List.mem_append] at h
    rcases h with h | h
    · exact ⟨x, by simp, h⟩
    · obtain ⟨x', hm, ht⟩ := ih h
      exact ⟨x', by simp [hm], ht⟩

theorem wf_of_memD {kvs : List (String × Arg)} (h : Arg.WFD kvs) {k : String} {v : Arg} (hm : (k, v) ∈ kvs) : v.WF := by
  induction kvs with
  | nil => cases hm
  | cons kv r ih =>
    obtain ⟨k0, v0⟩ := kv
    simp only [Arg.WFD] at h
    rcases List.mem_cons.mp hm with he | hm'
    · cases he; exact h.1
    · exact ih h.2 hm'

theorem wf_of_memL {xs : List Arg} (h : Arg.WFL xs) {x : Arg} (hm : x ∈ xs) : x.WF := by
  induction xs with
  | nil => cases hm
  | cons x0 r ih =>
    simp only [Arg.WFL] at h
    rcases List.mem_cons.mp hm with he | hm'
    · cases he; exact h.1
    · exact ih h.2 hm'

theorem lookup_of_mem_nodup {kvs : List (String × Arg)} (hn : (kvs.map (·.1)).Nodup) {k : String} {v : Arg} (hm : (k, v) ∈ kvs) :
    kvs.lookup k = some v := by
  induction kvs with
  | nil => cases hm
  | cons kv r ih =>
    obtain ⟨k0, v0⟩ := kv
    simp only [List.map_cons, List.nodup_cons] at hn
    rcases List.mem_cons.mp hm with he | hm'
    · cases he; simp [List.lookup]
    · have hne : k ≠ k0 := by
        intro e; subst e
        exact hn.1 (List.mem_map.mpr ⟨(k, v), hm', rfl⟩)
      have : (k == k0) = false := by simpa using hne
      simp [List.lookup, this, ih hn.2 hm']

/-! character data of a list of nodes -/
theorem mem_textsL_append_left {a b : List Node} {t : String} (h : t ∈ Node.textsL a) : t ∈ Node.textsL (a ++ b) := by
  rw [Node.textsL_append]; exact List.mem_append_left _ h
theorem mem_textsL_append_right {a b : List Node} {t : String} (h : t ∈ Node.textsL b) : t ∈ Node.textsL (a ++ b) := by
  rw [Node.textsL_append]; exact List.mem_append_right _ h

theorem collect_ok_mem {α} {l : List (Except BErr (List α))} {out : List α} (h : collect l = .ok out)
    {part : List α} (hm : .ok part ∈ l) : ∃ pre post, out = pre ++ part ++ post := by
  induction l generalizing out with
  | nil => cases hm
  | cons x xs ih =>
    cases x with
    | error e => simp [collect] at h
    | ok a =>
      simp only [collect] at h
      cases hc : collect xs with
      | error e => simp [hc] at h
      | ok b =>
        simp only [hc, Except.ok.injEq] at h
        subst h
        rcases List.mem_cons.mp hm with he | hm'
        · cases he; exact ⟨[], b, by simp⟩
        · obtain ⟨pre, post, hb⟩ := ih hc hm'
          exact ⟨a ++ pre, post, by simp [hb]⟩

theorem mem_textsL_of_parts {pre part post : List Node} {t : String} (h : t ∈ Node.textsL part) :
    t ∈ Node.textsL (pre ++ part ++ post) := by
  simp only [Node.textsL_append, List.mem_append]; exact Or.inl (Or.inr h)

/-- what "faithful" means for one emitted field -/
def FieldFaithful (f : BField) : Prop :=
  ∀ (v : Arg) (ns : List Node), keysOkField f (some v) = true → v.WF → emitField f (some v) = .ok ns →
    ∀ t ∈ v.leaves, t ∈ Node.textsL ns

def FieldsFaithful (fs : List BField) : Prop :=
  ∀ (kvs : List (String × Arg)) (ns : List Node), keysOkFields fs kvs = true → Arg.WFD kvs → emitFields fs kvs = .ok ns →
    ∀ f ∈ fs, ∀ v, kvs.lookup f.name = some v → ∀ t ∈ v.leaves, t ∈ Node.textsL ns

def TyFaithful (ty : BTy) : Prop :=
  ∀ (tag : String) (a : Arg) (n : Node), keysOk ty a = true → a.WF → emitTy ty tag a = .ok n → ∀ t ∈ a.leaves, t ∈ n.texts

theorem collect_error' {α} (l : List (Except BErr (List α))) (e : BErr) (h : .error e ∈ l) : ∃ e', collect l = .error e' := by
  induction l with
  | nil => cases h
  | cons x xs ih =>
    cases x with
    | error e0 => exact ⟨e0, rfl⟩
    | ok a =>
      rcases List.mem_cons.mp h with h | h
      · cases h
      · obtain ⟨e', he⟩ := ih h
        exact ⟨e', by simp [collect, he]⟩

theorem attrs_faithful (as : List BAttr) (kvs : List (String × Arg)) (attrs : List (QName × String))
    (h : emitAttrs as kvs = .ok attrs) (a : BAttr) (ha : a ∈ as) (v : Arg) (hl : kvs.lookup a.name = some v) :
    ∀ t ∈ v.leaves, t ∈ attrs.map (·.2) := by
  intro t ht
  unfold emitAttrs at h
  have hbad : emitAttr kvs a = .error .unsupported → False := by
    intro hb
    obtain ⟨e, he⟩ := collect_error' (as.map (emitAttr kvs)) .unsupported (List.mem_map.mpr ⟨a, ha, hb⟩)
    rw [he] at h; cases h
  cases v with
  | leaf s =>
    have hm : Except.ok [((⟨none, a.name⟩ : QName), s)] ∈ as.map (emitAttr kvs) :=
      List.mem_map.mpr ⟨a, ha, by simp [emitAttr, hl]⟩
    obtain ⟨pre, post, ho⟩ := collect_ok_mem h hm
    simp only [Arg.leaves, List.mem_singleton] at ht
    subst ht ho
    simp
  | none => simp [Arg.leaves] at ht
  | nil => simp [Arg.leaves] at ht
  | skip => simp [Arg.leaves] at ht
  | list xs => exact (hbad (by simp [emitAttr, hl])).elim
  | dict d => exact (hbad (by simp [emitAttr, hl])).elim

theorem mem_of_lookup {kvs : List (String × Arg)} {k : String} {v : Arg} (h : kvs.lookup k = some v) : (k, v) ∈ kvs := by
  induction kvs with
  | nil => simp [List.lookup] at h
  | cons kv r ih =>
    obtain ⟨k0, v0⟩ := kv
    simp only [List.lookup] at h
    split at h
    · rename_i heq
      have : k = k0 := by simpa using heq
      cases h; subst this; simp
    · exact List.mem_cons_of_mem _ (ih h)

theorem field_of_name {fs : List BField} {k : String} (h : (fieldNames fs).contains k = true) : ∃ f ∈ fs, f.name = k := by
  simp only [fieldNames, List.contains_eq_mem, List.mem_map, decide_eq_true_eq] at h
  obtain ⟨f, hf, hn⟩ := h
  exact ⟨f, hf, hn⟩

theorem attr_of_name {as : List BAttr} {k : String} (h : (attrNames as).contains k = true) : ∃ a ∈ as, a.name = k := by
  simp only [attrNames, List.contains_eq_mem, List.mem_map, decide_eq_true_eq] at h
  obtain ⟨a, ha, hn⟩ := h
  exact ⟨a, ha, hn⟩

theorem declared_of_mem {fs : List BField} {as : List BAttr} {kvs : List (String × Arg)} (h : keysDeclared fs as kvs = true)
    {k : String} {v : Arg} (hm : (k, v) ∈ kvs) : (fieldNames fs).contains k = true ∨ (attrNames as).contains k = true := by
  simp only [keysDeclared, List.all_eq_true] at h
  simpa using h (k, v) hm

mutual
theorem ty_faithful : ∀ (ty : BTy), TyFaithful ty
  | .leaf => by
    intro tag a n _ _ he t ht
    cases a <;> simp [emitTy] at he
    subst he
    simp only [Arg.leaves, List.mem_singleton] at ht
    subst ht
    simp [Node.texts, Node.textsL]
  | .record fs as => by
    intro tag a n hk hw he t ht
    cases a with
    | dict kvs =>
      simp only [keysOk, Bool.and_eq_true] at hk
      simp only [Arg.WF] at hw
      simp only [emitTy] at he
      cases hf : emitFields fs kvs with
      | error e => simp [hf] at he
      | ok kids =>
        cases ha : emitAttrs as kvs with
        | error e => simp [hf, ha] at he
        | ok attrs =>
          simp only [hf, ha, Except.ok.injEq] at he
          subst he
          obtain ⟨k, v, hm, htv⟩ := mem_leavesD (by simpa [Arg.leaves] using ht)
          have hl := lookup_of_mem_nodup hw.1 hm
          rcases declared_of_mem hk.1 hm with hd | hd
          · obtain ⟨f, hf', hn⟩ := field_of_name hd
            have := fields_faithful fs kvs kids hk.2 hw.2 hf f hf' v (by rw [hn]; exact hl) t htv
            simp [Node.texts, this]
          · obtain ⟨a, ha', hn⟩ := attr_of_name hd
            have := attrs_faithful as kvs attrs ha a ha' v (by rw [hn]; exact hl) t htv
            simp only [Node.texts, List.mem_append]
            exact Or.inl (Or.inl this)
    | leaf _ => simp [emitTy] at he
    | none => simp [emitTy] at he
    | nil => simp [emitTy] at he
    | skip => simp [emitTy] at he
    | list _ => simp [emitTy] at he

theorem fields_faithful : ∀ (fs : List BField), FieldsFaithful fs
  | [] => by
    intro kvs ns _ _ _ f hf
    cases hf
  | g :: gs => by
    intro kvs ns hk hw he f hf v hl t ht
    simp only [keysOkFields, Bool.and_eq_true] at hk
    simp only [emitFields] at he
    cases h1 : emitField g (kvs.lookup g.name) with
    | error e => simp [h1] at he
    | ok a =>
      cases h2 : emitFields gs kvs with
      | error e => simp [h1, h2] at he
      | ok b =>
        simp only [h1, h2, Except.ok.injEq] at he
        subst he
        rcases List.mem_cons.mp hf with heq | hf'
        · have hlg : kvs.lookup g.name = some v := by rw [← heq]; exact hl
          rw [hlg] at h1
          have hk1 := hk.1
          rw [hlg] at hk1
          exact mem_textsL_append_left (field_faithful g v a hk1 (wf_of_memD hw (mem_of_lookup hl)) h1 t ht)
        · exact mem_textsL_append_right (fields_faithful gs kvs b hk.2 hw h2 f hf' v hl t ht)

theorem field_faithful : ∀ (f : BField), FieldFaithful f
  | .elem name min max nl ty => by
    intro v ns hk hw he t ht
    simp only [emitField] at he
    split at he
    · -- a single occurrence
      cases v with
      | none => simp [Arg.leaves] at ht
      | nil => simp [Arg.leaves] at ht
      | skip => simp [Arg.leaves] at ht
      | list xs => simp at he
      | leaf s =>
        simp only [keysOkField] at hk
        cases hty : emitTy ty name (.leaf s) with
        | error e => simp [hty] at he
        | ok n =>
          simp only [hty, Except.ok.injEq] at he
          subst he
          have := ty_faithful ty name (.leaf s) n hk hw hty t ht
          simp [Node.textsL, this]
      | dict d =>
        simp only [keysOkField] at hk
        cases hty : emitTy ty name (.dict d) with
        | error e => simp [hty] at he
        | ok n =>
          simp only [hty, Except.ok.injEq] at he
          subst he
          have := ty_faithful ty name (.dict d) n hk hw hty t ht
          simp [Node.textsL, this]
    · -- a repetition
      cases v with
      | none => simp [Arg.leaves] at ht
      | nil => simp [Arg.leaves] at ht
      | skip => simp [Arg.leaves] at ht
      | leaf s => simp at he
      | dict d => simp at he
      | list xs =>
        simp only [keysOkField, List.all_eq_true] at hk
        simp only [Arg.WF] at hw
        simp only [] at he
        split at he
        · cases he
        · obtain ⟨x, hx, htx⟩ := mem_leavesL (by simpa [Arg.leaves] using ht)
          have hkx := hk x hx
          have hwx := wf_of_memL hw hx
          -- the emission of item `x`
          generalize hg : (fun x : Arg =>
            match x with
            | .nil => (Except.ok [nilNode name] : Except BErr (List Node))
            | .none => if nl then (if min == 0 then .ok [] else .ok [nilNode name]) else .error .validation
            | .skip | .list _ => .error .unsupported
            | x => match emitTy ty name x with
              | .ok n => .ok [n]
              | .error e => .error e) = g at he
          have hmem : g x ∈ xs.map g := List.mem_map.mpr ⟨x, hx, rfl⟩
          cases hgx : g x with
          | error e =>
            rw [hgx] at hmem
            obtain ⟨e', he'⟩ := collect_error' _ _ hmem
            rw [he'] at he; cases he
          | ok part =>
            rw [hgx] at hmem
            obtain ⟨pre, post, ho⟩ := collect_ok_mem he hmem
            subst ho
            apply mem_textsL_of_parts
            subst hg
            cases x with
            | none => simp [Arg.leaves] at htx
            | nil => simp [Arg.leaves] at htx
            | skip => simp [Arg.leaves] at htx
            | list ys => simp at hgx
            | leaf s =>
              simp only [] at hgx
              cases hty : emitTy ty name (.leaf s) with
              | error e => simp [hty] at hgx
              | ok n =>
                simp only [hty, Except.ok.injEq] at hgx
                subst hgx
                have := ty_faithful ty name (.leaf s) n hkx hwx hty t htx
                simp [Node.textsL, this]
            | dict d =>
              simp only [] at hgx
              cases hty : emitTy ty name (.dict d) with
              | error e => simp [hty] at hgx
              | ok n =>
                simp only [hty, Except.ok.injEq] at hgx
                subst hgx
                have := ty_faithful ty name (.dict d) n hkx hwx hty t htx
                simp [Node.textsL, this]
  | .rseq name min max gs => by
    intro v ns hk hw he t ht
    simp only [emitField] at he
    cases v with
    | none => simp [Arg.leaves] at ht
    | nil => simp [Arg.leaves] at ht
    | skip => simp [Arg.leaves] at ht
    | leaf s => simp at he
    | dict d => simp at he
    | list xs =>
      simp only [keysOkField, List.all_eq_true] at hk
      simp only [Arg.WF] at hw
      simp only [] at he
      split at he
      · cases he
      · obtain ⟨x, hx, htx⟩ := mem_leavesL (by simpa [Arg.leaves] using ht)
        have hkx := hk x hx
        have hwx := wf_of_memL hw hx
        generalize hg : (fun x : Arg =>
          match x with
          | .dict kvs => emitFields gs kvs
          | _ => (Except.error .unsupported : Except BErr (List Node))) = g at he
        have hmem : g x ∈ xs.map g := List.mem_map.mpr ⟨x, hx, rfl⟩
        cases hgx : g x with
        | error e =>
          rw [hgx] at hmem
          obtain ⟨e', he'⟩ := collect_error' _ _ hmem
          rw [he'] at he; cases he
        | ok part =>
          rw [hgx] at hmem
          obtain ⟨pre, post, ho⟩ := collect_ok_mem he hmem
          subst ho
          apply mem_textsL_of_parts
          subst hg
          cases x with
          | dict d =>
            simp only [Bool.and_eq_true] at hkx
            simp only [Arg.WF] at hwx
            simp only [] at hgx
            obtain ⟨k, v', hm, htv⟩ := mem_leavesD (by simpa [Arg.leaves] using htx)
            have hl := lookup_of_mem_nodup hwx.1 hm
            rcases declared_of_mem hkx.1 hm with hd | hd
            · obtain ⟨f, hf', hn⟩ := field_of_name hd
              exact fields_faithful gs d part hkx.2 hwx.2 hgx f hf' v' (by rw [hn]; exact hl) t htv
            · simp [attrNames] at hd
          | none => simp [Arg.leaves] at htx
          | nil => simp [Arg.leaves] at htx
          | skip => simp [Arg.leaves] at htx
          | leaf s => simp at hgx
          | list ys => simp at hgx
end

/-- **An accepted call is faithful.**  Whatever the signature, if the call is accepted then every
scalar the caller passed by keyword — at any depth, in any list item, in any iteration of a
repeated sequence, for an element or an attribute — is part of the character data of the element
sent. -/
theorem c12_faithful (fs : List BField) (as : List BAttr) (tag : String) (kw : List (String × Arg)) (n : Node)
    (hw : (Arg.dict kw).WF) (h : call fs as tag [] kw = .ok n) : ∀ t ∈ (Arg.dict kw).leaves, t ∈ n.texts := by
  unfold call bindPositional at h
  simp only [List.length_nil, Nat.zero_le, if_true, List.zip_nil_right, List.any_nil, Bool.false_eq_true, if_false, List.nil_append] at h
  split at h
  · cases h
  · rename_i hk
    have hk' : keysOk (.record fs as) (.dict kw) = true := by simpa using hk
    exact ty_faithful (.record fs as) tag (.dict kw) n hk' hw h

/-- non-vacuity: a nested argument tree with distinct keys (what any python dict is) -/
example : (Arg.dict [("a", .leaf "A"), ("c", .list [.leaf "0"]), ("r", .dict [("p", .leaf "P")]),
    ("_value_1", .list [.dict [("x", .leaf "1")], .dict [("x", .leaf "2"), ("y", .leaf "")]]), ("id", .leaf "5")]).WF := by
  simp [Arg.WF, Arg.WFD, Arg.WFL]

end Zeep.Bind
