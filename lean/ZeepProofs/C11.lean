import ZeepModel.Lex.Simple
import ZeepProofs.Lemmas.GTypes
import ZeepProofs.Lemmas.Base64
import Generated.Builtins
/-!
# C11 — builtin simple types write valid lexical forms and read them back

Round-trip theorems for the codecs modelled in Lean, for the *whole* value space of each
(every integer, every year, every offset, every byte string …), and coverage obligations against
the table regenerated from `builtins.py`.  Codecs that live in third-party code (CPython float
repr / `float()`, `decimal`, `isodate` date-time and duration formatting) are *hypothesis*
implementations: tied by the correspondence run and the libxml2 judge only.
-/
namespace Zeep.C11
open Zeep.Digits Zeep.GTypes Zeep.Simple

/-! ### integers (13 types share `Integer.xmlvalue = str`, `pythonvalue = int`) -/
theorem int_rt (z : Int) : readInt (showInt z) = some z := readInt_showInt z

/-- `+5` and leading zeros read back to the same value -/
theorem int_variants (n : Nat) (k : Nat) :
    readInt ('+' :: digits n) = some (n : Int) ∧
    readNat (List.replicate k '0' ++ digits n) = some n := by
  refine ⟨by simp [readInt, readNat_digits], ?_⟩
  unfold readNat
  have : List.replicate k '0' ++ digits n ≠ [] := by simp [digits_ne_nil]
  simp [this, readAcc_zeros, readAcc_digits]

/-! ### timezone and g* types -/
theorem tz_roundtrip (tz : Tz) (h : ∀ m, tz = some m → m.natAbs < 6000) : parseTz (unparseTz tz) = some tz :=
  tz_rt tz h

/-- `Z` and `+00:00` (and `-00:00`, `+0000`) denote the same value -/
theorem tz_variants : parseTz "+00:00".toList = some (some 0) ∧ parseTz "Z".toList = some (some 0) ∧
    parseTz "-00:00".toList = some (some 0) ∧ parseTz "+0000".toList = some (some 0) := by decide

def TzOk (tz : Tz) : Prop := ∀ m, tz = some m → m.natAbs < 6000

theorem gyear_rt (y : Int) (tz : Tz) (h : TzOk tz) : decYear (encYear y tz) = some (y, tz) := by
  simp [decYear, encYear, parseYear_unparse y _ (unparseTz_head tz), tz_rt tz h]

theorem gyearmonth_rt (v : YM) (hm : v.month < 100) (h : TzOk v.tz) : decYearMonth (encYearMonth v) = some v := by
  have hr : ∀ c, ('-' :: (two v.month ++ unparseTz v.tz)).head? = some c → isDigit c = false := by
    intro c hc; simp at hc; subst hc; decide
  simp [decYearMonth, encYearMonth, parseYear_unparse v.year _ hr, parseTwo_two v.month hm, tz_rt v.tz h]

theorem gmonth_rt (m : Nat) (tz : Tz) (hm : m < 100) (h : TzOk tz) : decMonth (encMonth m tz) = some (m, tz) := by
  simp [decMonth, encMonth, parseTwo_two m hm, tz_rt tz h]

theorem gday_rt (d : Nat) (tz : Tz) (hd : d < 100) (h : TzOk tz) : decDay (encDay d tz) = some (d, tz) := by
  simp [decDay, encDay, parseTwo_two d hd, tz_rt tz h]

theorem gmonthday_rt (m d : Nat) (tz : Tz) (hm : m < 100) (hd : d < 100) (h : TzOk tz) :
    decMonthDay (encMonthDay m d tz) = some (m, d, tz) := by
  simp [decMonthDay, encMonthDay, parseTwo_two m hm, parseTwo_two d hd, tz_rt tz h]

/-- the text written for a month always has two digits (the `--5` defect repaired by F1) -/
theorem gmonth_two_digits (m : Nat) (tz : Tz) : ((encMonth m tz).drop 2).take 2 = two m := by
  simp [encMonth, two]

/-! ### booleans -/
theorem strip_fixed (s : List Char) (h1 : ∀ c, s.head? = some c → pySpace c = false)
    (h2 : ∀ c, s.getLast? = some c → pySpace c = false) : strip s = s := by
  have hl : ∀ t : List Char, (∀ c, t.head? = some c → pySpace c = false) → lstrip t = t := by
    intro t ht
    cases t with
    | nil => rfl
    | cons c cs => simp [lstrip, ht c rfl]
  unfold strip
  rw [hl s h1, hl s.reverse (by intro c hc; rw [List.head?_reverse] at hc; exact h2 c hc)]
  simp

theorem bool_rt (b : Bool) : decBool (encBool b) = b := by cases b <;> decide

theorem bool_variants : decBool "1".toList = true ∧ decBool "0".toList = false ∧
    decBool " true\n".toList = true ∧ decBool "\tfalse ".toList = false := by decide

/-! ### whitespace facets of the string-derived types -/
theorem replace_fixed (s : List Char) (h : ∀ c ∈ s, isNRT c = false) : replaceWs s = s := by
  induction s with
  | nil => rfl
  | cons c cs ih =>
    simp only [replaceWs, List.map_cons] at ih ⊢
    rw [h c (by simp)]
    simp only [Bool.false_eq_true, if_false]
    congr 1
    exact ih (fun c' hc' => h c' (by simp [hc']))

/-- token-like types: a value without `\n \r \t` and without leading / trailing whitespace reads back unchanged -/
theorem token_rt (s : List Char) (h : ∀ c ∈ s, isNRT c = false)
    (h1 : ∀ c, s.head? = some c → pySpace c = false) (h2 : ∀ c, s.getLast? = some c → pySpace c = false) :
    applyFacet .collapse s = s := by
  simp only [applyFacet, collapseWs, replace_fixed s h, strip_fixed s h1 h2]

theorem normalized_rt (s : List Char) (h : ∀ c ∈ s, isNRT c = false) : applyFacet .replace s = s :=
  replace_fixed s h

theorem string_rt (s : List Char) : applyFacet .preserve s = s := rfl

/-- surrounding whitespace is a lexical variant of the same token value -/
theorem token_variant_example : applyFacet .collapse " \n abc\t".toList = "abc".toList := by decide

/-! ### base64Binary, float/double special values -/
theorem base64_rt (bs : List Nat) (h : ∀ b ∈ bs, b < 256) : Base64.decode (Base64.encode bs) = some bs :=
  Base64.base64_rt bs h

/-- what the implementation's reader does (`b64decode` skips white space): the own encoding reads back… -/
theorem base64_lenient_rt (bs : List Nat) (h : ∀ b ∈ bs, b < 256) : Base64.decodeLenient (Base64.encode bs) = some bs :=
  Base64.base64_lenient_rt bs h

/-- …and so does every legal variant of it: the canonical encoding with white space inserted anywhere
(MIME line wrapping, space-separated groups, surrounding white space) -/
theorem base64_variants (bs : List Nat) (h : ∀ b ∈ bs, b < 256) (cs : List Char)
    (hcs : cs.filter (fun c => !Base64.isSpace c) = Base64.encode bs) : Base64.decodeLenient cs = some bs :=
  Base64.base64_ws_rt bs h cs hcs

example : Base64.decodeLenient "QUJD\nREVG IA==\t".toList = some [65, 66, 67, 68, 69, 70, 32] := by decide +kernel

theorem floatspecial_rt (v : FloatSpecial) : decFloatSpecial (encFloatSpecial v) = some v := by
  cases v <;> decide

/-! ### coverage of the regenerated table -/

/-- (xmlvalue class, pythonvalue class) pairs whose codec is modelled and proved above -/
def provenImpls : List (String × String) := [
  ("String", "String"), ("Boolean", "Boolean"), ("Integer", "Integer"), ("Integer", "Long"),
  ("gYearMonth", "gYearMonth"), ("gYear", "gYear"), ("gMonthDay", "gMonthDay"), ("gDay", "gDay"), ("gMonth", "gMonth"),
  ("HexBinary", "HexBinary"), ("Base64Binary", "Base64Binary"), ("AnyURI", "AnyURI"), ("QName", "QName"),
  ("String", "NormalizedString"), ("String", "Token"), ("AnyType", "AnyType")]

/-- codecs living in third-party code: their round trip is a named hypothesis, exercised by the tie -/
def hypothesisImpls : List (String × String) := [
  ("Decimal", "Decimal"), ("Float", "Float"), ("Double", "Double"), ("Duration", "Duration"),
  ("DateTime", "DateTime"), ("Time", "Time"), ("Date", "Date")]

/-- every builtin of the *current* source uses a codec that is proved or listed as hypothesis: a
type that is added or re-parented breaks this obligation -/
theorem c11_table_covered :
    ∀ row ∈ Generated.builtinTable, (row.xmlImpl, row.pyImpl) ∈ provenImpls ∨ (row.xmlImpl, row.pyImpl) ∈ hypothesisImpls := by
  decide

/-- the whitespace facet each builtin applies when reading, as pinned here per qname -/
def expectedFacet : List (String × String) := [
  ("string", "preserve"), ("boolean", "collapse"), ("decimal", "collapse"), ("float", "collapse"), ("double", "collapse"),
  ("duration", "collapse"), ("dateTime", "collapse"), ("time", "collapse"), ("date", "collapse"), ("gYearMonth", "collapse"),
  ("gYear", "collapse"), ("gMonthDay", "collapse"), ("gDay", "collapse"), ("gMonth", "collapse"), ("hexBinary", "preserve"),
  ("base64Binary", "preserve"), ("anyURI", "collapse"), ("QName", "collapse"), ("NOTATION", "preserve"),
  ("normalizedString", "replace"), ("token", "collapse"), ("language", "collapse"), ("NMTOKEN", "collapse"),
  ("NMTOKENS", "collapse"), ("Name", "collapse"), ("NCName", "collapse"), ("ID", "collapse"), ("IDREF", "collapse"),
  ("IDREFS", "collapse"), ("ENTITY", "collapse"), ("ENTITIES", "collapse"), ("integer", "preserve"),
  ("nonPositiveInteger", "preserve"), ("negativeInteger", "preserve"), ("long", "preserve"), ("int", "preserve"),
  ("short", "preserve"), ("byte", "preserve"), ("nonNegativeInteger", "preserve"), ("unsignedByte", "preserve"),
  ("unsignedInt", "preserve"), ("unsignedLong", "preserve"), ("unsignedShort", "preserve"), ("positiveInteger", "preserve"),
  ("anyType", "preserve"), ("anySimpleType", "preserve")]

theorem c11_table_facets :
    (Generated.builtinTable.map fun r => (r.qname, r.ws)) = expectedFacet ∧
    (Generated.builtinTable.map (·.qname)).Nodup := by
  decide

end Zeep.C11
