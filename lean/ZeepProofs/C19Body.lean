import ZeepProofs.C19
/-!
# C19 — `process_multiref` on the Body as a whole: the table built from the Body's children, and the removal of the objects that were used
-/
namespace Zeep.MultiRef
open Zeep

mutual
/-- every object of the out-lined tree is recorded as used when the main tree is dereferenced -/
theorem used_wire (tbl : Table) (o : O) (fuel : Nat) (hf : height o ≤ fuel)
    (hl : ∀ e ∈ objs o, lookupT tbl e.1 = some e.2) (hn : NoHref o) :
    ∀ e ∈ objs o, e.1 ∈ (proc tbl fuel (wire o)).2 := by
  cases o with
  | node t a x ks =>
    cases fuel with
    | zero => simp [height] at hf
    | succ fuel =>
      simp only [NoHref] at hn
      simp only [height] at hf
      intro e he
      simp only [objs] at he
      simp only [wire, proc, hrefTarget, hn.1, Option.bind_none, List.nil_append]
      exact usedL_wire tbl ks fuel (by omega) (by simpa [objs] using hl) hn.2 e he
  | out i t a x ks =>
    cases fuel with
    | zero => simp [height] at hf
    | succ fuel =>
      have hlk : lookupT tbl (String.ofList i) =
          some (.mk ⟨none, "multiRef"⟩ ((idAttr, String.ofList i) :: a) x (wireL ks)) :=
        hl (String.ofList i, .mk ⟨none, "multiRef"⟩ ((idAttr, String.ofList i) :: a) x (wireL ks)) (by simp [objs])
      simp only [height] at hf
      simp only [NoHref] at hn
      intro e he
      simp only [objs, List.mem_cons] at he
      simp only [wire, proc, hrefTarget_stub, Option.bind_some, hlk, Option.map_some]
      rcases he with he | he
      · subst he; simp
      · have := usedL_wire tbl ks fuel (by omega) (by intro e he; exact hl e (by simp [objs, he])) hn e he
        simp only [List.mem_append]; right; exact this
theorem usedL_wire (tbl : Table) (ks : List O) (fuel : Nat) (hf : heightL ks ≤ fuel)
    (hl : ∀ e ∈ objsL ks, lookupT tbl e.1 = some e.2) (hn : NoHrefL ks) :
    ∀ e ∈ objsL ks, e.1 ∈ (((wireL ks).map (proc tbl fuel)).map (·.2)).flatten := by
  cases ks with
  | nil => intro e he; simp [objsL] at he
  | cons k ks =>
    simp only [heightL] at hf
    simp only [NoHrefL] at hn
    have h1 : height k ≤ fuel := Nat.le_trans (Nat.le_max_left _ _) hf
    have h2 : heightL ks ≤ fuel := Nat.le_trans (Nat.le_max_right _ _) hf
    intro e he
    simp only [objsL, List.mem_append] at he
    simp only [wireL, List.map_cons, List.flatten_cons, List.mem_append]
    rcases he with he | he
    · left; exact used_wire tbl k fuel h1 (fun e he => hl e (by simp [objsL, he])) hn.1 e he
    · right; exact usedL_wire tbl ks fuel h2 (fun e he => hl e (by simp [objsL, he])) hn.2 e he
end

theorem attrs_mk (t : QName) (a : List (QName × String)) (x : Option String) (k : List Node) : (Node.mk t a x k).attrs = a := rfl
theorem kids_mk (t : QName) (a : List (QName × String)) (x : Option String) (k : List Node) : (Node.mk t a x k).kids = k := rfl
theorem tag_mk (t : QName) (a : List (QName × String)) (x : Option String) (k : List Node) : (Node.mk t a x k).tag = t := rfl
theorem text_mk (t : QName) (a : List (QName × String)) (x : Option String) (k : List Node) : (Node.mk t a x k).text = x := rfl

theorem zip_filterMap_drop (used : List String) (extra : List Node) (vals : List Node)
    (hex : ∀ k ∈ extra, ∃ i, getAttr k.attrs idAttr = some i ∧ used.contains i = true) :
    ((extra.zip vals).filterMap fun kk => match getAttr kk.1.attrs idAttr with
        | some i => if used.contains i then none else some kk.2
        | none => some kk.2) = [] := by
  induction extra generalizing vals with
  | nil => simp
  | cons k ks ih =>
    cases vals with
    | nil => simp
    | cons v vs =>
      obtain ⟨i, hi, hu⟩ := hex k (by simp)
      simp only [List.zip_cons_cons, List.filterMap_cons, hi, hu, if_true]
      exact ih vs (fun k hk => hex k (by simp [hk]))

/-- **the Body as a whole.**  A Body whose first child is the main tree (in wire form: out-lined sub-trees are `href` stubs) followed
by top-level objects, each carrying the id of an out-lined sub-tree, every id finding its object in the table built from the Body's
children: `process_multiref` leaves exactly the inline tree - the stubs are filled in, and every object that was dereferenced (directly
or from inside another object) is removed from the Body. -/
theorem c19_body_inverse (bt : QName) (ba : List (QName × String)) (bx : Option String)
    (t : QName) (a : List (QName × String)) (x : Option String) (ks : List O) (extra : List Node) (fuel : Nat)
    (hb : hrefTarget ba = none) (hroot : getAttr a idAttr = none)
    (hn : NoHref (.node t a x ks)) (hfuel : height (.node t a x ks) + 1 ≤ fuel)
    (hne : extra ≠ [])
    (hex : ∀ k ∈ extra, ∃ i, getAttr k.attrs idAttr = some i ∧ i ∈ (objs (.node t a x ks)).map (·.1))
    (hl : ∀ e ∈ objs (.node t a x ks), lookupT (tblOf (wire (.node t a x ks) :: extra)) e.1 = some e.2) :
    processMultiref fuel (.mk bt ba bx (wire (.node t a x ks) :: extra)) = .mk bt ba bx [inl (.node t a x ks)] := by
  obtain ⟨f, rfl⟩ : ∃ f, fuel = f + 1 := ⟨fuel - 1, by omega⟩
  have hf : height (.node t a x ks) ≤ f := by omega
  -- the table is not empty
  have htbl : (tblOf (wire (.node t a x ks) :: extra)).isEmpty = false := by
    cases extra with
    | nil => exact absurd rfl hne
    | cons k rest =>
      obtain ⟨i, hi, _⟩ := hex k (by simp)
      simp [tblOf, wire, hroot, hi]
  have hmain := proc_wire (tblOf (wire (.node t a x ks) :: extra)) (.node t a x ks) f hf hl hn
  have hused := used_wire (tblOf (wire (.node t a x ks) :: extra)) (.node t a x ks) f hf hl hn
  unfold processMultiref
  simp only [htbl, Bool.false_eq_true, if_false]
  simp only [proc, hb, Option.bind_none, List.nil_append, List.map_cons, List.flatten_cons, List.zip_cons_cons,
    List.filterMap_cons]
  have hw : (wire (.node t a x ks)).attrs = a := rfl
  simp only [attrs_mk, kids_mk, tag_mk, text_mk, List.zip_cons_cons, List.filterMap_cons, hw, hroot, hmain]
  congr 1
  congr 1
  apply zip_filterMap_drop
  intro k hk
  obtain ⟨i, hi, hmem⟩ := hex k hk
  refine ⟨i, hi, ?_⟩
  simp only [List.mem_map] at hmem
  obtain ⟨e, he, rfl⟩ := hmem
  simp only [List.contains_eq_mem, List.mem_append, decide_eq_true_eq]
  left
  exact hused e he

end Zeep.MultiRef

namespace Zeep.MultiRef
open Zeep
/-! non-vacuity: a nested out-lining and a shared reference (two accessors, one object), objects in another order than they are met -/
example :
    let o : O := .node ⟨none, "resp"⟩ [] none
      [.out ['1'] ⟨none, "a"⟩ [] none [.out ['2'] ⟨none, "b"⟩ [] (some "x") []],
       .out ['1'] ⟨none, "again"⟩ [] none [.out ['2'] ⟨none, "b"⟩ [] (some "x") []],
       .node ⟨none, "c"⟩ [] (some "y") []]
    let extra : List Node :=
      [.mk ⟨none, "multiRef"⟩ [(idAttr, "2")] (some "x") [],
       .mk ⟨none, "multiRef"⟩ [(idAttr, "1")] none [.mk ⟨none, "b"⟩ [(hrefAttr, "#2")] none []]]
    extra ≠ [] ∧ NoHref o ∧
    (∀ k ∈ extra, ∃ i, getAttr k.attrs idAttr = some i ∧ i ∈ (objs o).map (·.1)) ∧
    (∀ e ∈ objs o, lookupT (tblOf (wire o :: extra)) e.1 = some e.2) := by
  refine ⟨by simp, by simp [NoHref, NoHrefL, getAttr], ?_, ?_⟩
  · intro k hk
    simp at hk
    rcases hk with rfl | rfl <;> simp [getAttr, objs, objsL, Node.attrs, idAttr]
  · intro e he
    simp [objs, objsL, wireL] at he
    rcases he with rfl | rfl | rfl | rfl <;>
      simp [lookupT, tblOf, wire, wireL, getAttr, Node.attrs, idAttr, hrefAttr, List.find?]
end Zeep.MultiRef
