import ZeepModel.Soap.Reply
/-!
# C06 — SOAP 1.1 fault fields are read from the fault's own children only

SOAP 1.1 (section 4.4) lets a Fault carry other, namespace-qualified elements beside `faultcode` / `faultstring` /
`faultactor` / `detail`.  The fields of the raised `Fault` are looked up by expanded name in the namespace unprefixed names have
at the Fault element; elements of any other namespace — vendor extensions whose *local* names are those of the standard fields
included, wherever they stand — do not influence them.
-/
namespace Zeep.Soap
open Zeep

theorem find_filter_ns (t : QName) (a : List (QName × String)) (x : Option String) (kids : List Node) (q : QName) :
    (Node.mk t a x kids).find q = (Node.mk t a x (kids.filter fun k => k.tag.ns == q.ns)).find q := by
  simp only [Node.find, Node.children, Node.kids, List.filter_filter]
  congr 1
  apply List.filter_congr
  intro k _
  by_cases h : k.tag == q
  · have : k.tag = q := by simpa using h
    simp [this]
  · have h' : (k.tag == q) = false := by simpa using h
    simp [h']

/-- **the fields of a SOAP 1.1 fault depend only on its children in the fault's default namespace** -/
theorem c06_fault_extensions_ignored (t : QName) (a : List (QName × String)) (x : Option String) (kids : List Node)
    (dns : Option String) :
    fields11 (.mk t a x kids) dns = fields11 (.mk t a x (kids.filter fun k => k.tag.ns == dns)) dns := by
  have h : ∀ n : String, (Node.mk t a x kids).find ⟨dns, n⟩ = (Node.mk t a x (kids.filter fun k => k.tag.ns == dns)).find ⟨dns, n⟩ :=
    fun n => find_filter_ns t a x kids ⟨dns, n⟩
  simp only [fields11, h]

/-- in particular: extension elements of another namespace put in front of the standard children change nothing -/
theorem c06_fault_extensions_prefix (t : QName) (a : List (QName × String)) (x : Option String) (ext kids : List Node)
    (dns : Option String) (hext : ∀ e ∈ ext, e.tag.ns ≠ dns) :
    fields11 (.mk t a x (ext ++ kids)) dns = fields11 (.mk t a x kids) dns := by
  rw [c06_fault_extensions_ignored t a x (ext ++ kids) dns, c06_fault_extensions_ignored t a x kids dns]
  have : (ext.filter fun k => k.tag.ns == dns) = [] := by
    apply List.filter_eq_nil_iff.2
    intro e he
    simpa using hext e he
  rw [List.filter_append, this, List.nil_append]

end Zeep.Soap
