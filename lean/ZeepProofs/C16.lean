import ZeepModel.Soap.Pipeline
/-!
# C16 — plugins and WS-Security run in the documented order on exactly the wire message
All theorems are for an arbitrary message type `M`, arbitrary plugin / wsse functions and
arbitrary list lengths.
-/
namespace Zeep.Pipeline

variable {M : Type}

/-- the messages the stages see, one after the other -/
def inputs : List (Stage M) → M → List M
  | [], _ => []
  | s :: ss, m => m :: inputs ss (s.run m)

theorem runStages_trace (ss : List (Stage M)) (m : M) :
    (runStages ss m).2 = (ss.map (·.name)).zip (inputs ss m) := by
  induction ss generalizing m with
  | nil => rfl
  | cons s ss ih => simp [runStages, inputs, ih]

theorem runStages_result (ss : List (Stage M)) (m : M) :
    (runStages ss m).1 = ss.foldl (fun m s => s.run m) m := by
  induction ss generalizing m with
  | nil => rfl
  | cons s ss ih => simp [runStages, ih]

theorem inputs_length (ss : List (Stage M)) (m : M) : (inputs ss m).length = ss.length := by
  induction ss generalizing m with
  | nil => rfl
  | cons s ss ih => simp [inputs, ih]

theorem runStages_names (ss : List (Stage M)) (m : M) :
    (runStages ss m).2.map (·.1) = ss.map (·.name) := by
  rw [runStages_trace]
  apply List.map_fst_zip
  simp [inputs_length]

/-- **Way out: order.**  The stages observe the message in exactly this order: the implicit
WS-Addressing step (when it applies), every plugin in list order, every WS-Security entry in
list order, then the merge of the per-call extra HTTP headers. -/
theorem c16_egress_order (wsa : Option (Stage M)) (plugins wsse : List (Stage M)) (extra : Stage M)
    (m : M) :
    (egress wsa plugins wsse extra m).2.map (·.1) =
      (wsa.toList.map (·.name)) ++ plugins.map (·.name) ++ wsse.map (·.name) ++ [extra.name] := by
  simp [egress, runStages_names, egressStages]

/-- **Way out: each stage sees what the previous one produced, and the wire message is the last
stage's output** — nothing is applied after it and nothing is skipped. -/
theorem c16_wire_is_final (wsa : Option (Stage M)) (plugins wsse : List (Stage M)) (extra : Stage M)
    (m : M) :
    (egress wsa plugins wsse extra m).1 =
      extra.run (wsse.foldl (fun m s => s.run m)
        (plugins.foldl (fun m s => s.run m) ((wsa.toList).foldl (fun m s => s.run m) m))) := by
  simp [egress, runStages_result, egressStages, List.foldl_append]

theorem c16_threading (ss : List (Stage M)) (m : M) :
    (runStages ss m).2.map (·.2) = inputs ss m ∧
    (∀ s rest, ss = s :: rest → inputs ss m = m :: inputs rest (s.run m)) := by
  refine ⟨?_, ?_⟩
  · rw [runStages_trace]
    apply List.map_snd_zip
    simp [inputs_length]
  · intro s rest h; subst h; rfl

/-- **A plugin returning nothing leaves the message unchanged** (and the next stage sees it as is) -/
theorem c16_none_is_identity (s : Stage M) (m : M) (h : s.f m = none) : s.run m = m := by
  simp [Stage.run, h]

/-- **Way in.**  Every WS-Security entry verifies the document as received; if all accept, the
plugins run in list order on it and their final output is what is decoded; if one rejects, nothing
is decoded and no plugin runs. -/
theorem c16_ingress_order (wsse : List (Verifier M)) (plugins : List (Stage M)) (m : M) :
    (∀ e ∈ (runVerify wsse m).2, e.2 = m) ∧
    ((runVerify wsse m).1 = true →
        (ingress wsse plugins m).1 = some (plugins.foldl (fun m s => s.run m) m) ∧
        (ingress wsse plugins m).2.map (·.1) = wsse.map (·.name) ++ plugins.map (·.name)) ∧
    ((runVerify wsse m).1 = false → (ingress wsse plugins m).1 = none) := by
  refine ⟨?_, ?_, ?_⟩
  · induction wsse with
    | nil => simp [runVerify]
    | cons v vs ih =>
      simp only [runVerify]
      split
      · intro e he
        simp only [List.mem_cons] at he
        rcases he with rfl | he
        · rfl
        · exact ih e he
      · intro e he; simp at he; subst he; rfl
  · intro hok
    have hnames : (runVerify wsse m).2.map (·.1) = wsse.map (·.name) := by
      induction wsse with
      | nil => rfl
      | cons v vs ih =>
        simp only [runVerify] at hok ⊢
        split
        · rename_i hv
          simp only [hv, if_true] at hok
          simp [ih hok]
        · rename_i hv
          simp [hv] at hok
    simp only [ingress, hok, if_true]
    exact ⟨by rw [runStages_result], by simp [hnames, runStages_names]⟩
  · intro hbad
    simp [ingress, hbad]

/-! ### the history plugin -/

def lastN {α : Type} (n : Nat) (l : List α) : List α := l.drop (l.length - n)

def Exchange.toEntry (x : Exchange M) : Entry M := ⟨x.sent, x.received⟩

theorem lastN_lastN_append {α : Type} (n : Nat) (a b : List α) :
    lastN n (lastN n a ++ b) = lastN n (a ++ b) := by
  unfold lastN
  rw [List.drop_append, List.drop_append]
  simp only [List.length_append, List.length_drop, List.drop_drop]
  congr 1
  · congr 1; omega
  · congr 1; omega

theorem setLast_append_single (buf : List (Entry M)) (s r : M) :
    setLast (buf ++ [⟨s, none⟩]) r = buf ++ [⟨s, some r⟩] := by
  induction buf with
  | nil => rfl
  | cons e es ih =>
    cases es with
    | nil => rfl
    | cons e' es' =>
      simp only [List.cons_append] at ih ⊢
      simp only [setLast]
      rw [ih]

theorem setLast_lastN (n : Nat) (hn : 1 ≤ n) (buf : List (Entry M)) (s r : M) :
    setLast (lastN n (buf ++ [⟨s, none⟩])) r = lastN n (buf ++ [⟨s, some r⟩]) := by
  unfold lastN
  simp only [List.length_append, List.length_cons, List.length_nil]
  have h1 : buf.length + 1 - n ≤ buf.length := by omega
  rw [List.drop_append_of_le_length h1, List.drop_append_of_le_length h1]
  exact setLast_append_single _ s r

theorem histRun_eq (n : Nat) (hn : 1 ≤ n) (xs : List (Exchange M)) (all : List (Entry M)) :
    histRun n (lastN n all) xs = lastN n (all ++ xs.map Exchange.toEntry) := by
  induction xs generalizing all with
  | nil => simp [histRun]
  | cons x xs ih =>
    simp only [histRun, histEgress, pushBounded, List.map_cons]
    have hpush : List.drop ((lastN n all ++ [(⟨x.sent, none⟩ : Entry M)]).length - n)
        (lastN n all ++ [(⟨x.sent, none⟩ : Entry M)])
        = lastN n (all ++ [(⟨x.sent, none⟩ : Entry M)]) := by
      have := lastN_lastN_append n all [(⟨x.sent, none⟩ : Entry M)]
      simpa [lastN] using this
    rw [hpush]
    cases hr : x.received with
    | none =>
      simp only
      have h2 := ih (all ++ [(⟨x.sent, none⟩ : Entry M)])
      rw [h2]
      simp [Exchange.toEntry, hr]
    | some r =>
      simp only [histIngress]
      rw [setLast_lastN n hn]
      have h2 := ih (all ++ [(⟨x.sent, some r⟩ : Entry M)])
      rw [h2]
      simp [Exchange.toEntry, hr]

/-- **History.**  After any sequence of calls — including calls that never got a reply — the
buffer of a history plugin with `maxlen ≥ 1` holds exactly the last `maxlen` exchanges, each with
the message it saw going out at its position in the list and the message it saw coming in (or
nothing, if that call never reached it). -/
theorem c16_history (n : Nat) (hn : 1 ≤ n) (xs : List (Exchange M)) :
    histRun n [] xs = lastN n (xs.map Exchange.toEntry) := by
  have := histRun_eq n hn xs []
  simpa [lastN] using this

/-! ### non-vacuity on the concrete algebra used by the tie -/

example :
    let ps := [⟨"A", .mark⟩, ⟨"N", .returnsNone⟩, ⟨"H", .header "SOAPAction" "x"⟩].map (pluginStage "egress")
    (egress (M := Msg) none ps [wsseStage "W1", wsseStage "W2"] (extraStage [("X-WSSE", "extra")]) ⟨[], []⟩).1
      = ⟨["egress:A", "wsse:W1", "wsse:W2"], [("X-A", "egress"), ("SOAPAction", "x"), ("X-WSSE", "extra")]⟩ := by
  decide

end Zeep.Pipeline
