import ZeepProofs.C13
namespace Zeep.Settings

/-- **a refused block changes nothing.**  An override block that is refused at its `n`-th option (an unknown name: `getattr` raises
before anything is saved for it) has applied the options before it and rolls exactly those back: every option not assigned meanwhile
reads, in that thread, as before the attempt - whatever other threads did in between.  (The options *after* the unknown one are never
touched: they are not part of the events.) -/
theorem c13_refused_entry_leaves_reads {m : MState} {s : SState} (r : Reach m s) (t : Thread)
    (opts : List (Opt × Val)) (n : Nat) (h : History)
    (hproj : proj t h = (flat t (.block (opts.take n) [])).1.map (·.prim))
    (k : Opt) (hna : ∀ e ∈ h, ∀ v, e.prim ≠ .assign k v) :
    mread (mrun m h).1 t k = mread m t k :=
  c13_restores r t (opts.take n) [] h hproj k hna

end Zeep.Settings
