import ZeepProofs.C01Nested
import ZeepProofs.C01All
import ZeepProofs.C01ChoiceRepeat
/-!
# C01 — one statement over everything the member-wise proofs cover

The files `C01Choice` / `C01Repeat` / `C01Nested` / `C01ChoiceRepeat` / `C01All` each close the round trip for one more kind
of member, each over its own family of records.  Here the kinds are put together: a value is a leaf (simple type, or simple
content with attributes) or a record — to any depth, the kinds mixed freely from level to level — whose content model is

* a sequence whose members are, in any combination: element declarations with any occurrence bounds; choices between
  single elements, taken once or repeating any number of times; repeated nested sequences; nested sequences and groups
  that occur once (or an optional one left out); or
* an `xsd:all` over distinctly named elements, in any document order.

`c01_general_roundtrip` is the single theorem a reader needs: `parse (serialise v) = v` on that family, both modes,
`allow_none` on or off, every sufficiently large step budget.
-/
namespace Zeep.Xsd
open Zeep

/-- any member kind covered by a member-wise proof -/
def WTMemberU (W : Ty → Item → Prop) (p : Particle) (i : Inst) : Prop :=
  WTMemberN W p i ∨ WTMemberC W p i

def WTItemU : Nat → Ty → Item → Prop
  | _, .simple, .leaf _ => True
  | _, .simpleContent decls, .simpleContent _ attrs [] => declaredAttrs decls attrs = attrs
  | d + 1, .complex (some (.seq ps _ (.bounded 1))) decls true, .complex attrs (some (.seqR [insts])) [] =>
      declaredAttrs decls attrs = attrs ∧ WTRoundG (WTMemberU (WTItemU d)) ps insts
  | d + 1, .complex (some (.all ps false)) decls true, .complex attrs (some (.allR is [])) [] =>
      declaredAttrs decls attrs = attrs ∧ WTAll (WTItemU d) ps is ∧ serList ps is ≠ []
  | _, _, _ => False

theorem memberOK_of_WTU (m : Mode) (W : Ty → Item → Prop) (hW : ∀ ty it, W ty it → Dec m ty it) :
    ∀ p i, WTMemberU W p i → MemberOK m p i := by
  intro p i h
  rcases h with h | h
  · exact memberOK_of_WTN m W hW p i h
  · exact memberOK_of_WTC m W hW p i h

theorem dec_leaf (m : Mode) (t : Option String) : Dec m .simple (.leaf t) := by
  refine ⟨fun q => rfl, 1, ?_⟩
  intro gas hg q a
  obtain ⟨g, rfl⟩ : ∃ g, gas = g + 1 := ⟨gas - 1, by omega⟩
  exact ⟨1, by simp [serItem, parseNode, Node.text, pure, Except.pure]⟩

/-- simple content with attributes: text and declared attributes are carried unchanged -/
theorem dec_simpleContent (m : Mode) (decls : List AttrDecl) (t : Option String) (attrs : List (QName × String))
    (h : declaredAttrs decls attrs = attrs) : Dec m (.simpleContent decls) (.simpleContent t attrs []) := by
  refine ⟨fun q => rfl, 1, ?_⟩
  intro gas hg q a
  obtain ⟨g, rfl⟩ : ∃ g, gas = g + 1 := ⟨gas - 1, by omega⟩
  exact ⟨2, by simp [serItem, parseNode, Node.text, Node.attrs, Node.kids, h, pure, Except.pure]⟩

/-- **C01, the covered family in one statement**: leaves, simple content, and records to any depth whose levels are
sequences of any mix of the covered member kinds or `xsd:all` groups. -/
theorem c01_general_roundtrip (m : Mode) : ∀ (d : Nat) (ty : Ty) (it : Item), WTItemU d ty it → Dec m ty it := by
  intro d
  induction d with
  | zero =>
    intro ty it hw
    cases ty with
    | simple => cases it <;> simp [WTItemU] at hw; exact dec_leaf m _
    | simpleContent decls =>
      cases it with
      | simpleContent t attrs leaked =>
        cases leaked with
        | nil => simp only [WTItemU] at hw; exact dec_simpleContent m decls t attrs hw
        | cons _ _ => simp [WTItemU] at hw
      | _ => simp [WTItemU] at hw
    | _ => cases it <;> simp [WTItemU] at hw
  | succ d ih =>
    intro ty it hw
    cases ty with
    | simple => cases it <;> simp [WTItemU] at hw; exact dec_leaf m _
    | simpleContent decls =>
      cases it with
      | simpleContent t attrs leaked =>
        cases leaked with
        | nil => simp only [WTItemU] at hw; exact dec_simpleContent m decls t attrs hw
        | cons _ _ => simp [WTItemU] at hw
      | _ => simp [WTItemU] at hw
    | complex content decls hasFields =>
      cases it with
      | complex attrs ci raw =>
        match content, hasFields, ci, raw, hw with
        | some (.seq ps smin (.bounded 1)), true, some (.seqR [insts]), [], hw =>
          simp only [WTItemU] at hw
          obtain ⟨hattrs, hround⟩ := hw
          exact dec_record_of_members m _ (memberOK_of_WTU m (WTItemU d) ih) ps insts smin decls attrs hattrs hround
        | some (.all ps false), true, some (.allR is []), [], hw =>
          simp only [WTItemU] at hw
          obtain ⟨hattrs, hall, hne⟩ := hw
          exact dec_record_all m (WTItemU d) ih ps is decls attrs hattrs hall hne
      | _ => simp [WTItemU] at hw
    | _ => cases it <;> simp [WTItemU] at hw

/-- at the root (`Element.parse`) -/
theorem c01_general_roundtrip_root (m : Mode) (d : Nat) (ty : Ty) (it : Item) (q : QName) (hw : WTItemU d ty it) :
    ∃ g0, ∀ gas, g0 ≤ gas → ∃ calls, parseRoot gas m ty (serItem q ty it) = .ok ⟨it, [], calls⟩ := by
  obtain ⟨_, g0, h⟩ := c01_general_roundtrip m d ty it hw
  exact ⟨g0, fun gas hg => h gas hg q false⟩

/-! non-vacuity: an `xsd:all` record whose members are a simple-content element with an attribute and a record holding a
repeating choice -/
private def tySC : Ty := .simpleContent [⟨⟨none, "unit"⟩, false⟩]
private def tyInner : Ty :=
  .complex (some (.seq [.choice [.elem ⟨none, "x"⟩ 1 (.bounded 1) .simple, .elem ⟨none, "y"⟩ 1 (.bounded 1) tySC] 0 .unbounded,
                        .elem ⟨none, "z"⟩ 1 (.bounded 1) .simple] 1 (.bounded 1))) [] true
private def tyOuter : Ty :=
  .complex (some (.all [.elem ⟨none, "amount"⟩ 1 (.bounded 1) tySC, .elem ⟨none, "inner"⟩ 0 (.bounded 1) tyInner] false)) [] true
private def sc (t u : String) : Item := .simpleContent (some t) [(⟨none, "unit"⟩, u)] []
private def itInner : Item :=
  .complex [] (some (.seqR [[.choiceR [(1, .elems [sc "1" "kg"]), (0, .elems [.leaf (some "")]), (1, .elems [sc "0" "g"])],
                              .elems [.leaf (some "end")]]])) []
private def itOuter : Item := .complex [] (some (.allR [.elems [sc "0" "EUR"], .elems [itInner]] [])) []

example : WTItemU 2 tyOuter itOuter := by
  have hsc : ∀ d t u, WTItemU d tySC (sc t u) := by
    intro d t u; cases d <;> simp [WTItemU, tySC, sc, declaredAttrs]
  have hleaf : ∀ d t, WTItemU d .simple (.leaf t) := by intro d t; cases d <;> simp [WTItemU]
  have hinner : WTItemU 1 tyInner itInner := by
    simp only [WTItemU, tyInner, itInner, declaredAttrs, List.filter_nil, true_and]
    simp only [WTRoundG, WTMemberU, WTMemberC, PicksW, SimpleBranches, pnames, mnames, lnames, Occ.limit]
    refine ⟨.inr ⟨trivial, by simp, by simp, ⟨_, _, rfl, hsc 0 _ _⟩, ⟨_, _, rfl, hleaf 0 _⟩, ⟨_, _, rfl, hsc 0 _ _⟩, trivial⟩, by simp, by simp, ?_⟩
    intro _
    refine ⟨.inr ⟨by simp, by simp, fun it hit => ?_⟩, by simp, by simp [serInst, serItems], by simp⟩
    simp at hit; subst hit; exact hleaf 0 _
  simp only [WTItemU, tyOuter, itOuter, declaredAttrs, List.filter_nil, true_and, WTAll, memberTags]
  refine ⟨⟨by simp, by simp [Occ.limit], fun it hit => ?_, by simp, by simp, by simp [Occ.limit], fun it hit => ?_, by simp, trivial⟩, by simp [serList, serInst, serItems]⟩
  · simp at hit; subst hit; exact hsc 1 _ _
  · simp at hit; subst hit; exact hinner
example : (match parseRoot 100 .strict tyOuter (serItem ⟨none, "root"⟩ tyOuter itOuter) with
    | .ok r => r.rest.isEmpty | .error _ => false) = true := by decide +kernel

end Zeep.Xsd
