import ZeepModel.Soap.Frame
/-!
# C04 — every request is a correctly framed SOAP message for its binding
For every operation description, every list of rendered parts and every header list.
-/
namespace Zeep.Frame
open Zeep Zeep.Soap

/-- **Shape.**  One Envelope in the binding's SOAP namespace, an optional Header followed by
exactly one Body, nothing else. -/
theorem c04_shape (op : Op) (rendered : List (List Node)) (headers : Option (List Node)) :
    (frame op rendered headers).tag = env op.version "Envelope" ∧
    ((frame op rendered headers).kids.map (·.tag) = [env op.version "Body"] ∨
     (frame op rendered headers).kids.map (·.tag) = [env op.version "Header", env op.version "Body"]) ∧
    (headers = none ↔ (frame op rendered headers).kids.length = 1) := by
  cases headers <;> simp [frame, Node.tag, Node.kids]

def bodyOf (n : Node) (v : Version) : Option Node := n.find (env v "Body")
def headerOf (n : Node) (v : Version) : Option Node := n.find (env v "Header")

theorem body_found (op : Op) (rendered : List (List Node)) (headers : Option (List Node)) :
    ∃ b, bodyOf (frame op rendered headers) op.version = some b ∧ b.tag = env op.version "Body" := by
  cases headers <;> cases hv : op.version <;>
    simp [frame, bodyOf, Node.find, Node.children, Node.kids, Node.tag, env, envNs, hv]

/-- **Document style**: the Body holds the part elements in message order, each exactly the
standalone serialisation of its argument. -/
theorem c04_doc_body (op : Op) (rendered : List (List Node)) (headers : Option (List Node))
    (hs : op.style = .document) :
    ∃ b, bodyOf (frame op rendered headers) op.version = some b ∧ b.kids = rendered.flatten := by
  cases headers <;> cases hv : op.version <;>
    simp [frame, bodyOf, Node.find, Node.children, Node.kids, Node.tag, env, envNs, hv, hs]

/-- **Rpc style**: a single wrapper named after the operation in the declared namespace, holding
the parts (by name, in message order), each the standalone serialisation of its argument. -/
theorem c04_rpc_body (op : Op) (rendered : List (List Node)) (headers : Option (List Node))
    (hs : op.style = .rpc) :
    ∃ b w, bodyOf (frame op rendered headers) op.version = some b ∧ b.kids = [w] ∧
      w.tag = ⟨op.rpcNamespace, op.name⟩ ∧ w.kids = rendered.flatten := by
  cases headers <;> cases hv : op.version <;> by_cases h0 : op.bodyParts = 0 ∧ rendered = [] <;>
    simp [frame, bodyOf, Node.find, Node.children, Node.kids, Node.tag, env, envNs, hv, hs, h0]

/-- **Header parts sit in the Header** (and only there): the Header's children are exactly the
rendered header entries; without header values there is no Header element. -/
theorem c04_header_parts (op : Op) (rendered : List (List Node)) (hs : List Node) :
    ∃ h, headerOf (frame op rendered (some hs)) op.version = some h ∧ h.kids = hs := by
  cases hv : op.version <;>
    simp [frame, headerOf, Node.find, Node.children, Node.kids, Node.tag, env, envNs, hv]

theorem c04_no_header (op : Op) (rendered : List (List Node)) :
    headerOf (frame op rendered none) op.version = none := by
  cases hv : op.version <;>
    simp [frame, headerOf, Node.find, Node.children, Node.kids, Node.tag, env, envNs, hv]

/-- **HTTP**: version-specific Content-Type; quoted SOAPAction for 1.1, `action` parameter for 1.2
(omitted when no soapAction is declared) -/
theorem c04_http (op : Op) :
    (op.version = .v11 → (httpHeaders op).1 = "text/xml; charset=utf-8" ∧
        (httpHeaders op).2 = "\"" ++ op.soapAction.getD "" ++ "\"") ∧
    (op.version = .v12 → ∀ a, op.soapAction = some a →
        (httpHeaders op).1 = "application/soap+xml; charset=utf-8; action=\"" ++ a ++ "\"") ∧
    (op.version = .v12 → op.soapAction = none → (httpHeaders op).1 = "application/soap+xml; charset=utf-8") := by
  refine ⟨?_, ?_, ?_⟩
  · intro hv
    simp only [httpHeaders, hv, true_and]
    cases h : op.soapAction with
    | none => rfl
    | some a => by_cases ha : a = "" <;> simp [ha]
  · intro hv a ha; simp [httpHeaders, hv, ha]
  · intro hv ha; simp [httpHeaders, hv, ha]

/-- posted to the port's address -/
theorem c04_address (op : Op) : postedTo op = op.address := rfl

/-- the calling convention does not enter the frame: service proxy, bound port, created service and
`create_message` all evaluate this one function of (operation, rendered parts, headers) -/
theorem c04_conventions (op : Op) (r r' : List (List Node)) (h h' : Option (List Node))
    (hr : r = r') (hh : h = h') : frame op r h = frame op r' h' := by subst hr; subst hh; rfl

end Zeep.Frame
