import ZeepModel.Xsd.Serialize
import ZeepProofs.C03
/-!
# C01 — values survive the trip through XML (proved fragment)

`serItem` / `serInst` (ZeepModel/Xsd/Serialize.lean) is the reference serialisation of an instance
tree, `parseNode` / `parseP` the model of zeep's decoder.  Proved here: the decoder inverts the
serialiser

* on element repetitions and flat sequences (the C03 theorems, restated through `serInst`);
* on **records nested to any depth** — a complex type whose content is a sequence of distinctly
  named element declarations with arbitrary occurrence bounds, each of leaf type or again a
  record, with attributes — for every instance whose content is not empty (`WTItem`).

The guard "content not empty" is exactly where the implementation departs from the property
(known finding K8: `<e/>` decodes to `None`); `c01_k8_counterexample` proves the model shows that
departure, so the guard cannot be dropped.  `gas` is the model's step budget: the theorems hold for
every sufficiently large budget (C08 bounds the budget the decoder needs).
-/
namespace Zeep.Xsd
open Zeep

/-! ### the C03 theorems through `serInst` -/

theorem serItems_leaf (q : QName) (texts : List String) :
    serItems q .simple (leafItems texts) = serLeafs q texts := by
  induction texts with
  | nil => simp [serItems, leafItems, serLeafs]
  | cons t ts ih =>
    simp only [leafItems, List.map_cons, serItems, serLeafs] at ih ⊢
    rw [ih]; simp [serItem]

theorem serInst_leafs (q : QName) (min : Nat) (max : Occ) (texts : List String) :
    serInst (.elem q min max .simple) (.elems (leafItems texts)) = serLeafs q texts := by
  simp [serInst, serItems_leaf]

/-- **Element repetitions round-trip** (through the reference serialiser). -/
theorem c01_elem_roundtrip (m : Mode) (q : QName) (min : Nat) (max : Occ) (texts : List String) (rest : List Node)
    (gas : Nat) (hmin : min ≤ texts.length) (hmax : texts.length ≤ max.limit) (hg : texts.length + 3 ≤ gas)
    (hh : HeadNot q.name rest) :
    parseP gas m (.elem q min max .simple) (serInst (.elem q min max .simple) (.elems (leafItems texts)) ++ rest) =
      .ok ⟨.elems (leafItems texts), rest, texts.length + 1⟩ := by
  rw [serInst_leafs]; exact c03_elem_roundtrip m q min max texts rest gas hmin hmax hg hh

theorem serList_flat (ds : Decls) (tss : List (List String)) (hw : WTSeq ds tss) :
    serList (toParticles ds) (instsOf tss) = serSeq ds tss := by
  induction ds generalizing tss with
  | nil => cases tss <;> simp_all [WTSeq, toParticles, instsOf, serList, serSeq]
  | cons d ds ih =>
    cases tss with
    | nil => simp [WTSeq] at hw
    | cons ts tss =>
      have := ih tss hw.2.2
      simp only [toParticles, List.map_cons, instsOf, serList, serSeq] at this ⊢
      rw [this, serInst_leafs]

/-- **Flat sequences round-trip** (through the reference serialiser; followed by a foreign rest). -/
theorem c01_flat_sequence_roundtrip (m : Mode) (ds : Decls) (tss : List (List String)) (rest : List Node) (min : Nat)
    (gas : Nat) (hw : WTSeq ds tss) (hnd : (names ds).Nodup) (hne : rest ≠ [])
    (hhead : ∀ n ∈ names ds, HeadNot n rest) (hpos : 0 < totalLen tss)
    (hg : totalLen tss + 2 * ds.length + 8 ≤ gas) :
    ∃ calls, parseP gas m (.seq (toParticles ds) min (.bounded 1))
        (serInst (.seq (toParticles ds) min (.bounded 1)) (.seqR [instsOf tss]) ++ rest) =
      .ok ⟨.seqR [instsOf tss], rest, calls⟩ := by
  have : serInst (.seq (toParticles ds) min (.bounded 1)) (.seqR [instsOf tss]) = serSeq ds tss := by
    simp [serInst, serRounds, serList_flat ds tss hw]
  rw [this]; exact c03_flat_sequence_roundtrip m ds tss rest min gas hw hnd hne hhead hpos hg

/-- an absent optional element decodes to no item (`None` in zeep's value object) -/
theorem c01_absent_optional_reads_none (m : Mode) (q : QName) (ty : Ty) (rest : List Node) (gas : Nat) (hg : 2 ≤ gas)
    (hh : HeadNot q.name rest) :
    parseP gas m (.elem q 0 (.bounded 1) ty) (serInst (.elem q 0 (.bounded 1) ty) (.elems []) ++ rest) =
      .ok ⟨.elems [], rest, 1⟩ := by
  obtain ⟨g, rfl⟩ : ∃ g, gas = g + 2 := ⟨gas - 2, by omega⟩
  cases rest with
  | nil => simp [serInst, serItems, parseP, Occ.limit, elemLoop, bind, Except.bind, pure, Except.pure]
  | cons x xs =>
    simp only [HeadNot] at hh
    have hne : (x.tag.name == q.name) = false := by simpa using hh
    have h : elemLoop (g + 1) m q 0 ty 1 0 (x :: xs) = .ok ⟨[], x :: xs, 0⟩ := by
      simp only [elemLoop]
      split
      · rfl
      · simp [hne, pure, Except.pure]
    simp [serInst, serItems, parseP, Occ.limit, h, bind, Except.bind, pure, Except.pure]

/-- an empty repetition decodes to the empty list, whatever `maxOccurs` -/
theorem c01_empty_repetition_reads_empty (m : Mode) (q : QName) (max : Occ) (ty : Ty) (rest : List Node) (gas : Nat) (hg : 2 ≤ gas)
    (hh : HeadNot q.name rest) :
    parseP gas m (.elem q 0 max ty) (serInst (.elem q 0 max ty) (.elems []) ++ rest) = .ok ⟨.elems [], rest, 1⟩ := by
  obtain ⟨g, rfl⟩ : ∃ g, gas = g + 2 := ⟨gas - 2, by omega⟩
  simp only [serInst, serItems, List.nil_append, parseP, bind, Except.bind]
  cases hl : max.limit with
  | zero => simp [elemLoop, pure, Except.pure]
  | succ n =>
    cases rest with
    | nil => simp [elemLoop, pure, Except.pure]
    | cons x xs =>
      simp only [HeadNot] at hh
      have hne : (x.tag.name == q.name) = false := by simpa using hh
      have h : elemLoop (g + 1) m q 0 ty (n + 1) 0 (x :: xs) = .ok ⟨[], x :: xs, 0⟩ := by
        simp only [elemLoop]
        split
        · rfl
        · simp [hne, pure, Except.pure]
      simp [h, pure, Except.pure]

/-! ### records nested to any depth -/

/-- local names of the element declarations of a content model -/
def pnames : List Particle → List String
  | [] => []
  | .elem q _ _ _ :: ps => q.name :: pnames ps
  | _ :: ps => pnames ps

/-- One round of a record: instances for a prefix of the declarations — the decoder stops at the
end of the input, so trailing absent declarations contribute no instance — the last one non-empty.
`W` is the well-formedness of the items (one nesting level down). -/
def WTRound (W : Ty → Item → Prop) : List Particle → List Inst → Prop
  | .elem q min max ty :: ps, .elems items :: is =>
      min ≤ items.length ∧ items.length ≤ max.limit ∧ (∀ it ∈ items, W ty it) ∧ q.name ∉ pnames ps ∧
      (is = [] → items ≠ []) ∧ (is ≠ [] → WTRound W ps is)
  | _, _ => False

/-- well-formed record items of nesting depth at most `d`: leaves, and complex items whose declared
attributes are exactly the ones carried and whose content is one non-empty round -/
def WTItem : Nat → Ty → Item → Prop
  | _, .simple, .leaf _ => True
  | d + 1, .complex (some (.seq ps _ (.bounded 1))) decls true, .complex attrs (some (.seqR [insts])) [] =>
      declaredAttrs decls attrs = attrs ∧ WTRound (WTItem d) ps insts
  | _, _, _ => False

/-- what the induction carries for one item: its serialisation is an element named `q` and every
sufficiently large budget decodes it back, with or without `allow_none` -/
def Dec (m : Mode) (ty : Ty) (it : Item) : Prop :=
  (∀ q, (serItem q ty it).tag = q) ∧
  ∃ g0, ∀ gas, g0 ≤ gas → ∀ q allowNone, ∃ calls, parseNode gas m allowNone ty (serItem q ty it) = .ok ⟨it, [], calls⟩

theorem elemLoop_items (m : Mode) (q : QName) (min : Nat) (ty : Ty) (items : List Item)
    (hd : ∀ it ∈ items, Dec m ty it) :
    ∃ g0, ∀ gas, g0 ≤ gas → ∀ (n k : Nat) (rest : List Node), items.length ≤ n → HeadNot q.name rest →
      (items = [] → k ≠ 0 ∨ min = 0 ∨ rest = []) →
      ∃ calls, elemLoop gas m q min ty n k (serItems q ty items ++ rest) = .ok ⟨items, rest, calls⟩ := by
  induction items with
  | nil =>
    refine ⟨1, ?_⟩
    intro gas hg n k rest _ hh hk
    obtain ⟨g, rfl⟩ : ∃ g, gas = g + 1 := ⟨gas - 1, by omega⟩
    simp only [serItems, List.nil_append]
    cases n with
    | zero => exact ⟨0, by simp [elemLoop, pure, Except.pure]⟩
    | succ n =>
      cases rest with
      | nil => exact ⟨0, by simp [elemLoop, pure, Except.pure]⟩
      | cons x xs =>
        simp only [HeadNot] at hh
        have hk' := hk rfl
        refine ⟨0, ?_⟩
        simp only [elemLoop]
        split
        · rfl
        · have hne : (x.tag.name == q.name) = false := by simpa using hh
          simp only [hne, Bool.false_eq_true, if_false]
          rcases hk' with hk' | hk' | hk'
          · have : (k == 0) = false := by simpa using hk'
            simp [this, pure, Except.pure]
          · subst hk'; simp [pure, Except.pure]
          · cases hk'
  | cons it its ih =>
    obtain ⟨g1, h1⟩ := ih (fun x hx => hd x (List.mem_cons_of_mem _ hx))
    obtain ⟨htag, g2, h2⟩ := hd it (List.mem_cons_self ..)
    refine ⟨g1 + g2 + 1, ?_⟩
    intro gas hg n k rest hn hh _
    obtain ⟨g, rfl⟩ : ∃ g, gas = g + 1 := ⟨gas - 1, by omega⟩
    obtain ⟨n', rfl⟩ : ∃ n', n = n' + 1 := ⟨n - 1, by simp at hn; omega⟩
    obtain ⟨c2, hp⟩ := h2 g (by omega) q true
    obtain ⟨c1, hl⟩ := h1 g (by omega) n' (k + 1) rest (by simpa using hn) hh (fun _ => Or.inl (by omega))
    refine ⟨c2 + c1, ?_⟩
    simp only [serItems, List.cons_append, elemLoop, htag q]
    have hns : ((q.ns.isSome && q.ns.isSome && q.ns != q.ns && m == Mode.strict) = false) := by simp
    simp only [hns, Bool.false_eq_true, if_false, beq_self_eq_true, if_true, hp, hl, bind, Except.bind, pure, Except.pure]

theorem tag_serItems (q : QName) (ty : Ty) (items : List Item) (m : Mode) (hd : ∀ it ∈ items, Dec m ty it) :
    ∀ x ∈ serItems q ty items, x.tag = q := by
  induction items with
  | nil => simp [serItems]
  | cons it its ih =>
    intro x hx
    simp only [serItems, List.mem_cons] at hx
    rcases hx with rfl | hx
    · exact (hd it (List.mem_cons_self ..)).1 q
    · exact ih (fun y hy => hd y (List.mem_cons_of_mem _ hy)) x hx

theorem serItems_ne_nil (q : QName) (ty : Ty) (items : List Item) (h : items ≠ []) : serItems q ty items ≠ [] := by
  cases items with
  | nil => exact absurd rfl h
  | cons it its => simp [serItems]

/-- the serialisation of a well-formed round is not empty and starts with one of the declared names -/
theorem serList_round (m : Mode) (W : Ty → Item → Prop) (hW : ∀ ty it, W ty it → Dec m ty it) :
    ∀ (ps : List Particle) (insts : List Inst), insts ≠ [] → WTRound W ps insts →
      serList ps insts ≠ [] ∧ ∀ n, n ∉ pnames ps → HeadNot n (serList ps insts) := by
  intro ps
  induction ps with
  | nil => intro insts _ hw; cases insts <;> simp [WTRound] at hw
  | cons p ps ih =>
    intro insts hne hw
    cases insts with
    | nil => exact absurd rfl hne
    | cons i is =>
      cases p with
      | elem q min max ty =>
        cases i with
        | elems items =>
          obtain ⟨_, _, hit, _, hlast, hmore⟩ := hw
          have htags := tag_serItems q ty items m (fun it h => hW ty it (hit it h))
          by_cases his : is = []
          · subst his
            have hne' := serItems_ne_nil q ty items (hlast rfl)
            refine ⟨by simpa [serList, serInst] using hne', ?_⟩
            intro n hn
            simp only [pnames, List.mem_cons, not_or] at hn
            cases hs : serItems q ty items with
            | nil => exact absurd hs hne'
            | cons x xs =>
              have := htags x (by simp [hs])
              simp [serList, serInst, hs, HeadNot, this]; exact fun e => hn.1 e.symm
          · obtain ⟨hne', hhead⟩ := ih is his (hmore his)
            refine ⟨by simp [serList, hne'], ?_⟩
            intro n hn
            simp only [pnames, List.mem_cons, not_or] at hn
            cases hs : serItems q ty items with
            | nil => simpa [serList, serInst, hs] using hhead n hn.2
            | cons x xs =>
              have := htags x (by simp [hs])
              simp [serList, serInst, hs, HeadNot, this]; exact fun e => hn.1 e.symm
        | _ => simp [WTRound] at hw
      | _ => simp [WTRound] at hw

theorem seqRound_round (m : Mode) (W : Ty → Item → Prop) (hW : ∀ ty it, W ty it → Dec m ty it) :
    ∀ (ps : List Particle) (insts : List Inst), insts ≠ [] → WTRound W ps insts →
      ∃ g0, ∀ gas, g0 ≤ gas → ∀ (e : Bool) (sl : Nat),
        ∃ calls, seqRound gas m ps e sl (serList ps insts) = .ok ⟨some insts, [], calls⟩ := by
  intro ps
  induction ps with
  | nil => intro insts _ hw; cases insts <;> simp [WTRound] at hw
  | cons p ps ih =>
    intro insts hne hw
    cases insts with
    | nil => exact absurd rfl hne
    | cons i is =>
      cases p with
      | elem q min max ty =>
        cases i with
        | elems items =>
          have hw0 := hw
          obtain ⟨hmin, hmax, hit, hq, hlast, hmore⟩ := hw
          obtain ⟨g1, h1⟩ := elemLoop_items m q min ty items (fun it h => hW ty it (hit it h))
          by_cases his : is = []
          · subst his
            refine ⟨g1 + 2, ?_⟩
            intro gas hg e sl
            obtain ⟨g, rfl⟩ : ∃ g, gas = g + 2 := ⟨gas - 2, by omega⟩
            obtain ⟨c, hl⟩ := h1 g (by omega) max.limit 0 [] hmax trivial (fun h => absurd h (hlast rfl))
            refine ⟨c + 1, ?_⟩
            simp only [List.append_nil] at hl
            simp [serList, serInst, seqRound, parseP, hl, bind, Except.bind, pure, Except.pure]
          · obtain ⟨g2, h2⟩ := ih is his (hmore his)
            obtain ⟨hne', hhead⟩ := serList_round m W hW ps is his (hmore his)
            refine ⟨g1 + g2 + 2, ?_⟩
            intro gas hg e sl
            obtain ⟨g, rfl⟩ : ∃ g, gas = g + 2 := ⟨gas - 2, by omega⟩
            obtain ⟨c, hl⟩ := h1 g (by omega) max.limit 0 (serList ps is) hmax (hhead _ hq)
              (fun h => by subst h; simp at hmin; exact Or.inr (Or.inl hmin))
            obtain ⟨c', hr⟩ := h2 (g + 1) (by omega) e sl
            refine ⟨c + 1 + c', ?_⟩
            have hemp : (serList ps is).isEmpty = false := by
              cases h : serList ps is with
              | nil => exact absurd h hne'
              | cons _ _ => rfl
            simp [serList, serInst, seqRound, parseP, hl, hr, hemp, bind, Except.bind, pure, Except.pure]
        | _ => simp [WTRound] at hw
      | _ => simp [WTRound] at hw

/-- **Records nested to any depth round-trip.**  For every depth `d`, every record type and every
well-formed instance of it, in both modes, with `allow_none` on or off, decoding the reference
serialisation returns exactly the instance (every sufficiently large step budget). -/
theorem c01_nested_record_roundtrip (m : Mode) : ∀ (d : Nat) (ty : Ty) (it : Item), WTItem d ty it → Dec m ty it := by
  intro d
  induction d with
  | zero =>
    intro ty it hw
    cases ty <;> cases it <;> simp [WTItem] at hw
    refine ⟨fun q => rfl, 1, ?_⟩
    intro gas hg q a
    obtain ⟨g, rfl⟩ : ∃ g, gas = g + 1 := ⟨gas - 1, by omega⟩
    exact ⟨1, by simp [serItem, parseNode, Node.text, pure, Except.pure]⟩
  | succ d ih =>
    intro ty it hw
    cases ty with
    | simple =>
      cases it <;> simp [WTItem] at hw
      refine ⟨fun q => rfl, 1, ?_⟩
      intro gas hg q a
      obtain ⟨g, rfl⟩ : ∃ g, gas = g + 1 := ⟨gas - 1, by omega⟩
      exact ⟨1, by simp [serItem, parseNode, Node.text, pure, Except.pure]⟩
    | complex content decls hasFields =>
      cases it with
      | complex attrs ci raw =>
        cases content with
        | none => simp [WTItem] at hw
        | some p =>
          cases p with
          | seq ps smin smax =>
            cases smax with
            | unbounded => simp [WTItem] at hw
            | bounded b =>
              cases hasFields with
              | false => simp [WTItem] at hw
              | true =>
                cases ci with
                | none => simp [WTItem] at hw
                | some i =>
                  cases i with
                  | seqR rounds =>
                    cases raw with
                    | cons _ _ => simp [WTItem] at hw
                    | nil =>
                      match rounds, b, hw with
                      | [insts], 1, hw =>
                        simp only [WTItem] at hw
                        obtain ⟨hattrs, hround⟩ := hw
                        have hne : insts ≠ [] := by
                          intro h; subst h
                          cases ps with
                          | nil => simp [WTRound] at hround
                          | cons p ps => cases p <;> simp [WTRound] at hround
                        obtain ⟨g0, hr⟩ := seqRound_round m (WTItem d) ih ps insts hne hround
                        obtain ⟨hser, _⟩ := serList_round m (WTItem d) ih ps insts hne hround
                        refine ⟨fun q => by simp [serItem, Node.tag], g0 + 4, ?_⟩
                        intro gas hg q a
                        obtain ⟨g, rfl⟩ : ∃ g, gas = g + 4 := ⟨gas - 4, by omega⟩
                        obtain ⟨c, hc⟩ := hr (g + 1) (by omega) (decide (0 ≥ smin)) (serList ps insts).length
                        obtain ⟨x, xs, hx⟩ : ∃ x xs, serList ps insts = x :: xs := by
                          cases h : serList ps insts with
                          | nil => exact absurd h hser
                          | cons x xs => exact ⟨x, xs, rfl⟩
                        have hkids : ((x :: xs).isEmpty) = false := rfl
                        refine ⟨c + 1 + 1, ?_⟩
                        simp only [serItem, serInst, serRounds, List.append_nil, parseNode, Node.kids, Node.attrs, hx, hkids,
                          Bool.not_true, Bool.false_eq_true, if_false, Bool.and_false, Bool.false_and, parseP, Occ.limit, seqLoop]
                        rw [← hx, hc]
                        have hprog : ¬ (0 = (serList ps insts).length) := by
                          rw [hx]; simp
                        simp [bind, Except.bind, hprog, pure, Except.pure, seqLoop, hattrs]
                      | [], _, hw => simp [WTItem] at hw
                      | _ :: _ :: _, _, hw => simp [WTItem] at hw
                      | [_], 0, hw => simp [WTItem] at hw
                      | [_], _ + 2, hw => simp [WTItem] at hw
                  | _ => simp [WTItem] at hw
          | _ => simp [WTItem] at hw
      | _ => simp [WTItem] at hw
    | _ => cases it <;> simp [WTItem] at hw

/-- **Records round-trip at the root** (`Element.parse`, `allow_none` off): `parse (serialise v) = v`. -/
theorem c01_record_roundtrip (m : Mode) (d : Nat) (ty : Ty) (it : Item) (q : QName) (hw : WTItem d ty it) :
    ∃ g0, ∀ gas, g0 ≤ gas → ∃ calls, parseRoot gas m ty (serItem q ty it) = .ok ⟨it, [], calls⟩ := by
  obtain ⟨_, g0, h⟩ := c01_nested_record_roundtrip m d ty it hw
  exact ⟨g0, fun gas hg => h gas hg q false⟩

/-! ### non-vacuity and the guard -/

private def tyInner : Ty := .complex (some (.seq [.elem ⟨none, "x"⟩ 0 .unbounded .simple] 1 (.bounded 1))) [⟨⟨none, "id"⟩, false⟩] true
private def tyOuter : Ty :=
  .complex (some (.seq [.elem ⟨none, "a"⟩ 1 (.bounded 1) .simple, .elem ⟨none, "b"⟩ 0 (.bounded 3) tyInner,
                        .elem ⟨none, "c"⟩ 0 (.bounded 1) .simple] 1 (.bounded 1))) [] true
private def itInner : Item := .complex [(⟨none, "id"⟩, "7")] (some (.seqR [[.elems [.leaf (some "0"), .leaf (some "")]]])) []
private def itOuter : Item := .complex [] (some (.seqR [[.elems [.leaf (some "v")], .elems [itInner, itInner]]])) []

/-- a two-level record value (falsy leaves, an attribute, a repeated nested record, a trailing absent optional) is well-formed -/
example : WTItem 2 tyOuter itOuter := by
  simp [WTItem, WTRound, tyOuter, itOuter, tyInner, itInner, declaredAttrs, pnames, Occ.limit]

/-- …and it really decodes back (evaluated) -/
example : (match parseRoot 100 .strict tyOuter (serItem ⟨none, "root"⟩ tyOuter itOuter) with
    | .ok r => r.rest.isEmpty | .error _ => false) = true := by decide +kernel

/-- **K8 in the model**: an element of a record type whose content is empty and that carries no
attribute decodes (under `allow_none`, i.e. anywhere below the root) to `None` — not to the record
it serialises.  The non-emptiness guard of `WTRound` cannot be dropped. -/
theorem c01_k8_counterexample :
    (match parseNode 10 .strict true tyInner (serItem ⟨none, "b"⟩ tyInner (.complex [] (some (.seqR [[.elems []]])) [])) with
      | .ok ⟨.none_ [], [], 1⟩ => true
      | _ => false) = true := by
  decide +kernel

end Zeep.Xsd
