import ZeepProofs.Lemmas.ParseShrink
/-!
# C03 — schema-valid documents are accepted and decoded without loss (proved fragment)

Reference serialisation of leaf-element instances and the theorems that the model's decoder,
run on that serialisation followed by any foreign rest, returns exactly the instance and leaves
the rest untouched — for every occurrence count within the bounds (maxOccurs arbitrary), every
text, both modes.  `…_partial`: proved for element repetitions and for flat sequences of distinctly
named leaf elements followed by a non-empty rest; the other F-core constructs (nested types,
choice, all, attributes, repeated particles) are carried by the tie.
-/
namespace Zeep.Xsd
open Zeep

/-- reference serialisation of the occurrences of a leaf element -/
def serLeafs (q : QName) (texts : List String) : List Node := texts.map fun t => Node.mk q [] (some t) []

def leafItems (texts : List String) : List Item := texts.map fun t => Item.leaf (some t)

/-- the next node, if any, is not an occurrence of `q` -/
def HeadNot (name : String) : List Node → Prop
  | [] => True
  | x :: _ => x.tag.name ≠ name

theorem c03_serialize_names (q : QName) (texts : List String) : ∀ x ∈ serLeafs q texts, x.tag = q := by
  intro x hx
  simp only [serLeafs, List.mem_map] at hx
  obtain ⟨t, _, rfl⟩ := hx
  rfl

theorem elemLoop_ser (m : Mode) (q : QName) (min : Nat) (texts : List String) :
    ∀ (gas n k : Nat) (rest : List Node), texts.length ≤ n → texts.length + 2 ≤ gas → HeadNot q.name rest →
      (texts = [] → k ≠ 0 ∨ min = 0 ∨ rest = []) →
      elemLoop gas m q min .simple n k (serLeafs q texts ++ rest) = .ok ⟨leafItems texts, rest, texts.length⟩ := by
  induction texts with
  | nil =>
    intro gas n k rest _ hg hh hk
    obtain ⟨g, rfl⟩ : ∃ g, gas = g + 1 := ⟨gas - 1, by simp at hg; omega⟩
    simp only [serLeafs, List.map_nil, List.nil_append, leafItems, List.length_nil]
    cases n with
    | zero => simp [elemLoop, pure, Except.pure]
    | succ n =>
      cases rest with
      | nil => simp [elemLoop, pure, Except.pure]
      | cons x xs =>
        simp only [HeadNot] at hh
        have hk' := hk rfl
        simp only [elemLoop]
        split
        · rfl
        · have hne : (x.tag.name == q.name) = false := by simpa using hh
          simp only [hne, Bool.false_eq_true, if_false]
          rcases hk' with hk' | hk' | hk'
          · have : (k == 0) = false := by simpa using hk'
            simp [this, pure, Except.pure]
          · subst hk'; simp [pure, Except.pure]
          · cases hk'
  | cons t ts ih =>
    intro gas n k rest hn hg hh _
    obtain ⟨g, rfl⟩ : ∃ g, gas = g + 1 := ⟨gas - 1, by simp at hg; omega⟩
    obtain ⟨n', rfl⟩ : ∃ n', n = n' + 1 := ⟨n - 1, by simp at hn; omega⟩
    simp only [serLeafs, List.map_cons, List.cons_append, elemLoop, Node.tag]
    have h1 : ((q.ns.isSome && q.ns.isSome && q.ns != q.ns && m == Mode.strict) = false) := by simp
    simp only [h1, Bool.false_eq_true, if_false, beq_self_eq_true, if_true]
    obtain ⟨g', rfl⟩ : ∃ g', g = g' + 1 := ⟨g - 1, by simp at hg; omega⟩
    have hih := ih (g' + 1) n' (k + 1) rest (by simpa using hn) (by simp at hg ⊢; omega) hh (fun _ => Or.inl (by omega))
    simp only [serLeafs] at hih
    simp only [parseNode, Node.text, bind, Except.bind, pure, Except.pure, hih, leafItems, List.map_cons, List.length_cons]
    congr 2; omega

/-- **Element repetitions round-trip.**  For a leaf element with any occurrence bounds, decoding the
reference serialisation of `texts` (count within the bounds) followed by any rest that does not start
with another occurrence returns exactly those texts and leaves the rest — in both modes. -/
theorem c03_elem_roundtrip (m : Mode) (q : QName) (min : Nat) (max : Occ) (texts : List String) (rest : List Node)
    (gas : Nat) (hmin : min ≤ texts.length) (hmax : texts.length ≤ max.limit) (hg : texts.length + 3 ≤ gas)
    (hh : HeadNot q.name rest) :
    parseP gas m (.elem q min max .simple) (serLeafs q texts ++ rest) =
      .ok ⟨.elems (leafItems texts), rest, texts.length + 1⟩ := by
  obtain ⟨g, rfl⟩ : ∃ g, gas = g + 1 := ⟨gas - 1, by omega⟩
  have := elemLoop_ser m q min texts g max.limit 0 rest hmax (by omega) hh (by
    intro ht; subst ht; simp at hmin; exact Or.inr (Or.inl hmin))
  simp only [parseP, this, bind, Except.bind, pure, Except.pure]

/-! ### flat sequences -/

/-- a flat content model of leaf elements: (name, min, max) per declaration -/
abbrev Decls := List (QName × Nat × Occ)

def toParticles (ds : Decls) : List Particle := ds.map fun d => Particle.elem d.1 d.2.1 d.2.2 .simple

/-- reference serialisation: the occurrences of each declaration, in declaration order -/
def serSeq : Decls → List (List String) → List Node
  | d :: ds, ts :: tss => serLeafs d.1 ts ++ serSeq ds tss
  | _, _ => []

def WTSeq : Decls → List (List String) → Prop
  | [], [] => True
  | d :: ds, ts :: tss => d.2.1 ≤ ts.length ∧ ts.length ≤ d.2.2.limit ∧ WTSeq ds tss
  | _, _ => False

def instsOf : List (List String) → List Inst
  | [] => []
  | ts :: tss => Inst.elems (leafItems ts) :: instsOf tss

def names (ds : Decls) : List String := ds.map (·.1.name)

def totalLen : List (List String) → Nat
  | [] => 0
  | ts :: tss => ts.length + totalLen tss

theorem headNot_serSeq (n : String) (ds : Decls) (tss : List (List String)) (rest : List Node)
    (hn : n ∉ names ds) (hr : HeadNot n rest) : HeadNot n (serSeq ds tss ++ rest) := by
  induction ds generalizing tss with
  | nil => simpa [serSeq] using hr
  | cons d ds ih =>
    cases tss with
    | nil => simpa [serSeq] using hr
    | cons ts tss =>
      simp only [names, List.map_cons, List.mem_cons, not_or] at hn
      cases ts with
      | nil => simpa [serSeq, serLeafs] using ih tss hn.2
      | cons t ts => simp [serSeq, serLeafs, HeadNot, Node.tag]; exact fun e => hn.1 e.symm

/-- one round of a flat sequence over its reference serialisation, followed by a non-empty foreign rest -/
theorem seqRound_ser (m : Mode) (ds : Decls) :
    ∀ (tss : List (List String)) (gas : Nat) (e : Bool) (sl : Nat) (rest : List Node),
      WTSeq ds tss → (names ds).Nodup → rest ≠ [] → (∀ n ∈ names ds, HeadNot n rest) →
      totalLen tss + 2 * ds.length + 4 ≤ gas →
      ∃ calls, seqRound gas m (toParticles ds) e sl (serSeq ds tss ++ rest) = .ok ⟨some (instsOf tss), rest, calls⟩ := by
  induction ds with
  | nil =>
    intro tss gas e sl rest hw _ _ _ hg
    cases tss with
    | nil =>
      obtain ⟨g, rfl⟩ : ∃ g, gas = g + 1 := ⟨gas - 1, by omega⟩
      exact ⟨0, by simp [toParticles, seqRound, serSeq, instsOf, pure, Except.pure]⟩
    | cons _ _ => simp [WTSeq] at hw
  | cons d ds ih =>
    intro tss gas e sl rest hw hnd hne hhead hg
    cases tss with
    | nil => simp [WTSeq] at hw
    | cons ts tss =>
      obtain ⟨hmin, hmax, hw'⟩ := hw
      simp only [names, List.map_cons, List.nodup_cons] at hnd
      obtain ⟨g, rfl⟩ : ∃ g, gas = g + 1 := ⟨gas - 1, by omega⟩
      have hrest' : HeadNot d.1.name (serSeq ds tss ++ rest) :=
        headNot_serSeq _ ds tss rest hnd.1 (hhead _ (by simp [names]))
      have hel := c03_elem_roundtrip m d.1 d.2.1 d.2.2 ts (serSeq ds tss ++ rest) g hmin hmax
        (by simp only [totalLen, List.length_cons] at hg; omega) hrest'
      obtain ⟨calls, hrec⟩ := ih tss g e sl rest hw' hnd.2 hne (fun n hn => hhead n (by simp [names] at hn ⊢; exact Or.inr hn))
        (by simp only [totalLen, List.length_cons] at hg; omega)
      have hne' : (serSeq ds tss ++ rest).isEmpty = false := by
        cases h : serSeq ds tss ++ rest with
        | nil => simp at h; exact absurd h.2 hne
        | cons _ _ => rfl
      refine ⟨ts.length + 1 + calls, ?_⟩
      simp only [toParticles, List.map_cons, serSeq, List.append_assoc, seqRound]
      simp only [toParticles] at hrec
      rw [hel]
      simp only [hne', Bool.false_eq_true, if_false, hrec, bind, Except.bind, pure, Except.pure, Option.map_some, instsOf]

/-- **Flat sequences round-trip** (`…_partial`: followed by a non-empty rest that starts with none of
the declared names — e.g. the next sibling of an enclosing content model).  For distinctly named
leaf-element declarations with any occurrence bounds, strict or lax decoding of the reference
serialisation returns one round holding exactly the instances, and leaves the rest. -/
theorem c03_flat_sequence_roundtrip (m : Mode) (ds : Decls) (tss : List (List String)) (rest : List Node) (min : Nat)
    (gas : Nat) (hw : WTSeq ds tss) (hnd : (names ds).Nodup) (hne : rest ≠ [])
    (hhead : ∀ n ∈ names ds, HeadNot n rest) (hpos : 0 < totalLen tss)
    (hg : totalLen tss + 2 * ds.length + 8 ≤ gas) :
    ∃ calls, parseP gas m (.seq (toParticles ds) min (.bounded 1)) (serSeq ds tss ++ rest) =
      .ok ⟨.seqR [instsOf tss], rest, calls⟩ := by
  obtain ⟨g, rfl⟩ : ∃ g, gas = g + 1 := ⟨gas - 1, by omega⟩
  obtain ⟨g', rfl⟩ : ∃ g', g = g' + 1 := ⟨g - 1, by omega⟩
  obtain ⟨g'', rfl⟩ : ∃ g'', g' = g'' + 1 := ⟨g' - 1, by omega⟩
  have hlen : ∀ (ds : Decls) (tss : List (List String)), WTSeq ds tss → (serSeq ds tss).length = totalLen tss := by
    intro ds
    induction ds with
    | nil => intro tss hw; cases tss <;> simp_all [WTSeq, serSeq, totalLen]
    | cons d ds ih =>
      intro tss hw
      cases tss with
      | nil => simp [WTSeq] at hw
      | cons ts tss => simp [serSeq, totalLen, serLeafs, ih tss hw.2.2]
  have hxs : ∃ x xs, serSeq ds tss ++ rest = x :: xs := by
    cases h : serSeq ds tss ++ rest with
    | nil => simp at h; exact absurd h.2 hne
    | cons x xs => exact ⟨x, xs, rfl⟩
  obtain ⟨x, xs, hx⟩ := hxs
  obtain ⟨calls, hr⟩ := seqRound_ser m ds tss (g'' + 1) (decide (0 ≥ min)) (serSeq ds tss ++ rest).length rest hw hnd hne hhead (by omega)
  refine ⟨calls + 1, ?_⟩
  simp only [parseP, Occ.limit, hx, seqLoop]
  rw [← hx, hr]
  have hprog : (rest.length == (serSeq ds tss ++ rest).length) = false := by
    simp only [List.length_append, hlen ds tss hw, beq_eq_false_iff_ne, ne_eq]; omega
  simp only [bind, Except.bind, hprog, Bool.false_eq_true, if_false, pure, Except.pure, Nat.add_zero]

/-! non-vacuity -/
example : WTSeq [(⟨none, "a"⟩, 1, .bounded 1), (⟨none, "b"⟩, 0, .unbounded)] [["x"], ["1", "2"]] ∧
    (names [(⟨none, "a"⟩, 1, .bounded 1), (⟨none, "b"⟩, 0, .unbounded)]).Nodup := by
  refine ⟨?_, by decide⟩
  simp [WTSeq, Occ.limit]

end Zeep.Xsd
