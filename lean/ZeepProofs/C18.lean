import ZeepModel.Soap.Wsse
import ZeepProofs.Lemmas.Base64
/-!
# C18 — every UsernameToken verifies under the OASIS profile
The hash `H` is arbitrary in every theorem: the statements relate the *emitted* pieces.
-/
namespace Zeep.Wsse

/-- **Text mode**: the Password element is exactly the configured password, typed PasswordText -/
theorem c18_text (H : Bytes → Bytes) (c : Config) (rnd p : Bytes) (hp : c.password = some p)
    (hd : c.useDigest = false) :
    tokenKids H c rnd = [.username c.username, .password p .text] := by
  simp [tokenKids, hp, hd]

/-- **Digest mode**: the emitted Password is Base64(H(nonce ‖ created ‖ password')) for exactly the
Nonce (after base64-decoding it) and Created carried in the same token; password' is H(password)
when `hash_password` is set. -/
theorem c18_digest_consistent (H : Bytes → Bytes) (c : Config) (rnd p : Bytes)
    (hp : c.password = some p) (hd : c.useDigest = true)
    (hprep : c.passwordDigest = none ∨ c.passwordDigest = some [])
    (hb : ∀ b ∈ effNonce c rnd, b < 256) :
    ∃ d nb, tokenKids H c rnd = [.username c.username, .password d .digest, .nonce nb, .created c.created] ∧
      Base64.decode nb = some (effNonce c rnd) ∧
      d = asBytes (Base64.encode (H (effNonce c rnd ++ c.created ++ (if c.hashPassword then H p else p)))) := by
  refine ⟨digestOf H c (effNonce c rnd), b64 (effNonce c rnd), ?_, ?_, ?_⟩
  · simp [tokenKids, hp, hd]
  · exact Base64.base64_rt _ hb
  · rcases hprep with h | h <;> simp [digestOf, h, hp, b64]

/-- **Fresh nonce**: drawn from the random source for each application unless one is supplied -/
theorem c18_fresh_nonce (c : Config) (rnd : Bytes) :
    (c.nonce = none ∨ c.nonce = some [] → effNonce c rnd = rnd) ∧
    (∀ n, n ≠ [] → c.nonce = some n → effNonce c rnd = n) := by
  constructor
  · rintro (h | h) <;> simp [effNonce, h]
  · intro n hn h; simp [effNonce, h, hn]

theorem map_count (f : List SItem → List SItem) (hs : List HItem) :
    securityCount (mapFirstSecurity f hs) = securityCount hs := by
  induction hs with
  | nil => rfl
  | cons k rest ih =>
    cases k with
    | security ks => simp [mapFirstSecurity, securityCount, List.filter_cons, HItem.isSecurity]
    | other n => simpa [mapFirstSecurity, securityCount, List.filter_cons, HItem.isSecurity] using ih

theorem any_iff_count (hs : List HItem) : hs.any HItem.isSecurity = true ↔ securityCount hs ≠ 0 := by
  induction hs with
  | nil => simp [securityCount]
  | cons k rest ih =>
    cases k with
    | security ks => simp [securityCount, List.filter_cons, HItem.isSecurity]
    | other n => simp [securityCount, HItem.isSecurity] at ih ⊢

/-- **Single Security entry**: an existing Security element is reused; one is created only when
there is none (so a Header that had at most one has exactly one afterwards). -/
theorem c18_single_security (H : Bytes → Bytes) (c : Config) (rnd : Bytes) (header : Option (List HItem)) :
    securityCount (apply H c rnd header) =
      if securityCount (header.getD []) = 0 then 1 else securityCount (header.getD []) := by
  unfold apply
  simp only [map_count]
  generalize header.getD [] = hs
  by_cases h0 : securityCount hs = 0
  · have : hs.any HItem.isSecurity = false := by
      cases hb : hs.any HItem.isSecurity with
      | false => rfl
      | true => exact absurd h0 ((any_iff_count hs).mp hb)
    simp only [this, Bool.false_eq_true, if_false, h0, if_true]
    simp only [securityCount, List.filter_append, List.length_append] at h0 ⊢
    rw [h0]; rfl
  · have : hs.any HItem.isSecurity = true := (any_iff_count hs).mpr h0
    simp [this, h0]

theorem ext_firstToken (add : List TItem) (ks : List SItem) (t : List TItem)
    (h : firstToken ks = some t) : firstToken (extFirstToken add ks) = some (t ++ add) := by
  induction ks with
  | nil => simp [firstToken] at h
  | cons k rest ih =>
    cases k with
    | token x => simp [firstToken] at h; subst h; simp [extFirstToken, firstToken]
    | timestamp s => simp [firstToken] at h; simp [extFirstToken, firstToken, ih h]
    | other s => simp [firstToken] at h; simp [extFirstToken, firstToken, ih h]

theorem firstToken_append (l extra : List SItem) :
    firstToken (l ++ extra) = match firstToken l with
      | some t => some t
      | none => firstToken extra := by
  induction l with
  | nil => simp [firstToken]
  | cons k rest ih => cases k <;> simp [firstToken, ih]

theorem any_iff_firstToken (l : List SItem) : l.any SItem.isToken = true ↔ (firstToken l).isSome = true := by
  induction l with
  | nil => simp [firstToken]
  | cons k rest ih => cases k <;> simp [firstToken, SItem.isToken, ih]

/-- the token elements are appended to the (found or created) UsernameToken of that Security -/
theorem c18_token_in_security (H : Bytes → Bytes) (c : Config) (rnd : Bytes) (ks : List SItem) :
    firstToken (applySecurity H c rnd ks) = some ((firstToken ks).getD [] ++ tokenKids H c rnd) := by
  have hmain : firstToken (if ks.any SItem.isToken = true then ks else ks ++ [SItem.token []])
      = some ((firstToken ks).getD []) := by
    by_cases ht : ks.any SItem.isToken = true
    · simp only [ht, if_true]
      obtain ⟨t, htk⟩ := Option.isSome_iff_exists.mp ((any_iff_firstToken ks).mp ht)
      simp [htk]
    · simp only [ht]
      have hnone : firstToken ks = none := by
        cases h : firstToken ks with
        | none => rfl
        | some t => exact absurd ((any_iff_firstToken ks).mpr (by simp [h])) ht
      simp only [Bool.false_eq_true, if_false]
      rw [firstToken_append, hnone]
      simp [firstToken]
  unfold applySecurity
  apply ext_firstToken
  cases c.timestampToken with
  | none => exact hmain
  | some t =>
    simp only []
    rw [firstToken_append, hmain]

/-! non-vacuity: a concrete digest token (with the executable SHA-1) -/
example :
    let c : Config := ⟨[117], some [112, 119], none, true, some [110, 111], [50, 48], none, false⟩
    (tokenKids Sha1.sha1 c [1, 2, 3]).length = 4 := by decide

end Zeep.Wsse
