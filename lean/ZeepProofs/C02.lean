import ZeepModel.Xsd.Serialize
/-!
# C02 — emitted XML equals the reference serialisation: nothing missing, nothing added

`serItem` / `serInst` (ZeepModel/Xsd/Serialize.lean) is the reference serialisation to which
`Element.render` is tied on every run.  Proved here, by mutual structural induction over *every*
particle kind (element, wildcard, sequence, choice, all, group — any nesting, any occurrence):

* `c02_texts_preserved` — the character data of the output (attribute values and texts, document
  order) is exactly the character data of the instance, in instance order;
* `c02_names_declared` — every element the serialisation of a particle emits carries a declared
  name of that particle, or is one of the instance's wildcard nodes;
* `c02_elem_count`, `c02_absent_emits_nothing` — an element declaration emits exactly one node per
  item, hence nothing for an absent optional / empty repetition.
-/
namespace Zeep

mutual
/-- character data of a tree in document order: attribute values, then text, then the children -/
def Node.texts : Node → List String
  | .mk _ attrs text kids => attrs.map (·.2) ++ text.toList ++ Node.textsL kids
def Node.textsL : List Node → List String
  | [] => []
  | n :: ns => n.texts ++ Node.textsL ns
end

theorem Node.textsL_append (a b : List Node) : Node.textsL (a ++ b) = Node.textsL a ++ Node.textsL b := by
  induction a with
  | nil => simp [Node.textsL]
  | cons x xs ih => simp [Node.textsL, ih]

namespace Xsd

mutual
/-- character data an instance carries (independent of any type) -/
def Item.texts : Item → List String
  | .leaf t => t.toList
  | .none_ _ => []
  | .anyNode n => n.texts
  | .simpleContent t attrs _ => attrs.map (·.2) ++ t.toList
  | .complex attrs (some i) raw => attrs.map (·.2) ++ (i.texts ++ Node.textsL raw)
  | .complex attrs none raw => attrs.map (·.2) ++ Node.textsL raw
def Item.textsL : List Item → List String
  | [] => []
  | it :: its => it.texts ++ Item.textsL its
def Inst.texts : Inst → List String
  | .elems items => Item.textsL items
  | .wild ns => Node.textsL ns
  | .seqR rounds => Inst.textsLL rounds
  | .choiceR rounds => Inst.textsC rounds
  | .allR members other => Inst.textsL members ++ Node.textsL other
  | .groupR rounds => Inst.textsL rounds
  | .failed => []
def Inst.textsL : List Inst → List String
  | [] => []
  | i :: is => i.texts ++ Inst.textsL is
def Inst.textsLL : List (List Inst) → List String
  | [] => []
  | r :: rs => Inst.textsL r ++ Inst.textsLL rs
def Inst.textsC : List (Nat × Inst) → List String
  | [] => []
  | (_, i) :: rs => i.texts ++ Inst.textsC rs
end

mutual
/-- the instance has the shape of the type (what a decoder or a binder produces for it) -/
def ShapedItem : Ty → Item → Prop
  | _, .leaf _ => True
  | _, .none_ _ => True
  | _, .anyNode _ => True
  | _, .simpleContent _ _ _ => True
  | .complex (some p) _ _, .complex _ (some i) _ => ShapedInst p i
  | _, .complex _ none _ => True
  | _, .complex _ (some _) _ => False
def ShapedItems : Ty → List Item → Prop
  | _, [] => True
  | ty, it :: its => ShapedItem ty it ∧ ShapedItems ty its
def ShapedInst : Particle → Inst → Prop
  | .elem _ _ _ ty, .elems items => ShapedItems ty items
  | .any _ _, .wild _ => True
  | .seq ps _ _, .seqR rounds => ShapedRounds ps rounds
  | .choice ps _ _, .choiceR rounds => ShapedChoice ps rounds
  | .all ps _, .allR members _ => ShapedList ps members
  | .group p _ _, .groupR rounds => ShapedGroup p rounds
  | _, _ => False
def ShapedList : List Particle → List Inst → Prop
  | _, [] => True
  | p :: ps, i :: is => ShapedInst p i ∧ ShapedList ps is
  | [], _ :: _ => False
def ShapedRounds : List Particle → List (List Inst) → Prop
  | _, [] => True
  | ps, r :: rs => ShapedList ps r ∧ ShapedRounds ps rs
def ShapedChoice : List Particle → List (Nat × Inst) → Prop
  | _, [] => True
  | ps, (i, inst) :: rs =>
    (match ps[i]? with
      | some p => ShapedInst p inst
      | none => False) ∧ ShapedChoice ps rs
def ShapedGroup : Particle → List Inst → Prop
  | _, [] => True
  | p, r :: rs => ShapedInst p r ∧ ShapedGroup p rs
end


mutual
theorem texts_serItem (q : QName) : ∀ (ty : Ty) (it : Item), ShapedItem ty it → (serItem q ty it).texts = it.texts
  | _, .leaf t, _ => by simp [serItem, Node.texts, Node.textsL, Item.texts]
  | _, .none_ _, _ => by simp [serItem, Node.texts, Node.textsL, Item.texts]
  | _, .anyNode n, _ => by simp [serItem, Item.texts]
  | _, .simpleContent t attrs _, _ => by simp [serItem, Node.texts, Node.textsL, Item.texts]
  | .complex (some p) _ _, .complex attrs (some i) raw, h => by
    have := texts_serInst p i (by simpa [ShapedItem] using h)
    simp [serItem, Node.texts, Item.texts, Node.textsL_append, this]
  | .complex (some _) _ _, .complex attrs none raw, _ => by simp [serItem, Node.texts, Item.texts]
  | .complex none _ _, .complex attrs none raw, _ => by simp [serItem, Node.texts, Item.texts]
  | .complex none _ _, .complex attrs (some _) raw, h => by simp [ShapedItem] at h
  | .simple, .complex attrs none raw, _ => by simp [serItem, Node.texts, Item.texts]
  | .simple, .complex attrs (some _) raw, h => by simp [ShapedItem] at h
  | .anyType, .complex attrs none raw, _ => by simp [serItem, Node.texts, Item.texts]
  | .anyType, .complex attrs (some _) raw, h => by simp [ShapedItem] at h
  | .simpleContent _, .complex attrs none raw, _ => by simp [serItem, Node.texts, Item.texts]
  | .simpleContent _, .complex attrs (some _) raw, h => by simp [ShapedItem] at h

theorem texts_serItems (q : QName) (ty : Ty) : ∀ (items : List Item), ShapedItems ty items →
    Node.textsL (serItems q ty items) = Item.textsL items
  | [], _ => by simp [serItems, Node.textsL, Item.textsL]
  | it :: its, h => by
    simp only [ShapedItems] at h
    simp [serItems, Node.textsL, Item.textsL, texts_serItem q ty it h.1, texts_serItems q ty its h.2]

theorem texts_serInst : ∀ (p : Particle) (i : Inst), ShapedInst p i → Node.textsL (serInst p i) = i.texts
  | .elem q _ _ ty, .elems items, h => by
    simp only [ShapedInst] at h
    simp [serInst, Inst.texts, texts_serItems q ty items h]
  | .any _ _, .wild ns, _ => by simp [serInst, Inst.texts]
  | .seq ps _ _, .seqR rounds, h => by
    simp only [ShapedInst] at h
    simp [serInst, Inst.texts, texts_serRounds ps rounds h]
  | .choice ps _ _, .choiceR rounds, h => by
    simp only [ShapedInst] at h
    simp [serInst, Inst.texts, texts_serChoice ps rounds h]
  | .all ps _, .allR members other, h => by
    simp only [ShapedInst] at h
    simp [serInst, Inst.texts, Node.textsL_append, texts_serList ps members h]
  | .group p _ _, .groupR rounds, h => by
    simp only [ShapedInst] at h
    simp [serInst, Inst.texts, texts_serGroup p rounds h]
  | .elem .., .wild _, h | .elem .., .seqR _, h | .elem .., .choiceR _, h | .elem .., .allR .., h | .elem .., .groupR _, h
  | .elem .., .failed, h => by simp [ShapedInst] at h
  | .any .., .elems _, h | .any .., .seqR _, h | .any .., .choiceR _, h | .any .., .allR .., h | .any .., .groupR _, h
  | .any .., .failed, h => by simp [ShapedInst] at h
  | .seq .., .elems _, h | .seq .., .wild _, h | .seq .., .choiceR _, h | .seq .., .allR .., h | .seq .., .groupR _, h
  | .seq .., .failed, h => by simp [ShapedInst] at h
  | .choice .., .elems _, h | .choice .., .wild _, h | .choice .., .seqR _, h | .choice .., .allR .., h | .choice .., .groupR _, h
  | .choice .., .failed, h => by simp [ShapedInst] at h
  | .all .., .elems _, h | .all .., .wild _, h | .all .., .seqR _, h | .all .., .choiceR _, h | .all .., .groupR _, h
  | .all .., .failed, h => by simp [ShapedInst] at h
  | .group .., .elems _, h | .group .., .wild _, h | .group .., .seqR _, h | .group .., .choiceR _, h | .group .., .allR .., h
  | .group .., .failed, h => by simp [ShapedInst] at h

theorem texts_serList : ∀ (ps : List Particle) (is : List Inst), ShapedList ps is →
    Node.textsL (serList ps is) = Inst.textsL is
  | _, [], _ => by cases ‹List Particle› <;> simp [serList, Node.textsL, Inst.textsL]
  | p :: ps, i :: is, h => by
    simp only [ShapedList] at h
    simp [serList, Inst.textsL, Node.textsL_append, texts_serInst p i h.1, texts_serList ps is h.2]
  | [], _ :: _, h => by simp [ShapedList] at h

theorem texts_serRounds (ps : List Particle) : ∀ (rs : List (List Inst)), ShapedRounds ps rs →
    Node.textsL (serRounds ps rs) = Inst.textsLL rs
  | [], _ => by simp [serRounds, Node.textsL, Inst.textsLL]
  | r :: rs, h => by
    simp only [ShapedRounds] at h
    simp [serRounds, Inst.textsLL, Node.textsL_append, texts_serList ps r h.1, texts_serRounds ps rs h.2]

theorem texts_serChoice (ps : List Particle) : ∀ (rs : List (Nat × Inst)), ShapedChoice ps rs →
    Node.textsL (serChoice ps rs) = Inst.textsC rs
  | [], _ => by simp [serChoice, Node.textsL, Inst.textsC]
  | (i, inst) :: rs, h => by
    simp only [ShapedChoice] at h
    have ih := texts_serChoice ps rs h.2
    cases hp : ps[i]? with
    | none => simp [hp] at h
    | some p =>
      have h1 : ShapedInst p inst := by simpa [hp] using h.1
      simp [serChoice, hp, Inst.textsC, Node.textsL_append, texts_serInst p inst h1, ih]

theorem texts_serGroup (p : Particle) : ∀ (rs : List Inst), ShapedGroup p rs →
    Node.textsL (serGroup p rs) = Inst.textsL rs
  | [], _ => by simp [serGroup, Node.textsL, Inst.textsL]
  | r :: rs, h => by
    simp only [ShapedGroup] at h
    simp [serGroup, Inst.textsL, Node.textsL_append, texts_serInst p r h.1, texts_serGroup p rs h.2]
end


/-- **Nothing missing, nothing added (character data).**  For an instance of the shape of its type —
any particle kinds, nesting and occurrence — the serialised element carries exactly the attribute
values and texts of the instance, in instance order. -/
theorem c02_texts_preserved (q : QName) (ty : Ty) (it : Item) (h : ShapedItem ty it) :
    (serItem q ty it).texts = it.texts := texts_serItem q ty it h

/-! ### only declared names -/

mutual
/-- expanded names of the element declarations of a content model (through nested particles) -/
def Particle.tags : Particle → List QName
  | .elem q _ _ _ => [q]
  | .any _ _ => []
  | .seq ps _ _ => Particle.tagsL ps
  | .choice ps _ _ => Particle.tagsL ps
  | .all ps _ => Particle.tagsL ps
  | .group p _ _ => p.tags
def Particle.tagsL : List Particle → List QName
  | [] => []
  | p :: ps => p.tags ++ Particle.tagsL ps
end

def Item.foreignNode : Item → Option Node
  | .anyNode n => some n
  | _ => none

mutual
/-- nodes the instance carries verbatim: wildcard matches, `xsd:all` extras, anyType elements -/
def Inst.foreign : Inst → List Node
  | .elems items => items.filterMap Item.foreignNode
  | .wild ns => ns
  | .seqR rounds => Inst.foreignLL rounds
  | .choiceR rounds => Inst.foreignC rounds
  | .allR members other => Inst.foreignL members ++ other
  | .groupR rounds => Inst.foreignL rounds
  | .failed => []
def Inst.foreignL : List Inst → List Node
  | [] => []
  | i :: is => i.foreign ++ Inst.foreignL is
def Inst.foreignLL : List (List Inst) → List Node
  | [] => []
  | r :: rs => Inst.foreignL r ++ Inst.foreignLL rs
def Inst.foreignC : List (Nat × Inst) → List Node
  | [] => []
  | (_, i) :: rs => i.foreign ++ Inst.foreignC rs
end

theorem tag_serItem (q : QName) (ty : Ty) (it : Item) : (serItem q ty it).tag = q ∨ it.foreignNode = some (serItem q ty it) := by
  cases it with
  | anyNode n => right; simp [serItem, Item.foreignNode]
  | leaf t => left; simp [serItem, Node.tag]
  | none_ l => left; simp [serItem, Node.tag]
  | simpleContent t a l => left; simp [serItem, Node.tag]
  | complex attrs c raw =>
    left
    cases ty with
    | complex content _ _ =>
      cases content with
      | none => cases c <;> rfl
      | some p => cases c <;> rfl
    | simple => cases c <;> rfl
    | simpleContent _ => cases c <;> rfl
    | anyType => cases c <;> rfl

theorem tags_of_getElem? (ps : List Particle) (i : Nat) (p : Particle) (h : ps[i]? = some p) :
    ∀ t ∈ p.tags, t ∈ Particle.tagsL ps := by
  induction ps generalizing i with
  | nil => simp at h
  | cons x xs ih =>
    intro t ht
    cases i with
    | zero => simp at h; subst h; simp [Particle.tagsL, ht]
    | succ j => simp at h; simp [Particle.tagsL, ih j h t ht]

theorem names_serItems (q : QName) (ty : Ty) : ∀ (items : List Item) (n : Node), n ∈ serItems q ty items →
    n.tag = q ∨ n ∈ items.filterMap Item.foreignNode
  | [], n, h => by simp [serItems] at h
  | it :: its, n, h => by
    simp only [serItems, List.mem_cons] at h
    rcases h with rfl | h
    · rcases tag_serItem q ty it with h1 | h1
      · exact Or.inl h1
      · right; simp [List.filterMap_cons, h1]
    · rcases names_serItems q ty its n h with h1 | h1
      · exact Or.inl h1
      · right
        simp only [List.filterMap_cons]
        split
        · exact h1
        · exact List.mem_cons_of_mem _ h1

mutual
theorem names_serInst : ∀ (p : Particle) (i : Inst) (n : Node), n ∈ serInst p i → n.tag ∈ p.tags ∨ n ∈ i.foreign
  | .elem q _ _ ty, .elems items, n, h => by
    simp only [serInst] at h
    rcases names_serItems q ty items n h with h1 | h1
    · left; simp [Particle.tags, h1]
    · right; simpa [Inst.foreign] using h1
  | .any _ _, .wild ns, n, h => by right; simpa [serInst, Inst.foreign] using h
  | .seq ps _ _, .seqR rounds, n, h => by
    simp only [serInst] at h
    simpa [Particle.tags, Inst.foreign] using names_serRounds ps rounds n h
  | .choice ps _ _, .choiceR rounds, n, h => by
    simp only [serInst] at h
    simpa [Particle.tags, Inst.foreign] using names_serChoice ps rounds n h
  | .all ps _, .allR members other, n, h => by
    simp only [serInst, List.mem_append] at h
    rcases h with h | h
    · rcases names_serList ps members n h with h1 | h1
      · left; simpa [Particle.tags] using h1
      · right; simp [Inst.foreign, h1]
    · right; simp [Inst.foreign, h]
  | .group p _ _, .groupR rounds, n, h => by
    simp only [serInst] at h
    simpa [Particle.tags, Inst.foreign] using names_serGroup p rounds n h
  | .elem .., .wild _, _, h | .elem .., .seqR _, _, h | .elem .., .choiceR _, _, h | .elem .., .allR .., _, h | .elem .., .groupR _, _, h
  | .elem .., .failed, _, h => by simp [serInst] at h
  | .any .., .elems _, _, h | .any .., .seqR _, _, h | .any .., .choiceR _, _, h | .any .., .allR .., _, h | .any .., .groupR _, _, h
  | .any .., .failed, _, h => by simp [serInst] at h
  | .seq .., .elems _, _, h | .seq .., .wild _, _, h | .seq .., .choiceR _, _, h | .seq .., .allR .., _, h | .seq .., .groupR _, _, h
  | .seq .., .failed, _, h => by simp [serInst] at h
  | .choice .., .elems _, _, h | .choice .., .wild _, _, h | .choice .., .seqR _, _, h | .choice .., .allR .., _, h | .choice .., .groupR _, _, h
  | .choice .., .failed, _, h => by simp [serInst] at h
  | .all .., .elems _, _, h | .all .., .wild _, _, h | .all .., .seqR _, _, h | .all .., .choiceR _, _, h | .all .., .groupR _, _, h
  | .all .., .failed, _, h => by simp [serInst] at h
  | .group .., .elems _, _, h | .group .., .wild _, _, h | .group .., .seqR _, _, h | .group .., .choiceR _, _, h | .group .., .allR .., _, h
  | .group .., .failed, _, h => by simp [serInst] at h

theorem names_serList : ∀ (ps : List Particle) (is : List Inst) (n : Node), n ∈ serList ps is →
    n.tag ∈ Particle.tagsL ps ∨ n ∈ Inst.foreignL is
  | [], _, n, h => by simp [serList] at h
  | _ :: _, [], n, h => by simp [serList] at h
  | p :: ps, i :: is, n, h => by
    simp only [serList, List.mem_append] at h
    rcases h with h | h
    · rcases names_serInst p i n h with h1 | h1
      · left; simp [Particle.tagsL, h1]
      · right; simp [Inst.foreignL, h1]
    · rcases names_serList ps is n h with h1 | h1
      · left; simp [Particle.tagsL, h1]
      · right; simp [Inst.foreignL, h1]

theorem names_serRounds (ps : List Particle) : ∀ (rs : List (List Inst)) (n : Node), n ∈ serRounds ps rs →
    n.tag ∈ Particle.tagsL ps ∨ n ∈ Inst.foreignLL rs
  | [], n, h => by simp [serRounds] at h
  | r :: rs, n, h => by
    simp only [serRounds, List.mem_append] at h
    rcases h with h | h
    · rcases names_serList ps r n h with h1 | h1
      · exact Or.inl h1
      · right; simp [Inst.foreignLL, h1]
    · rcases names_serRounds ps rs n h with h1 | h1
      · exact Or.inl h1
      · right; simp [Inst.foreignLL, h1]

theorem names_serChoice (ps : List Particle) : ∀ (rs : List (Nat × Inst)) (n : Node), n ∈ serChoice ps rs →
    n.tag ∈ Particle.tagsL ps ∨ n ∈ Inst.foreignC rs
  | [], n, h => by simp [serChoice] at h
  | (i, inst) :: rs, n, h => by
    simp only [serChoice, List.mem_append] at h
    rcases h with h | h
    · cases hp : ps[i]? with
      | none => simp [hp] at h
      | some p =>
        simp only [hp] at h
        rcases names_serInst p inst n h with h1 | h1
        · exact Or.inl (tags_of_getElem? ps i p hp _ h1)
        · right; simp [Inst.foreignC, h1]
    · rcases names_serChoice ps rs n h with h1 | h1
      · exact Or.inl h1
      · right; simp [Inst.foreignC, h1]

theorem names_serGroup (p : Particle) : ∀ (rs : List Inst) (n : Node), n ∈ serGroup p rs →
    n.tag ∈ p.tags ∨ n ∈ Inst.foreignL rs
  | [], n, h => by simp [serGroup] at h
  | r :: rs, n, h => by
    simp only [serGroup, List.mem_append] at h
    rcases h with h | h
    · rcases names_serInst p r n h with h1 | h1
      · exact Or.inl h1
      · right; simp [Inst.foreignL, h1]
    · rcases names_serGroup p rs n h with h1 | h1
      · exact Or.inl h1
      · right; simp [Inst.foreignL, h1]
end

/-- **Nothing added (names).**  Every child element the serialisation of a complex item emits carries
a name declared in the type's content model, or is one of the nodes the instance carries verbatim
(wildcard matches, anyType elements) — whatever the particle kinds, nesting and occurrence. -/
theorem c02_names_declared (q : QName) (p : Particle) (decls : List AttrDecl) (hf : Bool)
    (attrs : List (QName × String)) (i : Inst) (n : Node)
    (h : n ∈ (serItem q (.complex (some p) decls hf) (.complex attrs (some i) [])).kids) :
    n.tag ∈ p.tags ∨ n ∈ i.foreign := by
  simp only [serItem, Node.kids, List.append_nil] at h
  exact names_serInst p i n h

theorem length_serItems (q : QName) (ty : Ty) (items : List Item) : (serItems q ty items).length = items.length := by
  induction items with
  | nil => simp [serItems]
  | cons it its ih => simp [serItems, ih]

/-- **One element per item**: an element declaration emits exactly as many nodes as the value has
items — no occurrence is dropped, none invented, whatever the bounds. -/
theorem c02_elem_count (q : QName) (min : Nat) (max : Occ) (ty : Ty) (items : List Item) :
    (serInst (.elem q min max ty) (.elems items)).length = items.length := by
  simp [serInst, length_serItems]

/-- an absent optional / an empty repetition emits nothing -/
theorem c02_absent_emits_nothing (q : QName) (min : Nat) (max : Occ) (ty : Ty) :
    serInst (.elem q min max ty) (.elems []) = [] := by
  simp [serInst, serItems]

/-! non-vacuity: a shaped instance mixing every particle kind -/
private def pAll : Particle :=
  .seq [.elem ⟨none, "a"⟩ 1 (.bounded 1) .simple,
        .choice [.elem ⟨none, "b"⟩ 1 (.bounded 1) .simple, .elem ⟨none, "c"⟩ 1 (.bounded 1) (.simpleContent [])] 0 .unbounded,
        .all [.elem ⟨none, "d"⟩ 0 (.bounded 1) .simple] false,
        .group (.seq [.elem ⟨none, "e"⟩ 1 (.bounded 1) .simple] 1 (.bounded 1)) 1 (.bounded 1),
        .any 0 .unbounded] 1 (.bounded 1)
private def iAll : Inst :=
  .seqR [[.elems [.leaf (some "0")],
          .choiceR [(1, .elems [.simpleContent (some "t") [(⟨none, "k"⟩, "v")] []]), (0, .elems [.leaf (some "")])],
          .allR [.elems []] [],
          .groupR [.seqR [[.elems [.leaf none]]]],
          .wild [.mk ⟨some "urn:x", "w"⟩ [] (some "z") []]]]

example : ShapedItem (.complex (some pAll) [] true) (.complex [(⟨none, "id"⟩, "1")] (some iAll) []) := by
  simp [ShapedItem, ShapedInst, ShapedRounds, ShapedList, ShapedChoice, ShapedItems, ShapedGroup, pAll, iAll]

example : (serItem ⟨none, "r"⟩ (.complex (some pAll) [] true) (.complex [(⟨none, "id"⟩, "1")] (some iAll) [])).texts
    = ["1", "0", "v", "t", "", "z"] := by decide +kernel

end Xsd
end Zeep
