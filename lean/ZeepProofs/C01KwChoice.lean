import ZeepModel.Xsd.BindKwRecord
import ZeepProofs.C12Choice
import ZeepProofs.C01Choice
/-!
# C01 / C12 — from a keyword call to the XML and back, for records with choices

Three developments are composed here: the keyword pass and the rendering of choices (`ZeepModel/Xsd/BindKw.lean`), the reference
serialiser and the decoder of engine A (`Serialize.lean`, `Parse.lean`).  For a signature made of required elements and
choices between single elements, and a call that gives every choice a value (zeep never raises for a choice left out —
`Choice.is_optional` is always True — and then writes nothing for it): whatever a keyword call binds (`processKw`) and the renderer then writes (`renderRecord`: a
required element without value raises, a choice renders its best matching branch) **is** the reference serialisation of an
instance that lists, member by member, the caller's values — and the decoder reads exactly that instance back
(`c01_kw_choice_roundtrip`, both modes).
-/
namespace Zeep.BindKw
open Zeep Zeep.Xsd

/-- the signatures of this file: every choice branch is a single element -/
def SingleBranches : List Item → Prop
  | [] => True
  | .elem _ :: r => SingleBranches r
  | .choice bs :: r => (∀ b, b ∈ bs → ∃ n, b = [n]) ∧ SingleBranches r

/-- the instance a member denotes under the bound fields: the caller's value, and for a choice the branch it was given for -/
inductive Denotes (fields : Kw) : Item → Inst → Prop
  | elem (n t : String) : fields.lookup n = some (.leaf t) → Denotes fields (.elem n) (.elems [.leaf (some t)])
  | choice (bs : List Branch) (i : Nat) (n t : String) : bs[i]? = some [n] → fields.lookup n = some (.leaf t) →
      Denotes fields (.choice bs) (.choiceR [(i, .elems [.leaf (some t)])])

/-- member by member -/
def DenotesAll (fields : Kw) : List Item → List Inst → Prop
  | [], [] => True
  | it :: r, i :: is => Denotes fields it i ∧ DenotesAll fields r is
  | _, _ => False

theorem best_mem (fields : Kw) (bs : List RBranch) (b : RBranch) (h : best fields bs = some b) : b ∈ bs := by
  induction bs generalizing b with
  | nil => simp [best] at h
  | cons x xs ih =>
    cases hb : best fields xs with
    | none =>
      by_cases hc : score fields x > 0
      · simp [best, hb, hc] at h; subst h; exact List.mem_cons_self
      · simp [best, hb, hc] at h
    | some c =>
      by_cases hc : score fields x ≥ score fields c
      · simp [best, hb, hc] at h; subst h; exact List.mem_cons_self
      · simp [best, hb, hc] at h; subst h; exact List.mem_cons_of_mem _ (ih c hb)

theorem simpleBranches_map (bs : List Branch) : SimpleBranches (bs.map fun b => elemP (b.headD "")) := by
  induction bs with
  | nil => trivial
  | cons b bs ih => simpa [SimpleBranches, elemP] using ih

theorem pnames_map (bs : List Branch) (hs : ∀ b, b ∈ bs → ∃ n, b = [n]) :
    pnames (bs.map fun b => elemP (b.headD "")) = bs.flatten := by
  induction bs with
  | nil => rfl
  | cons b bs ih =>
    obtain ⟨n, rfl⟩ := hs b List.mem_cons_self
    simp only [List.map_cons, elemP, pnames, List.flatten_cons, List.headD_cons, List.cons_append, List.nil_append]
    rw [← ih (fun b' hb' => hs b' (List.mem_cons_of_mem _ hb'))]
    rfl

theorem lnames_map (items : List Item) (hs : SingleBranches items) : lnames (items.map toParticle) = allNames items := by
  induction items with
  | nil => rfl
  | cons it rest ih =>
    cases it with
    | elem n =>
      simp only [List.map_cons, toParticle, elemP, lnames, mnames, allNames, List.flatMap_cons, Item.names]
      rw [ih hs]; rfl
    | choice bs =>
      obtain ⟨h1, h2⟩ := hs
      simp only [List.map_cons, toParticle, lnames, mnames, allNames, List.flatMap_cons, Item.names]
      rw [ih h2, pnames_map bs h1]; rfl

/-- one member: what is rendered is the reference serialisation of what the member denotes, and that instance is well formed -/
theorem renderItem_denotes (fields : Kw) (hne : ∀ k, fields.lookup k ≠ some .empty) (it : Item)
    (hs : ∀ bs, it = .choice bs → (∀ b, b ∈ bs → ∃ n, b = [n]) ∧ bs.flatten.Nodup ∧ best fields (rbOf bs) ≠ none)
    (nodes : List Node) (h : renderItem fields it = .ok nodes) :
    ∃ inst, Denotes fields it inst ∧ nodes = serInst (toParticle it) inst ∧ nodes ≠ [] ∧
      WTMember (WTItemG 0) (toParticle it) inst := by
  cases it with
  | elem n =>
    simp only [renderItem] at h
    split at h
    · rename_i t hl
      simp only [Except.ok.injEq] at h; subst h
      refine ⟨.elems [.leaf (some t)], .elem n t hl, ?_, by simp, ?_⟩
      · simp [toParticle, elemP, serInst, serItems, serItem, leafNode]
      · simp [toParticle, elemP, WTMember, Occ.limit, WTItemG]
    · cases h
  | choice bs =>
    obtain ⟨hsing, hnd, hgiven⟩ := hs bs rfl
    simp only [renderItem, renderChoice] at h
    cases hb : best fields (rbOf bs) with
    | none => exact absurd hb hgiven
    | some b =>
      rw [hb] at h
      have hmem := best_mem fields (rbOf bs) b hb
      obtain ⟨br, hbr, rfl⟩ := List.mem_map.1 hmem
      obtain ⟨n, rfl⟩ := hsing br hbr
      obtain ⟨i, hi⟩ := List.getElem?_of_mem hbr
      -- the rendered branch is the single member `n`
      simp only [List.map_cons, List.map_nil, renderBranch] at h
      cases hm : renderMember fields ⟨n, false⟩ with
      | error e => rw [hm] at h; simp [Except.map] at h
      | ok a =>
        rw [hm] at h
        rcases renderMember_ok fields ⟨n, false⟩ a hm with rfl | ⟨v, hl, hv, rfl⟩
        · -- a required member without value raises: not this case
          unfold renderMember at hm
          cases hl : fields.lookup n with
          | none => rw [hl] at hm; simp at hm
          | some w =>
            rw [hl] at hm
            cases w <;> simp at hm
        · cases v with
          | none => exact absurd rfl hv
          | empty => exact absurd hl (hne n)
          | leaf t =>
            simp only [List.append_nil, Except.map, Except.ok.injEq] at h
            subst h
            have hps : (bs.map fun b => elemP (b.headD ""))[i]? = some (elemP n) := by
              simp [List.getElem?_map, hi]
            refine ⟨.choiceR [(i, .elems [.leaf (some t)])], .choice bs i n t hi hl, ?_, by simp [pairNode], ?_⟩
            · simp only [toParticle, serInst, serChoice, List.getElem?_map, hi, Option.map_some, List.headD_cons, elemP, serItems, serItem,
                List.append_nil, List.flatMap_cons, List.flatMap_nil, pairNode, leafNode]
            · simp only [toParticle, WTMember]
              refine ⟨simpleBranches_map bs, by rw [pnames_map bs hsing]; exact hnd, ⟨none, n⟩, .simple, ?_, by simp [WTItemG]⟩
              simpa [elemP] using hps

/-- the whole record: the rendered children are the reference serialisation of a well-formed round of instances -/
theorem renderRecord_denotes (fields : Kw) (hne : ∀ k, fields.lookup k ≠ some .empty) :
    ∀ (items : List Item), SingleBranches items → (allNames items).Nodup → items ≠ [] →
      (∀ bs, Item.choice bs ∈ items → best fields (rbOf bs) ≠ none) →
      ∀ nodes, renderRecord fields items = .ok nodes →
        ∃ insts, DenotesAll fields items insts ∧ nodes = serList (items.map toParticle) insts ∧
          WTRoundG (WTMember (WTItemG 0)) (items.map toParticle) insts := by
  intro items
  induction items with
  | nil => intro _ _ h; exact absurd rfl h
  | cons it rest ih =>
    intro hs hnd _ hgiven nodes h
    simp only [renderRecord] at h
    cases h1 : renderItem fields it with
    | error e => rw [h1] at h; simp at h
    | ok a =>
      cases h2 : renderRecord fields rest with
      | error e => rw [h1, h2] at h; simp at h
      | ok b =>
        rw [h1, h2] at h
        simp only [Except.ok.injEq] at h
        subst h
        simp only [allNames, List.flatMap_cons] at hnd
        have hnd' := List.nodup_append.1 hnd
        have hsrest : SingleBranches rest := by cases it <;> simp [SingleBranches] at hs <;> first | exact hs | exact hs.2
        have hsit : ∀ bs, it = .choice bs → (∀ b, b ∈ bs → ∃ n, b = [n]) ∧ bs.flatten.Nodup ∧ best fields (rbOf bs) ≠ none := by
          intro bs e; subst e
          exact ⟨hs.1, by simpa [Item.names] using hnd'.1, hgiven bs List.mem_cons_self⟩
        obtain ⟨inst, hden, hser, hnonempty, hwt⟩ := renderItem_denotes fields hne it hsit a h1
        have hdisj : ∀ n ∈ mnames (toParticle it), n ∉ lnames (rest.map toParticle) := by
          intro n hn
          rw [lnames_map rest hsrest]
          have hn' : n ∈ it.names := by
            cases it with
            | elem m => simpa [toParticle, elemP, mnames, Item.names] using hn
            | choice bs => simp only [toParticle, mnames] at hn; rw [pnames_map bs hs.1] at hn; exact hn
          exact fun hr => hnd'.2.2 n hn' n hr rfl
        by_cases hrest : rest = []
        · subst hrest
          simp only [renderRecord, Except.ok.injEq] at h2; subst h2
          refine ⟨[inst], ⟨hden, trivial⟩, by simp [serList, hser], ?_⟩
          simp only [List.map_cons, List.map_nil, WTRoundG]
          exact ⟨hwt, by simp [lnames], fun _ => hser ▸ hnonempty, fun h => absurd rfl h⟩
        · obtain ⟨insts, hall, hser2, hwt2⟩ := ih hsrest hnd'.2.1 hrest (fun bs hm => hgiven bs (List.mem_cons_of_mem _ hm)) b h2
          have hins : insts ≠ [] := by
            cases insts with
            | nil => cases rest <;> simp_all [WTRoundG]
            | cons _ _ => simp
          refine ⟨inst :: insts, ⟨hden, hall⟩, by simp [serList, hser, hser2], ?_⟩
          simp only [List.map_cons, WTRoundG]
          exact ⟨hwt, hdisj, fun h => absurd h hins, fun _ => hwt2⟩

/-- **From the call to the XML and back** (records of required elements and required choices between single elements): for an
accepted keyword call without empty collections that gives every choice a value, if rendering succeeds then the element written, `<q>nodes</q>`, is the reference
serialisation of an instance that lists member by member the caller's values, and decoding it — in either mode — returns exactly
that instance. -/
theorem c01_kw_choice_roundtrip (items : List Item) (attrs : List String) (kw fields : Kw) (m : Mode) (q : QName)
    (hs : SingleBranches items) (hnd : (allNames items).Nodup) (hne : items ≠ [])
    (hok : processKw items attrs kw = .ok fields) (hnoempty : ∀ k, kw.lookup k ≠ some .empty)
    (hgiven : ∀ bs, Item.choice bs ∈ items → best fields (rbOf bs) ≠ none)
    (nodes : List Node) (hr : renderRecord fields items = .ok nodes) :
    ∃ insts, DenotesAll fields items insts ∧
      serItem q (tyOf items) (.complex [] (some (.seqR [insts])) []) = .mk q [] none nodes ∧
      ∃ g0, ∀ gas, g0 ≤ gas → ∃ calls,
        parseRoot gas m (tyOf items) (.mk q [] none nodes) = .ok ⟨.complex [] (some (.seqR [insts])) [], [], calls⟩ := by
  obtain ⟨_, hprov⟩ := processKw_fields items attrs kw fields hok
  have hfe : ∀ k, fields.lookup k ≠ some .empty := by
    intro k hk
    rcases hprov k .empty (mem_of_lookup fields k .empty hk) with h | h
    · cases h
    · exact hnoempty k h
  obtain ⟨insts, hall, hser, hwt⟩ := renderRecord_denotes fields hfe items hs hnd hne hgiven nodes hr
  have hitem : WTItemG 1 (tyOf items) (.complex [] (some (.seqR [insts])) []) := by
    simp only [tyOf, WTItemG, declaredAttrs, List.filter_nil, true_and]
    exact hwt
  have hserI : serItem q (tyOf items) (.complex [] (some (.seqR [insts])) []) = .mk q [] none nodes := by
    simp [tyOf, serItem, serInst, serRounds, hser]
  obtain ⟨g0, hg⟩ := c01_record_with_choices_roundtrip_root m 1 (tyOf items) _ q hitem
  refine ⟨insts, hall, hserI, g0, fun gas hgas => ?_⟩
  obtain ⟨c, hc⟩ := hg gas hgas
  rw [hserI] at hc
  exact ⟨c, hc⟩

/-! non-vacuity: `pay(amount=5, card=None, iban="NL")` is bound, rendered as `<pay><amount>5</amount><iban>NL</iban></pay>` and decoded again -/
private def payItems : List Item := [.elem "amount", .choice [["card"], ["iban"], ["voucher"]]]

example : (match processKw payItems [] [("amount", .leaf "5"), ("card", .none), ("iban", .leaf "NL")] with
    | .ok fields =>
      (match renderRecord fields payItems with
        | .ok nodes =>
          nodes.length == 2 &&
          (match parseRoot 50 .strict (tyOf payItems) (.mk ⟨none, "pay"⟩ [] none nodes) with
            | .ok r => r.rest.isEmpty
            | .error _ => false)
        | .error _ => false)
    | .error _ => false) = true := by decide +kernel

end Zeep.BindKw
