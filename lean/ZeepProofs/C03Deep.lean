import ZeepProofs.C07Deep
/-!
# C03 — no element of an accepted document is skipped

The decoder direction of "decoded without loss", for every schema whose content models are
wildcard-free nestings of element declarations, sequences, choices and groups (any occurrence
bounds; `xsd:all` at the top of a content model), nested to any depth through the element types
(`DeepRegular`): if strict decoding accepts a document, then **every element node of the document,
at every depth, was decoded by a declaration of its parent's content model that carries its local
name** (`Accounted`) — no child is passed over, whatever its position.  Together with
`c03_attributes_kept` (declared attributes are carried over unchanged) and the leaf clause of the
decoder (`Item.leaf x.text`) nothing the schema describes is dropped on the way in.

Types without element content (simple types, simpleContent, empty complex types) end the descent:
what zeep does with *children* of such elements is known finding K1, outside this theorem.
-/
namespace Zeep.Xsd
open Zeep

/-- every content model reachable from the type is one the accounting invariant covers -/
inductive DeepRegular : Ty → Prop
  | leaf (ty : Ty) : (∀ p decls, ty ≠ .complex (some p) decls true) → DeepRegular ty
  | node (p : Particle) (decls : List AttrDecl) : TopRegular p = true →
      (∀ q ty, (q, ty) ∈ levelElems p → DeepRegular ty) → DeepRegular (.complex (some p) decls true)

mutual
/-- every element below `x` was decoded by a declaration of its parent's content model carrying its name -/
inductive Accounted : Ty → Node → Prop
  | leaf (ty : Ty) (x : Node) : (∀ p decls, ty ≠ .complex (some p) decls true) → Accounted ty x
  | node (p : Particle) (decls : List AttrDecl) (x : Node) :
      (∀ k, k ∈ x.kids → AccountedBy (levelElems p) k) → Accounted (.complex (some p) decls true) x
/-- one of the declarations `es` carries `k`'s local name and accounts for everything below `k` -/
inductive AccountedBy : List (QName × Ty) → Node → Prop
  | decl (es : List (QName × Ty)) (q : QName) (ty : Ty) (k : Node) :
      (q, ty) ∈ es → k.tag.name = q.name → Accounted ty k → AccountedBy es k
end

/-- **Nothing is skipped.**  Strict acceptance accounts for every element at every depth. -/
theorem c03_nothing_skipped (ty : Ty) (hreg : DeepRegular ty) :
    ∀ (gas : Nat) (allowNone : Bool) (x : Node) (r : Out Item), parseNode gas .strict allowNone ty x = .ok r → Accounted ty x := by
  induction hreg with
  | leaf ty hty => intro _ _ x _ _; exact .leaf ty x hty
  | node p decls htop _ ih =>
    intro gas allowNone x r h
    cases gas with
    | zero => simp [parseNode] at h
    | succ gas =>
      refine .node p decls x ?_
      intro k hk
      have hkids : x.kids.isEmpty = false := by
        cases hx : x.kids with
        | nil => rw [hx] at hk; simp at hk
        | cons a t => rfl
      simp only [parseNode, Bool.not_true, Bool.false_eq_true, if_false, hkids, Bool.and_false, Bool.false_and] at h
      split at h
      · cases h
      · cases h
      · rename_i r0 hr0
        split at h
        · rename_i hemp
          rcases acct_top gas .strict p x.kids r0 htop hr0 k hk with h1 | h1
          · rw [List.isEmpty_iff.mp hemp] at h1; simp at h1
          · obtain ⟨q, ty', g, a, r', _, hmem, hname, hp⟩ := h1
            exact .decl _ q ty' k hmem hname (ih q ty' hmem g a k r' hp)
        · simp at h

/-- at the root (`Element.parse`) -/
theorem c03_nothing_skipped_root (ty : Ty) (hreg : DeepRegular ty) (gas : Nat) (x : Node) (r : Out Item)
    (h : parseRoot gas .strict ty x = .ok r) : Accounted ty x :=
  c03_nothing_skipped ty hreg gas false x r h

/-- declared attributes are carried over unchanged: when every attribute of the element is declared,
the decoded attribute list is the element's attribute list -/
theorem c03_attributes_kept (decls : List AttrDecl) (attrs : List (QName × String))
    (h : ∀ a ∈ attrs, ∃ d ∈ decls, d.q = a.1) : declaredAttrs decls attrs = attrs := by
  apply List.filter_eq_self.mpr
  intro a ha
  obtain ⟨d, hd, hq⟩ := h a ha
  simp only [List.any_eq_true, beq_iff_eq]
  exact ⟨d, hd, hq⟩

/-- …and they are exactly what the decoded item carries (strict mode, any content model) -/
theorem c03_item_attributes (gas : Nat) (allowNone : Bool) (content : Option Particle) (decls : List AttrDecl)
    (x : Node) (r : Out Item) (attrs : List (QName × String)) (c : Option Inst) (raw : List Node)
    (h : parseNode gas .strict allowNone (.complex content decls true) x = .ok r)
    (hv : r.val = .complex attrs c raw) : attrs = declaredAttrs decls x.attrs := by
  cases gas with
  | zero => simp [parseNode] at h
  | succ gas =>
    cases content with
    | none =>
      simp only [parseNode, Bool.not_true, Bool.false_eq_true, if_false] at h
      split at h
      · simp only [pure_eq_ok] at h; subst h; cases hv
      · split at h
        · simp only [pure_eq_ok] at h; subst h; cases hv; rfl
        · simp at h
    | some p =>
      simp only [parseNode, Bool.not_true, Bool.false_eq_true, if_false] at h
      split at h
      · simp only [pure_eq_ok] at h; subst h; cases hv
      · split at h
        · cases h
        · cases h
        · split at h
          · simp only [pure_eq_ok] at h; subst h; cases hv; rfl
          · simp at h

/-! ### non-vacuity: a schema with a repeated choice over a group, two levels deep, is `DeepRegular` -/
private def lfT : Ty := .simple
private def inT : Ty :=
  .complex (some (.seq [.elem ⟨none, "p"⟩ 1 (.bounded 1) lfT,
                        .choice [.elem ⟨none, "u"⟩ 1 (.bounded 1) lfT,
                                 .group (.seq [.elem ⟨none, "v"⟩ 1 (.bounded 1) lfT, .elem ⟨none, "w"⟩ 0 .unbounded lfT] 1 (.bounded 1)) 1 (.bounded 1)]
                          0 (.bounded 3)] 1 (.bounded 1))) [] true
private def outT : Ty :=
  .complex (some (.all [.elem ⟨none, "a"⟩ 1 (.bounded 1) lfT, .elem ⟨none, "b"⟩ 0 (.bounded 1) inT] false)) [] true

example : DeepRegular outT := by
  refine .node _ _ (by decide) ?_
  intro q ty hm
  simp [levelElems, levelElemsL] at hm
  rcases hm with ⟨_, rfl⟩ | ⟨_, rfl⟩
  · exact .leaf _ (by intro p d h; cases h)
  · refine .node _ _ (by decide) ?_
    intro q ty hm
    simp [levelElems, levelElemsL] at hm
    rcases hm with ⟨_, rfl⟩ | ⟨_, rfl⟩ | ⟨_, rfl⟩ | ⟨_, rfl⟩ <;> exact .leaf _ (by intro p d h; cases h)

end Zeep.Xsd
