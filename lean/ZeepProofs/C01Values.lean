import ZeepModel.Xsd.Denote
import ZeepProofs.C12Faithful
import ZeepProofs.C01Repeat
/-!
# C01 at the level of call arguments: `decode (render args) = the instance the args denote`

Links the two halves of engine A that were modelled separately:

* `Bind.emitTy` (ZeepModel/Xsd/Bind.lean) — zeep's construct-then-render path on the record family
  (records of leaf / record typed elements with any bounds, repeated sequences `_value_N`,
  attributes);
* `serItem` / `parseNode` (Serialize.lean / Parse.lean) — the reference serialiser and zeep's
  decoder, for which the round-trip theorems of C01 / C01Choice / C01Repeat are proved.

`render_is_reference_serialisation` shows, by mutual induction over every signature, that whatever
the binder emits for an accepted call **is** the reference serialisation of the instance the
arguments denote (`itemOf`) under the schema the signature denotes (`toTy`).  Composed with the
round-trip theorem: for a well-formed instance, decoding what a call sends returns exactly the
instance its arguments denote (`c01_values_roundtrip`).

`xsi:nil` is outside the decoder model, so the theorems are about schemas without nillable
elements and arguments without `xsd.Nil` (`noNil`); `SkipValue` and `None` are covered.
-/
namespace Zeep.Bind
open Zeep Zeep.Xsd

theorem noNil_of_memL {xs : List Arg} (h : Arg.noNilL xs = true) {x : Arg} (hm : x ∈ xs) : x.noNil = true := by
  induction xs with
  | nil => cases hm
  | cons y r ih =>
    simp only [Arg.noNilL, Bool.and_eq_true] at h
    rcases List.mem_cons.mp hm with rfl | hm'
    · exact h.1
    · exact ih h.2 hm'

theorem noNil_of_memD {kvs : List (String × Arg)} (h : Arg.noNilD kvs = true) {k : String} {v : Arg} (hm : (k, v) ∈ kvs) :
    v.noNil = true := by
  induction kvs with
  | nil => cases hm
  | cons kv r ih =>
    obtain ⟨k0, v0⟩ := kv
    simp only [Arg.noNilD, Bool.and_eq_true] at h
    rcases List.mem_cons.mp hm with heq | hm'
    · cases heq; exact h.1
    · exact ih h.2 hm'

theorem serInst_of_empty (p : Particle) (i : Inst) (h : isEmptyInst i = true) : serInst p i = [] := by
  cases i with
  | elems items =>
    cases items with
    | nil => cases p <;> simp [serInst, serItems]
    | cons _ _ => simp [isEmptyInst] at h
  | seqR rounds =>
    cases rounds with
    | nil => cases p <;> simp [serInst, serRounds]
    | cons _ _ => simp [isEmptyInst] at h
  | _ => simp [isEmptyInst] at h

/-- trimming changes nothing on the wire -/
theorem serList_trim : ∀ (ps : List Particle) (is : List Inst), serList ps (trimEmpty is) = serList ps is := by
  intro ps is
  induction is generalizing ps with
  | nil => rfl
  | cons i is ih =>
    cases ps with
    | nil => simp [serList]
    | cons p ps =>
      simp only [trimEmpty]
      split
      · rename_i hc
        simp only [Bool.and_eq_true, List.isEmpty_iff] at hc
        have h1 := ih ps
        rw [hc.1] at h1
        have hnil : serList ps is = [] := by
          rw [← h1]; cases ps <;> simp [serList]
        simp [serList, serInst_of_empty p i hc.2, hnil]
      · simp [serList, ih ps]

/-! ### render = reference serialisation -/

def TyOK (ty : BTy) : Prop :=
  noNillableTy ty = true → ∀ (tag : String) (a : Arg) (n : Node), a.noNil = true → emitTy ty tag a = .ok n →
    n = serItem ⟨none, tag⟩ (toTy ty) (itemOf ty a)

def FieldsOK (fs : List BField) : Prop :=
  noNillableFs fs = true → ∀ (kvs : List (String × Arg)) (ns : List Node), Arg.noNilD kvs = true → emitFields fs kvs = .ok ns →
    ns = serList (toPs fs) (instsFull fs kvs)

def FieldOK (f : BField) : Prop :=
  noNillableF f = true → ∀ (v : Option Arg) (ns : List Node), (∀ x, v = some x → x.noNil = true) → emitField f v = .ok ns →
    ns = serInst (toP f) (instOf f v)

theorem collect_cons_ok {α} (a : List α) (rest : List (Except BErr (List α))) (out : List α)
    (h : collect (.ok a :: rest) = .ok out) : ∃ b, collect rest = .ok b ∧ out = a ++ b := by
  simp only [collect] at h
  cases hr : collect rest with
  | error e => simp [hr] at h
  | ok b => simp only [hr, Except.ok.injEq] at h; exact ⟨b, rfl, h.symm⟩

mutual
theorem ty_ok : ∀ (ty : BTy), TyOK ty
  | .leaf => by
    intro _ tag a n _ he
    cases a <;> simp [emitTy] at he
    subst he
    simp [toTy, itemOf, serItem]
  | .record fs as => by
    intro hnn tag a n hnil he
    cases a with
    | dict kvs =>
      simp only [noNillableTy] at hnn
      simp only [Arg.noNil] at hnil
      simp only [emitTy] at he
      cases hf : emitFields fs kvs with
      | error e => simp [hf] at he
      | ok kids =>
        cases ha : emitAttrs as kvs with
        | error e => simp [hf, ha] at he
        | ok attrs =>
          simp only [hf, ha, Except.ok.injEq] at he
          subst he
          have hk := fields_ok fs hnn kvs kids hnil hf
          simp [toTy, itemOf, serItem, serInst, serRounds, serList_trim, attrsOf, ha, hk]
    | leaf _ => simp [emitTy] at he
    | none => simp [emitTy] at he
    | nil => simp [emitTy] at he
    | skip => simp [emitTy] at he
    | list _ => simp [emitTy] at he

theorem fields_ok : ∀ (fs : List BField), FieldsOK fs
  | [] => by
    intro _ kvs ns _ he
    simp only [emitFields, Except.ok.injEq] at he
    subst he
    simp [toPs, instsFull, serList]
  | g :: gs => by
    intro hnn kvs ns hnil he
    simp only [noNillableFs, Bool.and_eq_true] at hnn
    simp only [emitFields] at he
    cases h1 : emitField g (kvs.lookup g.name) with
    | error e => simp [h1] at he
    | ok a =>
      cases h2 : emitFields gs kvs with
      | error e => simp [h1, h2] at he
      | ok b =>
        simp only [h1, h2, Except.ok.injEq] at he
        subst he
        have hv : ∀ x, kvs.lookup g.name = some x → x.noNil = true :=
          fun x hx => noNil_of_memD hnil (mem_of_lookup hx)
        have e1 := field_ok g hnn.1 _ a hv h1
        have e2 := fields_ok gs hnn.2 kvs b hnil h2
        simp [toPs, instsFull, serList, e1, e2]

theorem field_ok : ∀ (f : BField), FieldOK f
  | .elem name min max nl ty => by
    intro hnn v ns hv he
    simp only [noNillableF, Bool.and_eq_true, Bool.not_eq_true'] at hnn
    obtain ⟨hnl, hty⟩ := hnn
    subst hnl
    have tyok := ty_ok ty hty
    simp only [emitField] at he
    simp only [toP, instOf]
    split at he
    · -- a single occurrence
      rename_i hmax
      simp only [hmax, if_true]
      cases v with
      | none =>
        simp only at he
        split at he
        · simp only [Except.ok.injEq] at he; subst he; simp [serInst, serItems]
        · simp at he
      | some x =>
        cases x with
        | none =>
          simp only at he
          split at he
          · simp only [Except.ok.injEq] at he; subst he; simp [serInst, serItems]
          · simp at he
        | nil => have := hv _ rfl; simp [Arg.noNil] at this
        | skip => simp only [Except.ok.injEq] at he; subst he; simp [serInst, serItems]
        | list xs => simp at he
        | leaf s =>
          simp only at he
          cases hx : emitTy ty name (.leaf s) with
          | error e => simp [hx] at he
          | ok n =>
            simp only [hx, Except.ok.injEq] at he
            subst he
            have := tyok name (.leaf s) n (by simp [Arg.noNil]) hx
            simp [serInst, serItems, this]
        | dict d =>
          simp only at he
          cases hx : emitTy ty name (.dict d) with
          | error e => simp [hx] at he
          | ok n =>
            simp only [hx, Except.ok.injEq] at he
            subst he
            have := tyok name (.dict d) n (hv _ rfl) hx
            simp [serInst, serItems, this]
    · -- a repetition
      rename_i hmax
      simp only [hmax, Bool.false_eq_true, if_false]
      cases v with
      | none =>
        simp only at he
        split at he
        · simp only [Except.ok.injEq] at he; subst he; simp [serInst, serItems]
        · simp at he
      | some x =>
        cases x with
        | none =>
          simp only at he
          split at he
          · simp only [Except.ok.injEq] at he; subst he; simp [serInst, serItems]
          · simp at he
        | nil => simp at he
        | skip => simp at he
        | leaf _ => simp at he
        | dict _ => simp at he
        | list xs =>
          simp only at he
          split at he
          · simp at he
          · rename_i hwb
            have hxs : Arg.noNilL xs = true := by simpa [Arg.noNil] using hv _ rfl
            simp only [serInst]
            clear hv hwb
            induction xs generalizing ns with
            | nil => simp only [List.map_nil, collect, Except.ok.injEq] at he; subst he; simp [serItems]
            | cons x xs ihx =>
              simp only [Arg.noNilL, Bool.and_eq_true] at hxs
              simp only [List.map_cons] at he ⊢
              cases x with
              | nil => simp [Arg.noNil] at hxs
              | none => simp [collect] at he
              | skip => simp [collect] at he
              | list _ => simp [collect] at he
              | leaf s =>
                simp only at he
                cases hx : emitTy ty name (.leaf s) with
                | error e => simp [hx, collect] at he
                | ok n =>
                  simp only [hx] at he
                  obtain ⟨b, hb, rfl⟩ := collect_cons_ok _ _ _ he
                  have e1 := tyok name (.leaf s) n (by simp [Arg.noNil]) hx
                  have e2 := ihx b hb hxs.2
                  simp [serItems, e1, e2]
              | dict d =>
                simp only at he
                cases hx : emitTy ty name (.dict d) with
                | error e => simp [hx, collect] at he
                | ok n =>
                  simp only [hx] at he
                  obtain ⟨b, hb, rfl⟩ := collect_cons_ok _ _ _ he
                  have e1 := tyok name (.dict d) n hxs.1 hx
                  have e2 := ihx b hb hxs.2
                  simp [serItems, e1, e2]
  | .rseq name min max fs => by
    intro hnn v ns hv he
    simp only [noNillableF] at hnn
    have fsok := fields_ok fs hnn
    simp only [emitField] at he
    simp only [toP, instOf]
    cases v with
    | none =>
      simp only at he
      split at he
      · simp only [Except.ok.injEq] at he; subst he; simp [serInst, serRounds]
      · simp at he
    | some x =>
      cases x with
      | none =>
        simp only at he
        split at he
        · simp only [Except.ok.injEq] at he; subst he; simp [serInst, serRounds]
        · simp at he
      | nil => simp at he
      | skip => simp at he
      | leaf _ => simp at he
      | dict _ => simp at he
      | list xs =>
        simp only at he
        split at he
        · simp at he
        · rename_i hwb
          have hxs : Arg.noNilL xs = true := by simpa [Arg.noNil] using hv _ rfl
          simp only [serInst]
          clear hv hwb
          induction xs generalizing ns with
          | nil => simp only [List.map_nil, collect, Except.ok.injEq] at he; subst he; simp [serRounds]
          | cons x xs ihx =>
            simp only [Arg.noNilL, Bool.and_eq_true] at hxs
            simp only [List.map_cons] at he ⊢
            cases x with
            | dict kvs =>
              simp only at he
              cases hx : emitFields fs kvs with
              | error e => simp [hx, collect] at he
              | ok a =>
                simp only [hx] at he
                obtain ⟨b, hb, rfl⟩ := collect_cons_ok _ _ _ he
                have e1 := fsok kvs a (by simpa [Arg.noNil] using hxs.1) hx
                have e2 := ihx b hb hxs.2
                simp [serRounds, e1, e2]
            | nil => simp [collect] at he
            | none => simp [collect] at he
            | skip => simp [collect] at he
            | list _ => simp [collect] at he
            | leaf _ => simp [collect] at he
end

/-- **What the binder renders is the reference serialisation of the instance the arguments denote** —
every record signature without nillable elements, every argument tree without `xsd.Nil`. -/
theorem render_is_reference_serialisation (ty : BTy) (hnn : noNillableTy ty = true) (tag : String) (a : Arg) (n : Node)
    (hnil : a.noNil = true) (he : emitTy ty tag a = .ok n) :
    n = serItem ⟨none, tag⟩ (toTy ty) (itemOf ty a) :=
  ty_ok ty hnn tag a n hnil he

/-- a keyword call that is accepted renders through `emitTy` -/
theorem call_kw_ok (fs : List BField) (as : List BAttr) (tag : String) (kw : List (String × Arg)) (n : Node)
    (h : call fs as tag [] kw = .ok n) : emitTy (.record fs as) tag (.dict kw) = .ok n := by
  simp only [call, bindPositional, List.length_nil, Nat.zero_le, if_true, List.zip_nil_right, List.any_nil,
    Bool.false_eq_true, if_false, List.nil_append] at h
  split at h
  · cases h
  · exact h

/-- **Values survive the trip**: for an accepted keyword call whose arguments denote a well-formed
instance (`WTItemR`: names distinct per level, content not empty — K8 —, repeated sequences of the
covered shape), decoding what the call sends returns exactly that instance — both modes, every
sufficiently large step budget. -/
theorem c01_values_roundtrip (m : Mode) (fs : List BField) (as : List BAttr) (tag : String) (kw : List (String × Arg))
    (n : Node) (d : Nat) (hnn : noNillableFs fs = true) (hnil : Arg.noNilD kw = true)
    (hcall : call fs as tag [] kw = .ok n)
    (hw : WTItemR d (toTy (.record fs as)) (itemOf (.record fs as) (.dict kw))) :
    ∃ g0, ∀ gas, g0 ≤ gas → ∃ calls,
      parseRoot gas m (toTy (.record fs as)) n = .ok ⟨itemOf (.record fs as) (.dict kw), [], calls⟩ := by
  have hn := render_is_reference_serialisation (.record fs as) (by simpa [noNillableTy] using hnn) tag (.dict kw) n
    (by simpa [Arg.noNil] using hnil) (call_kw_ok fs as tag kw n hcall)
  rw [hn]
  exact c01_record_with_repeated_sequences_roundtrip_root m d _ _ ⟨none, tag⟩ hw

/-! ### non-vacuity: `f(a, _value_1=[{k, v?, w+}…], z?, id=…)` with two iterations and the trailing optional left out -/
private def lf (n : String) (mn : Nat) (mx : Occ) : BField := .elem n mn mx false .leaf
private def fsX : List BField :=
  [lf "a" 1 (.bounded 1), .rseq "_value_1" 0 .unbounded [lf "k" 1 (.bounded 1), lf "v" 0 (.bounded 1), lf "w" 1 .unbounded], lf "z" 0 (.bounded 1)]
private def asX : List BAttr := [⟨"id", false⟩]
private def kwX : List (String × Arg) :=
  [("a", .leaf "1"),
   ("_value_1", .list [.dict [("k", .leaf "k1"), ("w", .list [.leaf "w1", .leaf "w2"])],
                       .dict [("k", .leaf "k2"), ("v", .leaf ""), ("w", .list [.leaf "0"])]]),
   ("id", .leaf "7")]

private def el' (n : String) (mn : Nat) (mx : Occ) : Particle := .elem ⟨none, n⟩ mn mx .simple
private def lv' (t : String) : Item := .leaf (some t)

private theorem tyX_eq : toTy (.record fsX asX) =
    .complex (some (.seq [el' "a" 1 (.bounded 1),
                          .seq [el' "k" 1 (.bounded 1), el' "v" 0 (.bounded 1), el' "w" 1 .unbounded] 0 .unbounded,
                          el' "z" 0 (.bounded 1)] 1 (.bounded 1))) [⟨⟨none, "id"⟩, false⟩] true := rfl

private theorem itX_eq : itemOf (.record fsX asX) (.dict kwX) =
    .complex [(⟨none, "id"⟩, "7")] (some (.seqR [[.elems [lv' "1"],
        .seqR [[.elems [lv' "k1"], .elems [], .elems [lv' "w1", lv' "w2"]], [.elems [lv' "k2"], .elems [lv' ""], .elems [lv' "0"]]]]])) [] := by
  rfl

private theorem wtX : WTItemR 1 (toTy (.record fsX asX)) (itemOf (.record fsX asX) (.dict kwX)) := by
  rw [tyX_eq, itX_eq]
  refine ⟨by simp [declaredAttrs], ?_⟩
  refine ⟨Or.inl ⟨by decide, by decide, fun it hit => ?_⟩, by simp [mnames, lnames, el'], by simp, fun _ => ?_⟩
  · simp only [List.mem_singleton] at hit; subst hit; exact trivial
  refine ⟨Or.inr ⟨⟨none, "k"⟩, .simple, [el' "v" 0 (.bounded 1), el' "w" 1 .unbounded], 0, .unbounded, _, rfl, rfl, ?_, by decide, by decide⟩,
    by simp [mnames, lnames, el'], by simp [serInst, serRounds, serList, serItems, el'], by simp⟩
  refine ⟨by simp, by simp [SimpleMembers, el'], ?_⟩
  intro r hr
  simp only [List.mem_cons, List.mem_nil_iff, or_false] at hr
  rcases hr with rfl | rfl <;>
    simp [WTRoundG, WTMember, WTItemR, lv', el', mnames, lnames, Occ.limit, serInst, serItems, serItem]

/-- the call is accepted, and decoding what it sends returns the instance its arguments denote -/
example : ∃ n, call fsX asX "req" [] kwX = .ok n ∧
    ∃ g0, ∀ gas, g0 ≤ gas → ∃ calls,
      parseRoot gas .strict (toTy (.record fsX asX)) n = .ok ⟨itemOf (.record fsX asX) (.dict kwX), [], calls⟩ := by
  have hok : (match call fsX asX "req" [] kwX with | .ok _ => true | .error _ => false) = true := by decide +kernel
  cases h : call fsX asX "req" [] kwX with
  | error e => rw [h] at hok; cases hok
  | ok n => exact ⟨n, rfl, c01_values_roundtrip .strict fsX asX "req" kwX n 1 (by decide) (by decide) h wtX⟩

end Zeep.Bind
