import ZeepProofs.Lemmas.BindKw
/-
C12 — the keyword pass over signatures with non-repeating choices (`Choice.parse_kwargs`, direct use) whose branches are
element declarations or sequences of element declarations, and the rendering of such a choice from the bound fields: the
clauses "an argument that names nothing in the signature" and "key of the other choice branch", for every signature (any
number of members, choices with any number of branches, anywhere in the sequence), every call and every spelling of the
members that are not used (not mentioned / `None` / empty collection); the two converses that make the refusal exact; and
faithfulness of what is rendered for the branch the caller chose.
-/
namespace Zeep.BindKw
/-- **C12, "key of the other choice branch"**: a call that gives values for members of two different branches of one
non-repeating choice is refused with a TypeError — whether the branches are single elements or sequences of elements, however
the other members are spelt (not mentioned, `None`, empty) and wherever the choice stands in the signature. -/
theorem c12_two_choice_branches_refused (items : List Item) (attrs : List String) (kw : Kw) (bs : List Branch)
    (x y : String) (vx vy : Val)
    (hnd : (allNames items ++ attrs).Nodup) (hc : Item.choice bs ∈ items)
    (hapart : ∀ b, b ∈ bs → ¬ (x ∈ b ∧ y ∈ b)) (hxm : x ∈ bs.flatten) (hym : y ∈ bs.flatten)
    (hlx : kw.lookup x = some vx) (hvx : vx.has = true) (hly : kw.lookup y = some vy) (hvy : vy.has = true) :
    ∃ k, processKw items attrs kw = .error (.unexpectedKeyword k) := by
  have hnd' := List.nodup_append.1 hnd
  have hin : ∀ z, z ∈ bs.flatten → z ∈ allNames items := fun z hz => List.mem_flatMap.2 ⟨_, hc, hz⟩
  have hnota : ∀ z, z ∈ bs.flatten → z ∉ attrs := fun z hz hz' => hnd'.2.2 z (hin z hz) z hz' rfl
  rcases seqKw_two_valued kw items [] (keys kw) bs x y vx vy hnd'.1 hc hapart hxm hym hlx hvx hly hvy
      (mem_keys_of_lookup kw x vx hlx) (mem_keys_of_lookup kw y vy hly) with h | h
  · exact processKw_error_of_left items attrs kw x ((attrKw_other kw attrs _ _ x (hnota x hxm)).2 h)
  · exact processKw_error_of_left items attrs kw y ((attrKw_other kw attrs _ _ y (hnota y hym)).2 h)

/-- **C12, unknown keyword**: a keyword that names nothing in the signature is refused, whatever else is passed -/
theorem c12_kw_unknown_refused (items : List Item) (attrs : List String) (kw : Kw) (k : String)
    (hk : k ∈ keys kw) (hu : k ∉ allNames items ++ attrs) :
    ∃ k', processKw items attrs kw = .error (.unexpectedKeyword k') := by
  simp only [List.mem_append, not_or] at hu
  exact processKw_error_of_left items attrs kw k
    ((attrKw_other kw attrs _ _ k hu.2).2 ((seqKw_other kw items _ _ k hu.1).2 hk))

/-- **C12, nothing supplied is silently ignored**: when the keyword pass accepts a call, every keyword whose value counts as
given is bound, with the caller's value, in the fields the value object is built from. -/
theorem c12_kw_accepted_keeps_values (items : List Item) (attrs : List String) (kw res : Kw)
    (hnd : (allNames items).Nodup) (hok : processKw items attrs kw = .ok res)
    (k : String) (v : Val) (hl : kw.lookup k = some v) (hv : v.has = true) : (k, v) ∈ res := by
  unfold processKw at hok
  simp only at hok
  split at hok
  · rename_i hnil
    cases hok
    have hk : k ∈ keys kw := mem_keys_of_lookup kw k v hl
    apply attrKw_kept kw attrs _ _ k v hl
    by_cases hs : k ∈ (seqKw kw items ([], keys kw)).2
    · right
      have : attrKw kw attrs (seqKw kw items ([], keys kw)) =
          attrKw kw attrs ((seqKw kw items ([], keys kw)).1, (seqKw kw items ([], keys kw)).2) := rfl
      rw [this] at hnil
      exact ⟨hs, by rw [hnil]; simp⟩
    · left
      exact seqKw_kept kw items [] (keys kw) hnd (by simp [keys]) k v hl hv (.inr ⟨hk, hs⟩)
  · cases hok

/-- **C12, a conforming keyword call is accepted**: every key names a member or an attribute and in no choice two branches are
given values that count (whatever is passed as `None` / empty for the others) -/
theorem c12_kw_conforming_accepted (items : List Item) (attrs : List String) (kw : Kw)
    (hkeys : (keys kw).Nodup) (hdecl : ∀ k, k ∈ keys kw → k ∈ allNames items ++ attrs)
    (hone : ∀ bs, Item.choice bs ∈ items → OneBranch kw bs) :
    ∃ res, processKw items attrs kw = .ok res := by
  have h0 : AOk kw (keys kw) := ⟨hkeys, fun _ hx => hx⟩
  obtain ⟨h1, h2⟩ := seqKw_ok kw items [] (keys kw) h0 hone
  have hpair : attrKw kw attrs (seqKw kw items ([], keys kw)) =
      attrKw kw attrs ((seqKw kw items ([], keys kw)).1, (seqKw kw items ([], keys kw)).2) := rfl
  obtain ⟨h3, h4⟩ := attrKw_ok kw attrs (seqKw kw items ([], keys kw)).1 _ h1
  have hempty : (attrKw kw attrs (seqKw kw items ([], keys kw))).2 = [] := by
    rw [hpair]
    apply List.eq_nil_iff_forall_not_mem.2
    intro k hk
    have hk1 := h3 k hk
    have hk0 : k ∈ keys kw := seqKw_sub kw items [] (keys kw) k hk1
    rcases List.mem_append.1 (hdecl k hk0) with hd | hd
    · exact h2 k hd hk1
    · exact h4 k hd hk
  unfold processKw
  simp only [hempty]
  exact ⟨_, rfl⟩

/-! non-vacuity: concrete calls of a choice between an element, a sequence of two elements and another element -/
example : (match processKw [.elem "amount", .choice [["card"], ["iban", "bic"], ["voucher"]]] ["id"]
    [("amount", .leaf "5"), ("card", .leaf "4111"), ("bic", .leaf "B"), ("voucher", .none)] with
    | .error (.unexpectedKeyword k) => k == "bic" | .ok _ => false) = true := by decide
example : (match processKw [.elem "amount", .choice [["card"], ["iban", "bic"], ["voucher"]]] ["id"]
    [("amount", .leaf "5"), ("card", .none), ("iban", .leaf "NL"), ("bic", .leaf "B"), ("id", .leaf "7")] with
    | .ok r => r == [("amount", .leaf "5"), ("card", .none), ("iban", .leaf "NL"), ("bic", .leaf "B"), ("voucher", .none), ("id", .leaf "7")]
    | .error _ => false) = true := by decide


/-- **C12 / C01, a choice is rendered from the branch the caller chose, completely and with nothing else**: for an accepted
keyword call in which exactly one branch `b` of a non-repeating choice was given values that count (no empty collections among
the arguments), `Choice.render` renders that branch (whatever its position and whatever is spelt `None` for the others); when it
succeeds, every value the caller gave for a member of `b` is emitted and everything emitted is a value the caller gave. (A
required member of `b` the caller left out makes it fail with a ValidationError — never a silent omission.) -/
theorem c12_choice_rendered_faithfully (items : List Item) (attrs : List String) (kw fields : Kw)
    (hnd : (allNames items).Nodup) (hok : processKw items attrs kw = .ok fields)
    (pre : List RBranch) (b : RBranch) (post : List RBranch) (opt : Bool)
    (hval : ValuedIn kw b.names) (hothers : ∀ b', b' ∈ pre ++ post → ¬ ValuedIn kw (RBranch.names b'))
    (hnoempty : ∀ k, kw.lookup k ≠ some .empty) :
    renderChoice fields (pre ++ b :: post) opt = renderBranch fields b ∧
    ∀ out, renderBranch fields b = .ok out →
      (∀ k v, kw.lookup k = some v → v.has = true → k ∈ b.names → (k, v) ∈ out) ∧
      (∀ k v, (k, v) ∈ out → kw.lookup k = some v ∧ k ∈ b.names) := by
  obtain ⟨huniq, hprov⟩ := processKw_fields items attrs kw fields hok
  have hfield : ∀ k v, kw.lookup k = some v → v.has = true → fields.lookup k = some v := fun k v hl hv =>
    lookup_of_mem_uniq fields huniq k v (c12_kw_accepted_keeps_values items attrs kw fields hnd hok k v hl hv)
  -- a field that is not None is the caller's, and counts
  have hback : ∀ k v, fields.lookup k = some v → v ≠ .none → kw.lookup k = some v ∧ v.has = true := by
    intro k v hl hv
    rcases hprov k v (mem_of_lookup fields k v hl) with h | h
    · exact absurd h hv
    · refine ⟨h, ?_⟩
      cases v with
      | none => exact absurd rfl hv
      | empty => exact absurd h (hnoempty k)
      | leaf t => rfl
  have hscore0 : ∀ b', b' ∈ pre ++ post → score fields b' = 0 := by
    intro b' hb'
    unfold score
    rw [List.length_eq_zero_iff, List.filter_eq_nil_iff]
    intro m hm hg
    unfold given at hg
    cases hl : fields.lookup m.name with
    | none => rw [hl] at hg; cases hg
    | some v =>
      rw [hl] at hg
      have hv : v ≠ .none := by simpa using hg
      obtain ⟨h1, h2⟩ := hback m.name v hl hv
      exact hothers b' hb' ⟨m.name, v, List.mem_map.2 ⟨m, hm, rfl⟩, h1, h2⟩
  have hscoreb : score fields b > 0 := by
    obtain ⟨x, v, hx, hl, hv⟩ := hval
    obtain ⟨m, hm, rfl⟩ := List.mem_map.1 hx
    unfold score
    apply List.length_pos_of_mem (a := m)
    apply List.mem_filter.2
    refine ⟨hm, ?_⟩
    unfold given
    rw [hfield m.name v hl hv]
    cases v with
    | none => cases hv
    | empty => cases hv
    | leaf t => rfl
  constructor
  · unfold renderChoice
    rw [best_single fields pre b post (fun b' hb' => hscore0 b' (List.mem_append_left _ hb'))
      (fun b' hb' => hscore0 b' (List.mem_append_right _ hb')) hscoreb]
  · intro out hout
    constructor
    · intro k v hl hv hk
      obtain ⟨m, hm, rfl⟩ := List.mem_map.1 hk
      exact renderBranch_emits fields b out hout m hm v (hfield m.name v hl hv) (by cases v <;> simp_all [Val.has])
    · intro k v hm
      obtain ⟨h1, h2, h3⟩ := renderBranch_sound fields b out hout k v hm
      exact ⟨(hback k v h1 h2).1, h3⟩

/-! non-vacuity: the second of three branches (a sequence with an optional member) is chosen, the others spelt `None` / not mentioned -/
example : (match processKw [.elem "amount", .choice [["card"], ["iban", "bic"], ["voucher"]]] ["id"]
      [("amount", .leaf "5"), ("card", .none), ("iban", .leaf "NL")] with
    | .ok fields =>
      (match renderChoice fields [[⟨"card", false⟩], [⟨"iban", false⟩, ⟨"bic", true⟩], [⟨"voucher", false⟩]] false with
        | .ok out => out == [("iban", .leaf "NL")]
        | .error _ => false)
    | .error _ => false) = true := by decide

end Zeep.BindKw

namespace Zeep.BindKw

theorem seqKw_keys (kw : Kw) (items : List Item) (res : Kw) (avail : List String) (k : String) :
    k ∈ keys (seqKw kw items (res, avail)).1 → k ∈ keys res ∨ k ∈ allNames items := by
  induction items generalizing res avail with
  | nil => intro h; exact .inl h
  | cons it rest ih =>
    simp only [seqKw]
    intro h
    rcases ih _ _ h with h | h
    · split at h
      · exact .inl h
      · rcases keys_upd _ _ k h with h | h
        · exact .inl h
        · exact .inr (by simp only [allNames, List.flatMap_cons, List.mem_append]; exact .inl (itemKw_keys kw avail it k h))
    · exact .inr (by simp only [allNames, List.flatMap_cons, List.mem_append]; exact .inr (by simpa [allNames] using h))

theorem attrKw_keys (kw : Kw) (attrs : List String) (res : Kw) (avail : List String) (k : String) :
    k ∈ keys (attrKw kw attrs (res, avail)).1 → k ∈ keys res ∨ k ∈ attrs := by
  induction attrs generalizing res avail with
  | nil => intro h; exact .inl h
  | cons a rest ih =>
    by_cases hc : avail.contains a = true
    · cases hla : kw.lookup a with
      | none =>
        rw [attrKw_cons_out kw a rest res avail (.inr hla)]
        intro h; rcases ih _ _ h with h | h
        · exact .inl h
        · exact .inr (List.mem_cons_of_mem _ h)
      | some va =>
        rw [attrKw_cons_in kw a rest res avail va hc hla]
        intro h; rcases ih _ _ h with h | h
        · rcases keys_upd _ _ k h with h | h
          · exact .inl h
          · simp only [keys, List.map_cons, List.map_nil, List.mem_singleton] at h
            exact .inr (h ▸ List.mem_cons_self)
        · exact .inr (List.mem_cons_of_mem _ h)
    · have hc' : avail.contains a = false := by simpa using hc
      rw [attrKw_cons_out kw a rest res avail (.inl hc')]
      intro h; rcases ih _ _ h with h | h
      · exact .inl h
      · exact .inr (List.mem_cons_of_mem _ h)

/-- **C12, an accepted call binds declared names only**: every field of the value object built from an accepted keyword call is
a member or an attribute of the signature (nothing undeclared is smuggled in, e.g. through a default) -/
theorem c12_kw_fields_declared (items : List Item) (attrs : List String) (kw fields : Kw)
    (hok : processKw items attrs kw = .ok fields) (k : String) (hk : k ∈ keys fields) : k ∈ allNames items ++ attrs := by
  unfold processKw at hok
  simp only at hok
  split at hok
  · cases hok
    rcases attrKw_keys kw attrs _ _ k hk with h | h
    · rcases seqKw_keys kw items [] (keys kw) k h with h | h
      · exact absurd h (by simp [keys])
      · exact List.mem_append_left _ h
    · exact List.mem_append_right _ h
  · cases hok

end Zeep.BindKw
