import ZeepProofs.Lemmas.BindKw
/-
C12 — the keyword pass over signatures with non-repeating choices (`Choice.parse_kwargs`, direct use): the clauses
"an argument that names nothing in the signature" and "key of the other choice branch", for every signature (any number
of members, choices with any number of branches, anywhere in the sequence), every call and every spelling of the branches
that are not used (not mentioned / `None` / empty collection); plus the two converses that make the refusal exact.
-/
namespace Zeep.BindKw
/-- **C12, "key of the other choice branch"**: a call that gives values for two branches of one non-repeating
choice is refused with a TypeError, however the other branches are spelt (not mentioned, `None`, empty) and
wherever the choice stands in the signature. -/
theorem c12_two_choice_branches_refused (items : List Item) (attrs : List String) (kw : Kw) (bs : List String)
    (x y : String) (vx vy : Val)
    (hnd : (allNames items ++ attrs).Nodup) (hc : Item.choice bs ∈ items)
    (hxy : x ≠ y) (hxm : x ∈ bs) (hym : y ∈ bs)
    (hlx : kw.lookup x = some vx) (hvx : vx.has = true) (hly : kw.lookup y = some vy) (hvy : vy.has = true) :
    ∃ k, processKw items attrs kw = .error (.unexpectedKeyword k) := by
  have hnd' := List.nodup_append.1 hnd
  have hk : ∀ z v, kw.lookup z = some v → z ∈ keys kw := by
    intro z v h
    obtain ⟨l₁, l₂, heq, _⟩ := List.lookup_eq_some_iff.1 h
    exact List.mem_map.2 ⟨(z, v), by rw [heq]; simp, rfl⟩
  have hin : ∀ z, z ∈ bs → z ∈ allNames items := fun z hz => List.mem_flatMap.2 ⟨_, hc, hz⟩
  have hnota : ∀ z, z ∈ bs → z ∉ attrs := fun z hz hz' => hnd'.2.2 z (hin z hz) z hz' rfl
  rcases seqKw_two_valued kw items [] (keys kw) bs x y vx vy hnd'.1 hc hxy hxm hym hlx hvx hly hvy
      (hk x vx hlx) (hk y vy hly) with h | h
  · exact processKw_error_of_left items attrs kw x ((attrKw_other kw attrs _ _ x (hnota x hxm)).2 h)
  · exact processKw_error_of_left items attrs kw y ((attrKw_other kw attrs _ _ y (hnota y hym)).2 h)

/-- **C12, unknown keyword**: a keyword that names nothing in the signature is refused, whatever else is passed -/
theorem c12_kw_unknown_refused (items : List Item) (attrs : List String) (kw : Kw) (k : String)
    (hk : k ∈ keys kw) (hu : k ∉ allNames items ++ attrs) :
    ∃ k', processKw items attrs kw = .error (.unexpectedKeyword k') := by
  simp only [List.mem_append, not_or] at hu
  exact processKw_error_of_left items attrs kw k
    ((attrKw_other kw attrs _ _ k hu.2).2 ((seqKw_other kw items _ _ k hu.1).2 hk))

/-- **C12, nothing supplied is silently ignored**: when the keyword pass accepts a call, every keyword whose value counts as
given is bound, with the caller's value, in the fields the value object is built from. -/
theorem c12_kw_accepted_keeps_values (items : List Item) (attrs : List String) (kw res : Kw)
    (hnd : (allNames items).Nodup) (hok : processKw items attrs kw = .ok res)
    (k : String) (v : Val) (hl : kw.lookup k = some v) (hv : v.has = true) : (k, v) ∈ res := by
  unfold processKw at hok
  simp only at hok
  split at hok
  · rename_i hnil
    cases hok
    have hk : k ∈ keys kw := by
      obtain ⟨l₁, l₂, heq, _⟩ := List.lookup_eq_some_iff.1 hl
      exact List.mem_map.2 ⟨(k, v), by rw [heq]; simp, rfl⟩
    apply attrKw_kept kw attrs _ _ k v hl
    by_cases hs : k ∈ (seqKw kw items ([], keys kw)).2
    · right
      have : attrKw kw attrs (seqKw kw items ([], keys kw)) =
          attrKw kw attrs ((seqKw kw items ([], keys kw)).1, (seqKw kw items ([], keys kw)).2) := rfl
      rw [this] at hnil
      exact ⟨hs, by rw [hnil]; simp⟩
    · left
      exact seqKw_kept kw items [] (keys kw) hnd (by simp [keys]) k v hl hv (.inr ⟨hk, hs⟩)
  · cases hok

/-- **C12, a conforming keyword call is accepted**: every key names a member or an attribute and no choice is given
values for two branches (whatever is passed as `None` / empty for the others) -/
theorem c12_kw_conforming_accepted (items : List Item) (attrs : List String) (kw : Kw)
    (hkeys : (keys kw).Nodup) (hdecl : ∀ k, k ∈ keys kw → k ∈ allNames items ++ attrs)
    (hone : ∀ bs, Item.choice bs ∈ items → ∀ x y vx vy, x ∈ bs → y ∈ bs → kw.lookup x = some vx → vx.has = true →
      kw.lookup y = some vy → vy.has = true → x = y) :
    ∃ res, processKw items attrs kw = .ok res := by
  have h0 : AOk kw (keys kw) := ⟨hkeys, fun _ hx => hx⟩
  obtain ⟨h1, h2⟩ := seqKw_ok kw items [] (keys kw) h0 hone
  have hpair : attrKw kw attrs (seqKw kw items ([], keys kw)) =
      attrKw kw attrs ((seqKw kw items ([], keys kw)).1, (seqKw kw items ([], keys kw)).2) := rfl
  obtain ⟨h3, h4⟩ := attrKw_ok kw attrs (seqKw kw items ([], keys kw)).1 _ h1
  have hempty : (attrKw kw attrs (seqKw kw items ([], keys kw))).2 = [] := by
    rw [hpair]
    apply List.eq_nil_iff_forall_not_mem.2
    intro k hk
    have hk1 := h3 k hk
    have hk0 : k ∈ keys kw := seqKw_sub kw items [] (keys kw) k hk1
    rcases List.mem_append.1 (hdecl k hk0) with hd | hd
    · exact h2 k hd hk1
    · exact h4 k hd hk
  unfold processKw
  simp only [hempty]
  exact ⟨_, rfl⟩

/-! non-vacuity: the hypotheses of the theorems are met by concrete calls of a three-branch choice -/
example : (match processKw [.elem "amount", .choice ["card", "iban", "voucher"]] ["id"]
    [("amount", .leaf "5"), ("card", .leaf "4111"), ("iban", .leaf "NL"), ("voucher", .none)] with
    | .error (.unexpectedKeyword k) => k == "iban" | .ok _ => false) = true := by decide
example : (match processKw [.elem "amount", .choice ["card", "iban", "voucher"]] ["id"]
    [("amount", .leaf "5"), ("card", .none), ("iban", .leaf "NL"), ("voucher", .none), ("id", .leaf "7")] with
    | .ok r => r == [("amount", .leaf "5"), ("card", .none), ("iban", .leaf "NL"), ("voucher", .none), ("id", .leaf "7")]
    | .error _ => false) = true := by decide

end Zeep.BindKw
