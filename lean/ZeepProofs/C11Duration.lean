import ZeepModel.Lex.Duration
import ZeepProofs.C11DateTime
/-!
# C11 — `xsd:duration` for `timedelta` values: what is written reads back equal

For every timedelta (its total number of microseconds, any sign): `parse_duration(duration_isoformat(td)) = td`; plus the
lexical variants of one duration (`P1DT2H` / `PT26H`, weeks, zero components, a fraction with trailing zeros).
-/
namespace Zeep.Duration
open Zeep.Digits Zeep.GTypes Zeep.DateTime

theorem readAcc0_digits (n : Nat) : readAcc 0 (digits n) = some n := by
  rw [readAcc_digits]; simp

/-- nothing in front that the component parser for `des` could take: the input is empty, or its leading digits are followed by
another, non-digit character -/
def NoLead (des : Char) (s : List Char) : Prop :=
  s = [] ∨ ∃ ds c r, s = ds ++ c :: r ∧ (∀ x ∈ ds, isDigit x = true) ∧ isDigit c = false ∧ c ≠ des

theorem takeComp_miss (des : Char) (s : List Char) (h : NoLead des s) : takeComp des s = some (0, s) := by
  rcases h with rfl | ⟨ds, c, r, rfl, hds, hc, hne⟩
  · rfl
  · have hspan : spanDigits (ds ++ c :: r) = (ds, c :: r) :=
      spanDigits_append ds (c :: r) hds (fun x hx => by simp at hx; subst hx; exact hc)
    simp [takeComp, hspan, hne]

theorem takeComp_hit (des : Char) (hdes : isDigit des = false) (n : Nat) (r : List Char) :
    takeComp des (digits n ++ des :: r) = some (n, r) := by
  have hspan : spanDigits (digits n ++ des :: r) = (digits n, des :: r) :=
    spanDigits_append (digits n) (des :: r) (digits_all_digit n) (fun x hx => by simp at hx; subst hx; exact hdes)
  simp [takeComp, hspan, digits_ne_nil, readAcc0_digits]

theorem noLead_comp (des des' : Char) (hd : isDigit des' = false) (hne : des' ≠ des) (n : Nat) (rest : List Char)
    (hrest : NoLead des rest) : NoLead des (comp n des' ++ rest) := by
  unfold comp
  split
  · simpa using hrest
  · right
    exact ⟨digits n, des', rest, by simp, digits_all_digit n, hd, hne⟩

theorem takeComp_comp (des : Char) (hdes : isDigit des = false) (n : Nat) (rest : List Char) (hrest : NoLead des rest) :
    takeComp des (comp n des ++ rest) = some (n, rest) := by
  unfold comp
  split
  · rename_i h0; subst h0; simpa using takeComp_miss des rest hrest
  · simpa using takeComp_hit des hdes n rest

/-! ### `.rstrip("0")` -/

theorem rstrip_decomp (l : List Char) : ∃ k, l = rstripZeros l ++ List.replicate k '0' := by
  refine ⟨(l.reverse.takeWhile (· == '0')).length, ?_⟩
  have h1 : l.reverse = l.reverse.takeWhile (· == '0') ++ l.reverse.dropWhile (· == '0') :=
    (List.takeWhile_append_dropWhile (p := (· == '0')) (l := l.reverse)).symm
  have h2 : l.reverse.takeWhile (· == '0') = List.replicate (l.reverse.takeWhile (· == '0')).length '0' := by
    apply List.eq_replicate_iff.2
    refine ⟨rfl, fun b hb => ?_⟩
    have hall : (l.reverse.takeWhile (· == '0')).all (· == '0') = true := List.all_takeWhile
    have := List.all_eq_true.1 hall b hb
    simpa using this
  have h3 : l = (l.reverse.dropWhile (· == '0')).reverse ++ (l.reverse.takeWhile (· == '0')).reverse := by
    have := congrArg List.reverse h1
    rw [List.reverse_reverse, List.reverse_append] at this
    exact this
  unfold rstripZeros
  rw [h2] at h3
  simpa using h3

theorem rstrip_six (us : Nat) (hus : 0 < us) (hu : us < 1000000) :
    rstripZeros (six us) ≠ [] ∧ (rstripZeros (six us)).length ≤ 6 ∧ (∀ c ∈ rstripZeros (six us), isDigit c = true) ∧
    rstripZeros (six us) ++ List.replicate (6 - (rstripZeros (six us)).length) '0' = six us := by
  obtain ⟨k, hk⟩ := rstrip_decomp (six us)
  have hlen : (six us).length = 6 := by simp [six]
  have hlen2 : (rstripZeros (six us)).length + k = 6 := by
    have := congrArg List.length hk
    simp only [List.length_append, List.length_replicate] at this
    omega
  have hk6 : 6 - (rstripZeros (six us)).length = k := by omega
  refine ⟨?_, by omega, ?_, by rw [hk6]; exact hk.symm⟩
  · intro hnil
    rw [hnil] at hk
    have hread : readAcc 0 (six us) = some us := by
      have := fracMicro_six us hu
      simpa [fracMicro, hlen, six] using this
    rw [hk] at hread
    simp only [List.nil_append] at hread
    have hz := readAcc_zeros k []
    simp only [List.append_nil] at hz
    rw [hz] at hread
    simp [readAcc] at hread
    omega
  · intro c hc
    apply six_all_digit us c
    rw [hk]; exact List.mem_append_left _ hc

/-! ### the seconds -/

theorem takeSec_secPart (se us : Nat) (hu : us < 1000000) : takeSec (secPart se us) = some (se, us, []) := by
  unfold secPart
  by_cases h0 : se = 0 ∧ us = 0
  · obtain ⟨rfl, rfl⟩ := h0; simp [takeSec, spanDigits]
  · simp only [h0, if_false]
    by_cases hus : us = 0
    · subst hus
      have hspan : spanDigits (digits se ++ ['S']) = (digits se, ['S']) :=
        spanDigits_append (digits se) ['S'] (digits_all_digit se) (fun x hx => by simp at hx; subst hx; decide)
      simp [takeSec, hspan, digits_ne_nil, readAcc0_digits]
    · simp only [hus, if_false]
      obtain ⟨hne, hlen, hall, hpad⟩ := rstrip_six us (by omega) hu
      have hspan1 : spanDigits (digits se ++ '.' :: (rstripZeros (six us) ++ ['S'])) = (digits se, '.' :: (rstripZeros (six us) ++ ['S'])) :=
        spanDigits_append (digits se) _ (digits_all_digit se) (fun x hx => by simp at hx; subst hx; decide)
      have hspan2 : spanDigits (rstripZeros (six us) ++ ['S']) = (rstripZeros (six us), ['S']) :=
        spanDigits_append _ ['S'] hall (fun x hx => by simp at hx; subst hx; decide)
      have hread : readAcc 0 (rstripZeros (six us) ++ List.replicate (6 - (rstripZeros (six us)).length) '0') = some us := by
        rw [hpad]
        have := fracMicro_six us hu
        simpa [fracMicro, six] using this
      have hlen' : ¬ (rstripZeros (six us)).length > 6 := by omega
      simp only [List.append_assoc, List.cons_append, List.nil_append, takeSec, hspan1, hspan2]
      simp [digits_ne_nil, hne, hlen', readAcc0_digits, hread]

theorem noLead_secPart (des : Char) (h1 : des ≠ 'S') (h2 : des ≠ '.') (se us : Nat) : NoLead des (secPart se us) := by
  unfold secPart
  split
  · exact .inl rfl
  · right
    split
    · exact ⟨digits se, 'S', [], by simp, digits_all_digit se, by decide, fun e => h1 e.symm⟩
    · exact ⟨digits se, '.', rstripZeros (six us) ++ ['S'], by simp, digits_all_digit se, by decide, fun e => h2 e.symm⟩

/-- the time components read back -/
theorem timeComps_timeBody (h mi se us : Nat) (hu : us < 1000000) : timeComps (timeBody h mi se us) = some (h, mi, se, us) := by
  unfold timeComps timeBody
  have hH := takeComp_comp 'H' (by decide) h (comp mi 'M' ++ secPart se us)
    (noLead_comp 'H' 'M' (by decide) (by decide) mi _ (noLead_secPart 'H' (by decide) (by decide) se us))
  have hM := takeComp_comp 'M' (by decide) mi (secPart se us) (noLead_secPart 'M' (by decide) (by decide) se us)
  simp [hH, hM, takeSec_secPart se us hu]

theorem noLead_T (des : Char) (hne : des ≠ 'T') (t : List Char) (ht : t = [] ∨ ∃ r, t = 'T' :: r) : NoLead des t := by
  rcases ht with rfl | ⟨r, rfl⟩
  · exact .inl rfl
  · exact .inr ⟨[], 'T', r, rfl, by simp, by decide, fun e => hne e.symm⟩

/-- the date components read back: no years, months or weeks, the days, then the time part -/
theorem dateComps_body (d : Nat) (t : List Char) (ht : t = [] ∨ ∃ r, t = 'T' :: r) :
    dateComps (comp d 'D' ++ t) = some (0, 0, 0, d, t) := by
  unfold dateComps
  have hY := takeComp_miss 'Y' _ (noLead_comp 'Y' 'D' (by decide) (by decide) d t (noLead_T 'Y' (by decide) t ht))
  have hM := takeComp_miss 'M' _ (noLead_comp 'M' 'D' (by decide) (by decide) d t (noLead_T 'M' (by decide) t ht))
  have hW := takeComp_miss 'W' _ (noLead_comp 'W' 'D' (by decide) (by decide) d t (noLead_T 'W' (by decide) t ht))
  have hD := takeComp_comp 'D' (by decide) d t (noLead_T 'D' (by decide) t ht)
  simp [hY, hM, hW, hD]

theorem timePart_shape (h mi se us : Nat) : timePart h mi se us = [] ∨ ∃ r, timePart h mi se us = 'T' :: r := by
  unfold timePart
  split
  · exact .inl rfl
  · exact .inr ⟨_, rfl⟩

theorem decDur_P (r : List Char) : decDur ('P' :: r) = (decAbs ('P' :: r)).map fun a => (a : Int) := rfl
theorem decDur_minus (r : List Char) : decDur ('-' :: r) = (decAbs r).map fun a => -(a : Int) := rfl

/-- the unsigned part reads back -/
theorem decAbs_encAbs (a : Nat) : decAbs (encAbs a) = some a := by
  by_cases hz : a / 1000000 / 3600 % 24 = 0 ∧ a / 1000000 / 60 % 60 = 0 ∧ a / 1000000 % 60 = 0 ∧ a % 1000000 = 0
  · -- no time part
    have htp : timePart (a / 1000000 / 3600 % 24) (a / 1000000 / 60 % 60) (a / 1000000 % 60) (a % 1000000) = [] := by
      unfold timePart; simp [hz]
    by_cases hd : a / 1000000 / 86400 = 0
    · have ha : a = 0 := by omega
      subst ha
      decide
    · have hbody : comp (a / 1000000 / 86400) 'D' ≠ [] := by unfold comp; simp [hd, digits_ne_nil]
      have hdc := dateComps_body (a / 1000000 / 86400) [] (.inl rfl)
      simp only [List.append_nil] at hdc
      unfold encAbs
      simp only [htp, List.append_nil, hbody, if_false]
      unfold decAbs
      simp only [hbody, if_false, hdc]
      simp only [ne_eq, not_true_eq_false, or_self, if_false]
      congr 1
      omega
  · have htp : timePart (a / 1000000 / 3600 % 24) (a / 1000000 / 60 % 60) (a / 1000000 % 60) (a % 1000000) =
        'T' :: timeBody (a / 1000000 / 3600 % 24) (a / 1000000 / 60 % 60) (a / 1000000 % 60) (a % 1000000) := by
      unfold timePart; simp [hz]
    have hbody : comp (a / 1000000 / 86400) 'D' ++ 'T' :: timeBody (a / 1000000 / 3600 % 24) (a / 1000000 / 60 % 60) (a / 1000000 % 60) (a % 1000000) ≠ [] := by
      simp
    have hdc := dateComps_body (a / 1000000 / 86400) ('T' :: timeBody (a / 1000000 / 3600 % 24) (a / 1000000 / 60 % 60) (a / 1000000 % 60) (a % 1000000))
      (.inr ⟨_, rfl⟩)
    unfold encAbs
    simp only [htp, hbody, if_false]
    unfold decAbs
    simp only [hbody, if_false, hdc]
    simp only [ne_eq, not_true_eq_false, or_self, if_false, timeComps_timeBody _ _ _ _ (Nat.mod_lt _ (by decide)), Option.map_some]
    congr 1
    omega

theorem encAbs_P (a : Nat) : ∃ r, encAbs a = 'P' :: r := ⟨_, rfl⟩

/-- **duration round trip**: every timedelta (total microseconds, any sign) -/
theorem duration_rt (u : Int) : decDur (encDur u) = some u := by
  unfold encDur
  by_cases hneg : u < 0
  · have hu : -(u.natAbs : Int) = u := by omega
    simp only [hneg, if_true, List.cons_append, List.nil_append, decDur_minus, decAbs_encAbs]
    exact congrArg some hu
  · have hu : (u.natAbs : Int) = u := by omega
    obtain ⟨r, hr⟩ := encAbs_P u.natAbs
    have hd := decAbs_encAbs u.natAbs
    rw [hr] at hd
    simp only [hneg, if_false, List.nil_append, hr, decDur_P, hd]
    exact congrArg some hu

/-- lexical variants of one duration, and spellings that are not read as a timedelta -/
theorem duration_variants :
    decDur "P1DT2H3M4.5S".toList = some 93784500000 ∧ decDur "PT26H3M4.500S".toList = some 93784500000 ∧
    decDur "P0Y0M1DT2H3M4.5S".toList = some 93784500000 ∧ decDur "-P1D".toList = some (-86400000000) ∧
    decDur "P2W".toList = some 1209600000000 ∧ decDur "PT0S".toList = some 0 ∧ decDur "P0D".toList = some 0 ∧
    decDur "P".toList = none ∧ decDur "P1Y".toList = none ∧ decDur "PT1.S".toList = none ∧ decDur "1D".toList = none := by decide

end Zeep.Duration
