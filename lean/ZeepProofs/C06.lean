import ZeepModel.Soap.Reply
/-!
# C06 — faults and HTTP errors are never reported as success; Fault fields are faithful
-/
namespace Zeep.Soap

/-- **Success only for 200 without Fault.**  The reply is handed to the decoder only when the
status is 200, the body parsed, and its Body carries no Fault of the binding's SOAP version. -/
theorem c06_success_only (v : Version) (st : Nat) (b : Body) (root : Node)
    (h : triage v st b = .decode root) :
    st = 200 ∧ ∃ dns, b = .tree root dns ∧ faultNode v root = none := by
  cases b with
  | empty => simp only [triage] at h; split at h <;> (try split at h) <;> cases h
  | unparsable => simp [triage] at h
  | tree r dns =>
    simp only [triage] at h
    split at h
    · simp only [processError] at h
      split at h
      · cases h
      · cases v <;> simp only at h
        · cases h
        · split at h <;> cases h
    · rename_i hc
      simp only [not_or, Decidable.not_not] at hc
      cases h
      refine ⟨hc.1, dns, rfl, ?_⟩
      cases hf : faultNode v root with
      | none => rfl
      | some f => simp [hf] at hc

/-- `None` is returned only for an empty 201 / 202 -/
theorem c06_none_only (v : Version) (st : Nat) (b : Body) (h : triage v st b = .returnNone) :
    (st = 201 ∨ st = 202) ∧ b = .empty := by
  cases b with
  | empty =>
    simp only [triage] at h
    split at h
    · rename_i hs; exact ⟨hs, rfl⟩
    · split at h <;> cases h
  | unparsable => simp [triage] at h
  | tree r dns =>
    simp only [triage] at h
    split at h
    · simp only [processError] at h
      split at h
      · cases h
      · cases v <;> simp only at h
        · cases h
        · split at h <;> cases h
    · cases h

/-- **Every reply carrying a Fault raises it, whatever the status** (SOAP 1.1) -/
theorem c06_fault_raised_11 (st : Nat) (root f : Node) (dns : Option String)
    (hf : faultNode .v11 root = some f) :
    triage .v11 st (.tree root dns) = .fault (fields11 f dns) := by
  simp [triage, hf, processError]

/-- (SOAP 1.2; a Subcode without its mandatory Value is reported as malformed, never as success) -/
theorem c06_fault_raised_12 (st : Nat) (root f : Node) (dns : Option String)
    (hf : faultNode .v12 root = some f) :
    triage .v12 st (.tree root dns) =
      match fields12 f with
      | some fi => .fault fi
      | none => .malformedFault := by
  simp only [triage, hf, Option.isSome_some, or_true, if_true, processError]
  cases fields12 f <;> rfl

/-- a Fault of the *other* SOAP version is not a Fault for this binding: with status 200 the
reply is decoded as a payload, with any other status it is an error -/
theorem c06_other_version_fault (v : Version) (st : Nat) (root : Node) (dns : Option String)
    (hf : faultNode v root = none) :
    triage v st (.tree root dns) = if st ≠ 200 then .unknownFault else .decode root := by
  simp only [triage, hf, Option.isSome_none, Bool.false_eq_true, or_false, processError]

/-- **Fault fields are the values in the reply tree** (1.1): message / code / actor are the texts
of the first faultstring / faultcode / faultactor child, detail is the first detail child itself -/
theorem c06_fields_11 (f : Node) (dns : Option String) :
    (fields11 f dns).message = (f.find ⟨dns, "faultstring"⟩).bind (·.text) ∧
    (fields11 f dns).code = (f.find ⟨dns, "faultcode"⟩).bind (·.text) ∧
    (fields11 f dns).actor = (f.find ⟨dns, "faultactor"⟩).bind (·.text) ∧
    (fields11 f dns).detail = f.find ⟨dns, "detail"⟩ := ⟨rfl, rfl, rfl, rfl⟩

/-- (1.2): Reason/Text, Code/Value, the Detail child, and the subcode chain in nesting order -/
theorem c06_fields_12 (f : Node) (fi : FaultInfo) (h : fields12 f = some fi) :
    fi.message = f.findtext2 (env .v12 "Reason") (env .v12 "Text") ∧
    fi.code = f.findtext2 (env .v12 "Code") (env .v12 "Value") ∧
    fi.detail = f.find (env .v12 "Detail") ∧ fi.actor = none := by
  simp only [fields12, Option.map_eq_some_iff] at h
  obtain ⟨l, _, rfl⟩ := h
  exact ⟨rfl, rfl, rfl, rfl⟩

/-- subcodes: one entry per nesting level, outermost first -/
theorem c06_subcodes_chain (fuel : Nat) (sc val inner : Node) (rest : List String)
    (hv : sc.find (env .v12 "Value") = some val) (hi : sc.find (env .v12 "Subcode") = some inner)
    (hr : subcodes12 fuel inner = some rest) :
    subcodes12 (fuel + 1) sc = some (val.text.getD "" :: rest) := by
  simp [subcodes12, hv, hi, hr]

/-- **Other errors carry the HTTP status** — proved for empty and unparsable bodies.
`…_partial`: what is missing is the cell "non-200 status, well-formed body without Fault", where
the code raises `Fault("Unknown fault occured")` without the status (known finding K3, see
`c06_unknown_fault_counterexample`). -/
theorem c06_other_errors_carry_status_partial (v : Version) (st : Nat) (b : Body)
    (hb : b = .empty ∨ b = .unparsable) (h : ¬ ((st = 201 ∨ st = 202) ∧ b = .empty)) :
    triage v st b = .transportError st := by
  rcases hb with rfl | rfl
  · simp only [triage]
    split
    · rename_i hs; exact absurd ⟨hs, rfl⟩ h
    · split <;> rfl
  · rfl

/-- K3: the full statement fails at this cell, on the model as on the code -/
theorem c06_unknown_fault_counterexample :
    (match triage .v11 500 (.tree (.mk (env .v11 "Envelope") [] none [.mk (env .v11 "Body") [] none []]) none) with
      | .unknownFault => true
      | _ => false) = true := by decide

/-- in no case does an error status reach the decoder -/
theorem c06_error_status_never_success (v : Version) (st : Nat) (b : Body) (root : Node)
    (hst : st ≠ 200) : triage v st b ≠ .decode root :=
  fun h => hst (c06_success_only v st b root h).1

/-! non-vacuity -/
example :
    let fault : Node := .mk (env .v11 "Fault") [] none
      [.mk ⟨none, "faultcode"⟩ [] (some "soap:Server") [], .mk ⟨none, "faultstring"⟩ [] (some "boom") []]
    let root : Node := .mk (env .v11 "Envelope") [] none [.mk (env .v11 "Body") [] none [fault]]
    (match triage .v11 200 (.tree root none) with
      | .fault fi => (fi.message, fi.code, fi.actor)
      | _ => (none, none, none)) = (some "boom", some "soap:Server", none) := by decide

end Zeep.Soap
