import ZeepProofs.C06
import Generated.SoapFlow
/-! Obligations tying the model to the flow / constants regenerated from src/zeep/wsdl/bindings/soap.py on every run. -/
namespace Zeep.Soap

/-! ### the status constants are the source's (re-checked against the regenerated table on every run) -/

theorem triage_empty_ok (v : Version) (st : Nat) : triage v st .empty = .returnNone ↔ st ∈ emptyOkStatuses := by
  simp only [triage, emptyOkStatuses, List.mem_cons, List.mem_nil_iff, or_false]
  constructor
  · intro h
    split at h
    · assumption
    · split at h <;> cases h
  · intro h; simp [h]

/-- `process_reply` compares the status with exactly the constants of the model: `in (201, 202)` for the
empty reply, `!= 200` everywhere else, and with nothing else -/
theorem c06_status_constants_match_source :
    Generated.replyStatusIn = emptyOkStatuses ∧ Generated.replyStatusNotEq.all (· == okStatus) = true ∧
    Generated.replyStatusNotEq ≠ [] ∧ Generated.replyStatusEq = [] ∧ Generated.replyStatusOtherOps = [] := by decide

end Zeep.Soap
