import ZeepModel.Lex.Simple
import Generated.SchemaAttrs
/-!
# C12 / C01 / C03 — the xsd:boolean attributes the schema compiler and the decoder act on are read by the xsd:boolean rules

`Generated/SchemaAttrs.lean` is regenerated on every run from the source text: the literal spellings `SchemaVisitor.visit_element`
accepts for `nillable`, and `ComplexType.parse_xmlelement` / `AnyType.parse_xmlelement` for `xsi:nil` (`none` when the test is not a
literal comparison any more).  The obligations below are re-proved by `decide` against what the code says now: over the four lexical
forms of xsd:boolean the code's reading is the one of `Lex.decBool` (the model of `Boolean.pythonvalue`, proved against the lexical
space in `C11.lean`).  Whether a required member may be left out (C12), whether `None` survives the round trip (C01) and whether a valid
nilled element decodes to `None` (C03) all hang on this reading.
-/
namespace Zeep.SchemaAttrs
open Zeep.Simple

/-- the four lexical forms of xsd:boolean (white space aside) -/
def booleanForms : List String := ["true", "false", "1", "0"]

/-- how a site reads each of the four forms -/
def reading (site : Option (List String)) : Option (List Bool) := site.map fun sp => booleanForms.map fun s => sp.contains s

/-- the xsd:boolean reading -/
def xsdReading : List Bool := booleanForms.map fun s => decBool s.toList

/-- `nillable="…"` on an element declaration: `true` and `1` say nillable, `false` and `0` (and absence) say not -/
theorem c12_nillable_read_as_xsd_boolean : reading Generated.nillableTrue = some xsdReading := by decide

/-- `xsi:nil="…"` on an element of a complex type -/
theorem c03_complex_nil_read_as_xsd_boolean : reading Generated.complexNilTrue = some xsdReading := by decide

/-- `xsi:nil="…"` on an element of `xsd:anyType`: the site tests for `true` only (an empty element reads `None` there anyway - checked
by the tie); what the obligation pins is that no *false* spelling is ever read as nil -/
theorem c03_any_nil_never_reads_false_as_nil :
    (Generated.anyNilTrue.map fun sp => sp.all fun s => decBool s.toList) = some true := by decide

end Zeep.SchemaAttrs
