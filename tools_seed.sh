#!/bin/bash
# usage: tools_seed.sh <PROP> <dir with patch.diff demo.py notes.md> <seed-id> [tier]
# Confirms a seeded change in a scratch worktree (suite passes, demo fails with / passes without),
# then applies it to /repo, runs ./check PROP, reverts, and records everything under seeded/<id>/.
set -u
PROP=$1; SRC=$2; ID=$3; TIER=${4:-quick}
V=/verif; W=/tmp/scratch_seed_$$
OUT=$V/seeded/$ID; mkdir -p $OUT
cp $SRC/patch.diff $SRC/demo.py $OUT/ 2>/dev/null; cp $SRC/notes.md $OUT/ 2>/dev/null
git -C /repo worktree add --detach $W HEAD -q || exit 3
cd $W
PYTHONPATH=$W/src /venv/bin/python $OUT/demo.py > $OUT/demo_clean.log 2>&1; DC=$?
git apply $OUT/patch.diff || { echo "PATCH DOES NOT APPLY"; git -C /repo worktree remove --force $W; exit 3; }
SUITE=$(PYTHONPATH=$W/src /venv/bin/python -m pytest -q -p no:cacheprovider --ignore=tests/test_async_client.py --ignore=tests/test_async_transport.py 2>&1 | tail -1)
PYTHONPATH=$W/src /venv/bin/python $OUT/demo.py > $OUT/demo_mutated.log 2>&1; DM=$?
cd /; git -C /repo worktree remove --force $W
echo "suite: $SUITE | demo clean rc=$DC | demo mutated rc=$DM"
# now the check against /repo with the change applied
git -C /repo apply $OUT/patch.diff || { echo "cannot apply to /repo"; exit 3; }
cd $V; ./check $PROP --tier $TIER > $OUT/check.log 2>&1; RC=$?
git -C /repo checkout -- . ; git -C /repo status --short | head -3
VLINE=$(grep -a "^VIOLATION" $OUT/check.log | head -1)
SUMMARY=$(grep -a "^$PROP:" $OUT/check.log | tail -1)
grep -av "^Exception ignored\|^Traceback\|^  File\|^    \|Error:" $OUT/check.log | tail -3 > $OUT/check_tail.log; rm -f $OUT/check.log
[ -n "$VLINE" ] && [ -f "$V/$(echo $VLINE | sed 's/.*replay=\([^ ]*\).*/\1/')" ] && cp "$V/$(echo $VLINE | sed 's/.*replay=\([^ ]*\).*/\1/')" $OUT/replay.json
/venv/bin/python - "$OUT" "$PROP" "$ID" "$SUITE" "$DC" "$DM" "$RC" "$VLINE" "$SUMMARY" "$TIER" <<'PY'
import json, sys, os
out, prop, sid, suite, dc, dm, rc, vline, summary, tier = sys.argv[1:]
notes = open(os.path.join(out, "notes.md")).read() if os.path.exists(os.path.join(out, "notes.md")) else ""
meta = dict(id=sid, breaks_property=prop, needs_to_manifest=notes.strip(),
            confirmed=dict(suite_with_change=suite, demo_rc_clean_tree=int(dc), demo_rc_with_change=int(dm)),
            ran=[f"./check {prop} --tier {tier}  (change applied to /repo with git apply, reverted afterwards)"],
            check_exit=int(rc), violation_line=vline, check_summary=summary,
            detected=bool(vline) and int(rc) == 1)
json.dump(meta, open(os.path.join(out, "meta.json"), "w"), indent=1)
print("detected" if meta["detected"] else "MISSED", "|", vline, "|", summary)
PY
# leave lean/Generated as regenerated from the clean tree
/venv/bin/python -c "import sys; sys.path.insert(0,'/verif'); sys.dont_write_bytecode=True; from harness.core import regenerate; regenerate()" >/dev/null
