#!/bin/bash
# usage: tools_reseed.sh <seed-id> [tier]   -- re-run the property's check against an already recorded seeded change
# (after the check was strengthened); keeps the first-run verdict in meta.json as first_run.
set -u
ID=$1; TIER=${2:-quick}; V=/verif; OUT=$V/seeded/$ID
PROP=$(python3 -c "import json;print(json.load(open('$OUT/meta.json'))['breaks_property'])")
git -C /repo apply $OUT/patch.diff || { echo "cannot apply $ID to /repo"; exit 3; }
cd $V; ./check $PROP --tier $TIER > $OUT/check.log 2>&1; RC=$?
git -C /repo checkout -- . ; git -C /repo status --short | head -3
VLINE=$(grep -a "^VIOLATION" $OUT/check.log | head -1)
SUMMARY=$(grep -a "^$PROP:" $OUT/check.log | tail -1)
grep -av "^Exception ignored\|^Traceback\|^  File\|^    \|Error:" $OUT/check.log | tail -3 > $OUT/check_tail.log; rm -f $OUT/check.log
[ -n "$VLINE" ] && [ -f "$V/$(echo $VLINE | sed 's/.*replay=\([^ ]*\).*/\1/')" ] && cp "$V/$(echo $VLINE | sed 's/.*replay=\([^ ]*\).*/\1/')" $OUT/replay.json
/venv/bin/python - "$OUT" "$RC" "$VLINE" "$SUMMARY" "$TIER" "$PROP" <<'PY'
import json, sys, os
out, rc, vline, summary, tier, prop = sys.argv[1:]
p = os.path.join(out, "meta.json")
m = json.load(open(p))
if "first_run" not in m:
    m["first_run"] = dict(detected=m.get("detected"), check_summary=m.get("check_summary"))
m.update(check_exit=int(rc), violation_line=vline, check_summary=summary, detected=bool(vline) and int(rc) == 1)
m["ran"] = [f"./check {prop} --tier {tier}  (change applied to /repo with git apply, reverted afterwards)"]
json.dump(m, open(p, "w"), indent=1)
print(os.path.basename(out), "detected" if m["detected"] else "MISSED", "|", vline, "|", summary)
PY
/venv/bin/python -c "import sys; sys.path.insert(0,'/verif'); sys.dont_write_bytecode=True; from harness.core import regenerate; regenerate()" >/dev/null
