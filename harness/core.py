"""Shared machinery of the zeep verification checks.

One check run (see DESIGN.md section 2):
  regenerate Generated/*.lean from /repo  ->  lake build + axiom audit of the property theorems
  ->  correspondence (model vs implementation on the same inputs) + direct oracle on the
  implementation  ->  known findings  ->  verdict + evidence.
"""
import hashlib
import importlib
import json
import os
import random
import re
import subprocess
import sys
import time
import traceback
from pathlib import Path

VERIF = Path(__file__).resolve().parent.parent
LEAN = VERIF / "lean"
REPO = Path(os.environ.get("ZEEP_REPO", "/repo"))
ALLOWED_AXIOMS = {"propext", "Classical.choice", "Quot.sound"}
FORBIDDEN = re.compile(
    r"\bsorry\b|\badmit\b|^axiom |\bnative_decide\b|\bbv_decide\b|implemented_by|\bunsafe |maxHeartbeats 0"
)
TRUSTED_BASE = [
    "Lean 4.33.0 kernel",
    "axioms allowed: propext, Classical.choice, Quot.sound (audited with #print axioms each run)",
    "translators harness/translators/*.py (regenerate lean/Generated/*.lean from /repo)",
    "correspondence harness (generators, canonicalisation) presenting the same input to model and zeep",
]


class HarnessError(Exception):
    pass


def sh(cmd, cwd=None, timeout=1800, input=None, env=None):
    e = dict(os.environ)
    if env:
        e.update(env)
    p = subprocess.run(
        cmd, cwd=cwd, timeout=timeout, input=input, capture_output=True, text=True, env=e,
        shell=isinstance(cmd, str),
    )
    return p.returncode, p.stdout, p.stderr


# ------------------------------------------------------------------ translators

def regenerate():
    """Run every translator; returns dict name -> info."""
    info = {}
    tdir = VERIF / "harness" / "translators"
    for f in sorted(tdir.glob("*.py")):
        if f.name.startswith("_"):
            continue
        mod = importlib.import_module("harness.translators." + f.stem)
        info[f.stem] = mod.generate(REPO, LEAN / "Generated")
    return info


# ------------------------------------------------------------------ lean

def lake_build(targets, timeout=3000):
    rc, out, err = sh(["lake", "build"] + list(targets), cwd=LEAN, timeout=timeout)
    log = (out + err)
    return rc == 0, log


def strip_comments(src):
    # remove /- ... -/ (nested not handled beyond one level) and -- comments
    out = []
    i = 0
    depth = 0
    n = len(src)
    while i < n:
        if src.startswith("/-", i):
            depth += 1
            i += 2
            continue
        if depth and src.startswith("-/", i):
            depth -= 1
            i += 2
            continue
        if depth:
            if src[i] == "\n":
                out.append("\n")
            i += 1
            continue
        if src.startswith("--", i):
            while i < n and src[i] != "\n":
                i += 1
            continue
        out.append(src[i])
        i += 1
    return "".join(out)


def grep_forbidden():
    hits = []
    for d in ("ZeepModel", "ZeepProofs", "Generated", "Driver"):
        for f in (LEAN / d).rglob("*.lean"):
            code = strip_comments(f.read_text())
            for ln, line in enumerate(code.split("\n"), 1):
                if FORBIDDEN.search(line):
                    hits.append(f"{f.relative_to(LEAN)}:{ln}: {line.strip()[:80]}")
    return hits


def audit(prop, module, theorems):
    """#print axioms on every property theorem. Returns list of dict(name, ok, axioms, msg)."""
    adir = LEAN / "Audit"
    adir.mkdir(exist_ok=True)
    f = adir / f"{prop}.lean"
    body = "".join(f"import {m}\n" for m in ([module] if isinstance(module, str) else module))
    for t in theorems:
        body += f"#print axioms {t}\n"
    f.write_text(body)
    rc, out, err = sh(["lake", "env", "lean", str(f.relative_to(LEAN))], cwd=LEAN, timeout=1200)
    text = out + err
    res = []
    for t in theorems:
        short = t
        m = re.search(r"'" + re.escape(short) + r"' depends on axioms: \[([^\]]*)\]", text, re.S)
        m2 = re.search(r"'" + re.escape(short) + r"' does not depend on any axioms", text)
        if m:
            ax = [a.strip() for a in m.group(1).replace("\n", " ").split(",") if a.strip()]
            ok = set(ax) <= ALLOWED_AXIOMS
            res.append(dict(name=t, ok=ok, axioms=ax))
        elif m2:
            res.append(dict(name=t, ok=True, axioms=[]))
        else:
            res.append(dict(name=t, ok=False, axioms=None, msg="not found / did not check"))
    return res, text


class Model:
    """The Lean model behind the JSON line protocol."""

    def __init__(self):
        exe = LEAN / ".lake" / "build" / "bin" / "zdriver"
        self.cmd = [str(exe)] if exe.exists() else ["lake", "env", "lean", "--run", "Driver/Main.lean"]

    def run(self, ops, timeout=3000):
        if not ops:
            return []
        data = "\n".join(json.dumps(o, separators=(",", ":")) for o in ops) + "\n"
        rc, out, err = sh(self.cmd, cwd=LEAN, timeout=timeout, input=data)
        lines = [l for l in out.split("\n") if l.strip()]
        if rc != 0 or len(lines) != len(ops):
            raise HarnessError(f"model driver failed rc={rc} got {len(lines)}/{len(ops)} lines: {err[-400:]}")
        res = []
        for l in lines:
            j = json.loads(l)
            res.append(j)
        return res


# ------------------------------------------------------------------ results

class Result:
    def __init__(self):
        self.evaluations = 0
        self.keys = set()          # distinct non-trivial case keys
        self.samples = []
        self.hist = {}
        self.disagreements = []    # model vs implementation
        self.failures = []         # direct-oracle failures on the implementation (property fails)
        self.known_hits = {}       # finding id -> count of failures attributed
        self.extra = {}
        self.rule = ""
        self.exhaustive = False
        self.programs = 0

    def count(self, key, n=1):
        self.hist[key] = self.hist.get(key, 0) + n

    def case(self, key=None, nontrivial=True):
        self.evaluations += 1
        if nontrivial and key is not None:
            self.keys.add(hashlib.sha1(repr(key).encode()).hexdigest()[:16])

    def sample(self, s, cap=5):
        if len(self.samples) < cap:
            self.samples.append(s)

    def merge(self, other):
        self.evaluations += other.evaluations
        self.keys |= other.keys
        for s in other.samples:
            self.sample(s, cap=8)
        for k, v in other.hist.items():
            self.count(k, v)
        self.disagreements += other.disagreements
        self.failures += other.failures
        for k, v in other.known_hits.items():
            self.known_hits[k] = self.known_hits.get(k, 0) + v
        self.programs += other.programs
        self.extra.update(other.extra)


class Ctx:
    def __init__(self, prop, tier, seed):
        self.prop = prop
        self.tier = tier
        self.seed = seed
        self.rng = random.Random(f"{prop}-{seed}")
        self.model = None
        self.model_ok = False
        self.budget = 1.0          # multiplier used by the search phase
        self.oracle_only = False

    def n(self, quick, thorough):
        base = quick if self.tier == "quick" else thorough
        return max(1, int(base * self.budget))


def load_known():
    f = VERIF / "known_findings.json"
    if not f.exists():
        return {"findings": [], "fixed": []}
    return json.loads(f.read_text())


def write_json(path, obj):
    path.parent.mkdir(parents=True, exist_ok=True)
    path.write_text(json.dumps(obj, indent=1, sort_keys=True, default=str) + "\n")


def write_replay(prop, seed, n, payload):
    p = VERIF / "replays" / f"{prop}-{seed}-{n}.json"
    write_json(p, payload)
    return p


def corpus_cases(prop):
    d = VERIF / "corpus" / prop
    if not d.exists():
        return []
    out = []
    for f in sorted(d.glob("*.json")):
        out.append((f.name, json.loads(f.read_text())))
    return out


# ------------------------------------------------------------------ main flow

def run_check(prop, tier, seed, replay=None):
    t0 = time.time()
    mod = importlib.import_module("harness.props." + prop.lower())
    ctx = Ctx(prop, tier, seed)
    if replay:
        case = json.loads(Path(replay).read_text())
        ok, msg = mod.replay(ctx, case)
        print(("REPLAY-HOLDS " if ok else "REPLAY-FAILS ") + msg)
        return 0 if ok else 1

    notes = []
    for old in (VERIF / "replays").glob(f"{prop}-*.json"):
        old.unlink()
    # 1 regenerate
    gen_info = regenerate()
    # 2 build + audit
    targets = ["ZeepModel", "Generated", "zdriver"] + list(mod.LEAN_MODULES)
    build_ok, build_log = lake_build(targets)
    broken = []      # names of theorems / relations that no longer check
    audit_res = []
    if build_ok:
        audit_res, audit_text = audit(prop, list(mod.LEAN_MODULES), mod.THEOREMS)
        for a in audit_res:
            if not a["ok"]:
                broken.append(f"theorem {a['name']}: axioms={a['axioms']} {a.get('msg','')}")
    else:
        # which modules fail?  build them one by one, audit the theorems of those that still check, and try the model +
        # driver alone so that the tie can still run
        errs = re.findall(r"error: ([^\n]*)", build_log)
        broken.append("lake build failed: " + "; ".join(errs[:6]))
        ok2, _ = lake_build(["ZeepModel", "zdriver"])
        notes.append("build failed; model+driver alone build: %s" % ok2)
        ctx.model_ok = ok2
        good = []
        for m in mod.LEAN_MODULES:
            okm, _ = lake_build([m])
            (good if okm else notes).append(m if okm else "module %s no longer builds" % m)
        if good:
            audit_res, audit_text = audit(prop, good, mod.THEOREMS)
            for a in audit_res:
                if not a["ok"]:
                    broken.append(f"theorem {a['name']}: axioms={a['axioms']} {a.get('msg','')}")
    recheck = None
    if build_ok and tier == "thorough":
        # independent re-check of the compiled proofs: replay every declaration of the property's modules (and what
        # they import from this project) through the kernel with leanchecker
        rc, out, err = sh(["lake", "env", "leanchecker"] + list(mod.LEAN_MODULES), cwd=LEAN, timeout=2400)
        recheck = dict(tool="leanchecker", modules=list(mod.LEAN_MODULES), ok=(rc == 0), output=(out + err)[-300:])
        if rc != 0:
            broken.append("leanchecker rejects the compiled modules: " + (out + err)[-200:])
    forb = grep_forbidden()
    if forb:
        broken.append("forbidden constructs: " + "; ".join(forb[:5]))
    if build_ok:
        ctx.model_ok = True
    if ctx.model_ok:
        ctx.model = Model()

    # 3+4 correspondence and direct oracle
    try:
        res = mod.run(ctx)
        if tier == "thorough" and not [f for f in res.failures if not f.get("known")] and not res.disagreements:
            # thorough: the same exploration under three further generator seeds (grids are simply repeated, randomised
            # families see new schemas / values / schedules)
            extra_seeds = list(range(1, 1 + getattr(mod, "THOROUGH_SEEDS", 3)))
            for j in extra_seeds:
                cj = Ctx(prop, tier, seed * 1000 + 7 * j)
                cj.model, cj.model_ok = ctx.model, ctx.model_ok
                rj = mod.run(cj)
                rule, exh = res.rule, res.exhaustive
                res.merge(rj)
                res.rule, res.exhaustive = rule, exh
            res.extra["thorough_seeds"] = [seed] + [seed * 1000 + 7 * j for j in extra_seeds]
    except Exception as e:  # noqa
        # the harness could not drive the implementation (an interface it relies on changed): the correspondence
        # no longer checks -- go on to the search phase; without a failing input this ends as no-failing-input-found
        tb = traceback.format_exc().strip().splitlines()
        broken.append("correspondence harness raised %s: %s (%s)" % (type(e).__name__, str(e)[:200], tb[-3].strip() if len(tb) >= 3 else ""))
        res = Result()
        res.rule = "correspondence run aborted by an exception in the harness"

    # 5 known findings
    known = load_known()
    kf_lines = []
    for f in known.get("findings", []):
        if f["property"] != prop:
            continue
        try:
            still = mod.replay_finding(ctx, f)
        except Exception as e:  # noqa
            # the recorded witness can no longer be driven: not a reproduction, and the correspondence is not intact either
            still = False
            broken.append("replay of known finding %s raised %s: %s" % (f["id"], type(e).__name__, str(e)[:200]))
        if still:
            kf_lines.append(f"KNOWN-FINDING: property={prop} {f['id']} {f['what']}")
    listed = {f["id"] for f in known.get("findings", []) if f["property"] == prop}
    for x in res.failures:
        if x.get("known") and x["known"] not in listed:
            x["unlisted_known"] = x.pop("known")      # an attribution the known-findings file does not back: a new failure
    new_failures = [x for x in res.failures if not x.get("known")]

    # 6 verdict
    status = 0
    replay_path = None
    tail = ""
    if not new_failures and (broken or res.disagreements):
        # the property is no longer shown to hold: search the implementation for a failing input
        ctx2 = Ctx(prop, tier, seed + 7919)
        ctx2.model, ctx2.model_ok = ctx.model, ctx.model_ok
        ctx2.budget = 4.0
        ctx2.hints = res.disagreements[:20]
        try:
            r2 = mod.search(ctx2) if hasattr(mod, "search") else mod.run(ctx2)
            new_failures = [x for x in r2.failures if not (x.get("known") and x["known"] in listed)]
            res.extra["search_evaluations"] = r2.evaluations
        except Exception as e:  # noqa
            notes.append("search phase error: %r" % (e,))
    if new_failures:
        f0 = min(new_failures, key=lambda f: len(json.dumps(f, default=str)))
        replay_path = write_replay(prop, seed, 0, dict(kind="failing-input", property=prop, **f0))
        status = 1
    elif broken or res.disagreements:
        payload = dict(kind="no-failing-input-found", property=prop, broken=broken,
                       disagreements=res.disagreements[:10])
        replay_path = write_replay(prop, seed, 0, payload)
        status = 1
        tail = " no-failing-input-found"

    wall = time.time() - t0
    obligations = len(mod.THEOREMS)
    discharged = sum(1 for a in audit_res if a["ok"])
    level = getattr(mod, "LEVEL", "proof")
    cov = dict(
        obligations=obligations,
        discharged=discharged,
        checker_cmd="cd lean && lake build " + " ".join(mod.LEAN_MODULES)
        + f" && lake env lean Audit/{prop}.lean   (#print axioms of every property theorem)",
        trusted_base=TRUSTED_BASE + list(getattr(mod, "TRUSTED", [])),
        theorems=[dict(name=a["name"], axioms=a["axioms"], ok=a["ok"]) for a in audit_res],
        evaluations=res.evaluations,
        distinct_nontrivial=len(res.keys),
        rule=res.rule,
        samples=res.samples,
        programs=res.programs,
        disagreements_checked=res.evaluations,
        disagreements_found=len(res.disagreements),
        input_distribution=res.hist,
        exhaustive=res.exhaustive,
        known_findings_hit=res.known_hits,
        generated=gen_info,
        broken=broken,
        notes=notes,
        independent_recheck=recheck,
    )
    cov.update(res.extra)
    ev = dict(
        property_id=prop, tier=tier, seed=seed, level=level, coverage=cov,
        assumptions=list(getattr(mod, "ASSUMPTIONS", [])), wall_s=round(wall, 2),
        violations=len(new_failures),
    )
    write_json(VERIF / "evidence" / f"{prop}.json", ev)
    for l in kf_lines:
        print(l)
    print(f"{prop}: tier={tier} seed={seed} theorems {discharged}/{obligations} "
          f"cases={res.evaluations} distinct={len(res.keys)} disagreements={len(res.disagreements)} "
          f"failures={len(res.failures)} (new {len(new_failures)}) wall={wall:.1f}s")
    if status:
        rp = os.path.relpath(replay_path, VERIF)
        print(f"VIOLATION property={prop} replay={rp}{tail}")
    return status


def main(argv):
    import argparse
    ap = argparse.ArgumentParser()
    ap.add_argument("prop")
    ap.add_argument("--tier", default=os.environ.get("VERIF_TIER", "quick"))
    ap.add_argument("--replay")
    a = ap.parse_args(argv)
    seed = int(os.environ.get("VERIF_SEED", "0") or 0)
    tier = a.tier if a.tier in ("quick", "thorough") else "quick"
    try:
        return run_check(a.prop.upper(), tier, seed, a.replay)
    except subprocess.TimeoutExpired as e:
        print("HARNESS-TIMEOUT", e, file=sys.stderr)
        return 2
    except Exception:
        traceback.print_exc()
        return 2
