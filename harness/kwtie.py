import itertools, random
from lxml import etree

KW_SHAPES = [
    ([("elem", "amount"), ("choice", ["card", "iban", "voucher"])], ["id"]),
    ([("choice", ["a", "b"]), ("elem", "m"), ("choice", ["c", "d", "e"])], []),
    ([("elem", "x"), ("elem", "y")], ["k"]),
    ([("choice", ["p", "q", "r", "s"])], ["t"]),
    ([("elem", "first"), ("choice", ["left", "right"]), ("elem", "last")], ["u", "w"]),
]


def kw_schema(items, attrs):
    parts = []
    for kind, x in items:
        if kind == "elem":
            parts.append('<xs:element name="%s" type="xs:string" minOccurs="0"/>' % x)
        else:
            parts.append('<xs:choice minOccurs="0">%s</xs:choice>' % "".join('<xs:element name="%s" type="xs:string"/>' % b for b in x))
    return ('<xs:schema xmlns:xs="http://www.w3.org/2001/XMLSchema" targetNamespace="urn:kw" elementFormDefault="qualified">'
            '<xs:element name="sig"><xs:complexType><xs:sequence>%s</xs:sequence>%s</xs:complexType></xs:element></xs:schema>'
            % ("".join(parts), "".join('<xs:attribute name="%s" type="xs:string"/>' % a for a in attrs)))


def kw_calls(items, attrs, rng, cap):
    names = [n for kind, x in items for n in ([x] if kind == "elem" else x)] + list(attrs)
    spell = ("absent", "none", "empty", "val")
    combos = list(itertools.product(spell, repeat=len(names)))
    if len(combos) > cap:
        combos = [combos[i] for i in sorted(rng.sample(range(len(combos)), cap))]
    for combo in combos:
        kw = []
        for n, c in zip(names, combo):
            if c == "none":
                kw.append((n, None))
            elif c == "empty":
                kw.append((n, []))
            elif c == "val":
                kw.append((n, "V-" + n))
        yield kw
        if rng.random() < 0.15:
            pos = rng.randrange(len(kw) + 1)
            yield kw[:pos] + [("zz_unknown", rng.choice([None, "V", []]))] + kw[pos:]
    # python dicts keep insertion order: the same call with its keys in another order
    for _ in range(20):
        combo = [rng.choice(spell) for _ in names]
        kw = [(n, {"none": None, "empty": [], "val": "V-" + n}[c]) for n, c in zip(names, combo) if c != "absent"]
        rng.shuffle(kw)
        yield kw


def kw_expect(items, attrs, kw):
    """the statement: 'refuse' / 'accept' for a keyword-only call"""
    d = dict(kw)
    declared = {n for kind, x in items for n in ([x] if kind == "elem" else x)} | set(attrs)
    has = lambda v: not (v is None or (isinstance(v, (list, dict)) and not v))   # noqa
    if any(k not in declared for k in d):
        return "refuse"
    for kind, x in items:
        if kind == "choice" and sum(1 for b in x if b in d and has(d[b])) >= 2:
            return "refuse"
    return "accept"


def kw_mval(v):
    return None if v is None else ("empty" if v == [] else {"leaf": v})


def kw_tie(ctx, res, model_run):
    import zeep.xsd
    from zeep.xsd.valueobjects import _process_signature
    rng = random.Random(ctx.seed * 7 + 12)
    pending = []
    for items, attrs in KW_SHAPES:
        zs = zeep.xsd.Schema(etree.fromstring(kw_schema(items, attrs).encode()))
        ty = zs.get_element("{urn:kw}sig").type
        for kw in kw_calls(items, attrs, rng, ctx.n(250, 4000)):
            case = dict(kind="kw", items=items, attrs=attrs, kw=[[k, v] for k, v in kw])
            res.case(key=("kw", repr(items), repr(kw)), nontrivial=True)
            exp = kw_expect(items, attrs, kw)
            res.count("kw:" + exp)
            try:
                got = dict(_process_signature(ty, (), dict(kw)))
                out = "accept"
            except TypeError as e:
                got, out = str(e)[:80], "refuse"
            except Exception as e:  # noqa
                got, out = "%s: %s" % (type(e).__name__, e), "other"
            if out != exp:
                res.failures.append(dict(what=("a corrupted keyword call is accepted: %r" % (got,)) if exp == "refuse"
                                         else "a conforming keyword call is refused: %s" % (got,), case=case))
                continue
            if out == "accept":
                lost = [k for k, v in kw if not (v is None or v == []) and got.get(k) != v]
                if lost:
                    res.failures.append(dict(what="supplied keyword(s) %s not bound to the caller's value: %r" % (lost, got), case=case))
                    continue
            pending.append(({"op": "bind.kw", "items": [dict(k="elem", name=x) if kind == "elem" else dict(k="choice", branches=x) for kind, x in items],
                             "attrs": attrs, "kw": [[k, kw_mval(v)] for k, v in kw]}, out, got, case))
    if model_run and pending:
        outs = model_run([p[0] for p in pending])
        for (mop, out, got, case), mo in zip(pending, outs):
            m = mo.get("ok")
            if m is None:
                res.disagreements.append(dict(relation="driver error", case=case, model=mo))
            elif "error" in m:
                if out != "refuse":
                    res.disagreements.append(dict(relation="BindKw.processKw vs _process_signature (refusal)", case=case, model=m, impl=got))
            else:
                mf = {k: (None if v is None else ([] if v == "empty" else v["leaf"])) for k, v in m["fields"]}
                if out != "accept" or mf != got:
                    res.disagreements.append(dict(relation="BindKw.processKw vs _process_signature (bound fields)", case=case, model=mf, impl=got))
