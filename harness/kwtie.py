"""Tie between lean/ZeepModel/Xsd/BindKw.lean (keyword pass of _process_signature over non-repeating choices whose branches are
elements or sequences of elements; Choice.render from the bound fields) and zeep."""
import itertools
import random
from lxml import etree

# a branch of a choice is a list of names: one name = an element declaration, several = a sequence of element declarations;
# a name ending in "?" is an optional member (minOccurs="0")
KW_SHAPES = [
    ([("elem", "amount"), ("choice", [["card"], ["iban"], ["voucher"]])], ["id"]),
    ([("choice", [["a"], ["b"]]), ("elem", "m"), ("choice", [["c"], ["d"], ["e"]])], []),
    ([("elem", "x"), ("elem", "y")], ["k"]),
    ([("choice", [["p"], ["q"], ["r"], ["s"]])], ["t"]),
    ([("elem", "first"), ("choice", [["left"], ["right"]]), ("elem", "last")], ["u", "w"]),
    ([("elem", "amount"), ("choice", [["card"], ["iban", "bic?"], ["voucher"]])], ["id"]),
    ([("choice", [["s1", "s2?", "s3"], ["t1", "t2"]])], []),
    ([("choice", [["u1", "u2"], ["solo"]]), ("elem", "mid"), ("choice", [["v1"], ["w1?", "w2"]])], ["z"]),
]


def nm(n):
    return n.rstrip("?")


def kw_schema(items, attrs):
    parts = []
    for kind, x in items:
        if kind == "elem":
            parts.append('<xs:element name="%s" type="xs:string" minOccurs="0"/>' % x)
        else:
            def branch(b):
                els = "".join('<xs:element name="%s" type="xs:string"%s/>' % (nm(n), ' minOccurs="0"' if n.endswith("?") else "") for n in b)
                return els if len(b) == 1 else "<xs:sequence>%s</xs:sequence>" % els
            parts.append('<xs:choice minOccurs="0">%s</xs:choice>' % "".join(branch(b) for b in x))
    return ('<xs:schema xmlns:xs="http://www.w3.org/2001/XMLSchema" targetNamespace="urn:kw" elementFormDefault="qualified">'
            '<xs:element name="sig"><xs:complexType><xs:sequence>%s</xs:sequence>%s</xs:complexType></xs:element></xs:schema>'
            % ("".join(parts), "".join('<xs:attribute name="%s" type="xs:string"/>' % a for a in attrs)))


def all_names(items, attrs):
    return [n for kind, x in items for n in ([x] if kind == "elem" else [nm(m) for b in x for m in b])] + list(attrs)


def kw_calls(items, attrs, rng, cap):
    names = all_names(items, attrs)
    spell = ("absent", "none", "empty", "val")
    if 4 ** len(names) <= 3 * cap:
        combos = list(itertools.product(spell, repeat=len(names)))
        if len(combos) > cap:
            combos = [combos[i] for i in sorted(rng.sample(range(len(combos)), cap))]
    else:
        # mostly-conforming draws: a random call with at most a few values, so that accepted calls are well represented
        combos = [tuple(rng.choice(spell if rng.random() < 0.5 else ("absent", "none")) for _ in names) for _ in range(cap)]
    for combo in combos:
        kw = []
        for n, c in zip(names, combo):
            if c == "none":
                kw.append((n, None))
            elif c == "empty":
                kw.append((n, []))
            elif c == "val":
                kw.append((n, "V-" + n))
        yield kw
        if rng.random() < 0.15:
            pos = rng.randrange(len(kw) + 1)
            yield kw[:pos] + [("zz_unknown", rng.choice([None, "V", []]))] + kw[pos:]
    # python dicts keep insertion order: the same call with its keys in another order
    for _ in range(20):
        combo = [rng.choice(spell) for _ in names]
        kw = [(n, {"none": None, "empty": [], "val": "V-" + n}[c]) for n, c in zip(names, combo) if c != "absent"]
        rng.shuffle(kw)
        yield kw


def _has(v):
    return not (v is None or (isinstance(v, (list, dict)) and not v))


def kw_expect(items, attrs, kw):
    """the statement: 'refuse' / 'accept' for a keyword-only call"""
    d = dict(kw)
    declared = set(all_names(items, attrs))
    if any(k not in declared for k in d):
        return "refuse"
    for kind, x in items:
        if kind == "choice" and sum(1 for b in x if any(nm(m) in d and _has(d[nm(m)]) for m in b)) >= 2:
            return "refuse"
    return "accept"


def kw_mval(v):
    return None if v is None else ("empty" if v == [] else {"leaf": v})


def kw_tie(ctx, res, model_run):
    import zeep.xsd
    from zeep.xsd.valueobjects import _process_signature
    rng = random.Random(ctx.seed * 7 + 12)
    pending = []
    for items, attrs in KW_SHAPES:
        zs = zeep.xsd.Schema(etree.fromstring(kw_schema(items, attrs).encode()))
        el = zs.get_element("{urn:kw}sig")
        ty = el.type
        choices = [x for kind, x in items if kind == "choice"]
        for kw in kw_calls(items, attrs, rng, ctx.n(250, 4000)):
            case = dict(kind="kw", items=items, attrs=attrs, kw=[[k, v] for k, v in kw])
            res.case(key=("kw", repr(items), repr(kw)), nontrivial=True)
            exp = kw_expect(items, attrs, kw)
            res.count("kw:" + exp)
            try:
                got = dict(_process_signature(ty, (), dict(kw)))
                out = "accept"
            except TypeError as e:
                got, out = str(e)[:80], "refuse"
            except Exception as e:  # noqa
                got, out = "%s: %s" % (type(e).__name__, e), "other"
            if out != exp:
                res.failures.append(dict(what=("a corrupted keyword call is accepted: %r" % (got,)) if exp == "refuse"
                                         else "a conforming keyword call is refused: %s" % (got,), case=case))
                continue
            if out == "accept":
                lost = [k for k, v in kw if _has(v) and got.get(k) != v]
                if lost:
                    res.failures.append(dict(what="supplied keyword(s) %s not bound to the caller's value: %r" % (lost, got), case=case))
                    continue
            mitems = [dict(k="elem", name=x) if kind == "elem" else dict(k="choice", branches=[[nm(m) for m in b] for b in x]) for kind, x in items]
            mop = {"op": "bind.kw", "items": mitems, "attrs": attrs, "kw": [[k, kw_mval(v)] for k, v in kw]}
            rendered = None
            render_ops = []
            if out == "accept" and choices and not any(v == [] for _, v in kw):
                # what zeep emits for every choice of the signature when the value object is rendered
                res.count("kw:rendered")
                try:
                    parent = etree.Element("p")
                    el.render(parent, el(**dict(kw)))
                    rendered = []
                    for ch in choices:
                        cnames = [nm(m) for b in ch for m in b]
                        r = [[etree.QName(c).localname, c.text or ""] for c in parent[0] if etree.QName(c).localname in cnames]
                        given = {k: v for k, v in kw if _has(v) and k in cnames}
                        if dict(r) != given:
                            res.failures.append(dict(what="the XML of the choice %r is not the data the caller gave for its branch %r" % (r, given), case=case))
                        rendered.append(r)
                except Exception as e:  # noqa
                    rendered = type(e).__name__
                for ch in choices:
                    render_ops.append(dict(mop, render={"branches": [[dict(name=nm(m), optional=m.endswith("?")) for m in b] for b in ch], "optional": True}))
            pending.append((mop, out, got, None, case))
            if render_ops:
                pending.append((render_ops, out, got, rendered, case))
    if model_run and pending:
        flat = []
        for p in pending:
            flat.extend(p[0] if isinstance(p[0], list) else [p[0]])
        flat_outs = iter(model_run(flat))
        for (mop, out, got, rendered, case) in pending:
            if isinstance(mop, list):
                ms = [next(flat_outs).get("ok") or {} for _ in mop]
                mr = [m.get("rendered") for m in ms]
                if any(isinstance(x, str) for x in mr):
                    mr = "ValidationError"
                else:
                    mr = [[[k, v["leaf"]] for k, v in x] for x in mr]
                if mr != rendered:
                    res.disagreements.append(dict(relation="BindKw.renderChoice vs the XML zeep renders for the choices", case=case, model=mr, impl=rendered))
                continue
            mo = next(flat_outs)
            m = mo.get("ok")
            if m is None:
                res.disagreements.append(dict(relation="driver error", case=case, model=mo))
            elif "error" in m:
                if out != "refuse":
                    res.disagreements.append(dict(relation="BindKw.processKw vs _process_signature (refusal)", case=case, model=m, impl=got))
            else:
                mf = {k: (None if v is None else ([] if v == "empty" else v["leaf"])) for k, v in m["fields"]}
                if out != "accept" or mf != got:
                    res.disagreements.append(dict(relation="BindKw.processKw vs _process_signature (bound fields)", case=case, model=mf, impl=got))


# signatures of REQUIRED elements and REQUIRED choices between single elements: the whole record, bound and rendered
RECORD_SHAPES = [
    [("elem", "amount"), ("choice", [["card"], ["iban"], ["voucher"]])],
    [("choice", [["a"], ["b"]]), ("elem", "m"), ("choice", [["c"], ["d"]])],
    [("elem", "x"), ("elem", "y")],
    [("choice", [["p"], ["q"], ["r"]])],
]


def record_schema(items):
    parts = []
    for kind, x in items:
        if kind == "elem":
            parts.append('<xs:element name="%s" type="xs:string"/>' % x)
        else:
            parts.append("<xs:choice>%s</xs:choice>" % "".join('<xs:element name="%s" type="xs:string"/>' % b[0] for b in x))
    return ('<xs:schema xmlns:xs="http://www.w3.org/2001/XMLSchema" targetNamespace="urn:kw" elementFormDefault="qualified">'
            '<xs:element name="sig"><xs:complexType><xs:sequence>%s</xs:sequence></xs:complexType></xs:element></xs:schema>' % "".join(parts))


def kwrecord_tie(ctx, res, model_run):
    """BindKw.processKw + renderRecord (the definitions c01_kw_choice_roundtrip is stated with) against construct-then-render in
    zeep: the children written, or the class of the error, for every spelling (absent / None / value) of every name"""
    import zeep.xsd
    import zeep.exceptions
    pending = []
    for items in RECORD_SHAPES:
        zs = zeep.xsd.Schema(etree.fromstring(record_schema(items).encode()))
        el = zs.get_element("{urn:kw}sig")
        names = all_names(items, [])
        for combo in itertools.product(("absent", "none", "val"), repeat=len(names)):
            kw = [(n, None if c == "none" else "V-" + n) for n, c in zip(names, combo) if c != "absent"]
            case = dict(kind="kwrecord", items=items, kw=[[k, v] for k, v in kw])
            res.case(key=("kwrecord", repr(items), repr(kw)), nontrivial=True)
            res.count("kwrecord")
            try:
                parent = etree.Element("p")
                el.render(parent, el(**dict(kw)))
                got = [[etree.QName(c).localname, c.text or ""] for c in parent[0]]
            except TypeError:
                got = "TypeError"
            except zeep.exceptions.ValidationError:
                got = "ValidationError"
            except Exception as e:  # noqa
                got = "Other:" + type(e).__name__
            pending.append(({"op": "bind.kwrecord", "items": [dict(k="elem", name=x) if kind == "elem" else dict(k="choice", branches=x) for kind, x in items],
                             "kw": [[k, kw_mval(v)] for k, v in kw]}, got, case))
    if model_run and pending:
        for (mop, got, case), mo in zip(pending, model_run([p[0] for p in pending])):
            m = mo.get("ok") or {}
            mv = m.get("error") or m.get("children")
            if mv != got:
                res.disagreements.append(dict(relation="BindKw.renderRecord vs construct-and-render in zeep", case=case, model=mv, impl=got))
