"""Canonical JSON form of lxml trees shared by the checks (expanded names, sorted attributes)."""
from lxml import etree


def qn(tag):
    q = etree.QName(tag)
    return [q.namespace, q.localname]


def node(el, strip_ws=True):
    kids = [node(c, strip_ws) for c in el if isinstance(c.tag, str)]
    text = el.text
    if strip_ws and text is not None and kids and not text.strip():
        text = None
    if text == "":
        text = None          # <a></a> and <a/> are the same document
    items = []
    for k, v in el.attrib.items():
        if k == "{http://www.w3.org/2001/XMLSchema-instance}type":
            pfx, local = v.split(":", 1) if ":" in v else (None, v)
            v = "{%s}%s" % (el.nsmap.get(pfx, pfx), local)      # QName-valued: compare expanded names
        items.append([qn(k), v])
    attrs = sorted(items, key=lambda p: (p[0][0] or "", p[0][1]))
    return {"t": qn(el.tag), "a": attrs, "x": text, "k": kids}


def render(n, nsmap=None):
    """node JSON -> lxml element (prefixes chosen by lxml)"""
    tag = "{%s}%s" % tuple(n["t"]) if n["t"][0] else n["t"][1]
    el = etree.Element(tag, nsmap=nsmap)
    for (ans, an), v in n.get("a", []):
        el.set("{%s}%s" % (ans, an) if ans else an, v)
    el.text = n.get("x")
    for k in n.get("k", []):
        el.append(render(k))
    return el
