"""Engine A support: schema family generator (DESIGN.md section 5), XSD printer, instance generator
(independent of zeep), dumper of zeep's compiled object graph into the model's tree-unfolded form."""
import copy
import itertools

from lxml import etree

XSD = "http://www.w3.org/2001/XMLSchema"
XSI = "http://www.w3.org/2001/XMLSchema-instance"
TNS = "urn:fam"

LEAVES = {
    "string": ["hello", "x", "a b", "0", "héé ✓"],
    "int": ["0", "7", "-12", "2147483647"],
    "boolean": ["true", "false"],
}

# builtin leaf names the printer writes with the xs: prefix (harness/valgen.py draws from the wider set)
BUILTIN_LEAVES = set(LEAVES) | {"decimal", "double", "date", "dateTime", "base64Binary", "long", "unsignedByte", "anyURI", "token", "gYear", "gMonthDay"}


# ---------------------------------------------------------------------------- source schema AST
# particle: dict(k="elem", name, type=<leaf name | type name>, min, max, nillable)
#           dict(k="seq"|"choice"|"all", items=[...], min, max)
#           dict(k="any", min, max) ; dict(k="group", ref=name, min, max)
# types:    name -> dict(kind="complex", content=particle|None, attrs=[dict(name, type, required)], base=None|name)
#                   dict(kind="simpleContent", base=leaf, attrs=[...])
# schema:   dict(qualified=bool, attr_qualified=bool, types={}, groups={name: particle}, root=(name, typename))

class Gen:
    rseq_occ = [(1, None), (1, 3), (2, 2)]

    def __init__(self, rng, profile="core"):
        self.rng = rng
        self.profile = profile
        self.n = 0
        self.types = {}
        self.groups = {}

    def fresh(self, p):
        self.n += 1
        return "%s%d" % (p, self.n)

    def occ(self, allow_repeat=True):
        r = self.rng.random()
        if r < 0.45:
            return 1, 1
        if r < 0.65:
            return 0, 1
        if not allow_repeat:
            return 1, 1
        return self.rng.choice([(0, None), (1, None), (0, 3), (2, 3), (1, 2), (2, 2)])

    def leaf_type(self, attr=False):
        return self.rng.choice(list(LEAVES))

    def leaf_elem(self, name=None, occ=None):
        mn, mx = occ if occ else self.occ()
        return dict(k="elem", name=name or self.fresh("e"), type=self.leaf_type(), min=mn, max=mx,
                    nillable=self.rng.random() < 0.15)

    def attrs(self):
        out = []
        for _ in range(self.rng.choice([0, 0, 1, 2])):
            out.append(dict(name=self.fresh("at"), type=self.leaf_type(attr=True), required=self.rng.random() < 0.4))
        return out

    def complex_type(self, depth):
        name = self.fresh("T")
        self.types[name] = None  # reserve
        r = self.rng.random()
        if r < 0.1:
            t = dict(kind="simpleContent", base=self.leaf_type(), attrs=self.attrs() or [dict(name=self.fresh("at"), type="string", required=False)])
        elif r < 0.18:
            # attribute-only type (no content particle)
            t = dict(kind="complex", content=None, attrs=self.attrs() or [dict(name=self.fresh("at"), type="string", required=self.rng.random() < 0.5)], base=None)
        elif r < 0.26:
            # all-optional content and attributes: instances may be childless
            t = dict(kind="complex", content=dict(k="seq", items=[self.leaf_elem(occ=(0, 1)) for _ in range(self.rng.choice([1, 2]))], min=1, max=1),
                     attrs=self.attrs() or [dict(name=self.fresh("at"), type="string", required=False)], base=None)
        else:
            t = dict(kind="complex", content=self.top_particle(depth), attrs=self.attrs(), base=None)
        self.types[name] = t
        if self.profile in ("core", "xsitype") and t["kind"] == "complex" and t["content"] and t["content"]["k"] == "seq" and self.rng.random() < 0.3:
            # a type derived by extension: usable through xsi:type wherever `name` is declared
            dname = name + "D"
            self.types[dname] = dict(kind="complex", content=dict(k="seq", items=[self.leaf_elem(occ=(1, 1))], min=1, max=1),
                                     attrs=[dict(name=self.fresh("at"), type="int", required=False)], base=name)
            t["derived"] = dname
        return name

    def elem(self, depth, occ=None):
        if depth > 0 and self.rng.random() < 0.35:
            mn, mx = occ if occ else self.occ()
            return dict(k="elem", name=self.fresh("e"), type=self.complex_type(depth - 1), min=mn, max=mx, nillable=False)
        return self.leaf_elem(occ=occ)

    def top_particle(self, depth):
        r = self.rng.random()
        if r < 0.7:
            return self.sequence(depth, top=True)
        if r < 0.85:
            return dict(k="choice", items=[self.elem(depth, (1, 1)) for _ in range(self.rng.choice([2, 3]))], min=1, max=1)
        return dict(k="all", items=[self.elem(depth, self.rng.choice([(1, 1), (0, 1)])) for _ in range(self.rng.choice([1, 2, 3]))], min=1, max=1)

    def sequence(self, depth, top=False):
        items = []
        n = self.rng.choice([1, 2, 3, 4])
        used_repeat_particle = False
        for i in range(n):
            r = self.rng.random()
            if r < 0.6:
                items.append(self.elem(depth))
            elif r < 0.7:
                items.append(dict(k="seq", items=[self.elem(depth) for _ in range(self.rng.choice([1, 2]))], min=1, max=1))
            elif r < 0.85:
                mn = self.rng.choice([0, 1])
                items.append(dict(k="choice", items=[self.elem(depth, (1, 1)) for _ in range(2)], min=mn, max=1))
            elif not used_repeat_particle and self.profile != "core-norepeat":
                used_repeat_particle = True
                if self.rng.random() < 0.5:
                    mn, mx = self.rng.choice([(0, None), (1, 3), (1, None)])
                    items.append(dict(k="choice", items=[self.elem(depth, (1, 1)) for _ in range(2)], min=mn, max=mx))
                else:
                    mn, mx = self.rng.choice(self.rseq_occ)
                    first = self.leaf_elem(occ=(1, 1))
                    first["nillable"] = False
                    items.append(dict(k="seq", items=[first] + [self.elem(0) for _ in range(self.rng.choice([0, 1]))], min=mn, max=mx))
            else:
                items.append(self.elem(depth))
        if self.profile == "wide" and depth >= 0 and self.rng.random() < 0.35:
            gname = self.fresh("G")
            self.groups[gname] = dict(k="seq", items=[self.leaf_elem(occ=self.rng.choice([(1, 1), (0, 1)])) for _ in range(self.rng.choice([1, 2]))], min=1, max=1)
            mn, mx = self.rng.choice([(1, 1), (0, None), (1, None), (0, 3)])
            items.append(dict(k="group", ref=gname, min=mn, max=mx))
        if top and self.profile == "wide" and self.rng.random() < 0.3:
            items.append(self.leaf_elem(occ=(1, 1)))      # a required element before the wildcard keeps the model deterministic
            items.append(dict(k="any", min=0, max=self.rng.choice([1, None])))
        return dict(k="seq", items=items, min=1, max=1)

    def schema(self):
        depth = self.rng.choice([0, 1, 2])
        root_type = self.complex_type(depth)
        return dict(qualified=self.rng.random() < 0.7, attr_qualified=self.rng.random() < 0.2, types=self.types, groups=self.groups,
                    root=("root", root_type))


# ---------------------------------------------------------------------------- XSD printer

def occ_attrs(p):
    s = ""
    if p.get("min", 1) != 1:
        s += ' minOccurs="%d"' % p["min"]
    if p.get("max", 1) != 1:
        s += ' maxOccurs="%s"' % ("unbounded" if p["max"] is None else p["max"])
    return s


def print_particle(p):
    k = p["k"]
    if k == "elem":
        ty = p["type"]
        tref = "xs:" + ty if ty in BUILTIN_LEAVES else "t:" + ty
        return '<xs:element name="%s" type="%s"%s%s%s/>' % (p["name"], tref, occ_attrs(p), ' nillable="true"' if p.get("nillable") else "",
                                                            ' form="%s"' % p["form"] if p.get("form") else "")
    if k == "any":
        return '<xs:any processContents="lax"%s/>' % occ_attrs(p)
    if k == "group":
        return '<xs:group ref="t:%s"%s/>' % (p["ref"], occ_attrs(p))
    tag = {"seq": "sequence", "choice": "choice", "all": "all"}[k]
    return "<xs:%s%s>%s</xs:%s>" % (tag, occ_attrs(p), "".join(print_particle(i) for i in p["items"]), tag)


def print_attrs(attrs):
    return "".join('<xs:attribute name="%s" type="%s"%s%s/>' % (a["name"], ("xs:" if a["type"] in BUILTIN_LEAVES else "t:") + a["type"],
                                                               ' use="required"' if a["required"] else "",
                                                               ' form="%s"' % a["form"] if a.get("form") else "") for a in attrs)


def print_schema(s):
    out = ['<xs:schema xmlns:xs="%s" xmlns:t="%s" targetNamespace="%s"%s%s>' % (
        XSD, TNS, TNS, ' elementFormDefault="qualified"' if s["qualified"] else "", ' attributeFormDefault="qualified"' if s["attr_qualified"] else "")]
    out.append('<xs:element name="%s" type="t:%s"/>' % s["root"])
    for name, t in s["types"].items():
        if t["kind"] == "simpleContent":
            out.append('<xs:complexType name="%s"><xs:simpleContent><xs:extension base="%s">%s</xs:extension></xs:simpleContent></xs:complexType>'
                       % (name, ("xs:" if t["base"] in BUILTIN_LEAVES else "t:") + t["base"], print_attrs(t["attrs"])))
        elif t.get("base"):
            out.append('<xs:complexType name="%s"><xs:complexContent><xs:extension base="t:%s">%s%s</xs:extension></xs:complexContent></xs:complexType>'
                       % (name, t["base"], print_particle(t["content"]) if t["content"] else "", print_attrs(t["attrs"])))
        else:
            out.append('<xs:complexType name="%s">%s%s</xs:complexType>' % (name, print_particle(t["content"]) if t["content"] else "", print_attrs(t["attrs"])))
    for name, p in s["groups"].items():
        out.append('<xs:group name="%s">%s</xs:group>' % (name, print_particle(p)))
    for name, st in s.get("simple", {}).items():
        if st["kind"] == "list":
            out.append('<xs:simpleType name="%s"><xs:list itemType="xs:%s"/></xs:simpleType>' % (name, st["item"]))
        else:
            out.append('<xs:simpleType name="%s"><xs:restriction base="xs:%s">%s</xs:restriction></xs:simpleType>'
                       % (name, st["base"], "".join('<xs:enumeration value="%s"/>' % v for v in st.get("enum", []))))
    out.append("</xs:schema>")
    return "".join(out)


# ---------------------------------------------------------------------------- instances (independent of zeep)

class Inst:
    """builds valid instance documents of a source schema by recursive descent"""

    def __init__(self, schema, rng, mode="random"):
        self.s = schema
        self.rng = rng
        self.mode = mode
        self.used_xsitype = False
        self.prefix = rng.choice([None, "q"])

    def qn(self, local):
        return "{%s}%s" % (TNS, local) if self.s["qualified"] else local

    def count(self, p):
        mn, mx = p.get("min", 1), p.get("max", 1)
        hi = mn + 2 if mx is None else mx
        opts = sorted({mn, min(mn + 1, hi), hi})
        return self.rng.choice(opts)

    def element(self, p):
        out = []
        for _ in range(self.count(p)):
            out.append(self.one(p))
        return out

    def one(self, p):
        e = etree.Element(self.qn(p["name"]))
        ty = p["type"]
        if ty in LEAVES:
            if p.get("nillable") and self.rng.random() < 0.3:
                e.set("{%s}nil" % XSI, "true")
            else:
                e.text = self.rng.choice(LEAVES[ty])
            return e
        t = self.s["types"][ty]
        if t.get("derived") and self.rng.random() < 0.4:
            # substitute the derived type through xsi:type
            e2 = etree.Element(e.tag)
            e2.set("{%s}type" % XSI, ("%s:%s" % (self.prefix, t["derived"])) if self.prefix else t["derived"])
            self.fill(e2, t["derived"])
            self.used_xsitype = True
            return e2
        self.fill(e, ty)
        return e

    def fill(self, e, tname):
        t = self.s["types"][tname]
        for a in t["attrs"]:
            if a["required"] or self.rng.random() < 0.5:
                an = "{%s}%s" % (TNS, a["name"]) if self.s["attr_qualified"] else a["name"]
                e.set(an, self.rng.choice(LEAVES[a["type"]]))
        if t["kind"] == "simpleContent":
            e.text = self.rng.choice(LEAVES[t["base"]])
            return
        if t.get("base"):
            for c in self.particle(self.s["types"][t["base"]]["content"]) if self.s["types"][t["base"]]["content"] else []:
                e.append(c)
        if t["content"]:
            for c in self.particle(t["content"]):
                e.append(c)

    def particle(self, p):
        k = p["k"]
        if k == "elem":
            return self.element(p)
        if k == "any":
            n = self.count(p)
            out = []
            for i in range(n):
                x = etree.Element("{urn:foreign}wild%d" % i)
                x.text = "w"
                out.append(x)
            return out
        if k == "group":
            g = self.s["groups"][p["ref"]]
            out = []
            for _ in range(self.count(p)):
                out += self.particle(g)
            return out
        out = []
        for _ in range(self.count(p)):
            if k == "seq":
                for i in p["items"]:
                    out += self.particle(i)
            elif k == "choice":
                out += self.particle(self.rng.choice(p["items"]))
            elif k == "all":
                items = list(p["items"])
                self.rng.shuffle(items)
                for i in items:
                    out += self.particle(i)
        return out

    def document(self):
        name, tname = self.s["root"]
        root = etree.Element("{%s}%s" % (TNS, name), nsmap={self.prefix: TNS})
        self.fill(root, tname)
        return root


def nested_choice_schema(depth, repeat_inner=False):
    """choice(x1 | choice(x2 | choice(... )))  depth levels; the family on which re-parsing would be exponential"""
    def lvl(i):
        if i == depth:
            return dict(k="elem", name="x%d" % i, type="string", min=1, max=1, nillable=False)
        inner = lvl(i + 1)
        return dict(k="choice", items=[dict(k="elem", name="x%d" % i, type="string", min=1, max=1, nillable=False), inner], min=1,
                    max=(None if repeat_inner and i > 0 else 1))
    types = {"T1": dict(kind="complex", content=lvl(0), attrs=[], base=None)}
    return dict(qualified=True, attr_qualified=False, types=types, groups={}, root=("root", "T1"))


def group_schema(min_, max_):
    """sequence(group g{min,max}, tail) with g = (a, b): the family of the group progress check"""
    g = dict(k="seq", items=[dict(k="elem", name="a", type="string", min=1, max=1, nillable=False),
                             dict(k="elem", name="b", type="string", min=0, max=1, nillable=False)], min=1, max=1)
    content = dict(k="seq", items=[dict(k="group", ref="g", min=min_, max=max_),
                                   dict(k="elem", name="tail", type="string", min=0, max=1, nillable=False)], min=1, max=1)
    return dict(qualified=True, attr_qualified=False, types={"T1": dict(kind="complex", content=content, attrs=[], base=None)},
                groups={"g": g}, root=("root", "T1"))


def multi_repeat_schema(rng):
    """a sequence holding two or three repeating particles (sequence / choice), optionally separated by plain elements"""
    n = [0]

    def leaf(mn=1, mx=1):
        n[0] += 1
        return dict(k="elem", name="m%d" % n[0], type=rng.choice(list(LEAVES)), min=mn, max=mx, nillable=False)
    items = []
    for i in range(rng.choice([2, 2, 3])):
        if rng.random() < 0.5:
            items.append(leaf(rng.choice([0, 1]), 1))
        mn, mx = rng.choice([(0, None), (1, None), (1, 3), (0, 2), (2, 2)])
        if rng.random() < 0.5:
            items.append(dict(k="seq", items=[leaf()] + [leaf(rng.choice([0, 1]), rng.choice([1, 1, None])) for _ in range(rng.choice([0, 1]))], min=mn, max=mx))
        else:
            items.append(dict(k="choice", items=[leaf(), leaf()], min=mn, max=mx))
    if rng.random() < 0.5:
        items.append(leaf(rng.choice([0, 1]), 1))
    content = dict(k="seq", items=items, min=1, max=1)
    return dict(qualified=rng.random() < 0.7, attr_qualified=False, types={"T1": dict(kind="complex", content=content, attrs=[], base=None)},
                groups={}, root=("root", "T1"))


def optional_only_schemas():
    """repeating particles whose content can match empty (the shapes on which a missing progress test loops 2^31 times),
    followed by an optional tail element"""
    def el(name, mn=1, mx=1):
        return dict(k="elem", name=name, type="string", min=mn, max=mx, nillable=False)
    tail = el("tail", 0, 1)
    out = []
    for mx in (None, 100000000, 3):
        for mn in (0, 1):
            out.append(("seq-optional-only", dict(k="seq", min=mn, max=mx, items=[el("a", 0, 1), el("b", 0, 1)])))
            out.append(("seq-optional-repeated-member", dict(k="seq", min=mn, max=mx, items=[el("a", 0, None), el("b", 0, 1)])))
            out.append(("seq-nested-optional", dict(k="seq", min=mn, max=mx, items=[dict(k="seq", min=0, max=1, items=[el("a", 0, 1)]), el("b", 0, 1)])))
            out.append(("choice-optional-repeated-branch", dict(k="choice", min=mn, max=mx, items=[el("a", 0, 3), el("b")])))
            out.append(("choice-optional-sequence-branch", dict(k="choice", min=mn, max=mx, items=[dict(k="seq", min=0, max=None, items=[el("a")]), el("b")])))
            out.append(("choice-in-seq-optional", dict(k="seq", min=mn, max=mx, items=[dict(k="choice", min=0, max=1, items=[el("a"), el("b")])])))
    res = []
    for name, p in out:
        content = dict(k="seq", min=1, max=1, items=[p, copy.deepcopy(tail)])
        res.append((name, dict(qualified=True, attr_qualified=False, types={"T1": dict(kind="complex", content=content, attrs=[], base=None)},
                               groups={}, root=("root", "T1"))))
    return res


def short_run_schemas():
    """an element with minOccurs >= 2 and a huge / unbounded maxOccurs, reached through a sequence or a group and followed by
    a tail: documents with a run that is too short but not empty (the mismatch branch of the element loop)"""
    def el(name, mn=1, mx=1):
        return dict(k="elem", name=name, type="string", min=mn, max=mx, nillable=False)
    out = []
    for mn, mx in ((2, None), (3, 100000000), (2, 4)):
        seq = dict(k="seq", min=1, max=1, items=[el("a", mn, mx), el("tail", 0, 1)])
        out.append(("short-run-seq", dict(qualified=True, attr_qualified=False, types={"T1": dict(kind="complex", content=seq, attrs=[], base=None)},
                                          groups={}, root=("root", "T1"))))
        g = dict(k="seq", min=1, max=1, items=[el("a", mn, mx), el("b", 0, 1)])
        content = dict(k="seq", min=1, max=1, items=[dict(k="group", ref="g", min=1, max=1), el("tail", 0, 1)])
        out.append(("short-run-group", dict(qualified=True, attr_qualified=False, types={"T1": dict(kind="complex", content=content, attrs=[], base=None)},
                                            groups={"g": g}, root=("root", "T1"))))
    return out


def wildcard_schema(mx):
    """(a, any{0,mx}): a repeating wildcard; its children may be declared global elements (the root itself) that decode to None"""
    content = dict(k="seq", min=1, max=1, items=[dict(k="elem", name="a", type="string", min=1, max=1, nillable=False), dict(k="any", min=0, max=mx)])
    return dict(qualified=True, attr_qualified=False, types={"T1": dict(kind="complex", content=content, attrs=[], base=None)}, groups={}, root=("root", "T1"))


def validator(xsd_text):
    return etree.XMLSchema(etree.fromstring(xsd_text.encode()))


# ---------------------------------------------------------------------------- zeep object graph -> model JSON

def qn_json(q):
    if q is None:
        return [None, ""]
    return [q.namespace, q.localname]


def occj(v):
    return None if v == "unbounded" else int(v)


def dump_type(t, depth):
    from zeep.xsd.types.complex import ComplexType
    from zeep.xsd.types.any import AnyType
    from zeep.xsd.types.simple import AnySimpleType
    from zeep.xsd.elements import Element as ZElement
    if isinstance(t, ComplexType):
        from zeep.xsd.types.collection import ListType
        attrs = [dict(q=qn_json(a.qname), attr=n, required=bool(getattr(a, "required", False)), list=isinstance(getattr(a, "type", None), ListType))
                 for n, a in t.attributes if getattr(a, "qname", None) is not None]
        el = t._element
        if isinstance(el, ZElement) and isinstance(el.type, AnySimpleType):
            return dict(k="simpleContent", b=str(el.type.name or type(el.type).__name__), attrs=attrs, valname=t.elements_nested[0][0],
                        list=isinstance(el.type, ListType))
        if depth <= 0:
            return dict(k="cut")
        content = None
        if t.elements_nested:
            n, e = t.elements_nested[0]
            content = dump_particle(e, depth, n if getattr(e, 'accepts_multiple', False) else None)
        return dict(k="complex", content=content, attrs=attrs, has_fields=bool(t.attributes or t.elements))
    if isinstance(t, AnySimpleType):
        from zeep.xsd.types.collection import ListType
        return dict(k="simple", b=str(getattr(t, "name", None) or type(t).__name__), list=isinstance(t, ListType))
    if isinstance(t, AnyType):
        return dict(k="any")
    return dict(k="simple", b=type(t).__name__)


def dump_particle(e, depth, name=None):
    from zeep.xsd.elements import Element as ZElement, Any as ZAny
    from zeep.xsd.elements.indicators import Sequence, Choice, All, Group
    if isinstance(e, ZElement):
        return dict(k="elem", n=name, q=qn_json(e.qname), attr=e.attr_name, min=int(e.min_occurs), max=occj(e.max_occurs),
                    nillable=bool(e.nillable), ty=dump_type(e.type, depth - 1))
    if isinstance(e, ZAny):
        return dict(k="any", n=name, min=int(e.min_occurs), max=occj(e.max_occurs))
    if isinstance(e, Group):
        return dict(k="group", n=name, p=dump_particle(e.child, depth, None), min=int(e.min_occurs), max=occj(e.max_occurs))
    kind = "seq" if isinstance(e, Sequence) else ("choice" if isinstance(e, Choice) else "all")
    # Sequence and Choice decode over `elements_nested` (a non-repeating nested particle is decoded as a particle and its
    # fields merged: fix F33); All collects by the tags of its flattened `elements`
    src = e.elements if kind == "all" else e.elements_nested
    ps = [dump_particle(c, depth, n) for n, c in src]
    d = dict(k=kind, n=name, ps=ps, min=int(e.min_occurs), max=occj(e.max_occurs))
    if kind == "all":
        d["consume_other"] = bool(getattr(e, "_consume_other", False))
    return d


def height(node):
    return 1 + max([height(c) for c in node if isinstance(c.tag, str)] + [0])
