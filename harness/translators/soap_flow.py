"""Regenerate Generated/SoapFlow.lean from src/zeep/wsdl/bindings/soap.py: the order in which SoapBinding._create, send and
process_reply run their stages (calls in source order, loops and both arms of a conditional flattened), and the HTTP status
constants process_reply compares the reply's status with.  The Lean models of the pipeline (C16) and of the reply triage
(C06) carry obligations, re-checked by `decide` on every run, that they run the same stages in the same order and use the
same constants."""
import ast


def lean_str(s):
    return '"' + s.replace("\\", "\\\\").replace('"', '\\"') + '"'


STAGES = {
    "_create": {"create": "serialize", "_set_http_headers": "set_http_headers", "egress": "wsa.egress", "apply_egress": "plugins.egress",
                "apply": "wsse.apply", "update": "extra_http_headers"},
    "send": {"_create": "create", "post_xml": "transport.post", "process_reply": "process_reply"},
    "process_reply": {"MultipartDecoder": "multipart", "parse_xml": "parse", "process_xop": "xop", "verify": "wsse.verify",
                      "apply_ingress": "plugins.ingress", "find": "fault_lookup", "process_error": "process_error",
                      "process_reply": "decode", "_set_root": "attach"},
}


def callee(node):
    f = node.func
    if isinstance(f, ast.Attribute):
        return f.attr
    if isinstance(f, ast.Name):
        return f.id
    return None


def ordered_calls(fn):
    """call names in evaluation order of the source text (arguments before the call itself)"""
    out = []

    def visit(n):
        for c in ast.iter_child_nodes(n):
            visit(c)
        if isinstance(n, ast.Call):
            nm = callee(n)
            if nm:
                out.append((n.lineno, n.col_offset, nm))
    for stmt in fn.body:
        visit(stmt)
    # statement order first, then inner-to-outer inside one statement: lineno of the statement decides
    return out


def statement_calls(fn, table):
    names = []

    def walk(stmts):
        for st in stmts:
            if isinstance(st, (ast.If, ast.For, ast.While, ast.With, ast.Try)):
                # the header expression, then the bodies in textual order
                hdr = []
                for field in ("test", "iter", "items"):
                    v = getattr(st, field, None)
                    if v is None:
                        continue
                    for x in (v if isinstance(v, list) else [v]):
                        hdr += [c for c in ast.walk(x) if isinstance(c, ast.Call)]
                for c in sorted(hdr, key=lambda c: (c.lineno, c.col_offset)):
                    nm = callee(c)
                    if nm in table:
                        names.append(table[nm])
                for field in ("body", "handlers", "orelse", "finalbody"):
                    sub = getattr(st, field, None) or []
                    for s2 in sub:
                        if isinstance(s2, ast.ExceptHandler):
                            walk(s2.body)
                        else:
                            walk([s2])
            else:
                calls = [c for c in ast.walk(st) if isinstance(c, ast.Call)]
                # inner calls are evaluated first: deeper (later col) first is not reliable; use end position
                for c in sorted(calls, key=lambda c: (c.end_lineno, c.end_col_offset)):
                    nm = callee(c)
                    if nm in table:
                        names.append(table[nm])
    walk(fn.body)
    # collapse immediate repetitions (the list / single-object arms of `if isinstance(client.wsse, list)`)
    out = []
    for n in names:
        if not out or out[-1] != n:
            out.append(n)
    return out


def status_constants(fn):
    """integers the reply's status_code is compared with, by operator"""
    res = {"in": [], "noteq": [], "eq": []}
    for n in ast.walk(fn):
        if isinstance(n, ast.Compare) and isinstance(n.left, ast.Attribute) and n.left.attr == "status_code":
            for op, comp in zip(n.ops, n.comparators):
                vals = []
                if isinstance(comp, ast.Constant) and isinstance(comp.value, int):
                    vals = [comp.value]
                elif isinstance(comp, (ast.Tuple, ast.List, ast.Set)):
                    vals = [e.value for e in comp.elts if isinstance(e, ast.Constant) and isinstance(e.value, int)]
                key = {"In": "in", "NotEq": "noteq", "Eq": "eq"}.get(type(op).__name__)
                if key:
                    res[key] += vals
                else:
                    res.setdefault("other:" + type(op).__name__, []).extend(vals)
    return res


def generate(repo, outdir):
    src = (repo / "src" / "zeep" / "wsdl" / "bindings" / "soap.py").read_text()
    tree = ast.parse(src)
    cls = next(n for n in tree.body if isinstance(n, ast.ClassDef) and n.name == "SoapBinding")
    fns = {n.name: n for n in cls.body if isinstance(n, (ast.FunctionDef, ast.AsyncFunctionDef))}
    flows = {name: statement_calls(fns[name], STAGES[name]) for name in ("_create", "send", "process_reply")}
    flows["send_async"] = statement_calls(fns["send_async"], STAGES["send"]) if "send_async" in fns else []
    st = status_constants(fns["process_reply"])
    other = sorted(k for k in st if k.startswith("other:"))
    # the plain HTTP bindings: HttpBinding.process_reply in bindings/http.py
    htree = ast.parse((repo / "src" / "zeep" / "wsdl" / "bindings" / "http.py").read_text())
    hcls = next(n for n in htree.body if isinstance(n, ast.ClassDef) and n.name == "HttpBinding")
    hfn = next(n for n in hcls.body if isinstance(n, ast.FunctionDef) and n.name == "process_reply")
    hst = status_constants(hfn)
    hother = sorted(k for k in hst if k.startswith("other:"))

    def lst(xs):
        return "[" + ", ".join(lean_str(x) for x in xs) + "]"

    def nat(xs):
        return "[" + ", ".join(str(x) for x in xs) + "]"
    body = "/- GENERATED by harness/translators/soap_flow.py from src/zeep/wsdl/bindings/soap.py — do not edit -/\n"
    body += "namespace Generated\n\n"
    body += "/-- stages of `SoapBinding._create`, in source order -/\ndef createFlow : List String := %s\n\n" % lst(flows["_create"])
    body += "/-- stages of `SoapBinding.send` -/\ndef sendFlow : List String := %s\n\n" % lst(flows["send"])
    body += "def sendAsyncFlow : List String := %s\n\n" % lst(flows["send_async"])
    body += "/-- stages of `SoapBinding.process_reply`, in source order -/\ndef processReplyFlow : List String := %s\n\n" % lst(flows["process_reply"])
    body += "/-- `response.status_code in (...)`: statuses for which an empty reply means `None` -/\ndef replyStatusIn : List Nat := %s\n" % nat(st["in"])
    body += "/-- `response.status_code != k` -/\ndef replyStatusNotEq : List Nat := %s\n" % nat(st["noteq"])
    body += "/-- `response.status_code == k` -/\ndef replyStatusEq : List Nat := %s\n" % nat(st["eq"])
    body += "/-- comparisons of the status with other operators (none expected) -/\ndef replyStatusOtherOps : List String := %s\n" % lst(other)
    body += "\n/-- `HttpBinding.process_reply`: the integers the status is compared with, by operator -/\ndef httpReplyStatusNotEq : List Nat := %s\n" % nat(hst["noteq"])
    body += "def httpReplyStatusIn : List Nat := %s\ndef httpReplyStatusEq : List Nat := %s\n" % (nat(hst["in"]), nat(hst["eq"]))
    body += "def httpReplyStatusOtherOps : List String := %s\n" % lst(hother)
    body += "\nend Generated\n"
    outdir.mkdir(exist_ok=True)
    p = outdir / "SoapFlow.lean"
    if not p.exists() or p.read_text() != body:
        p.write_text(body)
    return {"flows": flows, "status": st, "http_status": hst}
