"""Hand-written schema families outside the single-document grammar of xsdgen / valgen, shared by C01 / C02 / C03:

* `include-forms`: a schema split over xsd:include where the included document writes its own elementFormDefault /
  attributeFormDefault (or omits them: "unqualified") while the including document says something else -- the form of a
  local declaration is decided by the document it stands in;
* `restriction-xsitype`: derivation chains through complexContent/restriction (and an extension of a restriction), the
  derived types supplied / received with xsi:type where the base type is declared.

Each case carries the schema documents, a reference instance document written by hand from the XSD rules (judged valid by
libxml2 loading the same files from disk), and the python value that denotes it.  Checked per case:
  render(value) is valid and equals the reference (C02);  decode(reference) equals the value and re-renders to the reference (C03);
  decode(render(value)) equals the value (C01).
"""
import itertools
import os
import shutil
import tempfile

from lxml import etree

from harness import xmlcanon

TNS = "urn:fam"
XSI = "http://www.w3.org/2001/XMLSchema-instance"


def _zeep():
    import zeep
    import zeep.xsd
    import zeep.transports
    import zeep.settings
    return zeep


def form_attr(name, v):
    return "" if v is None else ' %s="%s"' % (name, v)


def include_forms_cases():
    """yield (label, docs{name: text}, reference xml text, value builder)"""
    forms = [None, "qualified", "unqualified"]
    for main_e, inc_e, inc_a in itertools.product(forms, forms, forms):
        main = ('<xs:schema xmlns:xs="http://www.w3.org/2001/XMLSchema" xmlns:t="urn:fam" targetNamespace="urn:fam"%s>'
                '<xs:include schemaLocation="inc.xsd"/>'
                '<xs:element name="root" type="t:T1"/>'
                '<xs:complexType name="T1"><xs:sequence><xs:element name="a" type="xs:string"/><xs:element name="part" type="t:Inc" maxOccurs="2"/></xs:sequence></xs:complexType>'
                '</xs:schema>' % form_attr("elementFormDefault", main_e))
        inc = ('<xs:schema xmlns:xs="http://www.w3.org/2001/XMLSchema" xmlns:t="urn:fam" targetNamespace="urn:fam"%s%s>'
               '<xs:complexType name="Inc"><xs:sequence><xs:element name="x" type="xs:string"/><xs:element name="y" type="xs:int" minOccurs="0"/></xs:sequence>'
               '<xs:attribute name="k" type="xs:string"/></xs:complexType></xs:schema>' % (form_attr("elementFormDefault", inc_e), form_attr("attributeFormDefault", inc_a)))
        mq = "f:" if main_e == "qualified" else ""
        iq = "f:" if inc_e == "qualified" else ""
        aq = "f:" if inc_a == "qualified" else ""
        ref = ('<f:root xmlns:f="urn:fam"><%sa>A</%sa><%spart %sk="K1"><%sx>X1</%sx><%sy>7</%sy></%spart><%spart><%sx></%sx></%spart></f:root>'
               % (mq, mq, mq, aq, iq, iq, iq, iq, mq, mq, iq, iq, mq)).replace("<%sx></%sx>" % (iq, iq), "<%sx>0</%sx>" % (iq, iq))
        value = dict(a="A", part=[dict(x="X1", y=7, k="K1"), dict(x="0")])
        yield ("include-forms:main=%s,inc=%s,incattr=%s" % (main_e, inc_e, inc_a), {"main.xsd": main, "inc.xsd": inc}, ref, value, None)


RESTR = ('<xs:schema xmlns:xs="http://www.w3.org/2001/XMLSchema" xmlns:t="urn:fam" targetNamespace="urn:fam" elementFormDefault="qualified">'
         '<xs:element name="root" type="t:T1"/>'
         '<xs:complexType name="T1"><xs:sequence><xs:element name="item" type="t:Base" maxOccurs="unbounded"/></xs:sequence></xs:complexType>'
         '<xs:complexType name="Base"><xs:sequence><xs:element name="a" type="xs:string"/><xs:element name="b" type="xs:int" minOccurs="0"/></xs:sequence>'
         '<xs:attribute name="id" type="xs:int"/></xs:complexType>'
         # derived by restriction: b is forbidden (minOccurs=0 -> absent)
         '<xs:complexType name="Narrow"><xs:complexContent><xs:restriction base="t:Base"><xs:sequence><xs:element name="a" type="xs:string"/></xs:sequence>'
         '<xs:attribute name="id" type="xs:int"/></xs:restriction></xs:complexContent></xs:complexType>'
         # an extension of the restriction
         '<xs:complexType name="NarrowPlus"><xs:complexContent><xs:extension base="t:Narrow"><xs:sequence><xs:element name="c" type="xs:boolean"/></xs:sequence>'
         '</xs:extension></xs:complexContent></xs:complexType>'
         # a plain extension, for contrast
         '<xs:complexType name="Wide"><xs:complexContent><xs:extension base="t:Base"><xs:sequence><xs:element name="w" type="xs:string"/></xs:sequence>'
         '</xs:extension></xs:complexContent></xs:complexType>'
         '</xs:schema>')


def restriction_cases():
    ref = ('<f:root xmlns:f="urn:fam" xmlns:xsi="%s">'
           '<f:item id="1"><f:a>base</f:a><f:b>5</f:b></f:item>'
           '<f:item xsi:type="f:Narrow" id="2"><f:a>narrow</f:a></f:item>'
           '<f:item xsi:type="f:NarrowPlus"><f:a>np</f:a><f:c>true</f:c></f:item>'
           '<f:item xsi:type="f:Wide"><f:a>wide</f:a><f:b>0</f:b><f:w>W</f:w></f:item>'
           '</f:root>' % XSI)

    def build(zs):
        def T(n):
            return zs.get_type("{urn:fam}%s" % n)
        return dict(item=[T("Base")(a="base", b=5, id=1), T("Narrow")(a="narrow", id=2), T("NarrowPlus")(a="np", c=True), T("Wide")(a="wide", b=0, w="W")])
    value = dict(item=[dict(__type__="Base", a="base", b=5, id=1), dict(__type__="Narrow", a="narrow", id=2),
                       dict(__type__="NarrowPlus", a="np", c=True), dict(__type__="Wide", a="wide", b=0, w="W")])
    yield ("restriction-xsitype", {"main.xsd": RESTR}, ref, value, build)


CHOICE_OPT = ('<xs:schema xmlns:xs="http://www.w3.org/2001/XMLSchema" xmlns:t="urn:fam" targetNamespace="urn:fam" elementFormDefault="qualified">'
              '<xs:element name="root" type="t:T1"/>'
              '<xs:group name="opts"><xs:sequence><xs:element name="o1" type="xs:string" minOccurs="0"/><xs:element name="o2" type="xs:int" minOccurs="0"/></xs:sequence></xs:group>'
              '<xs:complexType name="T1"><xs:choice %s>'
              '<xs:sequence><xs:group ref="t:opts"/><xs:element name="m" type="xs:int"/></xs:sequence>'
              '<xs:sequence><xs:sequence><xs:element name="p1" type="xs:string" minOccurs="0"/></xs:sequence><xs:element name="n" type="xs:int"/></xs:sequence>'
              '<xs:element name="z" type="xs:string"/>'
              '</xs:choice></xs:complexType></xs:schema>')


def choice_optional_start_cases():
    """a choice whose sequence branches open with a group / nested sequence made only of optional members: the branch is
    taken with that opening part absent, present and partly present; the choice is the type's own content model, once and repeated"""
    docs1 = ["<f:m>1</f:m>", "<f:o2>5</f:o2><f:m>1</f:m>", "<f:o1>a</f:o1><f:o2>5</f:o2><f:m>1</f:m>", "<f:n>2</f:n>", "<f:p1>q</f:p1><f:n>2</f:n>", "<f:z>zz</f:z>"]
    for i, body in enumerate(docs1):
        yield ("choice-optional-start:single-%d" % i, {"main.xsd": CHOICE_OPT % ""}, '<f:root xmlns:f="urn:fam">%s</f:root>' % body, None, None)
    # the same branches selected by a caller (value-driven: what is rendered must be read back)
    for i, (value, body) in enumerate((({"m": 1}, "<f:m>1</f:m>"), ({"o2": 5, "m": 1}, "<f:o2>5</f:o2><f:m>1</f:m>"), ({"n": 2}, "<f:n>2</f:n>"),
                                       ({"p1": "q", "n": 2}, "<f:p1>q</f:p1><f:n>2</f:n>"), ({"z": "zz"}, "<f:z>zz</f:z>"))):
        yield ("choice-optional-start:value-%d" % i, {"main.xsd": CHOICE_OPT % ""}, '<f:root xmlns:f="urn:fam">%s</f:root>' % body, value, None)
    rep = ["<f:m>1</f:m><f:z>zz</f:z><f:o1>a</f:o1><f:m>3</f:m>", "<f:z>a</f:z><f:n>2</f:n><f:m>4</f:m>", "<f:n>1</f:n><f:n>2</f:n><f:p1>x</f:p1><f:n>3</f:n>"]
    for i, body in enumerate(rep):
        yield ("choice-optional-start:repeated-%d" % i, {"main.xsd": CHOICE_OPT % 'maxOccurs="unbounded"'}, '<f:root xmlns:f="urn:fam">%s</f:root>' % body, None, None)


CHOICE_NIL = ('<xs:schema xmlns:xs="http://www.w3.org/2001/XMLSchema" xmlns:t="urn:fam" targetNamespace="urn:fam" elementFormDefault="qualified">'
              '<xs:element name="root" type="t:T1"/>'
              '<xs:complexType name="T1"><xs:sequence><xs:element name="k" type="xs:string"/><xs:choice %s>'
              '<xs:sequence><xs:element name="a" type="xs:string" nillable="true"/><xs:element name="b" type="xs:string"/></xs:sequence>'
              '<xs:sequence><xs:element name="c" type="xs:int" nillable="true"/><xs:element name="d" type="xs:int" minOccurs="0"/></xs:sequence>'
              '<xs:element name="z" type="xs:string"/></xs:choice></xs:sequence></xs:complexType></xs:schema>')


def choice_nillable_cases():
    """a choice whose sequence branches hold a required *nillable* member: the caller passes None for it (the key is present)
    beside a sibling with a value -- the branch is chosen, the member goes out as xsi:nil, the sibling reads back"""
    X = ' xmlns:xsi="%s"' % XSI
    yield ("choice-nillable:branch1", {"main.xsd": CHOICE_NIL % ""},
           '<f:root xmlns:f="urn:fam"%s><f:k>K</f:k><f:a xsi:nil="true"/><f:b>bee</f:b></f:root>' % X, dict(k="K", a=None, b="bee"), None)
    yield ("choice-nillable:branch2", {"main.xsd": CHOICE_NIL % ""},
           '<f:root xmlns:f="urn:fam"%s><f:k>K</f:k><f:c xsi:nil="true"/><f:d>0</f:d></f:root>' % X, dict(k="K", c=None, d=0), None)
    yield ("choice-nillable:plain-branch", {"main.xsd": CHOICE_NIL % ""},
           '<f:root xmlns:f="urn:fam"><f:k>K</f:k><f:a>ay</f:a><f:b>bee</f:b></f:root>', dict(k="K", a="ay", b="bee"), None)
    yield ("choice-nillable:repeated", {"main.xsd": CHOICE_NIL % 'maxOccurs="unbounded"'},
           '<f:root xmlns:f="urn:fam"%s><f:k>K</f:k><f:a xsi:nil="true"/><f:b>bee</f:b><f:z>zed</f:z><f:c>1</f:c></f:root>' % X,
           dict(k="K", _value_1=[dict(a=None, b="bee"), dict(z="zed"), dict(c=1)]), None)


REDECL = ('<xs:schema xmlns:xs="http://www.w3.org/2001/XMLSchema" xmlns:t="urn:fam" targetNamespace="urn:fam" elementFormDefault="qualified">'
          '<xs:element name="root" type="t:T1"/>'
          '<xs:complexType name="T1"><xs:sequence><xs:element name="item" type="t:Base" maxOccurs="unbounded"/></xs:sequence></xs:complexType>'
          '<xs:complexType name="Base"><xs:sequence><xs:element name="name" type="xs:string"/><xs:element name="v" type="xs:int"/></xs:sequence></xs:complexType>'
          # the extension declares, in its own sequence, an element with the name of one the base already has (legal: the content
          # model is base followed by extension)
          '<xs:complexType name="Ext"><xs:complexContent><xs:extension base="t:Base"><xs:sequence><xs:element name="name" type="xs:string"/>'
          '<xs:element name="extra" type="xs:string" minOccurs="0"/></xs:sequence></xs:extension></xs:complexContent></xs:complexType></xs:schema>')


def redeclared_name_cases():
    ref = ('<f:root xmlns:f="urn:fam" xmlns:xsi="%s"><f:item><f:name>base</f:name><f:v>1</f:v></f:item>'
           '<f:item xsi:type="f:Ext"><f:name>first</f:name><f:v>2</f:v><f:name>second</f:name><f:extra>x</f:extra></f:item></f:root>' % XSI)
    def build(zs):
        def T(n):
            return zs.get_type("{urn:fam}%s" % n)
        return dict(item=[T("Base")(name="base", v=1), T("Ext")(name="first", v=2, name__1="second", extra="x")])
    value = dict(item=[dict(__type__="Base", name="base", v=1), dict(__type__="Ext", name="first", v=2, name__1="second", extra="x")])
    yield ("extension-redeclares-name", {"main.xsd": REDECL}, ref, value, build)
    yield ("extension-redeclares-name:document", {"main.xsd": REDECL}, ref, None, None)


def xsitype_prefix_cases():
    """xsi:type on several siblings, the prefixes declared on the root, on the element itself, and re-bound on the element"""
    ref = ('<f:root xmlns:f="urn:fam" xmlns:xsi="%s" xmlns:p="urn:elsewhere">'
           '<f:item xsi:type="f:Wide"><f:a>w</f:a><f:w>W</f:w></f:item>'
           '<f:item xmlns:q2="urn:fam" xsi:type="q2:Narrow" id="2"><f:a>n</f:a></f:item>'
           '<f:item xmlns:p="urn:fam" xsi:type="p:NarrowPlus"><f:a>np</f:a><f:c>true</f:c></f:item>'
           '<f:item><f:a>plain</f:a></f:item>'
           '<f:item xmlns:f2="urn:fam" xsi:type="f2:Wide"><f:a>w2</f:a><f:b>0</f:b><f:w>W2</f:w></f:item></f:root>' % XSI)
    yield ("xsitype-prefixes-per-sibling", {"main.xsd": RESTR}, ref, None, None)


NILROUND = ('<xs:schema xmlns:xs="http://www.w3.org/2001/XMLSchema" xmlns:t="urn:fam" targetNamespace="urn:fam" elementFormDefault="qualified">'
            '<xs:element name="root" type="t:T1"/>'
            '<xs:complexType name="T1"><xs:sequence><xs:sequence minOccurs="%s" maxOccurs="unbounded"><xs:element name="n" type="xs:string" nillable="true"/>'
            '<xs:element name="o" type="xs:int" minOccurs="0"/></xs:sequence><xs:element name="tail" type="xs:string" minOccurs="0"/></xs:sequence></xs:complexType></xs:schema>')


def nil_round_cases():
    """rounds of a repeated sequence that hold nothing but an xsi:nil member"""
    X = ' xmlns:xsi="%s"' % XSI
    for mn, body in (("1", '<f:n>x</f:n><f:o>1</f:o><f:n xsi:nil="true"/><f:n>y</f:n>'), ("1", '<f:n xsi:nil="true"/><f:tail>t</f:tail>'),
                     ("2", '<f:n xsi:nil="true"/><f:n xsi:nil="true"/><f:tail>t</f:tail>'), ("0", '<f:n xsi:nil="true"/><f:n>z</f:n><f:o>0</f:o>')):
        yield ("nil-only-round:min%s:%d" % (mn, len(body)), {"main.xsd": NILROUND % mn}, '<f:root xmlns:f="urn:fam"%s>%s</f:root>' % (X, body), None, None)


UNION_XSD = ('<xs:schema xmlns:xs="http://www.w3.org/2001/XMLSchema" xmlns:t="urn:fam" targetNamespace="urn:fam" elementFormDefault="qualified">'
             '<xs:simpleType name="DorDT"><xs:union memberTypes="xs:date xs:dateTime"/></xs:simpleType>'
             '<xs:simpleType name="DTorD"><xs:union memberTypes="xs:dateTime xs:date"/></xs:simpleType>'
             '<xs:simpleType name="IorB"><xs:union memberTypes="xs:int xs:boolean"/></xs:simpleType>'
             '<xs:simpleType name="BorI"><xs:union memberTypes="xs:boolean xs:int"/></xs:simpleType>'
             '<xs:simpleType name="IorS"><xs:union><xs:simpleType><xs:restriction base="xs:int"/></xs:simpleType><xs:simpleType><xs:restriction base="xs:string"/></xs:simpleType></xs:union></xs:simpleType>'
             '<xs:element name="root"><xs:complexType><xs:sequence>'
             '<xs:element name="a" type="t:DorDT" minOccurs="0" maxOccurs="unbounded"/><xs:element name="b" type="t:DTorD" minOccurs="0" maxOccurs="unbounded"/>'
             '<xs:element name="c" type="t:IorB" minOccurs="0" maxOccurs="unbounded"/><xs:element name="d" type="t:BorI" minOccurs="0" maxOccurs="unbounded"/>'
             '<xs:element name="e" type="t:IorS" minOccurs="0" maxOccurs="unbounded"/></xs:sequence><xs:attribute name="at" type="t:IorB"/></xs:complexType></xs:element></xs:schema>')

# families that concern one property only (label prefix -> properties)
ONLY = {"union-members": ("C02",)}


def union_cases():
    """values of union types whose python class is a subclass of another member's (datetime is a date, bool is an int), both member orders"""
    import datetime
    dt, d = datetime.datetime(2001, 2, 3, 4, 5, 6), datetime.date(2001, 2, 3)
    for field, vals, texts in (("a", [dt, d], ["2001-02-03T04:05:06", "2001-02-03"]), ("b", [d, dt], ["2001-02-03", "2001-02-03T04:05:06"]),
                               ("c", [True, 5, False, 0], ["true", "5", "false", "0"]), ("d", [0, False, 7, True], ["0", "false", "7", "true"]),
                               ("e", [5, "x"], ["5", "x"])):
        ref = '<f:root xmlns:f="urn:fam">%s</f:root>' % "".join("<f:%s>%s</f:%s>" % (field, t, field) for t in texts)
        yield ("union-members:" + field, {"main.xsd": UNION_XSD}, ref, {field: vals}, None)
    yield ("union-members:attribute", {"main.xsd": UNION_XSD}, '<f:root xmlns:f="urn:fam" at="true"/>', {"at": True}, None)


GYEAR_XSD = ('<xs:schema xmlns:xs="http://www.w3.org/2001/XMLSchema" xmlns:t="urn:fam" targetNamespace="urn:fam" elementFormDefault="qualified">'
             '<xs:element name="root"><xs:complexType><xs:sequence><xs:element name="y" type="xs:gYear" minOccurs="0" maxOccurs="unbounded"/>'
             '<xs:element name="ym" type="xs:gYearMonth" minOccurs="0" maxOccurs="unbounded"/></xs:sequence><xs:attribute name="era" type="xs:gYear"/></xs:complexType></xs:element></xs:schema>')


def year_cases():
    """years of every width and sign (the lexical form has at least four digits, the sign not counted)"""
    years = [1, 12, 123, 1234, 12345, -1, -12, -123, -999, -1000, -1234, -12345]

    def lex(y):
        return ("-" if y < 0 else "") + "%04d" % abs(y)
    ref = '<f:root xmlns:f="urn:fam" era="%s">%s%s</f:root>' % (lex(-44), "".join("<f:y>%s</f:y>" % lex(y) for y in years),
                                                                  "".join("<f:ym>%s-03</f:ym>" % lex(y) for y in years))
    yield ("year-widths", {"main.xsd": GYEAR_XSD}, ref, dict(y=[(y, None) for y in years], ym=[(y, 3, None) for y in years], era=(-44, None)), None)


CLASH_XSD = ('<xs:schema xmlns:xs="http://www.w3.org/2001/XMLSchema" xmlns:t="urn:fam" targetNamespace="urn:fam" elementFormDefault="qualified">'
             '<xs:element name="root"><xs:complexType><xs:sequence><xs:element name="k" type="xs:string"/>%s</xs:sequence>'
             '<xs:attribute name="code" type="xs:string"/><xs:attribute name="k2" type="xs:string"/></xs:complexType></xs:element></xs:schema>')


def name_clash_cases():
    """an attribute and an element of the same name in one type, the element at the top of the content model, inside a
    choice, inside an inner sequence, inside a group-like nesting of both"""
    nests = {"top": '<xs:element name="code" type="xs:string" minOccurs="0"/>',
             "in-choice": '<xs:choice><xs:element name="code" type="xs:string"/><xs:element name="other" type="xs:string"/></xs:choice>',
             "in-inner-sequence": '<xs:sequence><xs:element name="code" type="xs:string"/><xs:element name="more" type="xs:string" minOccurs="0"/></xs:sequence>',
             "in-choice-in-sequence": '<xs:sequence><xs:choice><xs:sequence><xs:element name="code" type="xs:string"/></xs:sequence><xs:element name="other" type="xs:string"/></xs:choice></xs:sequence>'}
    for nest, decl in nests.items():
        for attrs, body in ((' code="A"', "<f:k>x</f:k><f:code>E</f:code>"), ("", "<f:k>x</f:k><f:code>E</f:code>"), (' code="A" k2="B"', "<f:k>x</f:k><f:code>E</f:code>")):
            yield ("attribute-element-name-clash:%s:%d" % (nest, len(attrs)), {"main.xsd": CLASH_XSD % decl},
                   '<f:root xmlns:f="urn:fam"%s>%s</f:root>' % (attrs, body), None, None)
        if nest in ("in-choice", "in-choice-in-sequence"):
            yield ("attribute-element-name-clash:%s:other" % nest, {"main.xsd": CLASH_XSD % decl},
                   '<f:root xmlns:f="urn:fam" code="A"><f:k>x</f:k><f:other>o</f:other></f:root>', None, None)


def same_local_name_cases():
    """global elements with one local name in two imported namespaces, referenced (ref=) with identical occurrence bounds"""
    def sub(ns):
        return ('<xs:schema xmlns:xs="http://www.w3.org/2001/XMLSchema" targetNamespace="%s" elementFormDefault="qualified">'
                '<xs:element name="id" type="xs:%s"/><xs:element name="tag" type="xs:string"/></xs:schema>' % (ns, "int" if ns == "urn:a" else "string"))
    main = ('<xs:schema xmlns:xs="http://www.w3.org/2001/XMLSchema" xmlns:a="urn:a" xmlns:b="urn:b" targetNamespace="urn:fam" elementFormDefault="qualified">'
            '<xs:import namespace="urn:a" schemaLocation="a.xsd"/><xs:import namespace="urn:b" schemaLocation="b.xsd"/>'
            '<xs:element name="root"><xs:complexType><xs:sequence>%s</xs:sequence></xs:complexType></xs:element></xs:schema>')
    docs = lambda members: {"main.xsd": main % members, "a.xsd": sub("urn:a"), "b.xsd": sub("urn:b")}    # noqa
    ns = 'xmlns:f="urn:fam" xmlns:a="urn:a" xmlns:b="urn:b"'
    yield ("ref-same-local-name:a-then-b", docs('<xs:element ref="a:id"/><xs:element ref="b:id"/>'), '<f:root %s><a:id>1</a:id><b:id>two</b:id></f:root>' % ns, None, None)
    yield ("ref-same-local-name:b-then-a", docs('<xs:element ref="b:id"/><xs:element ref="a:id"/>'), '<f:root %s><b:id>two</b:id><a:id>1</a:id></f:root>' % ns, None, None)
    yield ("ref-same-local-name:repeated", docs('<xs:element ref="a:tag" minOccurs="0" maxOccurs="unbounded"/><xs:element ref="b:tag" minOccurs="0" maxOccurs="unbounded"/>'),
           '<f:root %s><a:tag>x</a:tag><a:tag>y</a:tag><b:tag>z</b:tag></f:root>' % ns, None, None)


INLINE_XSD = ('<xs:schema xmlns:xs="http://www.w3.org/2001/XMLSchema" xmlns:t="urn:fam" targetNamespace="urn:fam" elementFormDefault="qualified">'
              '<xs:complexType name="A"><xs:sequence><xs:element name="code"><xs:simpleType><xs:restriction base="xs:string"><xs:maxLength value="8"/></xs:restriction></xs:simpleType></xs:element>'
              '<xs:element name="when"><xs:simpleType><xs:restriction base="xs:dateTime"/></xs:simpleType></xs:element></xs:sequence>'
              '<xs:attribute name="flag"><xs:simpleType><xs:restriction base="xs:string"/></xs:simpleType></xs:attribute></xs:complexType>'
              '<xs:complexType name="B"><xs:sequence><xs:element name="code"><xs:simpleType><xs:restriction base="xs:int"><xs:maxInclusive value="999"/></xs:restriction></xs:simpleType></xs:element>'
              '<xs:element name="when"><xs:simpleType><xs:restriction base="xs:time"/></xs:simpleType></xs:element></xs:sequence>'
              '<xs:attribute name="flag"><xs:simpleType><xs:restriction base="xs:boolean"/></xs:simpleType></xs:attribute></xs:complexType>'
              '<xs:complexType name="C"><xs:sequence><xs:element name="code"><xs:simpleType><xs:restriction base="xs:decimal"/></xs:simpleType></xs:element></xs:sequence></xs:complexType>'
              '<xs:element name="root"><xs:complexType><xs:sequence>%s</xs:sequence></xs:complexType></xs:element></xs:schema>')


def inline_type_cases():
    """local declarations that share a NAME (an anonymous simple type is named after its element / attribute) but restrict
    different builtins: each keeps its own lexical rules, in every declaration order"""
    import datetime
    import decimal
    members = {"a": '<xs:element name="a" type="t:A"/>', "b": '<xs:element name="b" type="t:B"/>', "c": '<xs:element name="c" type="t:C"/>'}
    docs = {"a": '<f:a flag="0"><f:code>007</f:code><f:when>2001-02-03T04:05:06</f:when></f:a>',
            "b": '<f:b flag="false"><f:code>7</f:code><f:when>08:30:00</f:when></f:b>',
            "c": '<f:c><f:code>100.50</f:code></f:c>'}
    vals = {"a": dict(code="007", when=datetime.datetime(2001, 2, 3, 4, 5, 6), flag="0"),
            "b": dict(code=7, when=datetime.time(8, 30), flag=False), "c": dict(code=decimal.Decimal("100.50"))}
    for order in ("abc", "bac", "cba", "bca"):
        yield ("same-name-inline-types:" + order, {"main.xsd": INLINE_XSD % "".join(members[k] for k in order)},
               '<f:root xmlns:f="urn:fam">%s</f:root>' % "".join(docs[k] for k in order), {k: vals[k] for k in order}, None)


def all_same_local_name_cases():
    """an xsd:all whose members share a local name in two namespaces, the document in both orders"""
    def sub(ns):
        return ('<xs:schema xmlns:xs="http://www.w3.org/2001/XMLSchema" targetNamespace="%s" elementFormDefault="qualified">'
                '<xs:element name="item" type="xs:string"/></xs:schema>' % ns)
    main = ('<xs:schema xmlns:xs="http://www.w3.org/2001/XMLSchema" xmlns:a="urn:a" xmlns:b="urn:b" targetNamespace="urn:fam" elementFormDefault="qualified">'
            '<xs:import namespace="urn:a" schemaLocation="a.xsd"/><xs:import namespace="urn:b" schemaLocation="b.xsd"/>'
            '<xs:element name="root"><xs:complexType><xs:all><xs:element ref="a:item"/><xs:element ref="b:item"/><xs:element name="local" type="xs:string" minOccurs="0"/></xs:all></xs:complexType></xs:element></xs:schema>')
    docs = {"main.xsd": main, "a.xsd": sub("urn:a"), "b.xsd": sub("urn:b")}
    ns = 'xmlns:f="urn:fam" xmlns:a="urn:a" xmlns:b="urn:b"'
    for label, body in (("ab", "<a:item>A</a:item><b:item>B</b:item>"), ("ba", "<b:item>B</b:item><a:item>A</a:item>"),
                        ("bla", "<b:item>B</b:item><f:local>l</f:local><a:item>A</a:item>"), ("lab", "<f:local>l</f:local><a:item>A</a:item><b:item>B</b:item>")):
        # the document in its own order is valid; zeep re-renders xsd:all members in declaration order, so only acceptance
        # and the decoded values are judged here (C03 acceptance), not the re-serialisation
        yield ("all-same-local-name:" + label, docs, '<f:root %s>%s</f:root>' % (ns, body), None, None)


ANY_XSD = ('<xs:schema xmlns:xs="http://www.w3.org/2001/XMLSchema" xmlns:t="urn:fam" targetNamespace="urn:fam" elementFormDefault="qualified">'
           '<xs:element name="note"><xs:complexType><xs:sequence><xs:element name="text" type="xs:string" minOccurs="0"/><xs:element name="level" type="xs:int" minOccurs="0"/></xs:sequence>'
           '<xs:attribute name="lang" type="xs:string"/></xs:complexType></xs:element>'
           '<xs:element name="ping"><xs:complexType/></xs:element>'
           '<xs:element name="root"><xs:complexType><xs:sequence><xs:element name="id" type="xs:int"/><xs:element name="tail" type="xs:string"/><xs:any %s/></xs:sequence></xs:complexType></xs:element></xs:schema>')


def any_marker_cases():
    """wildcard content that is a declared element with nothing set (a marker): every item written is read back, in order.
    (An element of an EMPTY complex type in the slot is finding K8: `ComplexType.parse_xmlelement` returns None for it.)"""
    shapes = [("bare", "<f:note/>", lambda zs: zs.get_element("{urn:fam}note")()),
              ("attr", '<f:note lang="en"/>', lambda zs: zs.get_element("{urn:fam}note")(lang="en")),
              ("full", "<f:note><f:text>x</f:text><f:level>2</f:level></f:note>", lambda zs: zs.get_element("{urn:fam}note")(text="x", level=2)),
              ("ping", "<f:ping/>", lambda zs: zs.get_element("{urn:fam}ping")())]
    names = {"bare": "note", "attr": "note", "full": "note", "ping": "ping"}

    def mk(kinds, many, tail):
        def build(zs):
            z = _zeep()
            items = [z.xsd.AnyObject(zs.get_element("{urn:fam}" + names[k]), dict((n, f) for n, _x, f in shapes)[k](zs)) for k in kinds]
            d = {"id": 1, "_value_1": items if many else items[0]}
            d["tail"] = "t" if tail else "u"
            return d
        return build
    for kinds, many in ((["bare"], False), (["full"], False), (["bare", "attr", "full"], True), (["full", "bare", "attr", "bare"], True), (["bare", "bare"], True)):
        for tail in (False, True):
            body = "".join(dict((n, x) for n, x, _f in shapes)[k] for k in kinds)
            ref = '<f:root xmlns:f="urn:fam"><f:id>1</f:id>%s%s</f:root>' % ("<f:tail>%s</f:tail>" % ("t" if tail else "u"), body)
            xsd = ANY_XSD % ('minOccurs="0" maxOccurs="unbounded"' if many else "")
            yield ("any-marker-elements:%s%s" % ("+".join(kinds), ":tail" if tail else ""), {"main.xsd": xsd}, ref, None, mk(kinds, many, tail))


def nillable_spelling_cases():
    """nillable is an xsd:boolean: `1` and `true` both say a required element may be sent as xsi:nil"""
    for sp in ("true", "1"):
        for kind, ty in (("leaf", 'type="xs:string"'), ("record", 'type="t:R"')):
            xsd = ('<xs:schema xmlns:xs="http://www.w3.org/2001/XMLSchema" xmlns:t="urn:fam" targetNamespace="urn:fam" elementFormDefault="qualified">'
                   '<xs:complexType name="R"><xs:sequence><xs:element name="x" type="xs:string"/></xs:sequence></xs:complexType>'
                   '<xs:element name="root"><xs:complexType><xs:sequence><xs:element name="a" type="xs:string"/><xs:element name="r" %s nillable="%s"/>'
                   '</xs:sequence></xs:complexType></xs:element></xs:schema>' % (ty, sp))
            ref = ('<f:root xmlns:f="urn:fam"><f:a>A</f:a><f:r xmlns:xsi="http://www.w3.org/2001/XMLSchema-instance" xsi:nil="true"/></f:root>')
            yield ("nillable-spellings:%s:%s" % (sp, kind), {"main.xsd": xsd}, ref, {"a": "A", "r": None}, None)


ACCEPT_ONLY = ("all-same-local-name",)
# (property, family) -> (finding id, the text that identifies it)
KNOWN = {("C03", "any-marker-elements"): ("K17", "re-serialising the decoded value raises TypeError: Any element received object")}


def all_cases():
    yield from nillable_spelling_cases()
    yield from any_marker_cases()
    yield from inline_type_cases()
    yield from all_same_local_name_cases()
    yield from name_clash_cases()
    yield from same_local_name_cases()
    yield from union_cases()
    yield from year_cases()
    yield from redeclared_name_cases()
    yield from xsitype_prefix_cases()
    yield from nil_round_cases()
    yield from choice_nillable_cases()
    yield from include_forms_cases()
    yield from restriction_cases()
    yield from choice_optional_start_cases()


def make_transport(docs):
    z = _zeep()

    class T(z.transports.Transport):
        def load(self, url):
            name = url.rsplit("/", 1)[-1]
            return docs[name].encode()
    return T()


def canon_value(v):
    """zeep value object / python value -> comparable plain structure (type name kept for complex values)"""
    if type(v).__name__ == "AnyObject":
        return canon_value(v.value)     # wildcard content reads back as the value of the declared element
    if hasattr(v, "__values__"):
        d = {k: canon_value(x) for k, x in v.__values__.items() if x is not None and x != []}
        tn = getattr(getattr(v, "_xsd_type", None), "name", None)
        if tn:
            d["__type__"] = tn
        return d
    if isinstance(v, dict):
        return {k: canon_value(x) for k, x in v.items() if x is not None and x != []}
    if isinstance(v, (list, tuple)):
        return [canon_value(x) for x in v]
    return v


def expected_value(value, typed):
    if isinstance(value, dict):
        out = {k: expected_value(x, typed) for k, x in value.items() if k != "__type__" and x is not None}
        if typed and "__type__" in value:
            out["__type__"] = value["__type__"]
        return out
    if isinstance(value, (list, tuple)):
        return [expected_value(x, typed) for x in value]
    return value


def strip_types(v):
    if isinstance(v, dict):
        return {k: strip_types(x) for k, x in v.items() if k != "__type__"}
    if isinstance(v, list):
        return [strip_types(x) for x in v]
    return v


def check_case(label, docs, ref_text, value, build, prop):
    """returns a list of failure texts for the property `prop` (C01 / C02 / C03)"""
    z = _zeep()
    fails = []
    tmp = tempfile.mkdtemp(prefix="zeepverif-md-")
    try:
        for n, t in docs.items():
            open(os.path.join(tmp, n), "w").write(t)
        validator = etree.XMLSchema(etree.parse(os.path.join(tmp, "main.xsd")))
        ref = etree.fromstring(ref_text.encode())
        if not validator.validate(ref):
            return ["HARNESS: hand-written reference rejected by libxml2 (%s): %s" % (label, validator.error_log.last_error)]
        zs = z.xsd.Schema(etree.fromstring(docs["main.xsd"].encode()), transport=make_transport(docs), location="http://h.example/s/main.xsd")
        root = zs.get_element("{urn:fam}root")
        typed = build is not None
        if value is None and build is not None:
            value = canon_value(build(zs))     # the expectation is the value handed in, in comparable form
        if value is None:
            # document-driven case: strict acceptance and re-serialisation (C03); the decoded value renders to a valid document
            # that decodes to the same value again (C01, C02)
            try:
                v = root.parse(etree.fromstring(ref_text.encode()), zs)
                parent = etree.Element("p")
                root.render(parent, v)
                out = parent[0]
            except Exception as e:  # noqa
                return ["valid document refused in strict mode: %s: %s" % (type(e).__name__, e)] if prop == "C03" else []
            if prop == "C03" and label.split(":")[0] in ACCEPT_ONLY:
                texts = sorted(t for t in ref.itertext() if t.strip())
                if sorted(t for t in out.itertext() if t.strip()) != texts:
                    fails.append("the decoded value lost or changed content: %s" % etree.tostring(out).decode()[:300])
            elif prop == "C03" and xmlcanon.node(out) != xmlcanon.node(ref):
                fails.append("re-serialising the decoded value does not reproduce the document: %s" % etree.tostring(out).decode()[:300])
            if prop == "C02" and not validator.validate(out):
                fails.append("emitted XML is rejected by libxml2: %s" % validator.error_log.last_error)
            if prop == "C01":
                try:
                    v2 = root.parse(etree.fromstring(etree.tostring(out)), zs)
                    if canon_value(v2) != canon_value(v):
                        fails.append("value read back differs from the value rendered: %r vs %r" % (canon_value(v2), canon_value(v)))
                except Exception as e:  # noqa
                    fails.append("the emitted XML cannot be decoded again (%s: %s)" % (type(e).__name__, e))
            return fails
        try:
            kwargs = build(zs) if build else value
        except Exception as e:  # noqa
            return ["a conforming value is refused at construction: %s: %s" % (type(e).__name__, e)] if prop in ("C01", "C02") else []
        # render
        try:
            parent = etree.Element("p")
            root.render(parent, root(**kwargs))
            out = parent[0]
        except Exception as e:  # noqa
            return ["a conforming value is refused: %s: %s" % (type(e).__name__, e)] if prop in ("C01", "C02") else []
        same = xmlcanon.node(out) == xmlcanon.node(ref)
        if prop == "C02":
            if not validator.validate(out):
                fails.append("emitted XML is rejected by libxml2: %s" % validator.error_log.last_error)
            elif not same:
                fails.append("emitted XML differs from the reference serialisation: %s vs %s" % (etree.tostring(out).decode()[:300], ref_text[:300]))
        if prop == "C01":
            try:
                back = canon_value(root.parse(etree.fromstring(etree.tostring(out)), zs))
                back.pop("__type__", None)
                exp = expected_value(value, typed)
                if (back if typed else strip_types(back)) != exp:
                    fails.append("value read back differs from the value supplied: %r vs %r" % (back, exp))
            except Exception as e:  # noqa
                fails.append("the emitted XML cannot be decoded again (%s: %s)" % (type(e).__name__, e))
        if prop == "C03":
            try:
                v = root.parse(etree.fromstring(ref_text.encode()), zs)
                back = canon_value(v)
                back.pop("__type__", None)
                exp = expected_value(value, typed)
                if (back if typed else strip_types(back)) != exp:
                    fails.append("valid document decodes to %r, it denotes %r" % (back, exp))
                else:
                    parent = etree.Element("p")
                    try:
                        root.render(parent, v)
                    except Exception as e:  # noqa
                        fails.append("re-serialising the decoded value raises %s: %s" % (type(e).__name__, str(e)[:200]))
                        return fails
                    if xmlcanon.node(parent[0]) != xmlcanon.node(ref):
                        fails.append("re-serialising the decoded value does not reproduce the document: %s" % etree.tostring(parent[0]).decode()[:300])
            except Exception as e:  # noqa
                fails.append("valid document refused in strict mode: %s: %s" % (type(e).__name__, e))
    finally:
        shutil.rmtree(tmp, ignore_errors=True)
    return fails


def _seq_docs():
    main = ('<xs:schema xmlns:xs="http://www.w3.org/2001/XMLSchema" xmlns:t="urn:fam" targetNamespace="urn:fam" elementFormDefault="qualified">'
            '<xs:import namespace="urn:a" schemaLocation="a.xsd"/><xs:import namespace="urn:b" schemaLocation="b.xsd"/>'
            '<xs:complexType name="Base"><xs:sequence><xs:element name="label" type="xs:string"/></xs:sequence></xs:complexType>'
            '<xs:element name="root"><xs:complexType><xs:sequence><xs:element name="item" type="t:Base" maxOccurs="unbounded"/></xs:sequence></xs:complexType></xs:element></xs:schema>')

    def sub(ns, extra):
        return ('<xs:schema xmlns:xs="http://www.w3.org/2001/XMLSchema" xmlns:f="urn:fam" targetNamespace="%s" elementFormDefault="qualified">'
                '<xs:import namespace="urn:fam" schemaLocation="main.xsd"/>'
                '<xs:complexType name="Shape"><xs:complexContent><xs:extension base="f:Base"><xs:sequence><xs:element name="%s" type="xs:int" minOccurs="0"/></xs:sequence>'
                '<xs:attribute name="%sattr" type="xs:string"/></xs:extension></xs:complexContent></xs:complexType></xs:schema>' % (ns, extra, extra))
    return {"main.xsd": main, "a.xsd": sub("urn:a", "ra"), "b.xsd": sub("urn:b", "rb")}


def run_sequences(res, prop):
    """several documents decoded one after the other with ONE compiled schema: what a prefix means is decided by each document
    (the same prefix bound to another namespace in the next one); every step must give what a freshly compiled schema gives"""
    z = _zeep()
    docs = _seq_docs()

    def load():
        return z.xsd.Schema(etree.fromstring(docs["main.xsd"].encode()), transport=make_transport(docs), location="http://h.example/s/main.xsd")

    def doc(which, prefix):
        ns, extra = ("urn:a", "ra") if which == "a" else ("urn:b", "rb")
        return ('<f:root xmlns:f="urn:fam" xmlns:xsi="%s" xmlns:%s="%s"><f:item xsi:type="%s:Shape" %sattr="v"><f:label>%s</f:label><%s:%s>7</%s:%s></f:item></f:root>'
                % (XSI, prefix, ns, prefix, extra, which, prefix, extra, prefix, extra))
    for order in (["a", "b"], ["b", "a"], ["a", "b", "a"], ["b", "b", "a"]):
        shared = load()
        root = shared.get_element("{urn:fam}root")
        for i, which in enumerate(order):
            case = dict(kind="multidoc-sequence", order=order, step=i)
            res.case(key=("multidoc-seq", tuple(order), i, prop), nontrivial=True)
            res.count("family:documents-in-sequence")
            fresh = load()
            froot = fresh.get_element("{urn:fam}root")
            if prop in ("C03", "C02"):
                text = doc(which, "p")
                try:
                    want = canon_value(froot.parse(etree.fromstring(text.encode()), fresh))
                except Exception as e:  # noqa
                    res.failures.append(dict(what="HARNESS: fresh schema refuses the hand-written document: %s" % e, case=case))
                    break
                try:
                    got = canon_value(root.parse(etree.fromstring(text.encode()), shared))
                except Exception as e:  # noqa
                    got = "%s: %s" % (type(e).__name__, e)
                if got != want:
                    res.failures.append(dict(what="step %d: a valid document decodes to %r with a schema that decoded other documents before, to %r with a fresh one"
                                             % (i, got, want), case=dict(case, document=text)))
                    break
            else:
                ns, extra = ("urn:a", "ra") if which == "a" else ("urn:b", "rb")
                try:
                    def roundtrip(zs, el):
                        v = el(item=[zs.get_type("{%s}Shape" % ns)(**{"label": which, extra: 7, extra + "attr": "v"})])
                        parent = etree.Element("p")
                        el.render(parent, v)
                        return canon_value(el.parse(etree.fromstring(etree.tostring(parent[0])), zs))
                    want = roundtrip(fresh, froot)
                    try:
                        got = roundtrip(shared, root)
                    except Exception as e:  # noqa
                        got = "%s: %s" % (type(e).__name__, e)
                    if got != want:
                        res.failures.append(dict(what="step %d: the value read back is %r with a schema that handled other values before, %r with a fresh one" % (i, got, want), case=case))
                        break
                except Exception as e:  # noqa
                    res.failures.append(dict(what="HARNESS: fresh schema round trip raised %s: %s" % (type(e).__name__, e), case=case))
                    break


def run_family(res, prop):
    run_sequences(res, prop)
    for label, docs, ref_text, value, build in all_cases():
        if prop not in ONLY.get(label.split(":")[0], (prop,)):
            continue
        res.case(key=("multidoc", label, prop), nontrivial=True)
        res.count("family:" + label.split(":")[0])
        for f in check_case(label, docs, ref_text, value, build, prop):
            rec = dict(what=f, case=dict(kind="multidoc", label=label, docs=docs, reference=ref_text))
            known = KNOWN.get((prop, label.split(":")[0]))
            if known and known[1] in f:
                rec["known"] = known[0]
                res.known_hits[known[0]] = res.known_hits.get(known[0], 0) + 1
            res.failures.append(rec)


def replay(prop, case):
    if case.get("kind") == "multidoc-sequence":
        from harness.core import Result
        r = Result()
        run_sequences(r, prop)
        bad = [f for f in r.failures if f["case"].get("order") == case.get("order")]
        return (not bad), "document sequence rerun: %s" % (bad[0]["what"] if bad else "holds")
    for label, docs, ref_text, value, build in all_cases():
        if label == case.get("label"):
            fails = check_case(label, docs, ref_text, value, build, prop)
            return (not fails), "multidoc %s: %s" % (label, fails[0] if fails else "holds")
    return True, "unknown multidoc label"
