"""Engine A tie: run zeep's XSD decoder / renderer and the Lean model on the same inputs."""
import collections
import json
import random
import sys

from lxml import etree

from harness import xsdgen, xmlcanon

XSI = xsdgen.XSI


def _zeep():
    import zeep
    import zeep.xsd
    import zeep.exceptions
    import zeep.settings
    return zeep


class Case:
    """one generated schema with everything needed to drive both sides"""

    def __init__(self, seed, profile="core", src=None):
        z = _zeep()
        self.seed = seed
        self.profile = profile
        self.rng = random.Random("A-%s-%s" % (profile, seed))
        self.src = src if src is not None else xsdgen.Gen(self.rng, profile).schema()
        self.xsd = xsdgen.print_schema(self.src)
        self.validator = xsdgen.validator(self.xsd)
        self.schemas = {}
        for strict in (True, False):
            zs = z.xsd.Schema(etree.fromstring(self.xsd.encode()), settings=z.settings.Settings(strict=strict))
            self.schemas[strict] = (zs, zs.get_element("{%s}root" % xsdgen.TNS))

    def model_type(self, depth):
        zs, root = self.schemas[True]
        return xsdgen.dump_type(root.type, depth)

    def documents(self, n):
        out = []
        for _ in range(n):
            g = xsdgen.Inst(self.src, self.rng)
            d = g.document()
            if g.used_xsitype:
                d.set("data-xsitype", "1")      # marker read (and removed) by the checks: not sent to the model
            out.append(d)
        return out


# ---------------------------------------------------------------------------- implementation side

_PARSE_CODES = None


def parse_codes():
    global _PARSE_CODES
    if _PARSE_CODES is None:
        from zeep.xsd.elements import element, indicators, any as any_
        from zeep.xsd.types import complex as cx, simple, any as tany
        codes = set()
        for cls in (element.Element, indicators.Sequence, indicators.Choice, indicators.All, indicators.Group, any_.Any):
            codes.add(cls.parse_xmlelements.__code__)
        for cls in (cx.ComplexType, simple.AnySimpleType, tany.AnyType):
            codes.add(cls.parse_xmlelement.__code__)
        _PARSE_CODES = codes
    return _PARSE_CODES


def impl_parse(case, doc, strict, count_calls=True, budget=2000000):
    """returns dict(outcome='ok'|error class, value=canonical, calls=int, events=int)"""
    z = _zeep()
    zs, root = case.schemas[strict]
    codes = parse_codes()
    counter = [0, 0]

    class Budget(Exception):
        pass

    def prof(frame, event, arg):
        if event == "call":
            counter[1] += 1
            if frame.f_code in codes:
                counter[0] += 1
            # an exception raised while a generator frame is being resumed is swallowed by CPython ("Exception ignored
            # in generator") and the profiler is switched off: raise only on ordinary function calls
            if counter[1] > budget and not (frame.f_code.co_flags & 0x20):
                raise Budget()
    import signal

    def on_alarm(signum, frm):
        raise Budget()
    old_handler = signal.signal(signal.SIGALRM, on_alarm)
    signal.alarm(30)          # wall-clock backstop
    try:
        if count_calls:
            sys.setprofile(prof)
        try:
            v = root.parse(doc, zs)
        finally:
            sys.setprofile(None)
            signal.alarm(0)
            signal.signal(signal.SIGALRM, old_handler)
        return dict(outcome="ok", value=canon_value(v), calls=counter[0], events=counter[1], obj=v)
    except Budget:
        return dict(outcome="BUDGET", calls=counter[0], events=counter[1])
    except z.exceptions.XMLParseError:
        return dict(outcome="XMLParseError", calls=counter[0], events=counter[1])
    except z.exceptions.UnexpectedElementError:
        return dict(outcome="UnexpectedElementError", calls=counter[0], events=counter[1])
    except TypeError as e:
        return dict(outcome="TypeError", calls=counter[0], events=counter[1], msg=str(e)[:120])
    except RecursionError:
        return dict(outcome="RecursionError", calls=counter[0], events=counter[1])
    except Exception as e:  # noqa
        return dict(outcome="Other:" + type(e).__name__, calls=counter[0], events=counter[1], msg=str(e)[:120])


def budgeted(fn, budget, wall=20):
    """run fn() counting interpreter call events (Python and C calls); returns (outcome, events, value or exception)"""
    counter = [0]

    class Budget(BaseException):
        pass

    def prof(frame, event, arg):
        if event in ("call", "c_call"):
            counter[0] += 1
            if counter[0] > budget and not (frame.f_code.co_flags & 0x20):
                raise Budget()
    import signal

    def on_alarm(signum, frm):
        raise Budget()
    old_handler = signal.signal(signal.SIGALRM, on_alarm)
    signal.alarm(wall)
    try:
        sys.setprofile(prof)
        try:
            v = fn()
        finally:
            sys.setprofile(None)
            signal.alarm(0)
            signal.signal(signal.SIGALRM, old_handler)
        return "ok", counter[0], v
    except Budget:
        return "BUDGET", counter[0], None
    except RecursionError as e:
        return "RecursionError", counter[0], e
    except Exception as e:  # noqa
        return type(e).__name__, counter[0], e


def canon_value(v):
    """zeep value -> plain python (dict / list / str / None); lxml elements -> canonical nodes"""
    from zeep.xsd.valueobjects import CompoundValue
    if isinstance(v, CompoundValue):
        return {k: canon_value(x) for k, x in v.__values__.items()}
    if isinstance(v, dict):
        return {k: canon_value(x) for k, x in v.items()}
    if isinstance(v, tuple) and v and (v[-1] is None or hasattr(v[-1], "utcoffset")):
        return lex_of_gtype(v)
    if isinstance(v, (list, tuple, collections.deque)):
        return [canon_value(x) for x in v]
    if isinstance(v, etree._Element):
        return {"__xml__": xmlcanon.node(v, strip_ws=False)}
    return lex_of_native(v)


def lex_of_gtype(v):
    """(year, tz) / (month, day, tz): the value tuples of gYear / gMonthDay, in canonical lexical form"""
    tz = v[-1]
    if tz is None:
        z = ""
    else:
        minutes = int(tz.utcoffset(None).total_seconds() // 60)
        z = "Z" if minutes == 0 else "%s%02d:%02d" % ("-" if minutes < 0 else "+", abs(minutes) // 60, abs(minutes) % 60)
    if len(v) == 2:
        return "%04d%s" % (v[0], z)
    return "--%02d-%02d%s" % (v[0], v[1], z)


def lex_of_native(v):
    """canonical lexical form of a decoded leaf (the forms harness/valgen.py VLEAVES lists)"""
    import base64
    import datetime
    if v is None:
        return None
    if isinstance(v, bool):
        return "true" if v else "false"
    if isinstance(v, bytes):
        return base64.b64encode(v).decode()
    if isinstance(v, float):
        return {"inf": "INF", "-inf": "-INF", "nan": "NaN"}.get(repr(v), repr(v))
    if isinstance(v, (datetime.datetime, datetime.date)):
        return v.isoformat()
    return str(v)


def impl_render(case, value_obj, strict=True):
    """render a zeep value object with the root element; returns canonical node or error class"""
    z = _zeep()
    zs, root = case.schemas[strict]
    parent = etree.Element("parent")
    try:
        root.render(parent, value_obj)
        return dict(outcome="ok", node=parent[0])
    except z.exceptions.ValidationError as e:
        return dict(outcome="ValidationError", msg=str(e)[:120])
    except Exception as e:  # noqa
        return dict(outcome="Other:" + type(e).__name__, msg=str(e)[:160])


# ---------------------------------------------------------------------------- all-aware canonical documents

def canon_doc(node, ty):
    """canonical form of an instance document under the (dumped) type: children of an xsd:all are order-free"""
    d = xmlcanon.node(node, strip_ws=True)
    return _canon_under(d, ty)


def _elem_decls(p, out):
    if p is None:
        return
    k = p["k"]
    if k == "elem":
        out.setdefault(p["q"][1], p)
    elif k in ("seq", "choice", "all"):
        for c in p["ps"]:
            _elem_decls(c, out)
    elif k == "group":
        _elem_decls(p["p"], out)


def _canon_under(d, ty):
    if ty is None or ty.get("k") != "complex" or not ty.get("content"):
        return d
    decls = {}
    _elem_decls(ty["content"], decls)
    kids = []
    for k in d["k"]:
        decl = decls.get(k["t"][1])
        kids.append(_canon_under(k, decl["ty"]) if decl else k)
    if ty["content"]["k"] == "all":
        kids = sorted(kids, key=lambda x: (x["t"][0] or "", x["t"][1], json.dumps(x, sort_keys=True)))
    return dict(d, k=kids)


# ---------------------------------------------------------------------------- model instance -> zeep-shaped value

def multiple(p):
    return p["max"] != 1


def default_fields(p, out):
    """default value entries zeep's value object pre-fills for particle p placed in a complex type / sequence"""
    k = p["k"]
    n = p.get("n")
    if k == "elem":
        out[n] = [] if multiple(p) else None
    elif k == "any":
        out[n] = [] if multiple(p) else None
    elif k in ("seq", "all", "choice", "group"):
        if n is not None:
            # repeating container: the default is an empty list
            out[n] = []
        else:
            for c in (p["ps"] if k != "group" else [p["p"]]):
                default_fields(c, out)


def _lst(flag, text):
    """a list-typed leaf decodes to the list of its items"""
    if flag and text is not None:
        return text.split()
    return text


def item_value(ty, item):
    if "leaf" in item:
        return _lst(ty.get("list"), item["leaf"])
    if "none" in item:
        return None
    if "any" in item:
        return {"__xml__": item["any"]}
    if "sc" in item:
        out = {ty.get("valname", "_value_1"): _lst(ty.get("list"), item["sc"])}
        for a in ty["attrs"]:
            out[a["attr"]] = None
        for q, v in item["attrs"]:
            for a in ty["attrs"]:
                if a["q"] == q:
                    out[a["attr"]] = _lst(a.get("list"), v)
        return out
    # complex
    out = collections.OrderedDict()
    if ty.get("content"):
        default_fields(ty["content"], out)
    for a in ty["attrs"]:
        out[a["attr"]] = None
    if item.get("content") is not None and ty.get("content"):
        fields = inst_fields(ty["content"], item["content"], top=True)
        top = ty["content"]
        if top["k"] == "choice" and not multiple(top):
            # Choice.parse_kwargs: when no branch carries a value the value object gets no element field at all
            def has_value(v):
                # indicators._has_value: None and empty lists / plain dicts are not values; a value object (what a dict
                # stands for here: the decoded item of a complex type) is, even when all of its fields are empty
                return v is not None and v != []
            if not any(has_value(v) for k_, v in fields.items() if k_ != "_raw_elements"):
                for k_ in list(out):
                    if k_ not in [a["attr"] for a in ty["attrs"]]:
                        del out[k_]
                fields = {k_: v for k_, v in fields.items() if k_ == "_raw_elements"}
        out.update(fields)
    for q, v in item["attrs"]:
        for a in ty["attrs"]:
            if a["q"] == q:
                out[a["attr"]] = _lst(a.get("list"), v)
    if item.get("raw"):
        out["_raw_elements"] = [{"__xml__": n} for n in item["raw"]]
    return dict(out)


def inst_fields(p, inst, top=False):
    """fields contributed by particle p (with its generated name p['n']) for the model instance"""
    k = p["k"]
    n = p.get("n")
    if "failed" in inst:
        return {n: None} if n else {}
    if k == "elem":
        vals = [item_value(p["ty"], it) for it in inst["elems"]]
        return {n: vals if multiple(p) else (vals[0] if vals else None)}
    if k == "any":
        vals = [{"__xml__": x} for x in inst["wild"]]
        return {n: vals if multiple(p) else (vals[0] if vals else None)}
    if k == "seq":
        rounds = inst["seq"]
        if multiple(p):
            items = []
            for r in rounds:
                d = {}
                for c, ci in zip(p["ps"], r):
                    d.update(inst_fields(c, ci))
                items.append(d)
            return {n: items}
        d = {}
        if rounds:
            for c, ci in zip(p["ps"], rounds[0]):
                d.update(inst_fields(c, ci))
        return d
    if k == "choice":
        rounds = inst["choice"]
        if multiple(p):
            items = []
            for i, ci in rounds:
                items.append(inst_fields(p["ps"][i], ci))
            return {n: items}
        d = {}
        if rounds:
            i, ci = rounds[0]
            d.update(inst_fields(p["ps"][i], ci))
        return d
    if k == "all":
        d = {}
        for c, ci in zip(p["ps"], inst["all"]):
            if ci.get("elems") == [] and not multiple(c):
                continue
            d.update(inst_fields(c, ci))
        if inst.get("other"):
            d["_raw_elements"] = [{"__xml__": x} for x in inst["other"]]
        return d
    if k == "group":
        rounds = inst["group"]
        if multiple(p):
            return {n: [inst_fields(dict(p["p"], n=None), r) for r in rounds]}
        return inst_fields(dict(p["p"]), rounds[0]) if rounds else {}
    raise ValueError(k)


# ---------------------------------------------------------------------------- known-finding classes (genuine zeep behaviour)

def classify_doc(case, doc):
    """classes of known findings a valid instance document falls into"""
    cls = set()
    info = {}

    def walk(p, in_choice):
        if p["k"] == "elem":
            info.setdefault(p["name"], (p, in_choice))
        elif p["k"] in ("seq", "choice", "all"):
            for i in p["items"]:
                walk(i, in_choice or p["k"] == "choice")
    for t in case.src["types"].values():
        if t.get("content"):
            walk(t["content"], False)
    for e in doc.iter():
        ln = etree.QName(e.tag).localname
        if ln in info:
            p, inch = info[ln]
            if e.get("{%s}nil" % XSI) == "true" and (inch or p["min"] == 0 or p["max"] != 1):
                cls.add("K14")
            if p["type"] not in xsdgen.LEAVES and len(e) == 0 and not e.attrib and case.src["types"][p["type"]]["kind"] == "complex":
                cls.add("K8")
            if p["type"] in xsdgen.LEAVES and (e.text is None or e.text == "") and e.get("{%s}nil" % XSI) != "true":
                cls.add("K7")
    return cls


# ---------------------------------------------------------------------------- render side (C01 / C02 / C12)

class VCase(Case):
    """a schema of the values profile with zeep's keyword names recorded on the source AST"""

    def __init__(self, seed, profile="values", src=None):
        from harness import valgen
        rng = random.Random("V-%s-%s" % (profile, seed))
        if src is None:
            src = valgen.VGen(rng, profile).schema()
        super().__init__(seed, profile, src=src)
        self.rng = rng
        valgen.annotate(self.src, self.schemas[True][0])

    def value(self, j):
        """the j-th value of this schema: (value, features, the PRNG every later choice for this value is drawn from)"""
        from harness import valgen
        rng = random.Random("val-%s-%s-%s" % (self.profile, self.seed, j))
        g = valgen.Val(self.src, rng)
        st = g.root()
        return st, g.features, rng


def roundtrip(case, st, style="mixed", rng=None):
    """construct -> render -> (validate) -> parse on the implementation.
    returns dict(stage=..., error=...) or dict(stage='done', node, obj_in, obj_out, kwargs)"""
    from harness import valgen
    z = _zeep()
    zs, root = case.schemas[True]
    caller = valgen.Caller(case.src, zs, rng or case.rng, style)
    out = {}
    try:
        kwargs = caller.struct_fields(st)
        out["kwargs"] = valgen.canon(kwargs)
        obj_in = root(**kwargs)
    except Exception as e:  # noqa
        return dict(out, stage="construct", error="%s: %s" % (type(e).__name__, str(e)[:200]))
    rr = impl_render(case, obj_in)
    if rr["outcome"] != "ok":
        return dict(out, stage="render", error="%s: %s" % (rr["outcome"], rr.get("msg")))
    node = rr["node"]
    out["node"] = node
    try:
        obj_out = root.parse(copy_node(node), zs)
    except Exception as e:  # noqa
        return dict(out, stage="parse", error="%s: %s" % (type(e).__name__, str(e)[:200]))
    return dict(out, stage="done", obj_in=obj_in, obj_out=obj_out)


def copy_node(node):
    """what travels over the wire: serialise and parse again"""
    return etree.fromstring(etree.tostring(node))
