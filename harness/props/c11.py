"""C11 — builtin simple types: tie between lean/ZeepModel/Lex/*.lean and zeep.xsd.types.builtins."""
import datetime
import decimal
import math
import struct

from lxml import etree

from harness.core import Result

LEAN_MODULES = ["ZeepProofs.C11"]
NS = "Zeep.C11."
THEOREMS = [NS + t for t in (
    "int_rt", "int_variants", "tz_roundtrip", "tz_variants", "gyear_rt", "gyearmonth_rt", "gmonth_rt", "gday_rt",
    "gmonthday_rt", "gmonth_two_digits", "bool_rt", "bool_variants", "token_rt", "normalized_rt", "string_rt",
    "base64_rt", "base64_lenient_rt", "base64_variants", "floatspecial_rt", "c11_table_covered", "c11_table_facets",
)]
LEVEL = "proof"
MANIFEST = dict(
    engine="L: lean/ZeepModel/Lex/{Digits,GTypes,Simple,Base64}.lean + lean/Generated/Builtins.lean",
    technique="Lean 4 round-trip theorems per codec over the whole value space (all integers, all years, all offsets, all byte strings; induction on digits), `decide` obligations over the builtin table regenerated from builtins.py + exhaustive/generated differential tie and libxml2 as independent lexical judge for all 44 types",
    text="Round trips are proved for the integer family, timezone suffix, gYear/gYearMonth/gMonth/gDay/gMonthDay, boolean, the three whitespace facets, base64 and the float special values, for every value (no bound on digits or bytes); c11_table_covered / c11_table_facets are re-checked against the table regenerated from the source (class, inherited xmlvalue/pythonvalue implementation, whitespace facet from the wrapper closure). All 44 types are tied: exhaustive over finite sub-domains (all 1681 offsets, months, days, month-days, booleans, integer boundaries), generated over the infinite ones; every written text is validated by libxml2's XSD validator and read back.",
    note="Hypothesis implementations (not proved, tie + libxml2 only): CPython float repr/float(), decimal '{:f}', isodate formatting/parsing of dateTime/date/time/duration. Value space = XSD value space of the type intersected with the Python types zeep accepts (accepted_types).",
    design_ref="DESIGN.md section 6, C11",
)
TRUSTED = ["libxml2 XSD validator as the meaning of 'valid lexical representation'", "harness/translators/builtins_table.py (introspection of _types)"]
ASSUMPTIONS = ["round trip of float repr, decimal formatting and isodate date/time/duration codecs is a hypothesis exercised by the tie"]

XSD_NS = "http://www.w3.org/2001/XMLSchema"


def _b():
    import zeep.xsd.types.builtins as b
    import pytz
    import isodate
    return b, pytz, isodate


_validators = {}


def valid(local, text):
    """libxml2's verdict on <v>text</v> for element v of type xs:local"""
    # ENTITY / ENTITIES are only valid against declared unparsed entities: judged through their base forms
    local = {"ENTITY": "NCName", "ENTITIES": "NMTOKENS", "NOTATION": "QName"}.get(local, local)
    if local not in _validators:
        xsd = etree.fromstring(
            '<xs:schema xmlns:xs="%s"><xs:element name="v" type="xs:%s"/></xs:schema>' % (XSD_NS, local))
        try:
            _validators[local] = etree.XMLSchema(xsd)
        except etree.XMLSchemaParseError:
            _validators[local] = None
    v = _validators[local]
    if v is None:
        return True
    el = etree.Element("v", nsmap={"xs": XSD_NS})
    el.text = text
    return v.validate(el)


def tzobj(pytz, m):
    if m is None:
        return None
    return pytz.utc if m == 0 else pytz.FixedOffset(m)


def tzmin(tz):
    if tz is None:
        return None
    return int(tz.utcoffset(None).total_seconds() // 60)


INT_RANGES = {
    "integer": (None, None), "nonPositiveInteger": (None, 0), "negativeInteger": (None, -1), "long": (-2 ** 63, 2 ** 63 - 1),
    "int": (-2 ** 31, 2 ** 31 - 1), "short": (-2 ** 15, 2 ** 15 - 1), "byte": (-128, 127), "nonNegativeInteger": (0, None),
    "unsignedLong": (0, 2 ** 64 - 1), "unsignedInt": (0, 2 ** 32 - 1), "unsignedShort": (0, 65535), "unsignedByte": (0, 255),
    "positiveInteger": (1, None),
}


def rand_unicode(rng, n, alphabet=None):
    out = []
    while len(out) < n:
        if alphabet:
            out.append(rng.choice(alphabet))
            continue
        r = rng.random()
        if r < 0.5:
            c = rng.randrange(0x21, 0x7F)
        elif r < 0.7:
            c = rng.randrange(0xA1, 0x2000)
        elif r < 0.85:
            c = rng.randrange(0x3041, 0xD7FF)
        elif r < 0.95:
            c = rng.randrange(0x10000, 0x10FFFF)
        else:
            c = 0x20
        if 0xD800 <= c <= 0xDFFF or c in (0xFFFE, 0xFFFF) or (c & 0xFFFF) in (0xFFFE, 0xFFFF) or chr(c).isspace() and c != 0x20:
            continue
        out.append(chr(c))
    return "".join(out)


NAMESTART = "abcXYZ_éλ"
NAMECHAR = NAMESTART + "0123456789.-"


def eq(a, b):
    if isinstance(a, float) and isinstance(b, float):
        return (math.isnan(a) and math.isnan(b)) or (a == b and math.copysign(1, a) == math.copysign(1, b))
    if isinstance(a, datetime.datetime) and isinstance(b, datetime.datetime):
        if (a.tzinfo is None) != (b.tzinfo is None):
            return False
        return a == b and a.utcoffset() == b.utcoffset() and a.replace(tzinfo=None) == b.replace(tzinfo=None)
    if isinstance(a, datetime.time) and isinstance(b, datetime.time):
        return a.replace(tzinfo=None) == b.replace(tzinfo=None) and a.utcoffset() == b.utcoffset()
    if isinstance(a, tuple) and isinstance(b, tuple):
        return len(a) == len(b) and all(eq(x, y) for x, y in zip(a, b))
    if hasattr(a, "utcoffset") and not isinstance(a, (datetime.datetime, datetime.time)) or hasattr(b, "utcoffset") and not isinstance(b, (datetime.datetime, datetime.time)):
        return (a is None) == (b is None) and (a is None or a.utcoffset(None) == b.utcoffset(None))
    return type(a) is type(b) and a == b or (a == b and isinstance(a, (int, str, bytes, decimal.Decimal, datetime.date, datetime.timedelta)))


class Cases:
    """(type local name, python value, model spec or None, lexical variants [(text, same value)])"""

    def __init__(self, ctx):
        self.ctx = ctx
        self.rng = ctx.rng
        self.b, self.pytz, self.isodate = _b()

    def all(self):
        rng, pytz = self.rng, self.pytz
        N = self.ctx.n(60, 1500)
        # --- exhaustive finite domains
        for m in range(-840, 841):                       # every offset by minute, through gYear
            yield "gYear", (2024, tzobj(pytz, m)), ("gYear", [2024, m]), []
        for m in (None,):
            yield "gYear", (2024, None), ("gYear", [2024, None]), []
        for month in range(1, 13):
            for tzm in (None, 0, -210, 30, 840, -1):
                yield "gMonth", (month, tzobj(pytz, tzm)), ("gMonth", [month, tzm]), [(" --%02d%s\n" % (month, "Z" if tzm == 0 else ""), tzm in (0, None) and tzm == (0 if tzm == 0 else None))]
                yield "gYearMonth", (1999, month, tzobj(pytz, tzm)), ("gYearMonth", [1999, month, tzm]), []
                for day in range(1, 32):
                    if day > [31, 29, 31, 30, 31, 30, 31, 31, 30, 31, 30, 31][month - 1]:
                        continue
                    if tzm in (None, 0, -210):
                        yield "gMonthDay", (month, day, tzobj(pytz, tzm)), ("gMonthDay", [month, day, tzm]), []
        for day in range(1, 32):
            for tzm in (None, 0, 60, -719):
                yield "gDay", (day, tzobj(pytz, tzm)), ("gDay", [day, tzm]), []
        for y in (1, 5, 99, 999, 1000, 9999, 10000, 123456, -1, -5, -99, -999, -1000, -12345):
            for tzm in (None, 0, -1):
                yield "gYear", (y, tzobj(pytz, tzm)), ("gYear", [y, tzm]), []
                yield "gYearMonth", (y, 7, tzobj(pytz, tzm)), ("gYearMonth", [y, 7, tzm]), []
        yield "gYear", (2000, pytz.utc), ("gYear", [2000, 0]), [("2000+00:00", True), ("2000-00:00", True), (" 2000Z ", True)]
        for v in (True, False):
            yield "boolean", v, ("boolean", v), [("1" if v else "0", True), (" %s\n" % ("true" if v else "false"), True)]
        for name, (lo, hi) in INT_RANGES.items():
            vals = set()
            for edge in (lo, hi):
                if edge is not None:
                    vals.update([edge, edge + (1 if edge == lo else -1)])
            vals.update(x for x in (0, 1, -1, 7, -7, 10 ** 30, -10 ** 30, 2 ** 64, 255, 256) if (lo is None or x >= lo) and (hi is None or x <= hi))
            for _ in range(max(3, N // 20)):
                a = lo if lo is not None else -10 ** 40
                z = hi if hi is not None else 10 ** 40
                vals.add(rng.randint(a, z))
            for v in sorted(vals):
                var = []
                if v >= 0:
                    var = [("+%d" % v, True), ("000%d" % v, True)]
                yield name, v, ("int", v), var
        # --- strings and string-derived
        for _ in range(N):
            s = rand_unicode(rng, rng.choice([0, 1, 2, 5, 17]))
            yield "string", s, ("preserve", s), []
            yield "string", s + "\n\t  " + s, ("preserve", s + "\n\t  " + s), []
            t = " ".join(x for x in (rand_unicode(rng, rng.randrange(1, 6)).strip() for _ in range(rng.randrange(1, 4))) if x)
            if t:
                yield "normalizedString", t, ("replace", t), []
                yield "token", t, ("collapse", t), [("  " + t + " \n", True), ("\t" + t, True)]
                import urllib.parse
                u = "http://h.example/" + urllib.parse.quote(t)
                yield "anyURI", u, ("collapse", u), []
            nm = rng.choice(NAMESTART) + rand_unicode(rng, rng.randrange(0, 8), NAMECHAR)
            for ty in ("NCName", "Name", "ID", "IDREF", "ENTITY", "NMTOKEN", "language" if nm.isascii() and nm.isalpha() and len(nm) <= 8 else "NCName"):
                yield ty, nm, ("collapse", nm), [(" " + nm + "\n", True)]
            yield "QName", "xs:" + nm, ("collapse", "xs:" + nm), []
            yield "NOTATION", "xs:" + nm, None, []
            yield "NMTOKENS", nm + " " + nm, ("collapse", nm + " " + nm), []
            yield "IDREFS", nm + " " + nm, ("collapse", nm + " " + nm), []
            yield "ENTITIES", nm + " x" + nm, ("collapse", nm + " x" + nm), []
            hx = "".join(rng.choice("0123456789ABCDEFabcdef") for _ in range(2 * rng.randrange(0, 6)))
            yield "hexBinary", hx, ("preserve", hx), []
            bs = bytes(rng.randrange(256) for _ in range(rng.choice([0, 1, 2, 3, 4, 5, 31, 57, 58, 64, 200])))
            import base64 as _b64
            enc = _b64.b64encode(bs).decode()
            var = []
            if enc:
                # legal lexical variants a peer may send: MIME line wrapping, space-separated groups, white space around
                var = [("\n".join(enc[i:i + 76] for i in range(0, len(enc), 76)) + "\n", True),
                       (" ".join(enc[i:i + 4] for i in range(0, len(enc), 4)), True),
                       ("\n  " + enc[:len(enc) // 2] + "\n  " + enc[len(enc) // 2:] + "\n", True)]
            yield "base64Binary", bs, ("base64", list(bs)), var
        # --- decimals, floats (hypothesis codecs; judged by libxml2 and read-back)
        for _ in range(N):
            digits = "".join(rng.choice("0123456789") for _ in range(rng.randrange(1, 40)))
            d = decimal.Decimal((rng.randrange(2), tuple(int(c) for c in digits), rng.randrange(-45, 20)))
            yield "decimal", d, None, []
            f = struct.unpack("<d", struct.pack("<Q", rng.getrandbits(64)))[0]
            if not math.isnan(f):
                yield "double", f, None, []
            g = struct.unpack("<f", struct.pack("<I", rng.getrandbits(32)))[0]
            if not math.isnan(g):
                yield "float", float(g), None, []
        for f in (0.0, -0.0, 1.0, 100.0, 1e22, 1e-5, 5e-324, 1.7976931348623157e308, 2.2250738585072014e-308, 0.1):
            yield "double", f, None, [("1E2", None)] if f == 100.0 else []
            yield "float", f, None, []
        yield "double", 100.0, None, [("1E2", True), ("+100", True), (" 100.0 ", True), ("1.0e2", True)]
        yield "decimal", decimal.Decimal("5"), None, [("+5", True), ("5.000", True), (" 05 ", True)]
        for sp, v in (("inf", math.inf), ("-inf", -math.inf), ("nan", math.nan), ("nan", float("nan")), ("nan", math.inf - math.inf),
                      ("inf", float("inf")), ("-inf", -float("1e999"))):
            # not only the singletons math.nan / math.inf: a NaN read from a document or computed is another object
            yield "double", v, ("floatspecial", sp), []
            yield "float", v, ("floatspecial", sp), []
        # the same instant written with different offsets, one after the other (aware times compare / hash by instant)
        for h, offs in ((12, (60, 0, -60, 330, -210)), (0, (0, 60, 840)), (23, (-60, 0, 59))):
            for off in offs:
                total = (h * 60 + off) % 1440
                t = datetime.time(total // 60, total % 60, 30, tzinfo=tzobj(pytz, off))
                yield "time", t, None, []
                dt = datetime.datetime(2024, 3, 10, total // 60, total % 60, 30, tzinfo=tzobj(pytz, off))
                yield "dateTime", dt, None, []
        # --- date/time (isodate: hypothesis codecs)
        for _ in range(N):
            tzm = rng.choice([None, 0, 0, rng.randrange(-840, 841), 60, -300, 330])
            us = rng.choice([0, 0, 1, 999999, rng.randrange(1000000)])
            y = rng.choice([1, 2, 999, 1000, 1970, 2024, 9999, rng.randrange(1, 10000)])
            mo = rng.randrange(1, 13)
            d = rng.randrange(1, 29)
            dt = datetime.datetime(y, mo, d, rng.randrange(24), rng.randrange(60), rng.randrange(60), us, tzinfo=tzobj(pytz, tzm))
            var = []
            if tzm == 0 and us == 0:
                var = [(dt.strftime("%Y-%m-%dT%H:%M:%S").rjust(19, "0") + "+00:00", True)]
            if y >= 1000:
                yield "dateTime", dt, None, var
                yield "date", dt.date(), None, []
            yield "time", dt.timetz(), None, []
        for _ in range(N // 2):
            td = datetime.timedelta(days=rng.choice([0, 1, 400, -3]), seconds=rng.randrange(86400), microseconds=rng.choice([0, 1, 500000]))
            yield "duration", td, None, []
        yield "duration", self.isodate.Duration(years=1, months=2, days=3), None, []
        yield "duration", datetime.timedelta(0), None, [("PT0S", True), ("P0D", True)]


def model_value_back(kind, mv, pytz):
    """model JSON value -> python value comparable with pythonvalue's result"""
    if mv is None:
        return None
    if kind == "int":
        return mv
    if kind == "boolean":
        return mv
    if kind in ("gYear", "gMonth", "gDay"):
        return (mv[0], tzobj(pytz, mv[1]))
    if kind in ("gYearMonth", "gMonthDay"):
        return (mv[0], mv[1], tzobj(pytz, mv[2]))
    if kind == "base64":
        return bytes(mv)
    if kind == "floatspecial":
        return {"inf": math.inf, "-inf": -math.inf, "nan": math.nan}[mv]
    return mv


def run(ctx):
    res = Result()
    b, pytz, isodate = _b()
    types = {cls._default_qname.localname: cls() for cls in b._types if hasattr(cls, "_default_qname") and cls._default_qname is not None}
    cases = list(Cases(ctx).all())
    enc_ops, dec_ops, index = [], [], []
    results = []
    for local, value, mspec, variants in cases:
        t = types[local]
        case = dict(type=local, value=repr(value))
        try:
            text = t.xmlvalue(value)
            if isinstance(text, bytes):
                text = text.decode("ascii")
        except Exception as e:  # noqa
            res.failures.append(dict(what="xmlvalue raised %s: %s" % (type(e).__name__, e), case=case))
            continue
        res.case(key=(local, repr(value)), nontrivial=True)
        res.count("type:" + local)
        ok_lex = valid(local, text)
        fail = None
        if not ok_lex:
            fail = "text %r is not a valid xs:%s lexical form (libxml2)" % (text, local)
        else:
            try:
                back = t.pythonvalue(text)
                if not eq(back, value):
                    fail = "text %r reads back as %r, written from %r" % (text, back, value)
            except Exception as e:  # noqa
                fail = "own text %r cannot be read back: %s: %s" % (text, type(e).__name__, e)
        if not fail:
            for vtext, same in variants:
                if same is None:
                    continue
                if not valid(local, vtext.strip()) and not valid(local, vtext):
                    continue
                try:
                    vb = t.pythonvalue(vtext)
                except Exception as e:  # noqa
                    fail = "legal variant %r rejected: %s" % (vtext, e)
                    break
                if same and not eq(vb, value):
                    fail = "legal variant %r reads as %r, not %r" % (vtext, vb, value)
                    break
                res.count("variant")
        if fail:
            res.failures.append(dict(what=fail, case=dict(case, text=text)))
            continue
        if mspec is not None:
            kind, mval = mspec
            if kind in ("preserve", "replace", "collapse"):
                dec_ops.append({"op": "lex.dec", "type": kind, "text": text})
                index.append(("facet", kind, local, value, text, None))
            else:
                enc_ops.append({"op": "lex.enc", "type": kind, "value": mval})
                dec_ops.append({"op": "lex.dec", "type": kind, "text": text})
                index.append(("codec", kind, local, value, text, len(enc_ops) - 1))
            for vtext, same in variants:
                if same and kind not in ("floatspecial",):
                    dec_ops.append({"op": "lex.dec", "type": kind, "text": vtext})
                    index.append(("variant", kind, local, value, vtext, None))
    if ctx.model:
        eo = ctx.model.run(enc_ops)
        do = ctx.model.run(dec_ops)
        for (what, kind, local, value, text, ei), d in zip(index, do):
            case = dict(type=local, value=repr(value), text=text)
            if what == "codec":
                e = eo[ei]
                if "err" in e or e["ok"] != text:
                    res.disagreements.append(dict(relation="Lex enc(%s) vs xmlvalue" % kind, case=case, model=e, impl=text))
                    continue
            if "err" in d:
                res.disagreements.append(dict(relation="Lex dec(%s) driver error" % kind, case=case, model=d))
                continue
            if what == "facet" or (what == "variant" and kind in ("preserve", "replace", "collapse")):
                exp = types[local].pythonvalue(text)
                if d["ok"] != exp:
                    res.disagreements.append(dict(relation="Lex facet %s vs pythonvalue" % kind, case=case, model=d["ok"], impl=exp))
            else:
                mv = model_value_back(kind, d["ok"], pytz)
                if not eq(mv, value):
                    res.disagreements.append(dict(relation="Lex dec(%s) vs pythonvalue" % kind, case=case, model=d["ok"], impl=repr(value)))
    res.extra["types_covered"] = sorted(k[5:] for k in res.hist if k.startswith("type:"))
    res.extra["types_total"] = len(types)
    res.sample(dict(type="gYear", value="(2024, FixedOffset(-210))", text=types["gYear"].xmlvalue((2024, pytz.FixedOffset(-210)))))
    res.sample(dict(type="dateTime", value="2024-02-29T23:59:59.999999+05:30",
                    text=types["dateTime"].xmlvalue(datetime.datetime(2024, 2, 29, 23, 59, 59, 999999, tzinfo=pytz.FixedOffset(330)))))
    res.programs = len(types)
    res.exhaustive = True
    res.rule = ("exhaustive: all 1681 offsets -14:00..+14:00 by minute, all months, days, valid month-days, booleans, both boundaries +-1 of "
                "each integer width; generated: unicode strings over BMP and astral planes, tokens / names, hex, byte strings, decimals up to 40 "
                "digits with exponents -45..20, random bit-pattern doubles and floats incl. subnormals / inf / nan, datetimes over years 1..9999 "
                "with microseconds and offsets, times, dates, durations; lexical variants (+5, leading zeros, 1/0, 1E2, Z vs +00:00, surrounding "
                "whitespace). every written text validated by libxml2 and read back. distinct = distinct (type, value)")
    return res


def search(ctx):
    return run(ctx)


def replay(ctx, payload):
    r = run(ctx)
    case = payload.get("case", payload)
    bad = [f for f in r.failures if f["case"].get("type") == case.get("type")]
    return (not bad), "rerun: %d failures for type %s" % (len(bad), case.get("type"))


def replay_finding(ctx, finding):
    return False
