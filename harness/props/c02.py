"""C02 — emitted XML is schema-valid and equals the reference serialisation (engine A, render side)."""
from lxml import etree

from harness.core import Result
from harness import enginea, valgen
from harness.props import c01

LEAN_MODULES = ["ZeepProofs.C02", "ZeepProofs.C01Values", "ZeepProofs.C01KwChoice"]
NS = "Zeep.Xsd."
THEOREMS = [NS + t for t in ("c02_texts_preserved", "c02_names_declared", "c02_elem_count", "c02_absent_emits_nothing")] + [
    "Zeep.Bind.render_is_reference_serialisation", "Zeep.BindKw.renderRecord_denotes"]
LEVEL = "proof"
MANIFEST = dict(
    engine="A: lean/ZeepModel/Xsd/Serialize.lean (+ harness/valgen.py reference serialiser, libxml2 validator)",
    technique="Lean 4 model of the reference serialisation of instance trees; theorems by mutual structural induction over every particle kind "
              "(leaf texts of the output are exactly the leaf texts of the instance, in order: nothing missing, nothing added; every emitted "
              "element name is a declared name; an element declaration emits exactly one node per item); differential tie: zeep's rendering of "
              "conforming values vs the model's serialisation vs a reference serialiser written from the XSD rules, judged by libxml2",
    text="What the models of zeep's own rendering emit IS the reference serialisation: render_is_reference_serialisation (ZeepProofs/C01Values.lean) for every record signature of the binder model - emitTy = serItem (toTy signature) (itemOf arguments) - and renderRecord_denotes (ZeepProofs/C01KwChoice.lean) for records with choices rendered from the fields a keyword call bound; both models are tied to zeep's output on every C12 run. For every particle kind of the model (element, wildcard, sequence, choice, all, group; any nesting, any occurrence) the serialisation "
         "of an instance carries exactly the instance's leaf texts and attribute values in instance order and only declared element names. "
         "Every run ties the model to zeep: conforming values generated independently of zeep (wide leaf table, list / restriction types, "
         "per-declaration form on elements and attributes across the full grid of form defaults, nillable, xsi:type incl. heterogeneous "
         "lists, xsd:any, recursive types through repeated choice / sequence) are rendered by zeep; the output must be accepted by libxml2's "
         "validator loaded with the same schema and equal the reference serialisation element for element (expanded names, order — free only "
         "inside xsd:all —, attributes, lexically equivalent text by builtin type, xsi:type / xsi:nil markers); the model's serialisation of the "
         "decoded reference must equal zeep's output.",
    note="The lexical forms of all builtins are C11's subject; here the boundary table of harness/valgen.py is used. Known finding K15 (a "
         "choice branch whose value has an empty lexical form — empty list of an xsd:list type — is not emitted) is listed in known_findings.json.",
    design_ref="DESIGN.md sections 5 and 6, C02",
)
TRUSTED = ["libxml2's XML Schema validator as the independent judge", "harness/valgen.py ref_doc: the reference serialiser written from the XSD rules",
           "harness/enginea.py conventions mapping a model instance tree to zeep's value-object shape"]
ASSUMPTIONS = ["xsi:nil and xsi:type are outside the Lean model (checked on the implementation against the reference serialisation)"]


def run(ctx):
    res = c01.run(ctx, prop="C02")
    return res


def search(ctx):
    return run(ctx)


def replay(ctx, payload):
    return c01.replay(ctx, payload, prop="C02")


def replay_finding(ctx, finding):
    import zeep.xsd
    xsd = ('<xs:schema xmlns:xs="http://www.w3.org/2001/XMLSchema" xmlns:t="urn:fam" targetNamespace="urn:fam" elementFormDefault="qualified"><xs:element name="root" type="t:T1"/>'
           '<xs:complexType name="T1"><xs:choice><xs:element name="a" type="xs:string"/><xs:element name="l" type="t:L"/></xs:choice></xs:complexType>'
           '<xs:simpleType name="L"><xs:list itemType="xs:int"/></xs:simpleType></xs:schema>')
    zs = zeep.xsd.Schema(etree.fromstring(xsd.encode()))
    root = zs.get_element("{urn:fam}root")
    try:
        parent = etree.Element("p")
        root.render(parent, root(l=[]))
        return len(parent[0]) == 0
    except Exception:  # noqa
        return True
