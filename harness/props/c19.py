"""C19 — multiRef, XOP, attachments: tie between lean/ZeepModel/MultiRef.lean and zeep."""
import base64
import copy
import io
import itertools
from urllib.parse import quote

from lxml import etree

from harness.core import Result
from harness import xmlcanon

LEAN_MODULES = ["ZeepProofs.C19"]
NS = "Zeep.MultiRef."
THEOREMS = [NS + t for t in ("c19_multiref_inverse", "proc_wire", "c19_xop_inverse", "c19_xop_missing", "c19_cid_match",
                             "c19_attachment_bytes_partial", "c19_attachment_binary_counterexample")] + ["Zeep.Base64.base64_rt"]
LEVEL = "proof"
MANIFEST = dict(
    engine="M: lean/ZeepModel/MultiRef.lean",
    technique="Lean 4 proof by mutual structural induction that dereferencing undoes any (nested) out-lining of sub-trees; XOP and attachment content theorems via the proved base64 round trip + differential tie over all out-lining choices, byte strings, cid spellings and transfer encodings through client.service calls",
    text="c19_multiref_inverse proves for every reply tree and every choice of (nested) sub-trees moved into id-carrying top-level objects that process_multiref's model restores the inline tree; c19_xop_inverse / c19_attachment_bytes_partial give the base64 leaf and attachment clauses for all byte strings. Tied by generating rpc replies, out-lining every subset of candidate sub-trees (nested and shared references included), and comparing inline vs out-lined decoded results and the transformed Body with the model; XOP and attachments over byte strings with CR/LF/NUL/empty/boundary look-alikes x cid spellings x transfer encodings through a scripted multipart transport.",
    note="Partial: shared references (one id referenced twice) are covered by the tie only; MIME splitting is requests-toolbelt (external); `c19_attachment_bytes_partial` excludes binary payloads beginning/ending with CR or LF (known finding K6, pinned by tests/test_soap_xop.py).",
    design_ref="DESIGN.md section 6, C19",
)
TRUSTED = ["requests-toolbelt MultipartDecoder (MIME splitting)", "urllib.parse.unquote (modelled for ASCII escapes)"]
ASSUMPTIONS = ["xsi:type-like QName attribute values are compared after resolution to expanded names"]

ENV = "http://schemas.xmlsoap.org/soap/envelope/"

WSDL = """<?xml version="1.0"?>
<definitions xmlns="http://schemas.xmlsoap.org/wsdl/" xmlns:soap="http://schemas.xmlsoap.org/wsdl/soap/"
  xmlns:xsd="http://www.w3.org/2001/XMLSchema" xmlns:tns="urn:t" targetNamespace="urn:t">
  <types><xsd:schema targetNamespace="urn:t" xmlns:tns="urn:t">
    <xsd:complexType name="Deep"><xsd:sequence><xsd:element name="x" type="xsd:string"/><xsd:element name="y" type="xsd:int"/></xsd:sequence></xsd:complexType>
    <xsd:complexType name="Leaf"><xsd:sequence><xsd:element name="s" type="xsd:string"/><xsd:element name="n" type="xsd:int"/>
       <xsd:element name="deep" type="tns:Deep" minOccurs="0"/></xsd:sequence></xsd:complexType>
    <xsd:complexType name="Mid"><xsd:sequence><xsd:element name="leaf" type="tns:Leaf"/><xsd:element name="tag" type="xsd:string"/>
       <xsd:element name="more" type="tns:Leaf" minOccurs="0" maxOccurs="unbounded"/></xsd:sequence></xsd:complexType>
    <xsd:complexType name="Top"><xsd:sequence><xsd:element name="a" type="tns:Mid"/><xsd:element name="b" type="tns:Leaf"/><xsd:element name="c" type="xsd:string"/>
       <xsd:element name="d" type="tns:Mid" minOccurs="0"/></xsd:sequence></xsd:complexType>
    <xsd:complexType name="Bin"><xsd:sequence><xsd:element name="name" type="xsd:string"/><xsd:element name="data" type="xsd:base64Binary"/></xsd:sequence></xsd:complexType>
  </xsd:schema></types>
  <message name="mi"><part name="x" type="xsd:string"/></message>
  <message name="mo"><part name="result" type="tns:Top"/></message>
  <message name="mb"><part name="result" type="tns:Bin"/></message>
  <portType name="pt"><operation name="get"><input message="tns:mi"/><output message="tns:mo"/></operation>
    <operation name="bin"><input message="tns:mi"/><output message="tns:mb"/></operation></portType>
  <binding name="b" type="tns:pt"><soap:binding style="rpc" transport="http://schemas.xmlsoap.org/soap/http"/>
    <operation name="get"><soap:operation soapAction="g"/><input><soap:body use="encoded" namespace="urn:rpc"/></input><output><soap:body use="encoded" namespace="urn:rpc"/></output></operation>
    <operation name="bin"><soap:operation soapAction="b"/><input><soap:body use="literal" namespace="urn:rpc"/></input><output><soap:body use="literal" namespace="urn:rpc"/></output></operation>
  </binding>
  <service name="svc"><port name="p" binding="tns:b"><soap:address location="http://h.example/s"/></port></service>
</definitions>"""


def _zeep():
    import zeep
    import zeep.transports
    import zeep.wsdl.messages.multiref
    return zeep


class Script:
    ctype = "text/xml"
    content = b""


def make_client():
    z = _zeep()
    import requests

    class T(z.transports.Transport):
        def post(self, address, message, headers):
            r = requests.Response()
            r.status_code = 200
            r.headers["Content-Type"] = Script.ctype
            r._content = Script.content
            r.encoding = "utf-8"
            return r
    return z.Client(io.BytesIO(WSDL.encode()), transport=T())


# ---------------------------------------------------------------- multiRef

XSD_NS = "http://www.w3.org/2001/XMLSchema"
XSI_NS = "http://www.w3.org/2001/XMLSchema-instance"
TYPED = [False]       # encoded-style serialisers (Axis, .NET) put xsi:type on every value, the prefix declared on that very element


def val(parent, tag, text, ty):
    if TYPED[0]:
        e = etree.SubElement(parent, tag, nsmap={"q%d" % (len(parent) + 1): XSD_NS})
        e.set("{%s}type" % XSI_NS, "q%d:%s" % (len(parent), ty))
    else:
        e = etree.SubElement(parent, tag)
    e.text = text
    return e


def leaf(tag, s, n, deep=False):
    e = etree.Element(tag)
    val(e, "s", s, "string")
    val(e, "n", str(n), "int")
    if deep:
        d = etree.SubElement(e, "deep")          # a third level: reference chains result -> a -> leaf -> deep
        val(d, "x", "X" + s, "string")
        val(d, "y", str(n + 100), "int")
    return e


def mid(tag, i, nmore):
    e = etree.Element(tag)
    e.append(leaf("leaf", "L%d" % i, i, deep=True))
    etree.SubElement(e, "tag").text = "t%d" % i
    for k in range(nmore):
        e.append(leaf("more", "M%d.%d" % (i, k), k))
    return e


def inline_result(rng):
    TYPED[0] = rng.random() < 0.5
    r = etree.Element("result")
    r.append(mid("a", 1, rng.choice([0, 1, 2])))
    r.append(leaf("b", "B", 2))
    etree.SubElement(r, "c").text = "see"
    if rng.random() < 0.5:
        r.append(mid("d", 3, rng.choice([0, 1])))
    return r


def candidates(result):
    """complex sub-elements that may be moved out (document order)"""
    return [e for e in result.iter() if len(e) and e is not result]


def outline(result, chosen_idx, share=False):
    """returns (main result element with stubs, list of multiRef objects)"""
    res = copy.deepcopy(result)
    cands = candidates(res)
    objs = []
    # process deepest first so that nested moves leave stubs inside the moved objects
    order = sorted(chosen_idx, key=lambda i: -len(list(cands[i].iterancestors())))
    for n, i in enumerate(order):
        el = cands[i]
        oid = "id%d" % i
        obj = etree.Element("multiRef")
        obj.set("id", oid)
        obj.text = el.text
        for c in list(el):
            obj.append(c)
        stub = etree.Element(el.tag)
        stub.set("href", "#" + oid)
        el.getparent().replace(el, stub)
        objs.append(obj)
    if share and chosen_idx:
        # a second reference to an already moved Leaf-shaped object: <b> points at the object of another Leaf
        pass
    return res, objs


def body_xml(result, objs):
    body = etree.Element("{%s}Body" % ENV)
    wrap = etree.SubElement(body, "{urn:rpc}getResponse")
    wrap.append(result)
    for o in objs:
        body.append(o)
    return body


def envelope_bytes(body):
    env = etree.Element("{%s}Envelope" % ENV)
    env.append(body)
    return etree.tostring(env)


def canon_value(v):
    from zeep.helpers import serialize_object
    return serialize_object(v, dict)


def multiref_cases(ctx, res, client, pending):
    z = _zeep()
    rng = ctx.rng
    ntrees = ctx.n(12, 120)
    for t in range(ntrees):
        inline = inline_result(rng)
        Script.ctype = "text/xml"
        Script.content = envelope_bytes(body_xml(copy.deepcopy(inline), []))
        base = canon_value(client.service.get("x"))
        ncand = len(candidates(inline))
        subsets = []
        for r in range(1, ncand + 1):
            subsets += list(itertools.combinations(range(ncand), r))
        if len(subsets) > 40 and ctx.tier == "quick":
            subsets = [subsets[i] for i in sorted(rng.sample(range(len(subsets)), 40))]
        for sub in subsets:
            main, objs = outline(inline, sub)
            rng.shuffle(objs)
            body = body_xml(main, objs)
            case = dict(kind="multiref", inline=etree.tostring(inline).decode(), outlined=list(sub), body=etree.tostring(body).decode())
            res.case(key=("mr", etree.tostring(inline), sub), nontrivial=True)
            res.count("multiref:outlined=%d" % len(sub))
            res.count("multiref:%s" % ("locally-prefixed-xsi-type" if TYPED[0] else "untyped-values"))
            Script.content = envelope_bytes(copy.deepcopy(body))
            try:
                got = canon_value(client.service.get("x"))
            except Exception as e:  # noqa
                res.failures.append(dict(what="out-lined reply raised %s: %s" % (type(e).__name__, e), case=case))
                continue
            if got != base:
                res.failures.append(dict(what="out-lined reply decodes differently from the inline reply", case=case, expected=base, got=got))
                continue
            # function-level: the Body after process_multiref vs the model
            b2 = copy.deepcopy(body)
            z.wsdl.messages.multiref.process_multiref(b2)
            pending.append(({"op": "multiref", "body": xmlcanon.node(body, strip_ws=False)}, xmlcanon.node(b2, strip_ws=False), "MultiRef.processMultiref vs process_multiref", case))
        # shared reference: <b> and a/leaf point at one object
        sh = copy.deepcopy(inline)
        a_leaf = sh.find("a/leaf")
        b = sh.find("b")
        for c in list(b):
            b.remove(c)
        for c in a_leaf:
            b.append(copy.deepcopy(c))
        Script.content = envelope_bytes(body_xml(copy.deepcopy(sh), []))
        base2 = canon_value(client.service.get("x"))
        obj = etree.Element("multiRef")
        obj.set("id", "shared")
        for c in list(a_leaf):
            obj.append(c)
        a_leaf.set("href", "#shared")
        for c in list(b):
            b.remove(c)
        b.set("href", "#shared")
        body = body_xml(sh, [obj])
        Script.content = envelope_bytes(copy.deepcopy(body))
        case = dict(kind="multiref-shared", body=etree.tostring(body).decode())
        res.case(key=("mr-shared", t))
        res.count("multiref:shared")
        try:
            got = canon_value(client.service.get("x"))
            if got != base2:
                res.failures.append(dict(what="shared multiRef object decodes differently from the inline reply", case=case, expected=base2, got=got))
        except Exception as e:  # noqa
            res.failures.append(dict(what="shared multiRef reply raised %s: %s" % (type(e).__name__, e), case=case))


# ---------------------------------------------------------------- XOP / attachments

BOUNDARY = "MIME_boundary_7f3a"
PAYLOADS = [b"", b"A", b"hello world", b"\x00\x01\x02\xff\xfe", b"line1\r\nline2\r\n--not-the-boundary\r\nend", bytes(range(256)),
            b"\r\nleading and trailing\r\n", b"\n", b"--MIME_boundary_7f3", b"a" * 1000]
CIDS = [("part1@example.org", "cid:part1@example.org"), ("part+1@example.org", "cid:part+1@example.org"),
        ("part 2@example.org", "cid:part%202@example.org"), ("a/b@example.org", "cid:a%2Fb@example.org"), ("x@y", "cid:x%40y")]
TES = ["binary", "base64", "8bit", None]


def mime_body(root_xml, parts):
    """parts: list of (content-id, content-type, transfer-encoding or None, raw bytes, location or None)"""
    out = b""
    out += ("--%s\r\nContent-Type: application/xop+xml; charset=UTF-8; type=\"text/xml\"\r\nContent-ID: <root>\r\n\r\n" % BOUNDARY).encode() + root_xml + b"\r\n"
    for cid, ctype, te, raw, loc in parts:
        h = "--%s\r\nContent-Type: %s\r\nContent-ID: <%s>\r\n" % (BOUNDARY, ctype, cid)
        if te:
            h += "Content-Transfer-Encoding: %s\r\n" % te
        if loc:
            h += "Content-Location: %s\r\n" % loc
        out += h.encode() + b"\r\n" + raw + b"\r\n"
    out += ("--%s--\r\n" % BOUNDARY).encode()
    return 'multipart/related; boundary="%s"; type="application/xop+xml"; start="<root>"' % BOUNDARY, out


def xop_cases(ctx, res, client, pending):
    n = 0
    for payload in PAYLOADS:
        for (cid, href) in CIDS:
            for te in TES:
                n += 1
                raw = base64.b64encode(payload) if te == "base64" else payload
                if BOUNDARY.encode() in raw:
                    continue
                inline = ('<e:Envelope xmlns:e="%s"><e:Body><r:binResponse xmlns:r="urn:rpc"><result><name>f</name><data>%s</data></result></r:binResponse></e:Body></e:Envelope>'
                          % (ENV, base64.b64encode(payload).decode())).encode()
                xop = ('<e:Envelope xmlns:e="%s"><e:Body><r:binResponse xmlns:r="urn:rpc"><result><name>f</name><data><xop:Include xmlns:xop="http://www.w3.org/2004/08/xop/include" href="%s"/></data></result></r:binResponse></e:Body></e:Envelope>'
                       % (ENV, href)).encode()
                case = dict(kind="xop", payload=list(payload[:40]), payload_len=len(payload), cid=cid, href=href, transfer_encoding=te)
                res.case(key=("xop", payload, cid, te), nontrivial=True)
                res.count("xop:te=%s" % te)
                Script.ctype, Script.content = "text/xml", inline
                base = client.service.bin("x")
                base = canon_value(base)
                Script.ctype, Script.content = mime_body(xop, [(cid, "application/octet-stream", te, raw, None)])
                known = None
                if te == "binary" and (payload[:1] in (b"\r", b"\n") or payload[-1:] in (b"\r", b"\n")):
                    known = "K6"
                if payload == b"":
                    known = "K11"
                try:
                    got = canon_value(client.service.bin("x"))
                except Exception as e:  # noqa
                    res.failures.append(dict(what="XOP reply raised %s: %s" % (type(e).__name__, e), case=case))
                    continue
                if got != base:
                    f = dict(what="XOP reply decodes differently from the inline reply", case=case, expected=str(base)[:200], got=str(got)[:200])
                    if known:
                        f["known"] = known
                        res.known_hits[known] = res.known_hits.get(known, 0) + 1
                    res.failures.append(f)
                    continue
                # the same XOP reply with one more MIME part that nothing refers to: still the inline value
                if not known and n % 3 == 0:
                    Script.ctype, Script.content = mime_body(xop, [(cid, "application/octet-stream", te, raw, None),
                                                                   ("unreferenced@h.example", "application/octet-stream", "binary", b"EXTRA", None)])
                    res.count("xop:extra-unreferenced-part")
                    try:
                        got2 = client.service.bin("x")
                        got2 = canon_value(got2) if not hasattr(got2, "attachments") else "MessagePack(root=%r)" % (canon_value(got2.root),)
                        if got2 != base:
                            res.failures.append(dict(what="XOP reply with an additional unreferenced part decodes differently from the inline reply",
                                                     case=dict(case, kind="xop-extra-part"), expected=str(base)[:200], got=str(got2)[:200]))
                    except Exception as e:  # noqa
                        res.failures.append(dict(what="XOP reply with an additional unreferenced part raised %s: %s" % (type(e).__name__, e), case=dict(case, kind="xop-extra-part")))
                # plain attachment: returned byte-for-byte with id, type, location
                plain = ('<e:Envelope xmlns:e="%s"><e:Body><r:binResponse xmlns:r="urn:rpc"><result><name>f</name><data>%s</data></result></r:binResponse></e:Body></e:Envelope>'
                         % (ENV, base64.b64encode(b"inline").decode())).encode()
                Script.ctype, Script.content = mime_body(plain, [(cid, "image/png", te, raw, "http://h.example/loc/%d" % n)])
                try:
                    pack = client.service.bin("x")
                    att = pack.attachments[0]
                    ok = (bytes(att.content) == payload and att.content_id == "<%s>" % cid and att.content_type == "image/png"
                          and att.content_location == "http://h.example/loc/%d" % n)
                    if not ok:
                        f = dict(what="attachment not returned byte-for-byte with its content-id, type and location", case=dict(case, kind="attachment"),
                                 got=dict(content=list(bytes(att.content)[:40]), id=att.content_id, type=att.content_type, loc=att.content_location))
                        if known:
                            f["known"] = known
                            res.known_hits[known] = res.known_hits.get(known, 0) + 1
                        res.failures.append(f)
                    else:
                        te_m = te if te in ("base64", "binary") else None
                        pending.append(({"op": "attachment", "te": te_m, "raw": list(raw)}, list(payload), "MultiRef.attachmentContent vs Attachment.content", case))
                except Exception as e:  # noqa
                    res.failures.append(dict(what="attachment reply raised %s: %s" % (type(e).__name__, e), case=case))
                res.count("attachment")


def run(ctx):
    res = Result()
    import logging
    logging.getLogger("zeep").setLevel(logging.CRITICAL)
    client = make_client()
    pending = []
    multiref_cases(ctx, res, client, pending)
    xop_cases(ctx, res, client, pending)
    if ctx.model and pending:
        outs = ctx.model.run([p[0] for p in pending])
        for (mop, impl, rel, case), mo in zip(pending, outs):
            if "err" in mo or mo["ok"] != impl:
                res.disagreements.append(dict(relation=rel, case=case, model=str(mo)[:400], impl=str(impl)[:400]))
    res.sample(dict(kind="multiref", note="every subset of complex sub-elements of a random reply is moved to top-level multiRef objects"))
    res.programs = 1
    res.rule = ("multiRef: random rpc replies (2-5 candidate sub-trees), every non-empty subset out-lined (all of them in the thorough tier, "
                "40 sampled per tree otherwise), nested out-lining and shuffled object order, one shared-reference variant per tree; XOP and "
                "attachments: 10 payloads (empty, NUL/high bytes, CR/LF inside and at the ends, boundary look-alikes, all 256 byte values, 1000 "
                "bytes) x 5 content-id spellings (plus, space, slash, at url-encoded) x 4 transfer encodings. distinct = distinct case")
    return res


def search(ctx):
    ctx.tier = "thorough"
    return run(ctx)


def replay(ctx, payload):
    r = run(ctx)
    case = payload.get("case", payload)
    bad = [f for f in r.failures if not f.get("known") and f["case"].get("kind") == case.get("kind")]
    return (not bad), "rerun: %d failures of kind %s" % (len(bad), case.get("kind"))


def replay_finding(ctx, finding):
    client = make_client()
    if finding["id"] == "K11":
        inline = ('<e:Envelope xmlns:e="%s"><e:Body><r:binResponse xmlns:r="urn:rpc"><result><name>f</name><data></data></result></r:binResponse></e:Body></e:Envelope>' % ENV).encode()
        Script.ctype, Script.content = "text/xml", inline
        return client.service.bin("x")["data"] is None
    plain = ('<e:Envelope xmlns:e="%s"><e:Body><r:binResponse xmlns:r="urn:rpc"><result><name>f</name><data>%s</data></result></r:binResponse></e:Body></e:Envelope>'
             % (ENV, base64.b64encode(b"inline").decode())).encode()
    Script.ctype, Script.content = mime_body(plain, [("a@b", "image/png", "binary", b"x\r\n", None)])
    pack = client.service.bin("x")
    return bytes(pack.attachments[0].content) != b"x\r\n"
