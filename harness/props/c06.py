"""C06 — reply triage and Fault fields: tie between lean/ZeepModel/Soap/Reply.lean and zeep."""
import itertools

from lxml import etree

from harness.core import Result
from harness import xmlcanon

LEAN_MODULES = ["ZeepProofs.C06", "ZeepProofs.C06Flow"]
NS = "Zeep.Soap."
THEOREMS = [NS + t for t in (
    "c06_success_only", "c06_none_only", "c06_fault_raised_11", "c06_fault_raised_12", "c06_other_version_fault",
    "c06_fields_11", "c06_fields_12", "c06_subcodes_chain", "c06_other_errors_carry_status_partial",
    "c06_unknown_fault_counterexample", "c06_error_status_never_success", "triage_empty_ok", "c06_status_constants_match_source")]
LEVEL = "proof"
MANIFEST = dict(
    engine="E: lean/ZeepModel/Soap/Reply.lean",
    technique="Lean 4 decision-logic theorems about the reply triage (for every status, body and tree) and fault field extraction as tree lookups; an obligation, re-checked by `decide` against the table regenerated from process_reply on every run (translator soap_flow.py), that the status constants of the source are the model's (in (201, 202) for the empty reply, != 200 otherwise, no other comparison) + exhaustive status x body-class x content-type grid against scripted replies, strict and non-strict clients interleaved",
    text="c06_success_only / c06_none_only / c06_fault_raised_* / c06_error_status_never_success are proved for every status code and every reply tree of the model; field extraction is proved equal to first-child lookups. The model is tied to SoapBinding.process_reply by the full grid of the quantifier (2 versions x 12 statuses x body classes incl. every subset of optional fault fields, nested subcodes with prefixes declared at different levels, other-version faults, empty, non-XML, truncated, wrong root, multipart) through a scripted transport, each cell on a strict and a lenient client alternately.",
    note="Partial: `c06_other_errors_carry_status_partial` excludes the cell 'non-200 status, well-formed body without Fault' (known finding K3: Fault('Unknown fault occured') carries no status; counterexample theorem proved). Trusted: lxml parsing (the body class is decided by an lxml parse in the harness), requests.Response, requests-toolbelt MultipartDecoder.",
    design_ref="DESIGN.md section 6, C06",
)
TRUSTED = ["lxml parse decides the body class handed to the model", "requests-toolbelt MultipartDecoder"]
ASSUMPTIONS = ["subcode QName texts are resolved by the harness with the Value element's own nsmap before being given to the model"]

ENV = {"1.1": "http://schemas.xmlsoap.org/soap/envelope/", "1.2": "http://www.w3.org/2003/05/soap-envelope"}

WSDL = """<?xml version="1.0"?>
<definitions xmlns="http://schemas.xmlsoap.org/wsdl/" xmlns:soap="http://schemas.xmlsoap.org/wsdl/soap/"
  xmlns:soap12="http://schemas.xmlsoap.org/wsdl/soap12/" xmlns:xsd="http://www.w3.org/2001/XMLSchema" xmlns:tns="urn:t" targetNamespace="urn:t">
  <types><xsd:schema targetNamespace="urn:t" elementFormDefault="qualified">
      <xsd:element name="in" type="xsd:string"/><xsd:element name="out" type="xsd:string"/></xsd:schema></types>
  <message name="mi"><part name="p" element="tns:in"/></message>
  <message name="mo"><part name="p" element="tns:out"/></message>
  <portType name="pt"><operation name="op"><input message="tns:mi"/><output message="tns:mo"/></operation></portType>
  <binding name="b11" type="tns:pt"><soap:binding style="document" transport="http://schemas.xmlsoap.org/soap/http"/>
    <operation name="op"><soap:operation soapAction="a"/><input><soap:body use="literal"/></input><output><soap:body use="literal"/></output></operation></binding>
  <binding name="b12" type="tns:pt"><soap12:binding style="document" transport="http://schemas.xmlsoap.org/soap/http"/>
    <operation name="op"><soap12:operation soapAction="a"/><input><soap12:body use="literal"/></input><output><soap12:body use="literal"/></output></operation></binding>
  <service name="svc"><port name="p11" binding="tns:b11"><soap:address location="http://h.example/s11"/></port>
    <port name="p12" binding="tns:b12"><soap12:address location="http://h.example/s12"/></port></service>
</definitions>"""

STATUSES = [200, 201, 202, 204, 301, 302, 400, 401, 404, 500, 502, 503]


def _zeep():
    import zeep
    import zeep.exceptions
    import zeep.transports
    import zeep.settings
    return zeep


def envelope(ver, body_inner, extra_ns=""):
    return ('<?xml version="1.0" encoding="utf-8"?><e:Envelope xmlns:e="%s"%s><e:Header/><e:Body>%s</e:Body></e:Envelope>'
            % (ENV[ver], extra_ns, body_inner))


DETAIL_SHAPES = {"kids": '<d:info xmlns:d="urn:d" level="3">deep<d:x/></d:info>', "text": "backend unavailable", "empty": ""}


def fault11(fields, style, dshape="kids"):
    """fields: subset of code/string/actor/detail; style: 'plain' (unqualified children), 'defaultns'
    (children qualified through a default namespace declared on the Fault)"""
    kids = ""
    if "code" in fields:
        kids += "<faultcode>e:Server</faultcode>"
    if "string" in fields:
        kids += "<faultstring>it broke &amp; burned</faultstring>"
    if "actor" in fields:
        kids += "<faultactor>urn:actor</faultactor>"
    if "detail" in fields:
        kids += "<detail>%s</detail>" % DETAIL_SHAPES[dshape]
    if style == "defaultns":
        return '<e:Fault xmlns="urn:faultns">%s</e:Fault>' % kids
    return "<e:Fault>%s</e:Fault>" % kids


def fault12(reason, depth, detail, declare, dshape="kids"):
    """depth: number of nested subcodes; declare: where the subcode prefix is declared ('env', 'value', 'rebind')"""
    sub = ""
    for i in reversed(range(depth)):
        ns_decl = ""
        if declare == "value":
            ns_decl = ' xmlns:s%d="urn:sub%d"' % (i, i)
        elif declare == "rebind":
            ns_decl = ' xmlns:s%d="urn:rebound%d"' % (i, i)
        sub = "<e:Subcode><e:Value%s>s%d:Code%d</e:Value>%s</e:Subcode>" % (ns_decl, i, i, sub)
    code = "<e:Code><e:Value>e:Receiver</e:Value>%s</e:Code>" % sub
    r = '<e:Reason><e:Text xml:lang="en">reason text</e:Text></e:Reason>' if reason else ""
    d = ("<e:Detail>%s</e:Detail>" % DETAIL_SHAPES[dshape]) if detail else ""
    return "<e:Fault>%s%s%s</e:Fault>" % (code, r, d)


def bodies(ver):
    """yield (class name, content bytes or None, spec) ; spec describes what the property expects"""
    other = "1.2" if ver == "1.1" else "1.1"
    yield "payload", envelope(ver, '<out xmlns="urn:t">hello</out>'), dict(kind="payload", value="hello")
    yield "payload-foreign-prefix", envelope(ver, '<q:out xmlns:q="urn:t">hello</q:out>'), dict(kind="payload", value="hello")
    if ver == "1.1":
        for n in range(5):
            for fields in itertools.combinations(("code", "string", "actor", "detail"), n):
                for style in ("plain", "defaultns"):
                    for dshape in (("kids", "text", "empty") if "detail" in fields else ("kids",)):
                        yield ("fault11:%s:%s:%s" % ("+".join(fields) or "none", style, dshape), envelope(ver, fault11(fields, style, dshape)),
                               dict(kind="fault", message="it broke & burned" if "string" in fields else None,
                                    code="e:Server" if "code" in fields else None,
                                    actor="urn:actor" if "actor" in fields else None, detail="detail" in fields, subcodes=None))
    else:
        for reason, depth, detail, declare in itertools.product((True, False), (0, 1, 2, 3), (True, False, "text", "empty"), ("env", "value", "rebind")):
            if depth == 0 and declare != "env":
                continue
            dshape = detail if isinstance(detail, str) else "kids"
            detail = bool(detail)
            extra = "".join(' xmlns:s%d="urn:sub%d"' % (i, i) for i in range(3))
            ns = "urn:rebound%d" if declare == "rebind" else "urn:sub%d"
            yield ("fault12:r%d:d%d:det%d%s:%s" % (reason, depth, detail, dshape if detail else "", declare),
                   envelope(ver, fault12(reason, depth, detail, declare, dshape), extra),
                   dict(kind="fault", message="reason text" if reason else None, code="e:Receiver", actor=None, detail=detail,
                        subcodes=["{%s}Code%d" % (ns % i, i) for i in range(depth)]))
    yield "fault-other-version", ('<?xml version="1.0"?><o:Envelope xmlns:o="%s" xmlns:e="%s"><o:Body><o:Fault><faultcode>x</faultcode><faultstring>other</faultstring></o:Fault></o:Body></o:Envelope>' % (ENV[other], ENV[ver])), dict(kind="nofault-tree")
    yield "fault-in-payload-200", envelope(ver, '<out xmlns="urn:t">hello</out>' + (fault11(("string",), "plain") if ver == "1.1" else fault12(True, 0, False, "env"))), \
        dict(kind="fault", message="it broke & burned" if ver == "1.1" else "reason text", code=None if ver == "1.1" else "e:Receiver", actor=None, detail=False,
             subcodes=None if ver == "1.1" else [])
    yield "empty", "", dict(kind="empty")
    yield "non-xml", "this is <not xml at all", dict(kind="unparsable")
    yield "html", "<html><body><h1>502 Bad Gateway</h1></body></html>", dict(kind="nofault-tree")
    yield "truncated", envelope(ver, '<out xmlns="urn:t">hello</out>')[:-25], dict(kind="unparsable")
    yield "wrong-root", '<?xml version="1.0"?><other xmlns="urn:zzz"><x/></other>', dict(kind="nofault-tree")
    yield "empty-body", envelope(ver, ""), dict(kind="nofault-tree")


def multipart(xml, spelling="multipart/related"):
    b = "MIMEBOUNDARY123"
    body = ("--%s\r\nContent-Type: text/xml; charset=utf-8\r\nContent-ID: <root>\r\n\r\n%s\r\n--%s--\r\n" % (b, xml, b))
    # media types are case-insensitive (RFC 2045): servers do send Multipart/Related
    return '%s; boundary="%s"; type="text/xml"; start="<root>"' % (spelling, b), body.encode()


class Script:
    status = 200
    ctype = "text/xml"
    content = b""


def make_client(strict):
    z = _zeep()
    import requests
    import io

    class T(z.transports.Transport):
        def post(self, address, message, headers):
            r = requests.Response()
            r.status_code = Script.status
            if Script.ctype is not None:
                r.headers["Content-Type"] = Script.ctype
            r._content = Script.content
            r.encoding = "utf-8"
            return r
    return z.Client(io.BytesIO(WSDL.encode()), transport=T(), settings=z.settings.Settings(strict=strict))


def resolve_subcode_texts(root):
    """rewrite every Subcode/Value text into Clark form using that element's own namespaces (as_qname)"""
    for ver in ENV.values():
        for val in root.iter("{%s}Value" % ver):
            parent = val.getparent()
            if parent is not None and etree.QName(parent.tag).localname == "Subcode" and val.text:
                t = val.text.strip()
                if ":" in t:
                    p, l = t.split(":", 1)
                    nsu = val.nsmap.get(p)
                    val.text = "{%s}%s" % (nsu, l) if nsu else t
                elif val.nsmap.get(None):
                    val.text = "{%s}%s" % (val.nsmap[None], t)


def model_body(ver, content, strict):
    if not content:
        return None, "empty"
    try:
        parser = etree.XMLParser(remove_comments=True, resolve_entities=False, recover=not strict)
        root = etree.fromstring(content, parser=parser)
    except etree.XMLSyntaxError:
        return "unparsable", "unparsable"
    if root is None:
        return "unparsable", "unparsable"
    f = root.find("{%s}Body/{%s}Fault" % (ENV[ver], ENV[ver]))
    dns = f.nsmap.get(None) if f is not None else None
    has_fault = f is not None
    resolve_subcode_texts(root)
    return {"tree": xmlcanon.node(root, strip_ws=False), "dns": dns}, ("fault" if has_fault else "tree")


def observe(client, port):
    z = _zeep()
    try:
        r = client.bind("svc", port).op("x")
        return {"kind": "return", "value": r}
    except z.exceptions.Fault as f:
        return {"kind": "fault", "message": f.message, "code": f.code, "actor": f.actor,
                "subcodes": None if f.subcodes is None else [getattr(s, "text", str(s)) for s in f.subcodes],
                "detail": None if f.detail is None else (xmlcanon.node(f.detail, strip_ws=False) if not isinstance(f.detail, (bytes, str)) else "raw")}
    except z.exceptions.TransportError as e:
        return {"kind": "transportError", "status": e.status_code}
    except Exception as e:  # noqa
        return {"kind": "other", "error": type(e).__name__ + ": " + str(e)[:80]}


def judge(ver, status, klass, spec, obs):
    """the property; returns (failure text or None, known-finding id or None)"""
    if klass == "empty":
        if status in (201, 202):
            ok = obs["kind"] == "return" and obs["value"] is None
            return (None if ok else "empty 201/202 must return None", None)
        ok = obs["kind"] == "transportError" and obs["status"] == status
        return (None if ok else "empty reply must raise an error carrying the HTTP status", None)
    if klass == "unparsable":
        ok = obs["kind"] == "transportError" and obs["status"] == status
        return (None if ok else "unparsable body must raise an error carrying the HTTP status", None)
    if klass == "fault":
        if obs["kind"] != "fault":
            return ("reply carrying a Fault did not raise Fault", None)
        for k in ("message", "code", "actor"):
            if spec.get("kind") == "fault" and obs[k] != spec[k]:
                return ("Fault.%s = %r differs from the reply (%r)" % (k, obs[k], spec[k]), None)
        if spec.get("kind") == "fault":
            if spec["detail"] != (obs["detail"] is not None):
                return ("Fault.detail presence differs from the reply", None)
            if spec["subcodes"] is not None and (obs["subcodes"] or []) != spec["subcodes"]:
                return ("Fault.subcodes %r differ from the reply (%r)" % (obs["subcodes"], spec["subcodes"]), None)
        return (None, None)
    # a parsed tree without Fault
    if status == 200:
        if spec.get("kind") == "payload":
            ok = obs["kind"] == "return" and obs["value"] == spec["value"]
            return (None if ok else "valid 200 payload not returned as is", None)
        # 200 with a tree that is not a valid payload: any outcome but a *wrong success* is acceptable
        return (None, None)
    if obs["kind"] == "return":
        return ("non-200 reply returned normally", None)
    if obs["kind"] == "transportError" and obs["status"] == status:
        return (None, None)
    if obs["kind"] == "fault" and obs["message"] == "Unknown fault occured":
        return ("non-200 reply without Fault raised an error that does not carry the HTTP status", "K3")
    return ("non-200 reply raised an error that does not carry the HTTP status: %r" % (obs,), None)


def canon_obs_for_model(obs):
    if obs["kind"] == "return":
        return {"kind": "decode"} if obs["value"] is not None else {"kind": "returnNone-or-decode"}
    if obs["kind"] == "fault":
        if obs["message"] == "Unknown fault occured" and obs["detail"] == "raw":
            return {"kind": "unknownFault"}
        return {"kind": "fault", "message": obs["message"], "code": obs["code"], "actor": obs["actor"],
                "subcodes": obs["subcodes"] or [], "detail": obs["detail"]}
    if obs["kind"] == "transportError":
        return {"kind": "transportError", "status": obs["status"]}
    return obs


def run(ctx):
    res = Result()
    import logging
    logging.getLogger("zeep").setLevel(logging.CRITICAL)
    clients = {True: make_client(True), False: make_client(False)}
    cells = []
    for ver, port in (("1.1", "p11"), ("1.2", "p12")):
        blist = list(bodies(ver))
        for status in STATUSES:
            for bname, content, spec in blist:
                ctypes = ["text/xml; charset=utf-8"]
                if status in (200, 500) and bname in ("payload", "empty", "non-xml", "html") or ctx.tier == "thorough":
                    ctypes += ["application/soap+xml", "text/html", None]
                for ct in ctypes:
                    cells.append((ver, port, status, bname, content, spec, ct, False))
                if bname in ("payload", "non-xml", "truncated", "empty") or bname.startswith("fault11:code+string") or bname.startswith("fault12:r1:d2"):
                    cells.append((ver, port, status, bname, content, spec, "multipart", True))
                    if bname != "empty":
                        cells.append((ver, port, status, bname, content, spec, "multipart:" + ("Multipart/Related", "MULTIPART/RELATED")[len(cells) % 2], True))
    # model inputs (strict and lenient)
    runs = []
    for cell in cells:
        for strict in (False, True):     # the lenient client always goes first: shared state must not leak
            runs.append((cell, strict))
    mops = []
    meta = []
    for (ver, port, status, bname, content, spec, ct, mp), strict in runs:
        mb, klass = model_body(ver, content.encode(), strict)
        mops.append({"op": "soap.triage", "version": ver, "status": status, "body": mb})
        meta.append(klass)
    mout = ctx.model.run(mops) if ctx.model else [None] * len(runs)
    for ((ver, port, status, bname, content, spec, ct, mp), strict), klass, mo in zip(runs, meta, mout):
        Script.status = status
        if mp:
            Script.ctype, Script.content = multipart(content, *(ct.split(":", 1)[1:]))
            if not content:
                Script.content = b""
        else:
            Script.ctype, Script.content = ct, content.encode()
        obs = observe(clients[strict], port)
        res.case(key=(ver, status, bname, ct, strict), nontrivial=bname != "payload" or status != 200)
        res.count("class:" + klass)
        res.count("status:%d" % status)
        res.count("obs:" + obs["kind"])
        case = dict(version=ver, status=status, body=bname, content_type=ct, strict=strict, content=content)
        if mp and klass == "unparsable" and bname == "empty":
            klass = "empty"
        fail, known = judge(ver, status, klass, spec if klass != "tree" or spec.get("kind") == "payload" else {}, obs)
        if fail:
            f = dict(what=fail, case=case, observed=obs)
            if known:
                f["known"] = known
                res.known_hits[known] = res.known_hits.get(known, 0) + 1
            res.failures.append(f)
        if mo is not None and not (fail and not known):
            m = mo.get("ok", mo)
            o = canon_obs_for_model(obs)
            agree = m == o or (o["kind"] == "returnNone-or-decode" and m["kind"] in ("returnNone", "decode"))
            if m.get("kind") == "decode" and obs["kind"] != "return":
                # the decoder itself may reject a 200 tree that is not a valid payload: not triage
                agree = spec.get("kind") != "payload"
            if not agree:
                res.disagreements.append(dict(relation="Soap.triage vs process_reply", case=case, model=m, impl=o))
    res.sample(dict(version="1.2", status=500, body="fault12:r1:d2:det1kids:value", content=[c for c in bodies("1.2") if c[0] == "fault12:r1:d2:det1kids:value"][0][1]))
    res.sample(dict(version="1.1", status=200, body="fault11:code+string:defaultns:kids", content=[c for c in bodies("1.1") if c[0] == "fault11:code+string:defaultns:kids"][0][1]))
    res.exhaustive = True
    res.programs = len(cells)
    res.rule = ("grid: SOAP 1.1/1.2 x 12 statuses x body classes (payload, 1.1 faults with all 16 subsets of optional fields x 2 namespace "
                "styles, 1.2 faults with reason/detail on-off x subcode depth 0-3 x prefix declared on envelope / on Value / re-bound, other-version "
                "fault, fault beside a payload, empty, non-XML, html, truncated, wrong root, empty Body) x content-types, multipart for a subset; "
                "each cell on a lenient then a strict client sharing the process. distinct = distinct cell; non-trivial = not (200, plain payload)")
    return res


def search(ctx):
    ctx.tier = "thorough"
    return run(ctx)


def replay(ctx, payload):
    case = payload.get("case", payload)
    clients = {True: make_client(True), False: make_client(False)}
    port = "p11" if case["version"] == "1.1" else "p12"
    Script.status = case["status"]
    if case["content_type"].startswith("multipart"):
        Script.ctype, Script.content = multipart(case["content"], *(case["content_type"].split(":", 1)[1:]))
    else:
        Script.ctype, Script.content = case["content_type"], case["content"].encode()
    # lenient first, as in the run
    observe(clients[False], port)
    obs = observe(clients[case["strict"]], port)
    mb, klass = model_body(case["version"], case["content"].encode(), case["strict"])
    spec = next((s for n, c, s in bodies(case["version"]) if n == case["body"]), {})
    fail, known = judge(case["version"], case["status"], klass, spec if klass != "tree" or spec.get("kind") == "payload" else {}, obs)
    return (fail is None or known is not None), f"{fail} observed={obs}"


def replay_finding(ctx, finding):
    c = make_client(True)
    Script.status = 500
    Script.ctype = "text/xml"
    Script.content = envelope("1.1", "").encode()
    obs = observe(c, "p11")
    return obs["kind"] == "fault" and obs["message"] == "Unknown fault occured"
