"""C01 — values survive the trip through XML (engine A, render side; shares its explorer with C02)."""
import json
import random

from lxml import etree

from harness.core import Result
from harness import xsdgen, xmlcanon, enginea, valgen

LEAN_MODULES = ["ZeepProofs.C01", "ZeepProofs.C01Choice", "ZeepProofs.C01Repeat", "ZeepProofs.C01Values", "ZeepProofs.C01All", "ZeepProofs.C01Nested", "ZeepProofs.C01ChoiceRepeat", "ZeepProofs.C01General", "ZeepProofs.C01KwChoice"]
NS = "Zeep.Xsd."
THEOREMS = [NS + t for t in ("c01_elem_roundtrip", "c01_flat_sequence_roundtrip", "c01_record_roundtrip", "c01_nested_record_roundtrip",
                              "c01_absent_optional_reads_none", "c01_empty_repetition_reads_empty", "c01_k8_counterexample",
                              "c01_record_with_choices_roundtrip", "c01_record_with_choices_roundtrip_root", "seqRound_members",
                              "dec_record_of_members", "seqRound_full", "seqRound_skip", "seqLoop_rounds", "member_seq_repeated",
                              "c01_record_with_repeated_sequences_roundtrip", "c01_record_with_repeated_sequences_roundtrip_root",
                              "allMembers_pool", "dec_record_all", "c01_all_record_roundtrip", "c01_all_record_roundtrip_root",
                              "member_seq_once", "member_seq_absent", "member_group_once", "c01_record_with_nested_particles_roundtrip",
                              "choiceLoop_picks", "member_choice_repeated", "c01_record_with_repeated_choices_roundtrip",
                              "c01_record_with_repeated_choices_roundtrip_root", "dec_simpleContent", "c01_general_roundtrip", "c01_general_roundtrip_root")] + [
    "Zeep.Bind." + t for t in ("render_is_reference_serialisation", "c01_values_roundtrip", "serList_trim")] + [
    "Zeep.BindKw." + t for t in ("renderRecord_denotes", "c01_kw_choice_roundtrip")]
LEVEL = "proof"
MANIFEST = dict(
    engine="A: lean/ZeepModel/Xsd/Serialize.lean + Parse.lean (+ harness/valgen.py, harness/enginea.py)",
    technique="Lean 4 model: reference serialiser of instance trees (serItem) and zeep's greedy deque decoder (parseNode); round-trip theorems "
              "parse (serialise inst) = inst proved by induction for element repetitions, flat sequences and records nested to any depth whose members are elements, choices between elements (taken once, or repeating any number of times - _value_N lists of picks, the same branch also twice in a row, maxOccurs unbounded included), or repeated nested sequences (_value_N: any number of rounds within the bounds, maxOccurs unbounded included); "
              "from a keyword call to the XML and back for records with choices (ZeepProofs/C01KwChoice.lean: the keyword pass and choice rendering of the C12 model composed with the reference serialiser and the decoder - what a call binds and the renderer writes is the reference serialisation of an instance listing the caller's values member by member, and the decoder returns exactly that instance); value level (ZeepProofs/C01Values.lean): what the binder model renders for an accepted call is the reference serialisation of the instance the arguments denote (mutual induction over every record signature), hence decode (render args) = that instance; "
              "differential tie on conforming values generated independently of zeep (construct, render, decode, compare with what was supplied; "
              "model serialisation vs zeep's rendering; model decode vs zeep's decode of the rendered document)",
    text="The model's decoder is proved to invert the model's serialiser on element repetitions with any occurrence bounds, on flat sequences of "
         "distinctly named declarations and on records nested to arbitrary depth — sequences whose members are single / optional / repeated leaf "
         "or record-typed elements and non-repeating choices between such elements (a branch taken, or an optional choice left out), with "
         "attributes; and repeated nested sequences whose rounds start with a single required element and end with a non-empty member (ZeepProofs/C01Repeat.lean: seqRound_full - one complete round followed by anything that cannot be mistaken for its last member; seqRound_skip - on a deque starting with none of its names a round ends the repetition or consumes nothing, never raises; seqLoop_rounds - the loop returns exactly the rounds whatever maxOccurs); repeating choices (ZeepProofs/C01ChoiceRepeat.lean: choiceLoop_picks - in every round exactly the branch carrying the next node's name consumes, exactly one node; the loop returns exactly the picks and stops at maxOccurs, at the end of the input, or in front of a foreign name); the sequence argument (seqRound_members, dec_record_of_members) is generic in the kind of member, and ZeepProofs/C01General.lean puts the kinds together in one statement - c01_general_roundtrip: leaves, simple content with attributes, and records to any depth whose levels are sequences of any mix of the covered member kinds or xsd:all groups; non-repeating nested sequences and groups as members (ZeepProofs/C01Nested.lean: xs:group ref and inner xs:sequence, flattened by zeep, one round in the decoder; an optional one left out); records whose content model is xsd:all over distinctly named elements (ZeepProofs/C01All.lean: the per-tag queues of All.parse_xmlelements are worked through member by member and end empty); an absent optional decodes to no item, an empty repetition to the empty list. At the level of call arguments: render_is_reference_serialisation proves, for every record signature without nillable elements and every argument tree without xsd.Nil, that Bind.emitTy (the model of construct-then-render tied to zeep by C12) emits exactly serItem (toTy signature) (itemOf arguments); c01_values_roundtrip composes it with the round trip; toTy / itemOf (ZeepModel/Xsd/Denote.lean) are compared on every C12 run with the type zeep compiled and with the model's decode of what zeep rendered (driver op bind.denote). Every run ties the model to zeep: values "
         "are generated from the section-5 grammar with the wide leaf table (boundary values 0 / False / empty / extremes, list and restriction "
         "types, per-declaration forms, nillable, xsi:type substitution incl. mixed lists, xsd:any, recursive types through repeated choice and "
         "sequence), supplied as natives / dicts / value objects, rendered by zeep, decoded again and compared field by field with what was "
         "supplied; the rendered document is compared with the model's serialisation and zeep's decode of it with the model's decode.",
    note="Proof coverage is partial: choices whose branches are not single required elements, repeated sequences of other shapes (first member optional or repeated, last member empty), repeated groups, wildcards, simpleContent and xsi:type / "
         "xsi:nil are modelled and tied but their round-trip theorems are not proved. Known findings K7 (element leaf with an empty lexical form reads back None) and K8 (an element of a complex type that renders "
         "without children and attributes reads back None) are listed in known_findings.json.",
    design_ref="DESIGN.md sections 5 and 6, C01",
)
TRUSTED = ["harness/valgen.py: the value generator, the caller's conventions (documented zeep API: field names from the signature, _value_N "
           "for repeated particles) and the read-back comparison",
           "harness/enginea.py conventions mapping a model instance tree to zeep's value-object shape",
           "unfolding of named types to the document's depth (harness/xsdgen.py dump_type)"]
ASSUMPTIONS = ["xsi:nil and xsi:type are outside the Lean model (they are checked on the implementation against the reference serialisation only)",
               "leaf values come from the boundary table of harness/valgen.py; the codecs of all 44 builtins are C11's subject"]


# ---------------------------------------------------------------------------- families

def families(ctx, quick, thorough):
    """yield (family name, VCase) over the schema families of one run"""
    n = ctx.n(quick, thorough)
    for i in range(n):
        seed = ctx.seed * 100000 + i
        try:
            yield "values", enginea.VCase(seed)
        except etree.XMLSchemaParseError:
            yield "schema-rejected-by-libxml2", None
    yield "recursive-choice", enginea.VCase(ctx.seed, "recursive-choice", src=valgen.recursive_choice_schema())
    yield "recursive-sequence", enginea.VCase(ctx.seed, "recursive-sequence", src=valgen.recursive_sequence_schema())
    yield "xsitype-list", enginea.VCase(ctx.seed, "xsitype-list", src=valgen.xsitype_list_schema())
    yield "group-content", enginea.VCase(ctx.seed, "group-content", src=valgen.group_content_schema())
    forms = [None, "qualified", "unqualified"]
    grid = [(a, b, c, d) for a in forms for b in forms for c in forms for d in forms]
    if ctx.tier == "quick":
        r = random.Random(ctx.seed)
        grid = [g for g in grid if g[2] == "qualified" or g[3] == "qualified" or r.random() < 0.3]
    for g in grid:
        yield "forms", enginea.VCase(ctx.seed, "forms-%s-%s-%s-%s" % g, src=valgen.forms_schema(*g))


VALUES_PER = {"group-content": 12, "values": 3, "recursive-choice": 40, "recursive-sequence": 25, "xsitype-list": 30, "forms": 1}


def classify_readback(diff):
    """known-finding class of a read-back difference (None = not a known class)"""
    if diff is None:
        return None
    code = diff.get("code")
    if code == "empty-lexical":
        return "K7"
    if code == "empty-structure":
        return "K8"
    return None


def explore(ctx, res, prop, quick=250, thorough=4000):
    import logging
    logging.getLogger("zeep").setLevel(logging.CRITICAL)
    pending = []
    for fam, case in families(ctx, quick, thorough):
        if case is None:
            res.count(fam)
            continue
        res.programs += 1
        per = VALUES_PER[fam] * (1 if ctx.tier == "quick" or fam in ("values", "forms") else 4)
        if fam in ("values", "recursive-sequence", "recursive-choice", "group-content"):
            aliasing_probe(res, prop, fam, case)
        for j in range(per):
            one_value(ctx, res, prop, fam, case, j, pending)
    compare_model(ctx, res, pending, prop)
    return pending


def one_value(ctx, res, prop, fam, case, j, pending):
    st, feat, rng = case.value(j)
    ref = valgen.ref_doc(case.src, st)
    plain = valgen.strip_markers(ref)
    if not case.validator.validate(plain):
        res.count("generated-reference-invalid")          # generator defect, not zeep's: never a failure
        return
    text = etree.tostring(plain).decode()
    style = rng.choice(["mixed", "dict", "object"])
    r = enginea.roundtrip(case, st, style, rng)
    c = dict(family=fam, seed=case.seed, profile=case.profile, index=j, xsd=case.xsd, reference=text, kwargs=json.loads(json.dumps(r.get("kwargs"), default=str)), style=style)
    res.case(key=(fam, case.seed, case.profile, text), nontrivial=len(plain) > 0)
    res.count("family:" + fam)
    res.count("style:" + style)
    for f in sorted(feat):
        res.count("feature:" + f)
    if mixed_xsitype_list(st):
        res.count("feature:mixed-xsitype-list")
    res.count("doc-height=%d" % xsdgen.height(plain))
    ty = case.model_type(xsdgen.height(plain) + 1)

    fail01 = fail02 = None
    known01 = known02 = None
    if r["stage"] in ("construct", "render"):
        msg = "a conforming value is refused (%s: %s)" % (r["stage"], r["error"])
        fail01 = fail02 = msg
        if "empty-lexical" in feat or is_k8_case(st):
            known01 = known02 = "K8" if is_k8_case(st) else "K7"
    else:
        node = r["node"]
        c["emitted"] = etree.tostring(node).decode()
        wire = enginea.copy_node(node)
        d = valgen.docs_equal(ty, ref, wire)
        if d:
            fail02 = "emitted XML differs from the reference serialisation: " + d
            if "empty-lexical" in feat and dropped_empty_choice_branch(st):
                known02 = "K15"
        elif not case.validator.validate(wire):
            fail02 = "emitted XML is rejected by libxml2: %s" % case.validator.error_log.last_error
        if r["stage"] == "parse":
            fail01 = "the emitted XML cannot be decoded again (%s)" % r["error"]
        else:
            sup = valgen.supplied_struct(case.src, st)
            dd = valgen.readback_diff(sup, r["obj_out"])
            if dd:
                fail01 = "value read back differs from the value supplied: " + dd["msg"]
                known01 = classify_readback(dd)
            if not (feat & {"nil", "xsi:type"}):
                pending.append((case, ty, c, xmlcanon.node(plain, strip_ws=True), xmlcanon.node(wire, strip_ws=True), r, d is None))
    fail, known = (fail01, known01) if prop == "C01" else (fail02, known02)
    if fail:
        f = dict(what=fail, case=c)
        if known:
            f["known"] = known
            res.known_hits[known] = res.known_hits.get(known, 0) + 1
        res.failures.append(f)


def aliasing_probe(res, prop, fam, case):
    """value objects built without arguments must not share state: filling one in place (obj._value_1.append(...), the
    documented way to build repeated content) must leave every other object, and hence its XML, unchanged"""
    zs, root = case.schemas[True]
    for tname in case.src["types"]:
        try:
            T = zs.get_type("{%s}%s" % (xsdgen.TNS, tname))
            a, b = T(), T()
        except Exception:  # noqa
            continue
        before = json.dumps(valgen.canon(a), default=str, sort_keys=True)
        touched = 0
        for k in b:
            v = b[k]
            if isinstance(v, list):
                v.append("__filled_in_place__")
                touched += 1
            elif isinstance(v, dict):
                v["__filled_in_place__"] = 1
                touched += 1
        if not touched:
            continue
        res.count("aliasing-probe")
        after = json.dumps(valgen.canon(a), default=str, sort_keys=True)
        if before != after:
            res.failures.append(dict(what="a freshly built value object of type %s changed when another object of the same type was filled in place "
                                          "(shared default state): data the caller never supplied would be emitted" % tname,
                                     case=dict(family=fam, seed=case.seed, profile=case.profile, index=0, xsd=case.xsd, type=tname, probe="aliasing",
                                               before=before[:300], after=after[:300])))


def mixed_xsitype_list(st):
    found = []

    def walk(v):
        if v is None:
            return
        k = v["k"]
        if k == "elem":
            kinds = {it["struct"]["type"] for it in v["items"] if "struct" in it}
            if len(kinds) > 1:
                found.append(1)
            for it in v["items"]:
                if "struct" in it:
                    walk(it["struct"]["content"])
        elif k == "seq":
            for r in v["rounds"]:
                for c in r:
                    walk(c)
        elif k == "choice":
            for i, c in v["rounds"]:
                walk(c)
        elif k == "all":
            for c in v["members"]:
                walk(c)
        elif k == "group":
            for r in v["rounds"]:
                walk(r)
    walk(st["content"])
    return bool(found)


def is_k8_case(st):
    """does the value contain a complex-typed element that renders without children and attributes?"""
    found = []

    def empty_struct(s):
        if s["attrs"] or s["text"] is not None:
            return False
        return not valgen.ref_particle(dict(qualified=True, attr_qualified=False), s["content"]) if s["content"] is not None else True

    def walk(v):
        if v is None:
            return
        k = v["k"]
        if k == "elem":
            for it in v["items"]:
                if "struct" in it:
                    if empty_struct(it["struct"]):
                        found.append(1)
                    walk(it["struct"]["content"])
        elif k == "seq":
            for r in v["rounds"]:
                for c in r:
                    walk(c)
        elif k == "choice":
            for i, c in v["rounds"]:
                walk(c)
        elif k == "all":
            for c in v["members"]:
                walk(c)
        elif k == "group":
            for r in v["rounds"]:
                walk(r)
    walk(st["content"])
    return bool(found)


def dropped_empty_choice_branch(st):
    """a choice whose selected branch is an element leaf with an empty lexical form"""
    found = []

    def walk(v, in_choice):
        if v is None:
            return
        k = v["k"]
        if k == "elem":
            for it in v["items"]:
                if "leaf" in it and it["leaf"]["lex"] == "" and in_choice:
                    found.append(1)
                if "struct" in it:
                    walk(it["struct"]["content"], False)
        elif k == "seq":
            for r in v["rounds"]:
                for c in r:
                    walk(c, False)
        elif k == "choice":
            for i, c in v["rounds"]:
                walk(c, True)
        elif k == "all":
            for c in v["members"]:
                walk(c, False)
        elif k == "group":
            for r in v["rounds"]:
                walk(r, in_choice)
    walk(st["content"], False)
    return bool(found)


def compare_model(ctx, res, pending, prop):
    """model serialisation vs zeep's rendering; model decode of the emitted document vs zeep's decode"""
    if not (ctx.model and pending):
        return
    ops = []
    for case, ty, c, ref_node, wire_node, r, same in pending:
        ops.append({"op": "xsd.serialize", "mode": "strict", "ty": ty, "node": ref_node})
        ops.append({"op": "xsd.parse", "mode": "strict", "ty": ty, "node": wire_node})
    outs = ctx.model.run(ops)
    for i, (case, ty, c, ref_node, wire_node, r, same) in enumerate(pending):
        ms, mp = outs[2 * i].get("ok"), outs[2 * i + 1].get("ok")
        if ms is None or mp is None:
            res.disagreements.append(dict(relation="driver error", case=c, model=[outs[2 * i], outs[2 * i + 1]]))
            continue
        # 1. serialisation
        if "error" in ms:
            res.disagreements.append(dict(relation="Xsd.parseRoot on the reference serialisation of a conforming value", case=c, model=ms["error"]))
        else:
            zn = enginea._canon_under(wire_node, ty)
            mn = enginea._canon_under(ms["node"], ty)
            if mn != zn and same and mn != enginea._canon_under(ref_node, ty):
                res.disagreements.append(dict(relation="Xsd.serItem vs Element.render", case=c, model=json.dumps(ms["node"])[:600], impl=c.get("emitted", "")[:600]))
            elif mn != zn and same:
                res.count("lexical-variant-emitted")
            if ms.get("again") != ms["node"]:
                res.disagreements.append(dict(relation="Xsd.serItem / parseRoot idempotence on the model", case=c, model=json.dumps(ms.get("again"))[:400]))
        # 2. decode of the emitted document
        if r["stage"] != "done":
            continue
        if "error" in mp:
            res.disagreements.append(dict(relation="Xsd.parseRoot vs Element.parse on the emitted document (outcome)", case=c, model=mp["error"], impl="ok"))
            continue
        mv = enginea.item_value(ty, mp["item"])
        zv = enginea.canon_value(r["obj_out"])
        if mv != zv:
            res.disagreements.append(dict(relation="Xsd.parseRoot vs Element.parse on the emitted document (decoded value)", case=c,
                                          model=json.dumps(mv, default=str)[:600], impl=json.dumps(zv, default=str)[:600]))


def run(ctx, prop="C01"):
    res = Result()
    pending = explore(ctx, res, prop)
    from harness import multidoc
    multidoc.run_family(res, prop)
    if pending:
        res.sample(dict(xsd=pending[0][2]["xsd"][:600], reference=pending[0][2]["reference"][:400], kwargs=str(pending[0][2]["kwargs"])[:300]))
    res.rule = ("schemas from the section-5 generator, values profile (sequence / choice / all, nested complex types, occurrence bounds incl. "
                "unbounded, attributes, simpleContent, complexContent extension with xsi:type substitution, list and restriction simple types, "
                "per-declaration form, nillable, groups, xsd:any) x 3 conforming values each, plus recursive types through a repeated choice "
                "and a repeated sequence, mixed base/derived lists, and the grid of form defaults x per-declaration forms; values supplied as "
                "dicts, value objects or a mix; hand-written families outside the grammar (harness/multidoc.py): schemas split over xsd:include with every combination of form defaults in the including and the included document, derivation through complexContent/restriction with xsi:type. distinct = distinct (schema, reference document); non-trivial = the root has children")
    return res


def search(ctx):
    return run(ctx)


def rebuild_case(c):
    fam = c["family"]
    if fam == "values":
        return enginea.VCase(c["seed"])
    if fam == "recursive-choice":
        return enginea.VCase(c["seed"], c["profile"], src=valgen.recursive_choice_schema())
    return enginea.VCase(c["seed"], c["profile"], src=valgen.recursive_sequence_schema())


def rebuild(c):
    """case dict -> (VCase, value, reference document, style, PRNG): every choice derives from (profile, seed, index)"""
    fam = c["family"]
    if fam == "values":
        case = enginea.VCase(c["seed"])
    elif fam == "recursive-choice":
        case = enginea.VCase(c["seed"], c["profile"], src=valgen.recursive_choice_schema())
    elif fam == "recursive-sequence":
        case = enginea.VCase(c["seed"], c["profile"], src=valgen.recursive_sequence_schema())
    elif fam == "xsitype-list":
        case = enginea.VCase(c["seed"], c["profile"], src=valgen.xsitype_list_schema())
    else:
        g = [None if x == "None" else x for x in c["profile"].split("-")[1:]]
        case = enginea.VCase(c["seed"], c["profile"], src=valgen.forms_schema(*g))
    st, feat, rng = case.value(c["index"])
    style = rng.choice(["mixed", "dict", "object"])
    return case, st, valgen.ref_doc(case.src, st), style, rng


def replay(ctx, payload, prop="C01"):
    c = payload.get("case", payload)
    if c.get("kind") in ("multidoc", "multidoc-sequence"):
        from harness import multidoc
        return multidoc.replay(prop, c)
    if c.get("probe") == "aliasing":
        case = rebuild_case(c)
        res = Result()
        aliasing_probe(res, prop, c["family"], case)
        return not res.failures, "aliasing probe: %s" % (res.failures[0]["what"] if res.failures else "objects are independent")
    case, st, ref, style, rng = rebuild(c)
    if etree.tostring(valgen.strip_markers(ref)).decode() != c["reference"]:
        return False, "could not regenerate the recorded value"
    r = enginea.roundtrip(case, st, style, rng)
    if r["stage"] in ("construct", "render"):
        return False, "conforming value refused: " + r["error"]
    ty = case.model_type(xsdgen.height(ref) + 1)
    if prop == "C02":
        wire = enginea.copy_node(r["node"])
        d = valgen.docs_equal(ty, ref, wire)
        if d:
            return False, d
        ok = case.validator.validate(wire)
        return bool(ok), "emitted document %s" % ("is valid and equals the reference" if ok else "rejected by libxml2")
    if r["stage"] == "parse":
        return False, r["error"]
    dd = valgen.readback_diff(valgen.supplied_struct(case.src, st), r["obj_out"])
    return dd is None, "read back %s" % ("equals the supplied value" if dd is None else dd["msg"])


WITNESS = {
    "K7": ('<xs:schema xmlns:xs="http://www.w3.org/2001/XMLSchema" xmlns:t="urn:fam" targetNamespace="urn:fam" elementFormDefault="qualified"><xs:element name="root" type="t:T1"/>'
           '<xs:complexType name="T1"><xs:sequence><xs:element name="s" type="xs:string"/></xs:sequence></xs:complexType></xs:schema>', dict(s="")),
    "K8": ('<xs:schema xmlns:xs="http://www.w3.org/2001/XMLSchema" xmlns:t="urn:fam" targetNamespace="urn:fam" elementFormDefault="qualified"><xs:element name="root" type="t:T1"/>'
           '<xs:complexType name="T1"><xs:sequence><xs:element name="e" type="t:T2"/></xs:sequence></xs:complexType>'
           '<xs:complexType name="T2"><xs:sequence><xs:element name="o" type="xs:string" minOccurs="0"/></xs:sequence></xs:complexType></xs:schema>', dict(e={})),
}


def replay_finding(ctx, finding):
    import zeep.xsd
    xsd, kw = WITNESS[finding["id"]]
    zs = zeep.xsd.Schema(etree.fromstring(xsd.encode()))
    root = zs.get_element("{urn:fam}root")
    try:
        parent = etree.Element("p")
        root.render(parent, root(**kw))
        back = root.parse(enginea.copy_node(parent[0]), zs)      # over the wire: serialised and parsed again
        k = list(kw)[0]
        return back[k] is None
    except Exception:  # noqa
        return True
